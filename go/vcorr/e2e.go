package main

// e2e: the collector pipeline composed in-process from the repository's library packages
// (property C01).  One operation line is one scenario (see lean/Driver/E2E.lean for the token
// syntax):
//
//	new <once|stream:k> <direct|agent> <queries> T=<name>:<request>:<kind>... <i>U<noti> <i>S <i>E <i>N <i>V<fq config> <i>R <i>Z
//
// <i>R / <i>Z: the session of target i ends here (R: cut with an error status; Z: the target ends the
// stream cleanly, the collector's Recv returns io.EOF) and the manager subscribes again; the items
// of i that follow are its next session.
//
// What is real here: manager.handleUpdates (run mode `direct`: the receive loop of every session —
// Connect, handleGNMIUpdate per response, Reset when Recv fails — on a scripted stream, through the
// add-only seam go/pkg_manager/verif_session.go; monitor's ConnectError is re-stated) or the whole
// manager.Manager + connection.Manager dialling real testing/fake/gnmi agents or a scripted gNMI
// server (sessions, clean / abrupt ends) over loopback TCP (run mode `agent`); cache.Cache; subscribe.Server
// registered on a real gRPC server on a loopback listener; client.CacheClient with the gNMI
// transport (defaultRecv, noti, ToScalar); Leaves().
//
// What is NOT real here: the Update closure of cmd/gnmi_collector (a closure inside
// runCollector, package main).  e2eStampLocal below re-states it so that the rest of the pipeline
// can be driven; the tie for the closure itself, for collector.add/start and for gnmi_cli is the
// process-level driver go/ve2e, which runs the built binaries.
//
// `export <scenario>` renders a scenario for that driver (wire-format messages, base64).

import (
	"context"
	"encoding/base64"
	"encoding/hex"
	"encoding/json"
	"errors"
	"fmt"
	"io"
	"math"
	"math/rand"
	"net"
	"sort"
	"strconv"
	"strings"
	"sync"
	"time"

	"github.com/openconfig/gnmi/cache"
	"github.com/openconfig/gnmi/client"
	gclient "github.com/openconfig/gnmi/client/gnmi"
	"github.com/openconfig/gnmi/connection"
	"github.com/openconfig/gnmi/ctree"
	"github.com/openconfig/gnmi/manager"
	"github.com/openconfig/gnmi/subscribe"
	fgnmi "github.com/openconfig/gnmi/testing/fake/gnmi"
	"google.golang.org/grpc"
	"google.golang.org/grpc/codes"
	"google.golang.org/grpc/credentials/insecure"
	"google.golang.org/grpc/metadata"
	"google.golang.org/grpc/status"
	"google.golang.org/protobuf/proto"

	pb "github.com/openconfig/gnmi/proto/gnmi"
	tpb "github.com/openconfig/gnmi/proto/target"
	fpb "github.com/openconfig/gnmi/testing/fake/proto"
)

type e2eComp struct{}

func init() { components["e2e"] = &e2eComp{} }

const e2eMarker = "zz-end"

var e2eDeadline = scaled(6 * time.Second)

// ---------------------------------------------------------------- scenario

type e2eDecl struct{ name, req, kind string }

type e2eItem struct {
	t    int
	kind byte // U S E N V | R Z (session end: abrupt / clean)
	noti gNoti
	vals string
}

type e2eScenario struct {
	client  string // once | stream
	k       int
	run     string
	queries [][]string
	decls   []e2eDecl
	items   []e2eItem
}

func e2eParse(args []string) (*e2eScenario, error) {
	if len(args) < 4 {
		return nil, errors.New("short scenario")
	}
	sc := &e2eScenario{client: "once", run: args[2]}
	if strings.HasPrefix(args[1], "stream:") {
		sc.client = "stream"
		sc.k, _ = strconv.Atoi(args[1][7:])
	}
	for _, q := range strings.Split(args[3], ";") {
		sc.queries = append(sc.queries, decPath(q))
	}
	for _, tok := range args[4:] {
		if strings.HasPrefix(tok, "T=") {
			f := strings.Split(tok[2:], ":")
			if len(f) != 3 {
				return nil, errors.New("bad target declaration")
			}
			sc.decls = append(sc.decls, e2eDecl{name: decStr(f[0]), req: decStr(f[1]), kind: f[2]})
			continue
		}
		if len(tok) < 2 {
			continue
		}
		it := e2eItem{t: int(tok[0] - '0'), kind: tok[1]}
		if it.t < 0 || it.t >= len(sc.decls) {
			return nil, errors.New("item of an undeclared target")
		}
		switch it.kind {
		case 'U':
			it.noti = parseNotiToken(tok[2:])
		case 'V':
			it.vals = tok[2:]
		case 'S', 'E', 'N', 'R', 'Z':
		default:
			continue
		}
		sc.items = append(sc.items, it)
	}
	return sc, nil
}

// e2eValues parses the payload of a V item: sync flag, seed, fake.Config values.
func e2eValues(payload string) (syncOn bool, seed int64, vals []*fqV) {
	f := strings.Split(payload, "!")
	if len(f) < 2 {
		return false, 0, nil
	}
	syncOn = f[0] == "1"
	seed, _ = strconv.ParseInt(strings.SplitN(f[1], ":", 2)[0], 10, 64)
	for _, t := range f[2:] {
		vals = append(vals, fqParseValue(t))
	}
	return
}

func e2eResponse(it e2eItem, pool *pbPool) *pb.SubscribeResponse {
	switch it.kind {
	case 'U':
		return &pb.SubscribeResponse{Response: &pb.SubscribeResponse_Update{Update: it.noti.proto(pool)}}
	case 'S':
		return &pb.SubscribeResponse{Response: &pb.SubscribeResponse_SyncResponse{SyncResponse: true}}
	case 'E':
		return &pb.SubscribeResponse{Response: &pb.SubscribeResponse_Error{Error: &pb.Error{Code: 3, Message: "scripted"}}}
	}
	return &pb.SubscribeResponse{} // N: no payload
}

// e2eMarkerTS returns the timestamp of target t's end-of-stream marker (the last update whose
// last path element is zz-end), if it has one.
func (sc *e2eScenario) markerTS(t int) (int64, bool) {
	for i := len(sc.items) - 1; i >= 0; i-- {
		it := sc.items[i]
		if it.t != t {
			continue
		}
		switch it.kind {
		case 'U':
			for _, u := range it.noti.upd {
				idx := append(it.noti.prefix.elems(), u.path.elems()...)
				if len(idx) > 0 && idx[len(idx)-1] == e2eMarker {
					return it.noti.ts, true
				}
			}
		case 'V':
			_, _, vals := e2eValues(it.vals)
			for _, v := range vals {
				if len(v.path) > 0 && v.path[len(v.path)-1] == e2eMarker {
					return v.ts, true
				}
			}
		}
	}
	return 0, false
}

func (sc *e2eScenario) itemsOf(t int) []e2eItem {
	var out []e2eItem
	for _, it := range sc.items {
		if it.t == t {
			out = append(out, it)
		}
	}
	return out
}

// sessionsOf splits target t's items at its session ends: the responses of every session and how
// it ends ('R', 'Z'; 0 = the last session, which stays up).
func (sc *e2eScenario) sessionsOf(t int) (sess [][]e2eItem, ends []byte) {
	var cur []e2eItem
	for _, it := range sc.itemsOf(t) {
		if it.kind == 'R' || it.kind == 'Z' {
			sess, ends = append(sess, cur), append(ends, it.kind)
			cur = nil
			continue
		}
		cur = append(cur, it)
	}
	return append(sess, cur), append(ends, 0)
}

func (sc *e2eScenario) restarts(t int) bool {
	for _, it := range sc.items {
		if it.t == t && (it.kind == 'R' || it.kind == 'Z') {
			return true
		}
	}
	return false
}

// fakeConfig builds the fake.Config of a `fake` (fixed responses) or `values` (generator) target.
func (sc *e2eScenario) fakeConfig(t int) *fpb.Config {
	d := sc.decls[t]
	cfg := &fpb.Config{Target: d.name, DisableSync: true, DisableEof: true}
	items := sc.itemsOf(t)
	if d.kind == "values" {
		for _, it := range items {
			if it.kind == 'V' {
				syncOn, seed, vals := e2eValues(it.vals)
				cfg.Seed = seed
				cfg.Values = fqProtos(vals)
				cfg.DisableSync = !syncOn
			}
		}
		return cfg
	}
	pool := newPool()
	fx := &fpb.FixedGenerator{}
	for _, it := range items {
		fx.Responses = append(fx.Responses, e2eResponse(it, pool))
	}
	cfg.Generator = &fpb.Config_Fixed{Fixed: fx}
	return cfg
}

// ---------------------------------------------------------------- the wiring

// e2eStampLocal re-states the Update closure of cmd/gnmi_collector (see the file comment: the
// tie for the closure is the process-level run, not this copy).
func e2eStampLocal(target string, v *pb.Notification) {
	if prefix := v.GetPrefix(); prefix == nil {
		v.Prefix = &pb.Path{Origin: "openconfig", Target: target}
	} else {
		if prefix.Origin == "" {
			prefix.Origin = "openconfig"
		}
		prefix.Target = target
	}
}

type e2eNoConn struct{}

func (e2eNoConn) Connection(ctx context.Context, addr, dialer string) (*grpc.ClientConn, func(), error) {
	return nil, nil, errors.New("no connection in direct mode")
}

type e2eNoCreds struct{}

func (e2eNoCreds) Lookup(context.Context, string) (string, error) {
	return "", errors.New("no credentials")
}

type e2eWiring struct {
	c    *cache.Cache
	m    *manager.Manager
	srv  *subscribe.Server
	gs   *grpc.Server
	addr string
}

func e2eNewWiring(sc *e2eScenario, cm manager.ConnectionManager) (*e2eWiring, error) {
	w := &e2eWiring{c: cache.New(nil)}
	for _, d := range sc.decls {
		w.c.Add(d.name) // collector.add: c.cache.Add(id)
	}
	var err error
	w.m, err = manager.NewManager(manager.Config{
		Credentials:       e2eNoCreds{},
		Reset:             w.c.Reset,
		Sync:              w.c.Sync,
		Connect:           w.c.Connect,
		ConnectError:      w.c.ConnectError,
		ConnectionManager: cm,
		Timeout:           5 * time.Second,
		Update: func(target string, v *pb.Notification) {
			e2eStampLocal(target, v)
			w.c.GnmiUpdate(v)
		},
	})
	if err != nil {
		return nil, err
	}
	w.srv, err = subscribe.NewServer(w.c)
	if err != nil {
		return nil, err
	}
	w.c.SetClient(w.srv.Update)
	lis, err := net.Listen("tcp", "127.0.0.1:0")
	if err != nil {
		return nil, err
	}
	w.addr = lis.Addr().String()
	w.gs = grpc.NewServer()
	pb.RegisterGNMIServer(w.gs, w.srv)
	go w.gs.Serve(lis)
	return w, nil
}

func (w *e2eWiring) close() { w.gs.Stop() }

// cacheHasMarker: does target `name` hold its end marker with timestamp ts?
func (w *e2eWiring) cacheHasMarker(name string, ts int64) bool {
	found := false
	w.c.Query(name, []string{"*"}, func(p []string, _ *ctree.Leaf, v interface{}) error {
		if n, ok := v.(*pb.Notification); ok && len(p) > 0 && p[len(p)-1] == e2eMarker && n.GetTimestamp() == ts {
			found = true
		}
		return nil
	})
	return found
}

// ---------------------------------------------------------------- clients

type e2eClient struct {
	name   string
	cc     *client.CacheClient
	cancel context.CancelFunc
	done   chan error
	mu     sync.Mutex
	synced bool
	marker chan struct{}
	mts    int64
	hasM   bool
	syncCh chan struct{}
	q      client.Query
}

func e2eStartClient(addr, name string, queries [][]string, typ client.Type, mts int64, hasM bool) *e2eClient {
	ctx, cancel := context.WithCancel(context.Background())
	cl := &e2eClient{name: name, cc: client.New(), cancel: cancel, done: make(chan error, 1),
		marker: make(chan struct{}), syncCh: make(chan struct{}), mts: mts, hasM: hasM}
	q := client.Query{Addrs: []string{addr}, Target: name, Type: typ, Timeout: 5 * time.Second}
	for _, p := range queries {
		q.Queries = append(q.Queries, client.Path(append([]string{}, p...)))
	}
	markerSeen := false
	q.NotificationHandler = func(n client.Notification) error {
		switch v := n.(type) {
		case client.Sync:
			cl.mu.Lock()
			if !cl.synced {
				cl.synced = true
				close(cl.syncCh)
			}
			cl.mu.Unlock()
		case client.Update:
			if hasM && !markerSeen && len(v.Path) > 0 && v.Path[len(v.Path)-1] == e2eMarker && v.TS.UnixNano() == mts {
				markerSeen = true
				close(cl.marker)
			}
		}
		return nil
	}
	cl.q = q
	go func() { cl.done <- cl.cc.Subscribe(ctx, q, gclient.Type) }()
	return cl
}

func e2eRenderScalar(v interface{}) string {
	switch x := v.(type) {
	case string:
		return "s=" + encStr(x)
	case int64:
		return "i=" + strconv.FormatInt(x, 10)
	case uint64:
		return "u=" + strconv.FormatUint(x, 10)
	case bool:
		return "b=" + strconv.FormatBool(x)
	case []byte:
		return "y=" + hex.EncodeToString(x)
	case float32:
		return "f=" + strconv.FormatUint(uint64(math.Float32bits(x)), 10)
	case float64:
		return "d=" + strconv.FormatUint(math.Float64bits(x), 10)
	case []interface{}:
		var xs []string
		for _, e := range x {
			xs = append(xs, e2eRenderScalar(e))
		}
		return "l=(" + strings.Join(xs, "+") + ")"
	}
	return fmt.Sprintf("?%T", v)
}

// e2eShown mirrors Driver/E2E.lean `shown`.
func e2eShown(p []string) bool {
	if len(p) > 0 && p[len(p)-1] == e2eMarker {
		return false
	}
	if len(p) >= 2 && p[1] == "meta" {
		return len(p) == 3 && (p[2] == "sync" || p[2] == "connected")
	}
	return true
}

func e2eRenderLeaves(ls client.Leaves) string {
	seen := map[string]bool{}
	var out []string
	for _, l := range ls {
		if !e2eShown(l.Path) {
			continue
		}
		s := encPath(l.Path) + "=" + e2eRenderScalar(l.Val)
		if !seen[s] {
			seen[s] = true
			out = append(out, s)
		}
	}
	return sortedBracket(out)
}

// finish waits for the client's end condition and renders its view.
func (cl *e2eClient) finish(once bool) string {
	status := ""
	if once {
		select {
		case err := <-cl.done:
			if err != nil {
				status = "err"
			}
		case <-time.After(e2eDeadline):
			status = "timeout"
		}
	} else {
		if cl.hasM {
			select {
			case <-cl.marker:
				// a client that subscribed late may be handed the end marker inside its initial walk, whose
				// order is the tree's: the walk is complete at the sync marker only
				select {
				case <-cl.syncCh:
				case <-cl.done:
					status = "err"
				case <-time.After(e2eDeadline):
					status = "timeout"
				}
			case err := <-cl.done:
				_ = err
				status = "err"
			case <-time.After(e2eDeadline):
				status = "timeout"
			}
		} else {
			select {
			case <-cl.syncCh:
				time.Sleep(150 * time.Millisecond) // no marker in the scenario: nothing to wait for
			case <-cl.done:
				status = "err"
			case <-time.After(e2eDeadline):
				status = "timeout"
			}
		}
	}
	leaves := cl.cc.Leaves()
	cl.mu.Lock()
	synced := cl.synced
	cl.mu.Unlock()
	requery := ""
	if once && status == "" && synced {
		// the same client object asks again (an application that clears its view and re-queries; what
		// client.Reconnect does after every ended stream): at quiescence the second ONCE query shows what the
		// first did.  Independent of the model: only ever adds a suffix when the two views differ.  Found
		// necessary by seeded change c01_seed11 (the closed flag of the previous Subscribe leaking into the next).
		cl.cc.Tree = &ctree.Tree{}
		ctx2, cancel2 := context.WithTimeout(context.Background(), e2eDeadline)
		err := cl.cc.Subscribe(ctx2, cl.q, gclient.Type)
		cancel2()
		if again := e2eRenderLeaves(cl.cc.Leaves()); err != nil || again != e2eRenderLeaves(leaves) {
			requery = "!second-query-on-the-same-client=" + again
			if err != nil {
				requery += "(err)"
			}
		}
	}
	cl.cancel()
	cl.cc.Close()
	if requery != "" {
		return encStr(cl.name) + "=sync" + e2eRenderLeaves(leaves) + requery
	}
	if status == "" {
		status = "nosync"
		if synced {
			status = "sync"
		}
	}
	if status == "err" || status == "timeout" {
		return encStr(cl.name) + "=" + status + "[]" // how far a failing client got depends on map iteration order
	}
	return encStr(cl.name) + "=" + status + e2eRenderLeaves(leaves)
}

func (cl *e2eClient) waitSync() {
	select {
	case <-cl.syncCh:
	case <-cl.done:
		cl.done <- errors.New("ended")
	case <-time.After(e2eDeadline):
	}
}

func (sc *e2eScenario) sortedNames() []string {
	seen := map[string]bool{}
	var names []string
	for _, d := range sc.decls {
		if !seen[d.name] {
			seen[d.name] = true
			names = append(names, d.name)
		}
	}
	sort.Strings(names)
	return names
}

func (sc *e2eScenario) declIndex(name string) int {
	for i, d := range sc.decls {
		if d.name == name {
			return i
		}
	}
	return -1
}

// observe runs one client per target (sorted by name) and joins their views.
func (sc *e2eScenario) startClients(addr string, typ client.Type) []*e2eClient {
	var cls []*e2eClient
	for _, name := range sc.sortedNames() {
		ts, ok := sc.markerTS(sc.declIndex(name))
		cls = append(cls, e2eStartClient(addr, name, sc.queries, typ, ts, ok))
	}
	return cls
}

func e2eFinishAll(cls []*e2eClient, once bool) string {
	var out []string
	for _, cl := range cls {
		out = append(out, cl.finish(once))
	}
	return strings.Join(out, " ")
}

// ---------------------------------------------------------------- run mode `direct`

// e2eScriptStream is the gpb.GNMI_SubscribeClient handleUpdates reads one session from: every Recv
// first reports that the receive loop is idle (the previous response is completely handled), then
// waits for what the scenario delivers next.
type e2eRecv struct {
	resp *pb.SubscribeResponse
	err  error
}

type e2eScriptStream struct {
	ctx  context.Context
	in   chan e2eRecv
	idle chan struct{}
}

func (s *e2eScriptStream) Recv() (*pb.SubscribeResponse, error) {
	s.idle <- struct{}{}
	r := <-s.in
	return r.resp, r.err
}
func (s *e2eScriptStream) Send(*pb.SubscribeRequest) error { return nil }
func (s *e2eScriptStream) Header() (metadata.MD, error)    { return nil, nil }
func (s *e2eScriptStream) Trailer() metadata.MD            { return nil }
func (s *e2eScriptStream) CloseSend() error                { return nil }
func (s *e2eScriptStream) Context() context.Context        { return s.ctx }
func (s *e2eScriptStream) SendMsg(interface{}) error       { return nil }
func (s *e2eScriptStream) RecvMsg(interface{}) error       { return errors.New("unused") }

// e2eSession is one run of the real receive loop (manager.handleUpdates) for one target.
type e2eSession struct {
	st       *e2eScriptStream
	done     chan error
	panicked chan interface{}
}

func (w *e2eWiring) startSession(name string) *e2eSession {
	s := &e2eSession{st: &e2eScriptStream{ctx: context.Background(), in: make(chan e2eRecv, 1), idle: make(chan struct{})},
		done: make(chan error, 1), panicked: make(chan interface{}, 1)}
	go func() {
		defer func() {
			if r := recover(); r != nil {
				s.panicked <- r
			}
		}()
		s.done <- w.m.VerifHandleUpdates(s.st.ctx, name, s.st)
	}()
	s.waitIdle()
	return s
}

// waitIdle: the receive loop is back in Recv (a Go panic inside it is re-raised here, where the
// caller of Run turns it into the observation `panic`).
func (s *e2eSession) waitIdle() {
	select {
	case <-s.st.idle:
	case r := <-s.panicked:
		panic(r)
	}
}

func (s *e2eSession) push(resp *pb.SubscribeResponse) {
	s.st.in <- e2eRecv{resp: resp}
	s.waitIdle()
}

// end makes Recv fail with err and returns what handleUpdates returned.
func (s *e2eSession) end(err error) error {
	s.st.in <- e2eRecv{err: err}
	select {
	case e := <-s.done:
		return e
	case r := <-s.panicked:
		panic(r)
	}
}

func e2eRunDirect(sc *e2eScenario) string {
	w, err := e2eNewWiring(sc, e2eNoConn{})
	if err != nil {
		return "setup-failed"
	}
	defer w.close()
	var pool *pbPool // every response is its own message, as when it comes off a gRPC stream
	sessions := map[int]*e2eSession{}
	defer func() { // after the observation: let the receive loops return
		for _, s := range sessions {
			select {
			case s.st.in <- e2eRecv{err: errors.New("scenario over")}:
			default:
			}
		}
	}()
	apply := func(it e2eItem) {
		name := sc.decls[it.t].name
		if sessions[it.t] == nil { // retryMonitor -> monitor -> subscribe -> handleUpdates
			sessions[it.t] = w.startSession(name)
		}
		switch it.kind {
		case 'R', 'Z':
			cause := errors.New("rpc error: code = Unavailable desc = cut")
			if it.kind == 'Z' {
				cause = io.EOF // the target's handler returned nil
			}
			err := sessions[it.t].end(cause) // handleUpdates: m.reset(name) when Recv fails
			delete(sessions, it.t)
			if err != nil { // subscribe wraps the error; monitor's deferred m.connectError(name, err)
				w.c.ConnectError(name, fmt.Errorf("stream failed for target %q: %v", name, err))
			}
		default:
			sessions[it.t].push(e2eResponse(it, pool))
		}
	}
	var cls []*e2eClient
	for i, it := range sc.items {
		if sc.client == "stream" && i == sc.k {
			cls = sc.startClients(w.addr, client.Stream)
			for _, cl := range cls {
				cl.waitSync() // registered and walked: later items reach it through the feed
			}
		}
		if it.kind == 'V' {
			continue // generator targets exist in run mode `agent` only
		}
		apply(it)
	}
	if sc.client == "stream" {
		if cls == nil {
			cls = sc.startClients(w.addr, client.Stream)
			for _, cl := range cls {
				cl.waitSync()
			}
			// subscribed after the last item: the marker came with the walk or never
			for _, cl := range cls {
				cl.hasM = false
			}
			var out []string
			for _, cl := range cls {
				leaves := cl.cc.Leaves()
				cl.cancel()
				cl.cc.Close()
				st := "nosync"
				cl.mu.Lock()
				if cl.synced {
					st = "sync"
				}
				cl.mu.Unlock()
				out = append(out, encStr(cl.name)+"="+st+e2eRenderLeaves(leaves))
			}
			return strings.Join(out, " ")
		}
		return e2eFinishAll(cls, false)
	}
	return e2eFinishAll(sc.startClients(w.addr, client.Once), true)
}

// ---------------------------------------------------------------- run mode `agent`

// e2eRawServer is a scripted gNMI target: Subscribe RPC number j streams the responses of session j
// verbatim and then ends as the scenario says — the handler returns nil (`Z`: the collector's Recv
// returns io.EOF), returns an error status (`R`), or holds the stream open (last session).
type e2eRawServer struct {
	pb.UnimplementedGNMIServer
	mu       sync.Mutex
	next     int
	sessions [][]*pb.SubscribeResponse
	ends     []byte
}

func (s *e2eRawServer) Subscribe(stream pb.GNMI_SubscribeServer) error {
	if _, err := stream.Recv(); err != nil {
		return err
	}
	s.mu.Lock()
	j := s.next
	s.next++
	s.mu.Unlock()
	if j < len(s.sessions) {
		for _, r := range s.sessions[j] {
			if err := stream.Send(proto.Clone(r).(*pb.SubscribeResponse)); err != nil {
				return err
			}
		}
		switch s.ends[j] {
		case 'Z':
			return nil
		case 'R':
			return status.Error(codes.Unavailable, "cut")
		}
	}
	<-stream.Context().Done()
	return nil
}

type e2eAgent struct {
	addr  string
	close func()
}

func (sc *e2eScenario) startAgent(t int) (*e2eAgent, error) {
	d := sc.decls[t]
	if d.kind == "raw" {
		lis, err := net.Listen("tcp", "127.0.0.1:0")
		if err != nil {
			return nil, err
		}
		pool := newPool()
		rs := &e2eRawServer{}
		sess, ends := sc.sessionsOf(t)
		for _, items := range sess {
			var resps []*pb.SubscribeResponse
			for _, it := range items {
				resps = append(resps, e2eResponse(it, pool))
			}
			rs.sessions = append(rs.sessions, resps)
		}
		rs.ends = ends
		gs := grpc.NewServer()
		pb.RegisterGNMIServer(gs, rs)
		go gs.Serve(lis)
		return &e2eAgent{addr: lis.Addr().String(), close: gs.Stop}, nil
	}
	a, err := fgnmi.New(sc.fakeConfig(t), nil)
	if err != nil {
		return nil, err
	}
	return &e2eAgent{addr: a.Address(), close: a.Close}, nil
}

func e2eRequest() *pb.SubscribeRequest {
	return &pb.SubscribeRequest{Request: &pb.SubscribeRequest_Subscribe{Subscribe: &pb.SubscriptionList{
		Mode: pb.SubscriptionList_STREAM, Prefix: &pb.Path{}, Subscription: []*pb.Subscription{{Path: &pb.Path{}}}}}}
}

func e2eRunAgent(sc *e2eScenario) string {
	for t, d := range sc.decls {
		if d.kind != "raw" && sc.restarts(t) {
			return "bad-op" // only the scripted server can end a session and stream another one
		}
	}
	oldBase, oldMax := manager.RetryBaseDelay, manager.RetryMaxDelay
	manager.RetryBaseDelay, manager.RetryMaxDelay = 2*time.Millisecond, 5*time.Millisecond // resubscribe at once
	defer func() { manager.RetryBaseDelay, manager.RetryMaxDelay = oldBase, oldMax }()
	cm, err := connection.NewManager(grpc.WithTransportCredentials(insecure.NewCredentials()), grpc.WithBlock())
	if err != nil {
		return "setup-failed"
	}
	w, err := e2eNewWiring(sc, cm)
	if err != nil {
		return "setup-failed"
	}
	defer w.close()
	var agents []*e2eAgent
	defer func() {
		for _, a := range agents {
			a.close()
		}
	}()
	for t := range sc.decls {
		a, err := sc.startAgent(t)
		if err != nil {
			return "setup-failed"
		}
		agents = append(agents, a)
	}
	var cls []*e2eClient
	early := sc.client == "stream" && sc.k == 0
	if early {
		cls = sc.startClients(w.addr, client.Stream)
		for _, cl := range cls {
			cl.waitSync()
		}
	}
	reqs := map[string]*pb.SubscribeRequest{}
	for t, d := range sc.decls {
		if reqs[d.req] == nil {
			reqs[d.req] = e2eRequest()
		}
		if err := w.m.Add(d.name, &tpb.Target{Addresses: []string{agents[t].addr}, Request: d.req}, reqs[d.req]); err != nil {
			return "setup-failed"
		}
	}
	defer func() {
		for _, d := range sc.decls {
			w.m.Remove(d.name)
		}
	}()
	if early {
		return e2eFinishAll(cls, false)
	}
	// quiescence: every target's marker is in the cache
	deadline := time.Now().Add(e2eDeadline)
	for t, d := range sc.decls {
		ts, ok := sc.markerTS(t)
		if !ok {
			time.Sleep(150 * time.Millisecond)
			continue
		}
		for !w.cacheHasMarker(d.name, ts) && time.Now().Before(deadline) {
			time.Sleep(time.Millisecond)
		}
	}
	if sc.client == "stream" {
		cls = sc.startClients(w.addr, client.Stream)
		var out []string
		for _, cl := range cls {
			cl.waitSync()
			leaves := cl.cc.Leaves()
			st := "nosync"
			cl.mu.Lock()
			if cl.synced {
				st = "sync"
			}
			cl.mu.Unlock()
			cl.cancel()
			cl.cc.Close()
			out = append(out, encStr(cl.name)+"="+st+e2eRenderLeaves(leaves))
		}
		return strings.Join(out, " ")
	}
	return e2eFinishAll(sc.startClients(w.addr, client.Once), true)
}

// ---------------------------------------------------------------- export for go/ve2e

type e2eExportTarget struct {
	Name      string   `json:"name"`
	Request   string   `json:"request"`
	Kind      string   `json:"kind"`
	Responses []string `json:"responses,omitempty"` // raw: wire-format SubscribeResponse, base64
	Config    string   `json:"config,omitempty"`    // fake / values: wire-format fake.Config, base64
	MarkerTS  int64    `json:"marker_ts"`
	HasMarker bool     `json:"has_marker"`
}

type e2eExport struct {
	Client  string            `json:"client"`
	K       int               `json:"k"`
	Queries [][]string        `json:"queries"`
	Targets []e2eExportTarget `json:"targets"`
}

func e2eExportScenario(sc *e2eScenario) string {
	ex := e2eExport{Client: sc.client, K: sc.k, Queries: sc.queries}
	for i, q := range ex.Queries {
		if q == nil {
			ex.Queries[i] = []string{}
		}
	}
	for t, d := range sc.decls {
		if sc.restarts(t) {
			return "export-failed" // the process-level driver's targets serve one session
		}
		et := e2eExportTarget{Name: d.name, Request: d.req, Kind: d.kind}
		et.MarkerTS, et.HasMarker = sc.markerTS(t)
		if d.kind == "raw" {
			pool := newPool()
			for _, it := range sc.itemsOf(t) {
				b, err := proto.Marshal(e2eResponse(it, pool))
				if err != nil {
					return "export-failed"
				}
				et.Responses = append(et.Responses, base64.StdEncoding.EncodeToString(b))
			}
		} else {
			b, err := proto.Marshal(sc.fakeConfig(t))
			if err != nil {
				return "export-failed"
			}
			et.Config = base64.StdEncoding.EncodeToString(b)
		}
		ex.Targets = append(ex.Targets, et)
	}
	b, err := json.Marshal(ex)
	if err != nil {
		return "export-failed"
	}
	return string(b)
}

// ---------------------------------------------------------------- Run

func (c *e2eComp) Run(args []string) string {
	if len(args) == 0 {
		return "bad-op"
	}
	switch args[0] {
	case "new":
		sc, err := e2eParse(args)
		if err != nil {
			return "bad-op"
		}
		if sc.run == "agent" {
			return e2eRunAgent(sc)
		}
		return e2eRunDirect(sc)
	case "export":
		sc, err := e2eParse(args)
		if err != nil {
			return "bad-op"
		}
		return e2eExportScenario(sc)
	}
	return "bad-op"
}

// ---------------------------------------------------------------- generator

type e2eLeaf struct {
	origin string  // effective origin (never empty)
	elems  []gElem // structured form
}

func (l e2eLeaf) index() []string { return gPath{elem: l.elems}.elems() }

func e2eEl(name string, kv ...string) gElem {
	e := gElem{name: name}
	for i := 0; i+1 < len(kv); i += 2 {
		e.keys = append(e.keys, [2]string{kv[i], kv[i+1]})
	}
	return e
}

// a prefix-free master set of leaves (below an origin)
var e2eMaster = [][]gElem{
	{e2eEl("a"), e2eEl("b")},
	{e2eEl("a"), e2eEl("c")},
	{e2eEl("b")},
	{e2eEl("c"), e2eEl("d"), e2eEl("e")},
	{e2eEl("if", "name", "eth0"), e2eEl("state")},
	{e2eEl("if", "name", "eth1"), e2eEl("state")},
	{e2eEl("if", "name", "eth0"), e2eEl("sub", "unit", "1", "af", "v4"), e2eEl("mtu")},
}

// leaves that collide with the master set (a leaf below a leaf, a leaf above leaves)
var e2eColliding = [][]gElem{
	{e2eEl("a"), e2eEl("b"), e2eEl("x")},
	{e2eEl("c"), e2eEl("d")},
}

var e2eOrigins = []string{"openconfig", "openconfig", "openconfig", "oc2"}

func e2eGenVal(r *rand.Rand, frag bool) gVal {
	strs := []string{"x", "up", "a b", "é", "", "10%"}
	x := r.Intn(100)
	if (frag || r.Intn(3) != 0) && x >= 97 {
		x = r.Intn(40)
	}
	switch {
	case x < 40:
		return gVal{kind: "i", i: int64(r.Intn(9)) - 2}
	case x < 55:
		return gVal{kind: "s", s: strs[r.Intn(len(strs))]}
	case x < 63:
		return gVal{kind: "u", u: uint64(r.Intn(5))}
	case x < 71:
		return gVal{kind: "b", b: r.Intn(2) == 0}
	case x < 78:
		return gVal{kind: "d", bits: math.Float64bits([]float64{0, 1.5, -2, 1e9 + 0.25, 3.141592653589793}[r.Intn(5)])}
	case x < 82:
		return gVal{kind: "f", bits: uint64(math.Float32bits([]float32{0, 1.5, -7.25}[r.Intn(3)]))}
	case x < 86:
		return gVal{kind: "m", i: int64(r.Intn(2000)) - 5, prec: uint32(r.Intn(4))}
	case x < 90:
		return gVal{kind: "y", s: []string{"", "00", "ff01", "68656c6c6f"}[r.Intn(4)]}
	case x < 97:
		n := r.Intn(4)
		v := gVal{kind: "l"}
		for i := 0; i < n; i++ {
			if r.Intn(2) == 0 {
				v.list = append(v.list, gVal{kind: "i", i: int64(r.Intn(3))})
			} else {
				v.list = append(v.list, gVal{kind: "s", s: strs[r.Intn(len(strs))]})
			}
		}
		return v
	case x < 98:
		return gVal{kind: "unset"}
	case x < 99:
		return gVal{kind: "absent"}
	default:
		return gVal{kind: "x", tag: []string{"ascii", "protobytes"}[r.Intn(2)], s: "7b7d"}
	}
}

// e2ePath renders structured elements in one of the two encodings.
func e2ePath(r *rand.Rand, elems []gElem) gPath {
	if len(elems) > 0 && r.Intn(3) == 0 {
		return gPath{element: gPath{elem: elems}.elems()} // deprecated encoding
	}
	return gPath{elem: append([]gElem(nil), elems...)}
}

func e2eSameIndex(a, b []gElem) bool {
	return strings.Join(gPath{elem: a}.elems(), "\x00") == strings.Join(gPath{elem: b}.elems(), "\x00")
}

type e2eTargetGen struct {
	name  string
	pool  []e2eLeaf
	ts    int64
	items []e2eItem
}

// prefixFor builds the notification prefix for leaves of origin `origin` sharing elems[:s].
func e2ePrefix(r *rand.Rand, tname, origin string, pre []gElem) gPath {
	p := e2ePath(r, pre)
	if origin != "openconfig" || r.Intn(2) == 0 {
		p.origin = origin
	}
	switch r.Intn(4) {
	case 0:
		p.target = tname
	case 1:
		p.target = "bogus"
	}
	if len(pre) == 0 && p.origin == "" && p.target == "" && r.Intn(2) == 0 {
		return gPath{isNil: true}
	}
	return p
}

func (g *e2eTargetGen) genNoti(r *rand.Rand, t int, frag bool) e2eItem {
	step := int64(r.Intn(3))
	if r.Intn(70) == 0 {
		step = -5 // stale
	}
	g.ts += step
	n := gNoti{ts: g.ts}
	first := g.pool[r.Intn(len(g.pool))]
	s := 0
	if len(first.elems) > 1 {
		s = r.Intn(len(first.elems)) // prefix length (never the whole path: deletes may take it all)
	}
	n.prefix = e2ePrefix(r, g.name, first.origin, first.elems[:s])
	share := func() []e2eLeaf {
		var out []e2eLeaf
		for _, l := range g.pool {
			if l.origin == first.origin && len(l.elems) > s && e2eSameIndex(l.elems[:s], first.elems[:s]) {
				out = append(out, l)
			}
		}
		return out
	}
	addUpd := func(l e2eLeaf) {
		u := gUpd{path: e2ePath(r, l.elems[s:]), val: e2eGenVal(r, frag)}
		if r.Intn(600) == 0 {
			u.path.origin = "oc3" // path-level origin: outside the cache's contract, ignored by the index
		}
		n.upd = append(n.upd, u)
	}
	addDel := func(l e2eLeaf, exact bool) {
		rest := append([]gElem(nil), l.elems[s:]...)
		shape := r.Intn(6)
		if exact {
			shape = 5
		}
		switch shape {
		case 0: // wildcard in the last position
			if len(rest) > 0 {
				rest[len(rest)-1] = gElem{name: "*"}
			}
		case 1: // the subtree above
			if len(rest) > 0 {
				rest = rest[:len(rest)-1]
			}
		case 2: // everything below the prefix
			rest = nil
		}
		n.del = append(n.del, e2ePath(r, rest))
	}
	switch x := r.Intn(100); {
	case x < 62:
		addUpd(first)
	case x < 76:
		cands := share()
		r.Shuffle(len(cands), func(i, j int) { cands[i], cands[j] = cands[j], cands[i] })
		k := 2 + r.Intn(2)
		for i := 0; i < len(cands) && i < k; i++ {
			addUpd(cands[i])
		}
	case x < 94:
		if r.Intn(12) != 0 {
			n.ts++ // a delete is normally newer than what it deletes
			g.ts = n.ts
		}
		addDel(first, false)
	default:
		addUpd(first)
		cands := share()
		l := cands[r.Intn(len(cands))]
		for tries := 0; tries < 4 && e2eSameIndex(l.elems, first.elems); tries++ {
			l = cands[r.Intn(len(cands))] // deleting what the same notification writes keeps it (not newer)
		}
		addDel(l, r.Intn(6) != 0)
	}
	return e2eItem{t: t, kind: 'U', noti: n}
}

func e2eMarkerItem(t int, name, origin string, pre []gElem, ts int64) e2eItem {
	p := gPath{origin: origin, elem: pre}
	return e2eItem{t: t, kind: 'U', noti: gNoti{ts: ts, prefix: p,
		upd: []gUpd{{path: gPath{elem: []gElem{{name: e2eMarker}}}, val: gVal{kind: "i", i: ts}}}}}
}

// e2eGenValues builds a finite generator-mode configuration (fake.Config.Values) plus marker.
func e2eGenValues(r *rand.Rand, t int, markerPre []string) e2eItem {
	n := 1 + r.Intn(4)
	var cfg []*fqV
	maxTS := int64(0)
	paths := [][]string{{"a", "b"}, {"a", "c"}, {"b"}, {"c", "d", "e"}, {"if", "eth0", "state"}}
	r.Shuffle(len(paths), func(i, j int) { paths[i], paths[j] = paths[j], paths[i] })
	for i := 0; i < n; i++ {
		var v *fqV
		for {
			v = fqGenValue(r, i, 100)
			if v.kind == "sync" && v.syncN == 0 {
				continue
			}
			v.hasTS = true
			if v.ts < 0 {
				v.ts = 100
			}
			if v.dmin < 0 {
				v.dmin = 0
			}
			if v.dmax < v.dmin {
				v.dmax = v.dmin
			}
			if v.dmax > 1000 {
				v.dmax = v.dmin + 3
			}
			v.repeat = int32(1 + r.Intn(4))
			if fqValid(v) {
				break
			}
		}
		v.path = paths[i%len(paths)]
		if v.kind == "del" && r.Intn(2) == 0 && i > 0 {
			v.path = cfg[r.Intn(i)].path // delete something another value writes
		}
		if end := v.ts + int64(v.repeat+1)*v.dmax; end > maxTS {
			maxTS = end
		}
		cfg = append(cfg, v)
	}
	cfg = append(cfg, &fqV{kind: "int", dist: 'c', path: append(append([]string{}, markerPre...), e2eMarker), hasTS: true, ts: maxTS + 10, repeat: 1, iv: 1})
	seed := int64(1 + r.Intn(1000))
	syncOn := r.Intn(2) == 0
	gcost := 1
	total := 4
	for _, v := range cfg {
		if v.seed == 0 && v.cost() > gcost {
			gcost = v.cost()
		}
		total += int(v.repeat) + 1
	}
	toks := []string{b01(syncOn), fmt.Sprintf("%d:%s", seed, rawDraws(seed, total*gcost+48))}
	for _, v := range cfg {
		toks = append(toks, v.token((int(v.repeat)+2)*v.cost()+48))
	}
	return e2eItem{t: t, kind: 'V', vals: strings.Join(toks, "!")}
}

func e2eRenderItem(it e2eItem) string {
	s := strconv.Itoa(it.t) + string(it.kind)
	switch it.kind {
	case 'U':
		s += it.noti.token()
	case 'V':
		s += it.vals
	}
	return s
}

func e2eRenderQueries(qs [][]string) string {
	var out []string
	for _, q := range qs {
		out = append(out, encPath(q))
	}
	return strings.Join(out, ";")
}

// e2eGenScenario builds one scenario line.  run = direct | agent | proc (process level: plain
// names, agent kinds mixed, subscription before or after everything).
func e2eGenScenario(r *rand.Rand, run string) string {
	proc := run == "proc"
	nT := 1 + r.Intn(3)
	if r.Intn(3) == 0 {
		nT = 1
	}
	names := []string{"dev1", "dev2", "r-3"}
	if run == "direct" && r.Intn(4) == 0 { // the manager sends the name as gRPC metadata: printable ASCII only there
		names = []string{"d 1", "dév", "x.y"}
	}
	reqs := []string{"r1", "r2"}
	// What a STREAM client ends up with is schedule dependent (the sender coalesces) when a value
	// it cannot decode or skips overwrites a good one, or when a literal `*` element meets the
	// client tree's wildcard delete: those inputs (outside the property's hypotheses anyway) are
	// generated for ONCE clients only.
	stream := r.Intn(2) == 0
	var decls []e2eDecl
	anyValues := false
	for t := 0; t < nT; t++ {
		kind := "raw"
		if run == "agent" || proc {
			kind = []string{"fake", "fake", "raw", "values"}[r.Intn(4)]
		}
		anyValues = anyValues || kind == "values"
		decls = append(decls, e2eDecl{name: names[t], req: reqs[r.Intn(2)], kind: kind})
	}
	// queries and the marker position they admit
	type qchoice struct {
		qs     [][]string
		origin string
		pre    []gElem
	}
	qcs := []qchoice{
		{[][]string{nil}, "openconfig", nil},
		{[][]string{nil}, "openconfig", nil},
		{[][]string{{"*"}}, "openconfig", nil},
		{[][]string{{"openconfig"}}, "openconfig", nil},
		{[][]string{{"openconfig", "a"}}, "openconfig", []gElem{e2eEl("a")}},
		{[][]string{{"oc2", "if"}}, "oc2", []gElem{e2eEl("if")}},
		{[][]string{{"openconfig", "c"}, {"oc2"}}, "oc2", nil},
		{[][]string{{"*", "a"}}, "openconfig", []gElem{e2eEl("a")}},
	}
	qc := qcs[r.Intn(len(qcs))]
	for anyValues && qc.origin != "openconfig" { // a generator-mode target cannot set an origin
		qc = qcs[r.Intn(len(qcs))]
	}
	var gens []*e2eTargetGen
	for t := 0; t < nT; t++ {
		g := &e2eTargetGen{name: names[t], ts: 100 + int64(r.Intn(5))}
		perm := r.Perm(len(e2eMaster))
		np := 3 + r.Intn(4)
		for i := 0; i < np; i++ {
			g.pool = append(g.pool, e2eLeaf{origin: e2eOrigins[r.Intn(len(e2eOrigins))], elems: e2eMaster[perm[i]]})
		}
		if r.Intn(12) == 0 {
			g.pool = append(g.pool, e2eLeaf{origin: "openconfig", elems: e2eColliding[r.Intn(2)]})
		}
		if !stream && r.Intn(40) == 0 {
			g.pool = append(g.pool, e2eLeaf{origin: "openconfig", elems: []gElem{e2eEl("a"), e2eEl("*")}})
		}
		gens = append(gens, g)
	}
	for t, g := range gens {
		if decls[t].kind == "values" {
			g.items = []e2eItem{e2eGenValues(r, t, gPath{elem: qc.pre}.elems())}
			continue
		}
		n := 2 + r.Intn(9)
		syncAt := -1
		if r.Intn(3) == 0 {
			syncAt = r.Intn(n)
		}
		for i := 0; i < n; i++ {
			if i == syncAt {
				g.items = append(g.items, e2eItem{t: t, kind: 'S'})
			}
			switch r.Intn(40) {
			case 0:
				g.items = append(g.items, e2eItem{t: t, kind: 'E'})
			case 1:
				g.items = append(g.items, e2eItem{t: t, kind: 'N'})
			default:
				g.items = append(g.items, g.genNoti(r, t, stream))
			}
		}
		if r.Intn(2) == 0 {
			g.items = append(g.items, e2eItem{t: t, kind: 'S'})
		}
		// session ends (cut / closed cleanly by the target) and restarts: the target comes back with
		// fewer leaves, possibly with its clock started over; sessions may be empty
		if !proc && r.Intn(3) == 0 {
			if decls[t].kind == "fake" {
				decls[t].kind = "raw" // the scripted server can end a session and stream another one
			}
			for j, nr := 0, 1+r.Intn(2); j < nr; j++ {
				g.items = append(g.items, e2eItem{t: t, kind: "RZ"[r.Intn(2)]})
				if len(g.pool) > 1 {
					r.Shuffle(len(g.pool), func(i, j int) { g.pool[i], g.pool[j] = g.pool[j], g.pool[i] })
					g.pool = g.pool[:1+r.Intn(len(g.pool)-1)]
				}
				if r.Intn(2) == 0 {
					g.ts = 100 + int64(r.Intn(5))
				}
				for i, m := 0, r.Intn(5); i < m; i++ {
					g.items = append(g.items, g.genNoti(r, t, stream))
				}
				if r.Intn(3) == 0 {
					g.items = append(g.items, e2eItem{t: t, kind: 'S'})
				}
			}
		}
		g.ts += 3
		g.items = append(g.items, e2eMarkerItem(t, g.name, qc.origin, qc.pre, g.ts))
	}
	// random merge preserving each target's order
	var items []e2eItem
	pos := make([]int, nT)
	for {
		var live []int
		for t := range gens {
			if pos[t] < len(gens[t].items) {
				live = append(live, t)
			}
		}
		if len(live) == 0 {
			break
		}
		t := live[r.Intn(len(live))]
		items = append(items, gens[t].items[pos[t]])
		pos[t]++
	}
	cl := "once"
	if stream {
		k := r.Intn(len(items) + 1)
		if run != "direct" {
			k = []int{0, len(items)}[r.Intn(2)]
		}
		cl = "stream:" + strconv.Itoa(k)
	}
	rm := run
	if proc {
		rm = "agent"
	}
	toks := []string{"new", cl, rm, e2eRenderQueries(qc.qs)}
	for _, d := range decls {
		toks = append(toks, "T="+encStr(d.name)+":"+encStr(d.req)+":"+d.kind)
	}
	for _, it := range items {
		toks = append(toks, e2eRenderItem(it))
	}
	return strings.Join(toks, " ")
}

func (c *e2eComp) Gen(r *rand.Rand, tier string) []string {
	run := "direct"
	switch genProfile {
	case "proc":
		run = "proc"
	case "agent":
		run = "agent"
	default:
		if r.Intn(5) == 0 {
			run = "agent"
		}
	}
	return []string{e2eGenScenario(r, run)}
}

// Exhaustive: every subscription point of a STREAM client over three hand-shaped streams
// (update, re-add after delete, keyed path, both encodings), and the ONCE query.
func (c *e2eComp) Exhaustive(tier string) [][]string {
	if genProfile == "corpus" {
		return e2eCurated()
	}
	mk := func(ts int64, prefix gPath, upd []gUpd, del []gPath) e2eItem {
		return e2eItem{t: 0, kind: 'U', noti: gNoti{ts: ts, prefix: prefix, upd: upd, del: del}}
	}
	iv := func(i int64) gVal { return gVal{kind: "i", i: i} }
	ab := gPath{elem: []gElem{e2eEl("a"), e2eEl("b")}}
	abOld := gPath{element: []string{"a", "b"}}
	ifs := gPath{elem: []gElem{e2eEl("if", "name", "eth0"), e2eEl("state")}}
	streams := [][]e2eItem{
		{
			mk(10, gPath{isNil: true}, []gUpd{{path: ab, val: iv(1)}}, nil),
			mk(11, gPath{target: "bogus"}, []gUpd{{path: abOld, val: iv(2)}}, nil),
			{t: 0, kind: 'S'},
			mk(12, gPath{origin: "openconfig"}, nil, []gPath{{elem: []gElem{e2eEl("a")}}}),
			mk(13, gPath{}, []gUpd{{path: ab, val: gVal{kind: "s", s: "back"}}}, nil),
			e2eMarkerItem(0, "dev1", "openconfig", nil, 20),
		},
		{
			mk(5, gPath{origin: "oc2", elem: []gElem{e2eEl("if", "name", "eth0")}}, []gUpd{{path: gPath{elem: []gElem{e2eEl("state")}}, val: gVal{kind: "s", s: "up"}}}, nil),
			mk(5, gPath{}, []gUpd{{path: ifs, val: gVal{kind: "b", b: true}}, {path: ab, val: gVal{kind: "d", bits: math.Float64bits(1.5)}}}, nil),
			mk(7, gPath{origin: "oc2"}, nil, []gPath{{elem: []gElem{e2eEl("if"), e2eEl("*")}}}),
			e2eMarkerItem(0, "dev1", "openconfig", nil, 20),
		},
		{
			mk(3, gPath{}, []gUpd{{path: ab, val: iv(1)}}, nil),
			mk(2, gPath{}, []gUpd{{path: ab, val: iv(9)}}, nil), // stale
			mk(3, gPath{}, []gUpd{{path: ab, val: iv(4)}}, nil), // same timestamp, other value
			mk(3, gPath{}, nil, []gPath{ab}),                    // not newer: nothing deleted
			e2eMarkerItem(0, "dev1", "openconfig", nil, 20),
		},
	}
	// session restarts: the target ends its stream cleanly (Z) or is cut (R) and comes back with a
	// smaller state (a/c gone), its clock started over; then once more with nothing but the marker
	ac := gPath{elem: []gElem{e2eEl("a"), e2eEl("c")}}
	for _, end := range []byte{'Z', 'R'} {
		streams = append(streams, []e2eItem{
			mk(10, gPath{isNil: true}, []gUpd{{path: ab, val: iv(1)}}, nil),
			mk(11, gPath{}, []gUpd{{path: ac, val: iv(2)}}, nil),
			{t: 0, kind: 'S'},
			{t: 0, kind: end},
			mk(5, gPath{}, []gUpd{{path: ab, val: iv(3)}}, nil),
			e2eMarkerItem(0, "dev1", "openconfig", nil, 20),
		})
	}
	streams = append(streams, []e2eItem{
		mk(10, gPath{origin: "oc2"}, []gUpd{{path: ab, val: iv(1)}}, nil),
		{t: 0, kind: 'Z'},
		{t: 0, kind: 'R'}, // a session without a single response
		mk(10, gPath{}, []gUpd{{path: ac, val: iv(2)}}, nil),
		{t: 0, kind: 'Z'},
		e2eMarkerItem(0, "dev1", "openconfig", nil, 20),
	})
	var out [][]string
	// the same through the real manager.Manager and a scripted gNMI server
	for _, st := range streams[3:] {
		for _, m := range []string{"once", "stream:0"} {
			toks := []string{"new", m, "agent", ".", "T=dev1:r1:raw"}
			for _, it := range st {
				toks = append(toks, e2eRenderItem(it))
			}
			out = append(out, []string{strings.Join(toks, " ")})
		}
	}
	for _, st := range streams {
		for _, q := range []string{".", "/openconfig", "/*"} {
			modes := []string{"once"}
			for k := 0; k <= len(st); k++ {
				modes = append(modes, "stream:"+strconv.Itoa(k))
			}
			for _, m := range modes {
				toks := []string{"new", m, "direct", q, "T=dev1:r1:raw"}
				for _, it := range st {
					toks = append(toks, e2eRenderItem(it))
				}
				out = append(out, []string{strings.Join(toks, " ")})
			}
		}
	}
	return out
}

// e2eCurated renders the hand-shaped scenarios kept in corpus/C01 (`vcorr gen -c e2e -exhaustive
// -profile corpus`): the process-level scenario of the quick tier first.
func e2eCurated() [][]string {
	el := e2eEl
	ep := func(es ...gElem) gPath { return gPath{elem: es} }
	old := func(es ...string) gPath { return gPath{element: es} }
	iv := func(i int64) gVal { return gVal{kind: "i", i: i} }
	sv := func(x string) gVal { return gVal{kind: "s", s: x} }
	u := func(t int, ts int64, prefix gPath, upd ...gUpd) e2eItem {
		return e2eItem{t: t, kind: 'U', noti: gNoti{ts: ts, prefix: prefix, upd: upd}}
	}
	d := func(t int, ts int64, prefix gPath, del ...gPath) e2eItem {
		return e2eItem{t: t, kind: 'U', noti: gNoti{ts: ts, prefix: prefix, del: del}}
	}
	up := func(p gPath, v gVal) gUpd { return gUpd{path: p, val: v} }
	nilP := gPath{isNil: true}
	// generator-mode target: an int walking in a range, a string rotating through a list, a bool, a delete
	vals := []*fqV{
		{kind: "int", dist: 'r', path: []string{"a", "b"}, hasTS: true, ts: 100, dmin: 1, dmax: 2, repeat: 4, iv: 5, imin: 0, imax: 10, idmin: -2, idmax: 3},
		{kind: "str", dist: 'l', path: []string{"a", "c"}, hasTS: true, ts: 100, dmin: 1, dmax: 1, repeat: 3, sv: "up", sopts: []string{"up", "DOWN"}},
		{kind: "bool", dist: 'c', path: []string{"if", "eth0", "state"}, hasTS: true, ts: 101, dmin: 0, dmax: 0, repeat: 1, bv: true},
		{kind: "del", dist: 'c', path: []string{"a", "c"}, hasTS: true, ts: 110, dmin: 0, dmax: 0, repeat: 1},
		{kind: "sync", dist: 'c', path: []string{"s"}, hasTS: true, ts: 111, dmin: 0, dmax: 0, repeat: 1, syncN: 1},
	}
	valsTok := func(seed int64, markerPre ...string) string {
		toks := []string{"0", fmt.Sprintf("%d:%s", seed, rawDraws(seed, 400))}
		end := &fqV{kind: "int", dist: 'c', path: append(append([]string{}, markerPre...), e2eMarker), hasTS: true, ts: 200, repeat: 1, iv: 1}
		for _, v := range append(append([]*fqV{}, vals...), end) {
			toks = append(toks, v.token(200))
		}
		return strings.Join(toks, "!")
	}
	line := func(client, run, queries string, decls []string, items []e2eItem) []string {
		toks := []string{"new", client, run, queries}
		toks = append(toks, decls...)
		for _, it := range items {
			toks = append(toks, e2eRenderItem(it))
		}
		return []string{strings.Join(toks, " ")}
	}
	three := []e2eItem{
		// dev1: a real fake agent replaying fixed responses
		u(0, 10, nilP, up(ep(el("a"), el("b")), iv(5))),
		u(0, 10, gPath{}, up(ep(el("a"), el("c")), sv("x"))),
		u(0, 11, gPath{elem: []gElem{el("if", "name", "eth0")}}, up(ep(el("state")), sv("up")), up(ep(el("mtu")), gVal{kind: "u", u: 1500})),
		d(0, 12, gPath{origin: "openconfig"}, ep(el("a"), el("c"))),
		{t: 0, kind: 'S'},
		u(0, 13, gPath{}, up(old("a", "c"), sv("back"))),
		// dev2: a scripted target that does not report, or misreports, its name
		u(1, 20, gPath{target: "bogus", origin: "oc2"}, up(old("x", "y"), gVal{kind: "d", bits: math.Float64bits(1.5)})),
		u(1, 20, gPath{target: "", element: []string{"if", "eth1"}}, up(ep(el("state")), gVal{kind: "b", b: false}), up(ep(el("counters"), el("in")), gVal{kind: "u", u: 7})),
		u(1, 21, nilP, up(ep(el("tags")), gVal{kind: "l", list: []gVal{sv("a b"), iv(2)}}), up(ep(el("raw")), gVal{kind: "y", s: "00ff"})),
		u(1, 22, gPath{target: "dev1"}, up(ep(el("f")), gVal{kind: "f", bits: uint64(math.Float32bits(-7.25))})),
		d(1, 23, gPath{origin: "oc2"}, ep(el("x"), el("*"))),
		u(1, 24, gPath{origin: "oc2"}, up(ep(el("x"), el("z")), sv("é"))),
		{t: 1, kind: 'E'},
		{t: 1, kind: 'S'},
		// dev3: a real fake agent in generator mode (the C20 queue)
		{t: 2, kind: 'V', vals: valsTok(7)},
		e2eMarkerItem(0, "dev1", "openconfig", nil, 30),
		e2eMarkerItem(1, "dev2", "openconfig", nil, 30),
	}
	threeDecl := []string{"T=dev1:r1:fake", "T=dev2:r2:raw", "T=dev3:r1:values"}
	var out [][]string
	out = append(out, line("stream:0", "agent", ".", threeDecl, three))
	narrow := append([]e2eItem{}, three[:len(three)-3]...)
	narrow = append(narrow, e2eItem{t: 2, kind: 'V', vals: valsTok(7, "a")},
		e2eMarkerItem(0, "dev1", "openconfig", []gElem{el("a")}, 30), e2eMarkerItem(1, "dev2", "openconfig", []gElem{el("a")}, 30))
	out = append(out, line("once", "agent", "/openconfig/a", threeDecl, narrow))
	// one target, its whole life in the deprecated encoding, keyed list with two keys
	one := []e2eItem{
		u(0, 5, gPath{element: []string{"if", "eth0"}}, up(old("sub", "v4", "1", "mtu"), iv(1400))),
		u(0, 6, gPath{}, up(ep(el("if", "name", "eth0"), el("sub", "unit", "1", "af", "v4"), el("mtu")), iv(1500))),
		u(0, 6, gPath{origin: "oc2"}, up(ep(el("if", "name", "eth0"), el("sub", "unit", "1", "af", "v4"), el("mtu")), iv(9000))),
		d(0, 7, gPath{origin: "oc2", elem: []gElem{el("if", "name", "eth0")}}, gPath{}),
		{t: 0, kind: 'S'},
		e2eMarkerItem(0, "dev1", "openconfig", nil, 9),
	}
	out = append(out, line("once", "agent", "/*", []string{"T=dev1:r1:raw"}, one))
	out = append(out, line("stream:100000", "agent", "/openconfig;/oc2", []string{"T=dev1:r1:fake"}, one))
	// two targets sharing one request, streaming the same paths with different values
	two := []e2eItem{
		u(0, 1, nilP, up(ep(el("a"), el("b")), iv(1))),
		u(1, 1, nilP, up(ep(el("a"), el("b")), iv(2))),
		d(0, 2, nilP, ep(el("a"))),
		u(1, 2, gPath{target: "dev1"}, up(ep(el("a"), el("c")), sv("only on dev2"))),
		e2eMarkerItem(0, "dev1", "openconfig", nil, 3),
		e2eMarkerItem(1, "dev2", "openconfig", nil, 3),
	}
	out = append(out, line("stream:0", "agent", ".", []string{"T=dev1:r1:raw", "T=dev2:r1:fake"}, two))
	return out
}
