package main

// ca par <seed> <rounds>: accepted updates for different leaves of ONE target delivered from several
// goroutines at once (the cache documents that the latest timestamp "is always increasing regardless of
// the order in which updates are processed in parallel by multiple goroutines"), with the periodic
// metadata refresh running beside them.  The cache's client callback — invoked by Target.GnmiUpdate just
// before the target's latest accepted timestamp is recorded — serves as a barrier, so that all writers
// reach that step together.  Whatever the order in which they get there:
//   * meta/latestTimestamp after a refresh is the greatest accepted timestamp (C15),
//   * an update to an existing leaf that is ahead of the wall clock by more than the future threshold but
//     ahead of the greatest accepted timestamp by exactly the threshold is accepted and stored (C02),
//   * every leaf holds the update it was sent.
// Observation: the monitor's verdict only ("mon=ok" or the first thing that failed).  Found necessary by
// seeded change c02_seed7 (compare and store of Target.ts under two separate acquisitions of tsmu).

import (
	"fmt"
	"math/rand"
	"runtime"
	"strconv"
	"sync"
	"sync/atomic"
	"time"

	"github.com/openconfig/gnmi/cache"
	"github.com/openconfig/gnmi/ctree"
	"github.com/openconfig/gnmi/metadata"

	pb "github.com/openconfig/gnmi/proto/gnmi"
)

func caParNoti(dev, leaf string, ts int64, val string) *pb.Notification {
	return &pb.Notification{
		Timestamp: ts,
		Prefix:    &pb.Path{Target: dev, Elem: []*pb.PathElem{{Name: "zz"}}},
		Update: []*pb.Update{{
			Path: &pb.Path{Elem: []*pb.PathElem{{Name: leaf}}},
			Val:  &pb.TypedValue{Value: &pb.TypedValue_StringVal{StringVal: val}},
		}},
	}
}

func caPar(args []string) string {
	if len(args) != 3 {
		return "bad-op"
	}
	seed, _ := strconv.ParseInt(args[1], 10, 64)
	rounds, _ := strconv.Atoi(args[2])
	r := rand.New(rand.NewSource(seed))
	const dev = "dev1"
	const threshold = 30 * time.Minute
	savedNow := scriptedNow
	defer func() { scriptedNow = savedNow }()
	scriptedNow = int64(1000 * time.Second)
	if p := runtime.GOMAXPROCS(0); p < 8 {
		defer runtime.GOMAXPROCS(runtime.GOMAXPROCS(8))
	}
	base := scriptedNow + int64(10*time.Hour) // the device clock runs ten hours ahead of the collector's
	for round := 0; round < rounds; round++ {
		workers := 2 + r.Intn(7)
		perm := r.Perm(workers) // which worker carries which timestamp
		withRefresh := r.Intn(3) == 0
		greatest := base + int64(workers)*int64(time.Second)
		c := cache.New([]string{dev}, cache.WithFutureThreshold(threshold))
		var armed, arrived int32
		c.SetClient(func(l *ctree.Leaf) {
			if atomic.LoadInt32(&armed) == 0 {
				return
			}
			if n, _ := l.Value().(*pb.Notification); len(n.GetPrefix().GetElem()) == 0 {
				return // a metadata leaf written by the refresh: not one of the writers
			}
			atomic.AddInt32(&arrived, 1)
			deadline := time.Now().Add(2 * time.Second)
			for atomic.LoadInt32(&arrived) < int32(workers) && time.Now().Before(deadline) {
				runtime.Gosched()
			}
		})
		if err := c.GnmiUpdate(caParNoti(dev, "q", base, "0")); err != nil {
			return fmt.Sprintf("mon=initial-update-rejected round=%d", round)
		}
		atomic.StoreInt32(&armed, 1)
		var wg sync.WaitGroup
		errs := make([]error, workers)
		for i := 0; i < workers; i++ {
			wg.Add(1)
			go func(i int) {
				defer wg.Done()
				ts := base + int64(perm[i]+1)*int64(time.Second)
				errs[i] = c.GnmiUpdate(caParNoti(dev, "p"+strconv.Itoa(i), ts, "v"+strconv.Itoa(i)))
			}(i)
		}
		stop := make(chan struct{})
		var rwg sync.WaitGroup
		if withRefresh {
			rwg.Add(1)
			go func() {
				defer rwg.Done()
				for {
					select {
					case <-stop:
						return
					default:
						c.UpdateMetadata()
						c.UpdateSize()
						runtime.Gosched()
					}
				}
			}()
		}
		wg.Wait()
		close(stop)
		rwg.Wait()
		atomic.StoreInt32(&armed, 0)
		for i, err := range errs {
			if err != nil {
				return fmt.Sprintf("mon=accepted-update-rejected round=%d worker=%d", round, i)
			}
		}
		c.UpdateMetadata()
		var got int64 = -1
		c.Query(dev, metadata.Path(metadata.LatestTimestamp), func(_ []string, _ *ctree.Leaf, v interface{}) error {
			got = v.(*pb.Notification).GetUpdate()[0].GetVal().GetIntVal()
			return nil
		})
		if got != greatest {
			return fmt.Sprintf("mon=latest-not-greatest round=%d workers=%d behind=%ds", round, workers, (greatest-got)/int64(time.Second))
		}
		probe := caParNoti(dev, "q", greatest+int64(threshold), "1")
		if err := c.GnmiUpdate(probe); err != nil {
			return fmt.Sprintf("mon=probe-within-threshold-rejected round=%d workers=%d", round, workers)
		}
		held := map[string]int64{}
		c.Query(dev, []string{"zz", "*"}, func(p []string, _ *ctree.Leaf, v interface{}) error {
			held[p[len(p)-1]] = v.(*pb.Notification).GetTimestamp()
			return nil
		})
		if held["q"] != probe.GetTimestamp() {
			return fmt.Sprintf("mon=probe-not-stored round=%d", round)
		}
		for i := 0; i < workers; i++ {
			if held["p"+strconv.Itoa(i)] != base+int64(perm[i]+1)*int64(time.Second) {
				return fmt.Sprintf("mon=leaf-lost round=%d worker=%d", round, i)
			}
		}
	}
	return "mon=ok"
}
