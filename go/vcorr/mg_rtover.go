package main

// mg rtover: the per-target receive_timeout override (tpb.Target.Meta["receive_timeout"]) concerns that target
// only.  Three targets on one Manager whose Config.ReceiveTimeout is T: "quiet" is added first with the override
// "0" (no receive timeout for it), "plain" afterwards without an override, "brisk" last with a short override.
// Every target's stream delivers one update and a sync marker and falls silent.  Then: "plain" is reconnected
// by the manager-wide timeout (a second Connect for it), "brisk" by its own, and "quiet" never (exactly one
// Connect, no Reset) — whatever the order of the Adds.  Found necessary by seeded change c13_seed10 (a parsed
// override stored into the manager-wide default).  Observation: the monitor's verdict only.

import (
	"sync"
	"time"

	"google.golang.org/grpc"
	"google.golang.org/grpc/test/bufconn"

	"github.com/openconfig/gnmi/manager"
	gpb "github.com/openconfig/gnmi/proto/gnmi"
	tpb "github.com/openconfig/gnmi/proto/target"
)

func mgRTOver() string {
	lis := bufconn.Listen(1 << 16)
	srvImpl := &mgPaceServer{kill: make(chan struct{})}
	srv := grpc.NewServer()
	gpb.RegisterGNMIServer(srv, srvImpl)
	go srv.Serve(lis)
	defer srv.Stop()

	D := scaled(20 * time.Millisecond)
	oldBase, oldMax, oldRand := manager.RetryBaseDelay, manager.RetryMaxDelay, manager.RetryRandomization
	manager.RetryBaseDelay, manager.RetryMaxDelay, manager.RetryRandomization = D, D, 0
	defer func() {
		manager.RetryBaseDelay, manager.RetryMaxDelay, manager.RetryRandomization = oldBase, oldMax, oldRand
	}()

	var mu sync.Mutex
	connects, resets := map[string]int{}, map[string]int{}
	bump := func(m map[string]int) func(string) {
		return func(name string) { mu.Lock(); m[name]++; mu.Unlock() }
	}
	get := func(m map[string]int, name string) int { mu.Lock(); defer mu.Unlock(); return m[name] }
	T := scaled(120 * time.Millisecond)
	m, err := manager.NewManager(manager.Config{
		Connect:           bump(connects),
		Reset:             bump(resets),
		Sync:              func(string) {},
		Update:            func(string, *gpb.Notification) {},
		ReceiveTimeout:    T,
		ConnectionManager: &mgPaceConns{lis: lis, first: make(chan struct{})},
	})
	if err != nil {
		return "mon=err-new"
	}
	add := func(name, override string) bool {
		t := &tpb.Target{Addresses: []string{name + ":1"}}
		if override != "-" {
			t.Meta = map[string]string{"receive_timeout": override}
		}
		return m.Add(name, t, mgRequest()) == nil
	}
	if !add("quiet", "0") || !add("plain", "-") || !add("brisk", (T / 3).String()) {
		return "mon=err-add"
	}
	defer func() {
		for _, n := range []string{"quiet", "plain", "brisk"} {
			done := make(chan struct{})
			go func(n string) { m.Remove(n); close(done) }(n)
			select {
			case <-done:
			case <-time.After(scaled(3 * time.Second)):
			}
		}
	}()
	deadline := time.Now().Add(scaled(4 * time.Second))
	for time.Now().Before(deadline) {
		if get(connects, "plain") >= 2 && get(connects, "brisk") >= 2 {
			break
		}
		time.Sleep(scaled(10 * time.Millisecond))
	}
	switch {
	case get(connects, "plain") < 2:
		return "mon=FAIL:silent-stream-of-a-target-without-override-never-reconnected"
	case get(connects, "brisk") < 2:
		return "mon=FAIL:silent-stream-of-a-target-with-a-short-override-never-reconnected"
	case get(resets, "quiet") != 0 || get(connects, "quiet") > 1:
		return "mon=FAIL:target-with-receive-timeout-disabled-was-reconnected"
	}
	return "mon=ok"
}
