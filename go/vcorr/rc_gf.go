package main

// rc gf: client.NewImpl (= getFirst, client/register.go) over SEVERAL registered
// client types with scripted outcomes.  One op line = one scenario:
//
//	rc new gf <outs> <sched>
//
//	outs   one letter per client type: I the registered InitImpl returns an Impl,
//	       E it fails, H it blocks until ctx is done and then fails (a ctx-honouring
//	       dial); - no client types
//	sched  tokens joined by '.': r<i> open the gate of type i (its InitImpl returns),
//	       x cancel ctx; - empty.  After every token the harness waits until the
//	       effect has settled (the released InitImpl has returned; if it made an Impl:
//	       NewImpl has returned or that Impl was closed), so the outcome does not
//	       depend on the scheduler.
//
// A scenario is valid when the schedule lets every InitImpl return: every I/E type
// is released exactly once, H types are released by the (single) x only.
//
// `new` answers gf=<what NewImpl returned>: impl:<i> | errs:<types whose failure the
// error carries, sorted> | notypes; `ret` answers closed=<Close() calls per type>;
// `mon` the monitors: deadline (NewImpl did not return / a loser was not closed in
// time), winner (the returned Impl is not one a successful InitImpl made), leak (a
// successful Impl that was not returned was not closed), dblclose (closed twice or
// the returned one closed), errs (the error does not carry every type's failure).
// The model side is Model/ClientFirst.lean under the same schedule (Driver/GF.lean).

import (
	"context"
	"errors"
	"fmt"
	"math/rand"
	"sort"
	"strconv"
	"strings"
	"sync"
	"time"

	"github.com/openconfig/gnmi/client"
)

type gfScenario struct {
	outs  []byte // 'I', 'E', 'H'
	sched []int  // >= 0: release type i; -1: cancel
}

func gfParse(outs, sched string) (*gfScenario, bool) {
	s := &gfScenario{}
	if outs != "-" {
		for i := 0; i < len(outs); i++ {
			switch outs[i] {
			case 'I', 'E', 'H':
				s.outs = append(s.outs, outs[i])
			default:
				return nil, false
			}
		}
	}
	if sched != "-" {
		for _, t := range strings.Split(sched, ".") {
			switch {
			case t == "x":
				s.sched = append(s.sched, -1)
			case strings.HasPrefix(t, "r"):
				v, err := strconv.Atoi(t[1:])
				if err != nil || v < 0 || (len(t) > 2 && t[1] == '0') {
					return nil, false
				}
				s.sched = append(s.sched, v)
			default:
				return nil, false
			}
		}
	}
	return s, true
}

// valid mirrors the model's bad-scenario answer (Driver/GF.lean: everything has
// terminated at the end of the schedule, every token is executable).
func (s *gfScenario) valid() bool {
	seen := make([]bool, len(s.outs))
	cancels, hangs := 0, 0
	for _, o := range s.outs {
		if o == 'H' {
			hangs++
		}
	}
	for _, t := range s.sched {
		if t == -1 {
			cancels++
			continue
		}
		if t >= len(s.outs) || s.outs[t] == 'H' || seen[t] {
			return false
		}
		seen[t] = true
	}
	if cancels > 1 || (hangs > 0 && cancels != 1) {
		return false
	}
	for i, o := range s.outs {
		if o != 'H' && !seen[i] {
			return false
		}
	}
	return true
}

type gfWorld struct {
	sc      *gfScenario
	mu      sync.Mutex
	made    []*gfImpl // per type: the Impl its InitImpl returned
	closes  []int     // per type: Close() calls on that Impl
	fnDone  []chan struct{}
	gate    []chan struct{}
	abandon chan struct{}
}

type gfImpl struct {
	w *gfWorld
	i int
}

func (g *gfImpl) Subscribe(context.Context, client.Query) error { return nil }
func (g *gfImpl) Recv() error                                    { return errors.New("gf: no stream") }
func (g *gfImpl) Poll() error                                    { return nil }
func (g *gfImpl) Close() error {
	g.w.mu.Lock()
	g.w.closes[g.i]++
	g.w.mu.Unlock()
	return nil
}

var errGf = errors.New("scripted InitImpl failure")

func (w *gfWorld) initImpl(i int) client.InitImpl {
	return func(ctx context.Context, _ client.Destination) (client.Impl, error) {
		defer close(w.fnDone[i])
		switch w.sc.outs[i] {
		case 'H':
			select {
			case <-ctx.Done():
				return nil, ctx.Err()
			case <-w.abandon:
				return nil, errGf
			}
		}
		select {
		case <-w.gate[i]:
		case <-w.abandon:
			return nil, errGf
		}
		if w.sc.outs[i] == 'E' {
			return nil, errGf
		}
		impl := &gfImpl{w: w, i: i}
		w.mu.Lock()
		w.made[i] = impl
		w.mu.Unlock()
		return impl, nil
	}
}

func gfRunScenario(sc *gfScenario) (trObs, retObs, monObs string, missed bool) {
	n := len(sc.outs)
	w := &gfWorld{sc: sc, made: make([]*gfImpl, n), closes: make([]int, n), abandon: make(chan struct{})}
	rcScenarioNo++
	types := []string{}
	for i := 0; i < n; i++ {
		w.fnDone = append(w.fnDone, make(chan struct{}))
		w.gate = append(w.gate, make(chan struct{}))
		t := fmt.Sprintf("verif-gf-%d-%d", rcScenarioNo, i)
		types = append(types, t)
		client.RegisterTest(t, w.initImpl(i))
	}
	if n == 0 {
		// NewImpl refuses to run with an empty registry before it looks at the list
		client.RegisterTest(fmt.Sprintf("verif-gf-%d-none", rcScenarioNo),
			func(context.Context, client.Destination) (client.Impl, error) { return nil, errGf })
	}
	ctx, cancel := context.WithCancel(context.Background())
	defer cancel()

	var got client.Impl
	var gotErr error
	returned := make(chan struct{})
	go func() {
		got, gotErr = client.NewImpl(ctx, client.Destination{Addrs: []string{"scripted"}}, types...)
		close(returned)
	}()

	deadline := time.NewTimer(750*time.Millisecond + rcEps())
	defer deadline.Stop()
	hung := false
	wait := func(ch <-chan struct{}) bool {
		if hung {
			return false
		}
		select {
		case <-ch:
			return true
		case <-deadline.C:
			hung = true
			return false
		}
	}
	isReturned := func() bool {
		select {
		case <-returned:
			return true
		default:
			return false
		}
	}
	// poll until cond holds (bounded by the scenario deadline)
	until := func(cond func() bool) bool {
		for !hung {
			w.mu.Lock()
			ok := cond()
			w.mu.Unlock()
			if ok {
				return true
			}
			select {
			case <-deadline.C:
				hung = true
			case <-time.After(50 * time.Microsecond):
			}
		}
		return false
	}
	failed := 0
	settleFailures := func() {
		if failed == n && n > 0 {
			wait(returned) // every fn has failed: the loop collects n errors and returns
		}
	}
	for _, t := range sc.sched {
		if hung {
			break
		}
		if t == -1 {
			cancel()
			for i, o := range sc.outs {
				if o == 'H' {
					if wait(w.fnDone[i]) {
						failed++
					}
				}
			}
			settleFailures()
			continue
		}
		wasReturned := isReturned()
		close(w.gate[t])
		if !wait(w.fnDone[t]) {
			break
		}
		if sc.outs[t] == 'E' {
			failed++
			settleFailures()
			continue
		}
		if wasReturned {
			until(func() bool { return w.closes[t] > 0 }) // a late success is closed by its goroutine
		} else {
			wait(returned) // the loop is at its select: it takes the Impl
		}
	}
	retOK := wait(returned) || isReturned() // (a deadline missed while waiting for a loser's Close does not hide the result)
	// every successful Impl other than the returned one is closed
	if retOK {
		until(func() bool {
			for i, m := range w.made {
				if m != nil && client.Impl(m) != got && w.closes[i] == 0 {
					return false
				}
			}
			return true
		})
	}
	if hung {
		missed = true
		close(w.abandon)
		cancel()
	}

	// ---- observation and monitors ----
	w.mu.Lock()
	made := append([]*gfImpl(nil), w.made...)
	closes := append([]int(nil), w.closes...)
	w.mu.Unlock()
	var bad []string
	if hung {
		bad = append(bad, "deadline")
	}
	obs := "hang"
	if retOK {
		switch {
		case got != nil && gotErr == nil:
			g, ok := got.(*gfImpl)
			if !ok || g.w != w || made[g.i] != g {
				bad = append(bad, "winner")
				obs = "impl:?"
			} else {
				obs = "impl:" + strconv.Itoa(g.i)
				if closes[g.i] != 0 {
					bad = append(bad, "dblclose")
				}
			}
		case got == nil && gotErr != nil:
			if n == 0 {
				obs = "notypes"
				break
			}
			// which types' failures does the error carry? (register.go wraps each as `client "<type>" : …`)
			var in []int
			msg := gotErr.Error()
			for i, t := range types {
				if strings.Contains(msg, fmt.Sprintf("client %q", t)) {
					in = append(in, i)
				}
			}
			sort.Ints(in)
			var f []string
			for _, i := range in {
				f = append(f, strconv.Itoa(i))
			}
			obs = "errs:" + strings.Join(f, ",")
			if len(in) != n {
				bad = append(bad, "errs")
			}
			for _, m := range made {
				if m != nil {
					bad = append(bad, "winner") // an Impl was made, yet an error is returned
					break
				}
			}
		default:
			bad = append(bad, "winner")
			obs = "both"
		}
		for i, m := range made {
			if m == nil {
				if closes[i] != 0 {
					bad = append(bad, "dblclose")
				}
				continue
			}
			if client.Impl(m) == got {
				continue
			}
			switch {
			case closes[i] == 0:
				bad = append(bad, "leak")
			case closes[i] > 1:
				bad = append(bad, "dblclose")
			}
		}
	}
	var cs []string
	for _, c := range closes {
		cs = append(cs, strconv.Itoa(c))
	}
	mon := "ok"
	if len(bad) > 0 {
		sort.Strings(bad)
		var u []string
		for i, b := range bad {
			if i == 0 || bad[i-1] != b {
				u = append(u, b)
			}
		}
		mon = strings.Join(u, "+")
	}
	return "gf=" + obs, "closed=" + strings.Join(cs, ","), mon, missed
}

// gfRun is the `rc new gf …` arm of rcComp.Run.
func (c *rcComp) gfRun(args []string) string {
	sc, ok := gfParse(args[2], args[3])
	if !ok {
		return "bad-op"
	}
	if !sc.valid() {
		return "bad-scenario"
	}
	rcRunMu.Lock()
	defer rcRunMu.Unlock()
	if rcMisses >= 6 {
		return "skipped-after-6-hangs"
	}
	tr, ret, mon, missed := gfRunScenario(sc)
	if missed {
		rcMisses++
	}
	c.ret, c.mon = ret, mon
	return tr
}

// ---- generation ----

func gfLine(outs []byte, sched []int) []string {
	o := "-"
	if len(outs) > 0 {
		o = string(outs)
	}
	var f []string
	for _, t := range sched {
		if t == -1 {
			f = append(f, "x")
		} else {
			f = append(f, "r"+strconv.Itoa(t))
		}
	}
	s := "-"
	if len(f) > 0 {
		s = strings.Join(f, ".")
	}
	return []string{"new gf " + o + " " + s, "ret", "mon"}
}

// gfGen: 1..4 types with random outcomes, a random release order, a cancellation at a
// random point (always when some type blocks, otherwise sometimes).
func gfGen(r *rand.Rand) []string {
	n := 1 + r.Intn(4)
	if r.Intn(20) == 0 {
		n = 0
	}
	outs := make([]byte, n)
	hang := false
	var rel []int
	for i := range outs {
		outs[i] = "IIEEH"[r.Intn(5)]
		if outs[i] == 'H' {
			hang = true
		} else {
			rel = append(rel, i)
		}
	}
	r.Shuffle(len(rel), func(i, j int) { rel[i], rel[j] = rel[j], rel[i] })
	sched := rel
	if hang || r.Intn(3) == 0 {
		p := r.Intn(len(rel) + 1)
		sched = append(append(append([]int{}, rel[:p]...), -1), rel[p:]...)
	}
	return gfLine(outs, sched)
}

// gfExhaustive: every outcome vector up to 2 (thorough: 3) types, every release order,
// every position of the cancellation.
func gfExhaustive(tier string) [][]string {
	maxN := 2
	if tier == "thorough" {
		maxN = 3
	}
	var out [][]string
	var perms func(rest []int, acc []int, f func([]int))
	perms = func(rest []int, acc []int, f func([]int)) {
		if len(rest) == 0 {
			f(append([]int{}, acc...))
			return
		}
		for i := range rest {
			nr := append(append([]int{}, rest[:i]...), rest[i+1:]...)
			perms(nr, append(acc, rest[i]), f)
		}
	}
	for n := 0; n <= maxN; n++ {
		total := 1
		for i := 0; i < n; i++ {
			total *= 3
		}
		for code := 0; code < total; code++ {
			outs := make([]byte, n)
			hang := false
			var rel []int
			for i, c := 0, code; i < n; i, c = i+1, c/3 {
				outs[i] = "IEH"[c%3]
				if outs[i] == 'H' {
					hang = true
				} else {
					rel = append(rel, i)
				}
			}
			perms(rel, nil, func(p []int) {
				if !hang {
					out = append(out, gfLine(outs, p))
				}
				for x := 0; x <= len(p); x++ {
					s := append(append(append([]int{}, p[:x]...), -1), p[x:]...)
					out = append(out, gfLine(outs, s))
				}
			})
		}
	}
	return out
}
