package main

import (
	"bytes"
	"context"
	"errors"
	"flag"
	"fmt"
	"math/rand"
	"os"
	"runtime"
	"sort"
	"strconv"
	"strings"
	"sync"
	"time"

	"google.golang.org/grpc"
	"google.golang.org/grpc/connectivity"
	"google.golang.org/grpc/credentials/insecure"

	"github.com/openconfig/gnmi/connection"
)

// cn: connection.Manager (NewManagerCustom) with a scripted Dial function that
// returns real, lazily connecting *grpc.ClientConn values (never any network
// traffic: the connections stay idle). The op protocol is sequential, but each
// `req` runs Manager.Connection in its own goroutine and the manager's dial
// goroutines are real; after every op the harness waits for quiescence: every
// requester goroutine has returned or is blocked in the channel receive inside
// Connection, every dial goroutine has finished or is parked in the gate of the
// scripted Dial function (decided from runtime.Stack, so the observation does
// not depend on timing; the deadline is only a safety net and shows up as
// `!timeout`).
//
//	new
//	req <rid> <addr> <d|x> <g|c|ok|err> <0|1>   start Connection(ctx_rid, addr, dialer) in a goroutine;
//	                                            d = default dialer, x = unknown dialer name; the mode scripts the
//	                                            Dial invocation this request would create: g = park until `release`,
//	                                            c = park until `release` or ctx cancelled, ok / err = return at once;
//	                                            last flag: ctx already cancelled at the call
//	reqs <addr> <g|ok> <rid>...                 the same for several requesters released together (a real race)
//	release <dial#> ok|err                      let parked Dial invocation <dial#> return a connection / an error
//	cancel <rid>                                cancel the context of requester rid
//	done <rid>                                  call the done func returned to rid (again and again if asked)
//	dones <rid>...                              call these done funcs from concurrent goroutines
//	state
//	storm <seed> <goroutines> <iterations>      unscripted stress on a fresh manager: goroutines acquire and release
//	                                            connections to two addresses with dials that succeed or fail at once;
//	                                            only the model-independent monitors and the final table are observed
//	                                            (`ok M[] mon[]`: theorem all_released_all_closed)
//
// Observation (every op): `<ok|noop> D[addr=dial invocations] M[addr#ref of registered objects]
// R[rid:w | k<conn> | x<conn> | e.<class>] C[conn:open|shut] P[parked dials] mon[violated monitors]`
// where a conn is named by the Dial invocation that produced it, k = holds it, x = released it.
type cnComp struct {
	m *connection.Manager

	mu        sync.Mutex
	reqs      map[int]*cnReq
	order     []int
	dials     []*cnDial
	inflight  map[string]int
	dialCount map[string]int
	mon       map[string]bool
	started   int
	finished  int
	timedOut  bool
	never     chan string
}

type cnReq struct {
	id       int
	addr     string
	ctx      context.Context
	cancel   context.CancelFunc
	gid      string // goroutine id of the goroutine running Connection
	finished bool
	conn     *grpc.ClientConn
	done     func()
	err      error
	released bool
	panicked bool
}

type cnDial struct {
	no       int
	addr     string
	mode     string
	gate     chan string
	sent     bool
	conn     *grpc.ClientConn
	returned bool
}

type cnModeKey struct{}

var errCnDial = errors.New("scripted dial failure")

var cnDeadline = scaled(20 * time.Second)

func init() { components["cn"] = &cnComp{} }

// ---------------------------------------------------------------- scripted Dial

func (c *cnComp) dialFn(ctx context.Context, target string, opts ...grpc.DialOption) (*grpc.ClientConn, error) {
	mode, _ := ctx.Value(cnModeKey{}).(string)
	c.mu.Lock()
	d := &cnDial{no: len(c.dials), addr: target, mode: mode, gate: make(chan string, 1)}
	c.dials = append(c.dials, d)
	c.dialCount[target]++
	c.inflight[target]++
	if c.inflight[target] > 1 {
		c.mon["two-dials-in-flight"] = true // monitor: single flight per address
	}
	never := c.never
	c.mu.Unlock()

	var out string
	switch mode {
	case "ok", "err":
		out = mode
	case "c":
		select {
		case out = <-d.gate:
		case <-ctx.Done():
			out = "ctx"
		}
	default: // "g": deaf to the context
		select {
		case out = <-d.gate:
		case out = <-never:
		}
	}
	var cc *grpc.ClientConn
	var err error
	switch out {
	case "ok":
		cc, err = grpc.NewClient("passthrough:///"+target, grpc.WithTransportCredentials(insecure.NewCredentials()))
	case "ctx":
		err = ctx.Err()
	default:
		err = errCnDial
	}
	c.mu.Lock()
	d.conn = cc
	d.returned = true
	c.inflight[target]--
	c.mu.Unlock()
	return cc, err
}

// ---------------------------------------------------------------- quiescence

func cnGID() string {
	var b [64]byte
	n := runtime.Stack(b[:], false)
	f := strings.Fields(string(b[:n]))
	if len(f) >= 2 {
		return f[1]
	}
	return "?"
}

var cnStackBuf = make([]byte, 4<<20)

// settle waits until every goroutine of this manager is finished or blocked at a known point
// (two consecutive positive snapshots). The deadline is a safety net only: it needs both 20 s
// of wall time and thousands of polls, so that a stalled VM or a clock jump cannot fake it.
func (c *cnComp) settle() {
	if c.timedOut {
		return
	}
	deadline := time.Now().Add(cnDeadline)
	for i, good := 0, 0; ; i++ {
		if c.quiescent() {
			good++
			if good >= 2 {
				return
			}
			runtime.Gosched()
			continue
		}
		good = 0
		if i > 5000 && time.Now().After(deadline) {
			c.timedOut = true
			return
		}
		if i < 20 {
			runtime.Gosched()
		} else {
			time.Sleep(100 * time.Microsecond)
		}
	}
}

func (c *cnComp) quiescent() bool {
	c.mu.Lock()
	alive := map[string]bool{} // requester goroutines that have not returned
	mine := map[string]bool{}  // all requester goroutines of this manager
	pending := false
	for _, q := range c.reqs {
		if q.gid == "" {
			pending = true // spawned, has not run yet
			continue
		}
		mine[q.gid] = true
		if !q.finished {
			alive[q.gid] = true
		}
	}
	c.mu.Unlock()
	if pending {
		return false
	}
	n := runtime.Stack(cnStackBuf, true)
	for _, blk := range bytes.Split(cnStackBuf[:n], []byte("\n\n")) {
		s := string(blk)
		if !strings.HasPrefix(s, "goroutine ") {
			continue
		}
		hdr := s
		if i := strings.IndexByte(s, '\n'); i >= 0 {
			hdr = s[:i]
		}
		f := strings.Fields(hdr)
		if len(f) < 3 {
			continue
		}
		gid := f[1]
		state := strings.TrimPrefix(strings.Join(f[2:], " "), "[")
		if alive[gid] {
			// must be blocked in `<-c.ready`
			if !(strings.HasPrefix(state, "chan receive") && strings.Contains(s, "connection.(*Manager).Connection(")) {
				return false
			}
			delete(alive, gid)
			continue
		}
		// dial goroutines: created by Manager.Connection running in one of our requesters
		const cb = "created by github.com/openconfig/gnmi/connection.(*Manager).Connection in goroutine "
		if i := strings.Index(s, cb); i >= 0 {
			rest := strings.Fields(s[i+len(cb):])
			if len(rest) > 0 && mine[rest[0]] {
				if !(strings.HasPrefix(state, "select") && strings.Contains(s, "(*cnComp).dialFn(")) {
					return false
				}
			}
		}
	}
	// a requester that returned between the two snapshots is not in the dump any more: look again
	return len(alive) == 0
}

// ---------------------------------------------------------------- ops

func (c *cnComp) reset() {
	// drain the previous manager: fail every parked dial, release every holder
	if c.m != nil {
		c.mu.Lock()
		for _, d := range c.dials {
			if !d.returned && !d.sent {
				d.sent = true
				d.gate <- "err"
			}
		}
		c.mu.Unlock()
		c.timedOut = false
		c.settle()
		c.mu.Lock()
		var dn []func()
		for _, q := range c.reqs {
			if q.cancel != nil {
				q.cancel()
			}
			if q.finished && q.done != nil && !q.released {
				dn = append(dn, q.done)
			}
		}
		ds := c.dials
		c.mu.Unlock()
		for _, f := range dn {
			func() {
				defer func() { recover() }()
				f()
			}()
		}
		for _, d := range ds {
			if d.conn != nil {
				d.conn.Close()
			}
		}
	}
	c.reqs = map[int]*cnReq{}
	c.order = nil
	c.dials = nil
	c.inflight = map[string]int{}
	c.dialCount = map[string]int{}
	c.mon = map[string]bool{}
	c.started, c.finished = 0, 0
	c.timedOut = false
	c.never = make(chan string)
	m, err := connection.NewManagerCustom(map[string]connection.Dial{connection.DEFAULT: c.dialFn})
	if err != nil {
		panic(err)
	}
	c.m = m
}

func (c *cnComp) spawn(rid int, addr, dialer, mode string, pre bool, barrier chan struct{}) {
	ctx, cancel := context.WithCancel(context.WithValue(context.Background(), cnModeKey{}, mode))
	if pre {
		cancel()
	}
	q := &cnReq{id: rid, addr: addr, ctx: ctx, cancel: cancel}
	c.mu.Lock()
	c.reqs[rid] = q
	c.order = append(c.order, rid)
	c.started++
	c.mu.Unlock()
	name := connection.DEFAULT
	if dialer != "d" {
		name = "no-such-dialer"
	}
	go func() {
		gid := cnGID()
		c.mu.Lock()
		q.gid = gid
		c.mu.Unlock()
		if barrier != nil {
			<-barrier
		}
		var conn *grpc.ClientConn
		var done func()
		var err error
		panicked := false
		func() {
			defer func() {
				if r := recover(); r != nil {
					panicked = true
				}
			}()
			conn, done, err = c.m.Connection(ctx, addr, name)
		}()
		c.mu.Lock()
		q.conn, q.done, q.err, q.panicked = conn, done, err, panicked
		q.finished = true
		c.finished++
		c.mu.Unlock()
	}()
}

// expectation of the model-independent monitor for a request to addr (see checkReq)
type cnExpect struct {
	skip     bool
	fresh    bool
	dials    int
	heldConn *grpc.ClientConn
}

func (c *cnComp) expectReq(addr, dialer string, pre bool) cnExpect {
	c.mu.Lock()
	defer c.mu.Unlock()
	e := cnExpect{dials: c.dialCount[addr]}
	if pre || dialer != "d" {
		e.skip = true
		return e
	}
	busy := c.inflight[addr] > 0
	for _, q := range c.reqs {
		if q.addr != addr {
			continue
		}
		if !q.finished {
			busy = true
		} else if q.err == nil && !q.released && !q.panicked {
			busy = true
			e.heldConn = q.conn
		}
	}
	e.fresh = !busy
	return e
}

// monitor: a request to an address with neither a dial in flight nor a holder dials afresh
// (exactly one new Dial invocation); otherwise it shares (no new invocation) and, when a
// connection is held, is handed that very connection.
func (c *cnComp) checkReq(e cnExpect, addr string, rids []int) {
	if e.skip || c.timedOut {
		return
	}
	c.mu.Lock()
	defer c.mu.Unlock()
	got := c.dialCount[addr] - e.dials
	if e.fresh && got != 1 {
		c.mon["no-fresh-dial"] = true
	}
	if !e.fresh && got != 0 {
		c.mon["dial-not-shared"] = true
	}
	if e.heldConn != nil {
		for _, rid := range rids {
			q := c.reqs[rid]
			if !q.finished || q.err != nil || q.conn != e.heldConn {
				c.mon["held-conn-not-shared"] = true
			}
		}
	}
}

func (c *cnComp) callDone(q *cnReq) {
	defer func() {
		if r := recover(); r != nil {
			c.mu.Lock()
			q.panicked = true
			c.mu.Unlock()
		}
	}()
	q.done()
}

func (c *cnComp) doneable(rid int) *cnReq {
	c.mu.Lock()
	defer c.mu.Unlock()
	q, ok := c.reqs[rid]
	if !ok || !q.finished || q.done == nil {
		return nil
	}
	return q
}

func cnErrClass(err error) string {
	switch {
	case errors.Is(err, context.Canceled):
		return "ctx"
	case errors.Is(err, errCnDial):
		return "dial"
	}
	return "other"
}

func (c *cnComp) render(res string) string {
	ref := connection.VerifSnapshot(c.m)
	c.mu.Lock()
	defer c.mu.Unlock()
	connNo := map[*grpc.ClientConn]int{}
	for _, d := range c.dials {
		if d.conn != nil {
			connNo[d.conn] = d.no
		}
	}
	var D, M, R, C, P, mon []string
	for a, n := range c.dialCount {
		if n > 0 {
			D = append(D, encStr(a)+"="+strconv.Itoa(n))
		}
	}
	sort.Strings(D)
	for a, n := range ref {
		M = append(M, encStr(a)+"#"+strconv.Itoa(n))
	}
	sort.Strings(M)
	rids := append([]int(nil), c.order...)
	sort.Ints(rids)
	holders := map[*grpc.ClientConn]int{}
	for _, rid := range rids {
		q := c.reqs[rid]
		st := "w"
		switch {
		case q.panicked:
			st = "panic"
		case !q.finished:
		case q.err != nil:
			st = "e." + cnErrClass(q.err)
		default:
			name := "nil"
			if q.conn != nil {
				if n, ok := connNo[q.conn]; ok {
					name = strconv.Itoa(n)
				} else {
					name = "unknown"
				}
			}
			if q.released {
				st = "x" + name
			} else {
				st = "k" + name
				holders[q.conn]++
			}
		}
		R = append(R, strconv.Itoa(rid)+":"+st)
	}
	for _, d := range c.dials {
		if !d.returned {
			P = append(P, strconv.Itoa(d.no))
		}
		if d.conn == nil {
			continue
		}
		shut := d.conn.GetState() == connectivity.Shutdown
		if shut {
			C = append(C, strconv.Itoa(d.no)+":shut")
		} else {
			C = append(C, strconv.Itoa(d.no)+":open")
		}
		// monitors: never closed while held; closed once the last holder released it
		if shut && holders[d.conn] > 0 {
			c.mon["closed-while-held"] = true
		}
		if !shut && holders[d.conn] == 0 && !c.timedOut {
			c.mon["open-without-holder"] = true
		}
	}
	for k := range c.mon {
		mon = append(mon, k)
	}
	sort.Strings(mon)
	s := res + " D" + bracket(D) + " M" + bracket(M) + " R" + bracket(R) + " C" + bracket(C) + " P" + bracket(P)
	if c.timedOut {
		s += " !timeout"
	}
	return s + " mon" + bracket(mon)
}

func cnInts(l []string) ([]int, bool) {
	out := make([]int, len(l))
	for i, x := range l {
		n, err := strconv.Atoi(x)
		if err != nil || n < 0 {
			return nil, false
		}
		out[i] = n
	}
	return out, true
}

var cnDevNull *os.File

// cnQuiet keeps glog (connection.go logs every dial at INFO) from creating log files in the
// temp directory or flooding stderr while an op runs; runtime crash output is not affected.
func cnQuiet() func() {
	if cnDevNull == nil {
		flag.Set("logtostderr", "true")
		cnDevNull, _ = os.OpenFile(os.DevNull, os.O_WRONLY, 0)
	}
	if cnDevNull == nil {
		return func() {}
	}
	saved := os.Stderr
	os.Stderr = cnDevNull
	return func() { os.Stderr = saved }
}

func (c *cnComp) Run(args []string) string {
	defer cnQuiet()()
	return c.run(args)
}

func (c *cnComp) run(args []string) string {
	if len(args) == 0 {
		return "bad-op"
	}
	if args[0] == "new" && len(args) == 1 {
		c.reset()
		return c.render("ok")
	}
	if c.m == nil {
		c.reset()
	}
	switch {
	case args[0] == "state" && len(args) == 1:
		return c.render("ok")
	case args[0] == "req" && len(args) == 6:
		rids, ok := cnInts(args[1:2])
		if !ok || c.reqs[rids[0]] != nil {
			return "bad-op"
		}
		addr := decStr(args[2])
		e := c.expectReq(addr, args[3], args[5] == "1")
		c.spawn(rids[0], addr, args[3], args[4], args[5] == "1", nil)
		c.settle()
		c.checkReq(e, addr, rids)
		return c.render("ok")
	case args[0] == "reqs" && len(args) >= 3:
		rids, ok := cnInts(args[3:])
		seen := map[int]bool{}
		for _, r := range rids {
			if c.reqs[r] != nil || seen[r] {
				ok = false
			}
			seen[r] = true
		}
		if !ok {
			return "bad-op"
		}
		addr := decStr(args[1])
		e := c.expectReq(addr, "d", false)
		if len(rids) == 0 {
			e.skip = true
		}
		barrier := make(chan struct{})
		for _, r := range rids {
			c.spawn(r, addr, "d", args[2], false, barrier)
		}
		close(barrier)
		c.settle()
		c.checkReq(e, addr, rids)
		return c.render("ok")
	case args[0] == "cancel" && len(args) == 2:
		rids, ok := cnInts(args[1:])
		if !ok {
			return "bad-op"
		}
		q := c.reqs[rids[0]]
		if q == nil {
			return c.render("noop")
		}
		q.cancel()
		c.settle()
		return c.render("ok")
	case args[0] == "done" && len(args) == 2:
		rids, ok := cnInts(args[1:])
		if !ok {
			return "bad-op"
		}
		q := c.doneable(rids[0])
		if q == nil {
			return c.render("noop")
		}
		c.callDone(q)
		if q.err == nil {
			q.released = true
		}
		c.settle()
		return c.render("ok")
	case args[0] == "dones":
		rids, ok := cnInts(args[1:])
		if !ok {
			return "bad-op"
		}
		var wg sync.WaitGroup
		barrier := make(chan struct{})
		var qs []*cnReq
		for _, r := range rids {
			if q := c.doneable(r); q != nil {
				qs = append(qs, q)
				wg.Add(1)
				go func(q *cnReq) {
					defer wg.Done()
					<-barrier
					c.callDone(q)
				}(q)
			}
		}
		close(barrier)
		wg.Wait()
		for _, q := range qs {
			if q.err == nil {
				q.released = true
			}
		}
		c.settle()
		return c.render("ok")
	case args[0] == "storm" && len(args) == 4:
		v, ok := cnInts(args[1:])
		if !ok || v[1] > 64 || v[2] > 1000 {
			return "bad-op"
		}
		return cnStorm(int64(v[0]), v[1], v[2])
	case args[0] == "release" && len(args) == 3:
		ks, ok := cnInts(args[1:2])
		if !ok || (args[2] != "ok" && args[2] != "err") {
			return "bad-op"
		}
		c.mu.Lock()
		var d *cnDial
		if ks[0] < len(c.dials) {
			d = c.dials[ks[0]]
		}
		if d != nil && (d.returned || d.sent) {
			d = nil
		}
		if d != nil {
			d.sent = true
			d.gate <- args[2]
		}
		c.mu.Unlock()
		if d == nil {
			return c.render("noop")
		}
		c.settle()
		return c.render("ok")
	}
	return "bad-op"
}

// ---------------------------------------------------------------- storm

// cnStorm runs G goroutines × K acquire/release rounds against a fresh manager whose Dial
// function returns at once (ok or error). Nothing about the interleaving is controlled or
// observed; what is checked holds for every interleaving: one dial in flight per address,
// a held connection is never in Shutdown, and after the last release nothing is registered
// and every connection ever produced is in Shutdown.
func cnStorm(seed int64, G, K int) string {
	var mu sync.Mutex
	mon := map[string]bool{}
	flag := func(s string) { mu.Lock(); mon[s] = true; mu.Unlock() }
	inflight := map[string]int{}
	var conns []*grpc.ClientConn
	var ndial int64
	dial := func(ctx context.Context, target string, opts ...grpc.DialOption) (*grpc.ClientConn, error) {
		mu.Lock()
		inflight[target]++
		if inflight[target] > 1 {
			mon["two-dials-in-flight"] = true
		}
		ndial++
		x := uint64(seed)*0x9E3779B97F4A7C15 + uint64(ndial)*0xBF58476D1CE4E5B9
		mu.Unlock()
		x ^= x >> 29
		for i := uint64(0); i < x%4; i++ {
			runtime.Gosched()
		}
		var cc *grpc.ClientConn
		var err error
		switch {
		case x%7 == 0 && ctx.Err() != nil:
			err = ctx.Err()
		case x%5 < 2:
			err = errCnDial
		default:
			cc, err = grpc.NewClient("passthrough:///"+target, grpc.WithTransportCredentials(insecure.NewCredentials()))
		}
		mu.Lock()
		inflight[target]--
		if cc != nil {
			conns = append(conns, cc)
		}
		mu.Unlock()
		return cc, err
	}
	m, err := connection.NewManagerCustom(map[string]connection.Dial{connection.DEFAULT: dial})
	if err != nil {
		panic(err)
	}
	var wg sync.WaitGroup
	for g := 0; g < G; g++ {
		wg.Add(1)
		go func(g int) {
			defer wg.Done()
			defer func() {
				if r := recover(); r != nil {
					flag("panic")
				}
			}()
			r := rand.New(rand.NewSource(seed*1009 + int64(g)))
			for k := 0; k < K; k++ {
				addr := "a"
				if r.Intn(4) == 0 {
					addr = "b"
				}
				ctx, cancel := context.WithCancel(context.Background())
				if r.Intn(10) == 0 {
					cancel()
				}
				conn, done, err := m.Connection(ctx, addr, connection.DEFAULT)
				if err == nil {
					if conn == nil {
						flag("nil-conn")
					} else {
						for i := r.Intn(4); i >= 0; i-- {
							if conn.GetState() == connectivity.Shutdown {
								flag("closed-while-held")
							}
							runtime.Gosched()
						}
					}
				} else if conn != nil {
					flag("conn-with-error")
				}
				done()
				if r.Intn(3) == 0 {
					done()
				}
				cancel()
			}
		}(g)
	}
	fin := make(chan struct{})
	go func() { wg.Wait(); close(fin) }()
	timeout := ""
	select {
	case <-fin:
	case <-time.After(30 * time.Second):
		timeout = " !timeout"
	}
	var M, ms []string
	for a, n := range connection.VerifSnapshot(m) {
		M = append(M, encStr(a)+"#"+strconv.Itoa(n))
	}
	sort.Strings(M)
	mu.Lock()
	if timeout == "" {
		for _, cc := range conns {
			if cc.GetState() != connectivity.Shutdown {
				mon["open-without-holder"] = true
				cc.Close()
			}
		}
	}
	for k := range mon {
		ms = append(ms, k)
	}
	mu.Unlock()
	sort.Strings(ms)
	return "ok M" + bracket(M) + timeout + " mon" + bracket(ms)
}

// ---------------------------------------------------------------- generation

// cnSim is a rough sequential picture of the manager used only to pick mostly valid operations.
type cnSim struct {
	nextRid, nextDial int
	addr              map[string]*cnSimAddr
	stat              map[int]string // w k x e
	raddr             map[int]string
}

type cnSimAddr struct {
	dialNo  int
	mode    string
	creator int
	waiters []int
	open    bool
	holders map[int]bool
}

func newCnSim() *cnSim {
	return &cnSim{addr: map[string]*cnSimAddr{}, stat: map[int]string{}, raddr: map[int]string{}}
}

func (s *cnSim) req(addr, dialer, mode string, pre bool) int {
	rid := s.nextRid
	s.nextRid++
	s.raddr[rid] = addr
	if pre {
		s.stat[rid] = "e"
		return rid
	}
	a := s.addr[addr]
	switch {
	case a == nil:
		if dialer != "d" {
			s.stat[rid] = "e"
			return rid
		}
		no := s.nextDial
		s.nextDial++
		switch mode {
		case "ok":
			s.addr[addr] = &cnSimAddr{dialNo: no, open: true, holders: map[int]bool{rid: true}}
			s.stat[rid] = "k"
		case "err":
			s.stat[rid] = "e"
		default:
			s.addr[addr] = &cnSimAddr{dialNo: no, mode: mode, creator: rid, waiters: []int{rid}}
			s.stat[rid] = "w"
		}
	case a.open:
		a.holders[rid] = true
		s.stat[rid] = "k"
	default:
		a.waiters = append(a.waiters, rid)
		s.stat[rid] = "w"
	}
	return rid
}

func (s *cnSim) finish(addr string, ok bool) {
	a := s.addr[addr]
	if ok {
		a.open = true
		a.holders = map[int]bool{}
		for _, r := range a.waiters {
			a.holders[r] = true
			s.stat[r] = "k"
		}
		a.waiters = nil
		return
	}
	for _, r := range a.waiters {
		s.stat[r] = "e"
	}
	delete(s.addr, addr)
}

func (s *cnSim) release(k int, ok bool) {
	for addr, a := range s.addr {
		if !a.open && a.dialNo == k {
			s.finish(addr, ok)
			return
		}
	}
}

func (s *cnSim) cancel(rid int) {
	for addr, a := range s.addr {
		if !a.open && a.mode == "c" && a.creator == rid {
			s.finish(addr, false)
			return
		}
	}
}

func (s *cnSim) done(rid int) {
	if s.stat[rid] != "k" {
		return
	}
	s.stat[rid] = "x"
	a := s.addr[s.raddr[rid]]
	delete(a.holders, rid)
	if len(a.holders) == 0 {
		delete(s.addr, s.raddr[rid])
	}
}

func (s *cnSim) pendingDials() []int {
	var out []int
	for _, a := range s.addr {
		if !a.open {
			out = append(out, a.dialNo)
		}
	}
	sort.Ints(out)
	return out
}

func (s *cnSim) ridsWith(st string) []int {
	var out []int
	for r := 0; r < s.nextRid; r++ {
		if s.stat[r] == st {
			out = append(out, r)
		}
	}
	return out
}

func cnPickAddr(r *rand.Rand) string {
	switch x := r.Intn(10); {
	case x < 6:
		return "a"
	case x < 9:
		return "b"
	}
	return "c"
}

func cnPickMode(r *rand.Rand) string {
	switch x := r.Intn(100); {
	case x < 40:
		return "g"
	case x < 65:
		return "c"
	case x < 85:
		return "ok"
	}
	return "err"
}

func cnB(b bool) string {
	if b {
		return "1"
	}
	return "0"
}

func (c *cnComp) Gen(r *rand.Rand, tier string) []string {
	if r.Intn(40) == 0 {
		return []string{"new", fmt.Sprintf("storm %d %d %d", r.Intn(1000000), 2+r.Intn(7), 5+r.Intn(30))}
	}
	n := 5 + r.Intn(36)
	seq := []string{"new"}
	s := newCnSim()
	pick := func(l []int) (int, bool) {
		if len(l) == 0 {
			return 0, false
		}
		return l[r.Intn(len(l))], true
	}
	anyRid := func() int { return r.Intn(s.nextRid + 1) }
	for i := 0; i < n; i++ {
		switch x := r.Intn(100); {
		case x < 34:
			addr, mode := cnPickAddr(r), cnPickMode(r)
			dialer := "d"
			if r.Intn(16) == 0 {
				dialer = "x"
			}
			pre := r.Intn(16) == 0
			rid := s.req(addr, dialer, mode, pre)
			seq = append(seq, fmt.Sprintf("req %d %s %s %s %s", rid, addr, dialer, mode, cnB(pre)))
		case x < 55:
			k, ok := pick(s.pendingDials())
			if !ok || r.Intn(10) == 0 {
				k = r.Intn(s.nextDial + 1)
			}
			res := r.Intn(100) < 65
			s.release(k, res)
			if res {
				seq = append(seq, fmt.Sprintf("release %d ok", k))
			} else {
				seq = append(seq, fmt.Sprintf("release %d err", k))
			}
		case x < 63:
			rid := anyRid()
			var creators []int
			for _, a := range s.addr {
				if !a.open && a.mode == "c" {
					creators = append(creators, a.creator)
				}
			}
			sort.Ints(creators)
			if k, ok := pick(creators); ok && r.Intn(3) != 0 {
				rid = k
			} else if k, ok := pick(s.ridsWith("w")); ok && r.Intn(2) == 0 {
				rid = k
			}
			s.cancel(rid)
			seq = append(seq, fmt.Sprintf("cancel %d", rid))
		case x < 90:
			rid := anyRid()
			switch y := r.Intn(100); {
			case y < 60:
				if k, ok := pick(s.ridsWith("k")); ok {
					rid = k
				}
			case y < 75:
				if k, ok := pick(s.ridsWith("x")); ok {
					rid = k
				}
			case y < 85:
				if k, ok := pick(s.ridsWith("e")); ok {
					rid = k
				}
			case y < 95:
				if k, ok := pick(s.ridsWith("w")); ok {
					rid = k
				}
			}
			s.done(rid)
			seq = append(seq, fmt.Sprintf("done %d", rid))
			if r.Intn(8) == 0 { // release twice in a row
				seq = append(seq, fmt.Sprintf("done %d", rid))
			}
		case x < 94:
			hs := s.ridsWith("k")
			var l []string
			for j := 2 + r.Intn(3); j > 0; j-- {
				rid := anyRid()
				if k, ok := pick(hs); ok && r.Intn(5) != 0 {
					rid = k
				}
				l = append(l, strconv.Itoa(rid))
			}
			for _, x := range l {
				k, _ := strconv.Atoi(x)
				s.done(k)
			}
			seq = append(seq, "dones "+strings.Join(l, " "))
		case x < 98:
			addr := cnPickAddr(r)
			mode := "g"
			if r.Intn(3) == 0 {
				mode = "ok"
			}
			var l []string
			for j := 2 + r.Intn(3); j > 0; j-- {
				l = append(l, strconv.Itoa(s.req(addr, "d", mode, false)))
			}
			seq = append(seq, fmt.Sprintf("reqs %s %s %s", addr, mode, strings.Join(l, " ")))
		default:
			seq = append(seq, "state")
		}
	}
	seq = append(seq, "state")
	return seq
}

// Exhaustive: every sequence of length <= L over a small alphabet (one busy address and a
// second one, two gated dial modes, the first dials and requesters).
func (c *cnComp) Exhaustive(tier string) [][]string {
	L := 4
	if tier == "thorough" {
		L = 5
	}
	type tmpl struct {
		req  bool
		text string
	}
	alphabet := []tmpl{
		{true, "a d g 0"}, {true, "a d c 0"}, {true, "b d ok 0"},
		{false, "release 0 ok"}, {false, "release 0 err"}, {false, "release 1 ok"}, {false, "release 1 err"},
		{false, "done 0"}, {false, "done 1"}, {false, "done 2"},
		{false, "cancel 0"}, {false, "cancel 1"},
	}
	var out [][]string
	var rec func(cur []string, rid int)
	rec = func(cur []string, rid int) {
		if len(cur)-1 >= L { // prefixes are covered: every op is observed
			out = append(out, append([]string(nil), cur...))
			return
		}
		for _, t := range alphabet {
			if t.req {
				rec(append(cur, fmt.Sprintf("req %d %s", rid, t.text)), rid+1)
			} else {
				rec(append(cur, t.text), rid)
			}
		}
	}
	rec([]string{"new"}, 0)
	return out
}
