package main

// mg readd <k> <held>: the lock discipline of Manager.Remove against a concurrent Add of the same name.
//
// A target streams k updates; the callback of its last message (held = U: the Update callback,
// S: a Sync callback after the updates) is held.  While it is held, Remove(name) is started from
// another goroutine (it cancels the target and waits for the session to end) and then, once the
// stream's context is seen cancelled, Add(name) is started from a third goroutine.  The callback is
// released; both calls must return; the re-added target runs a second session, which is removed.
// The whole callback trace of the name must be accepted by the session discipline automaton
// (mgAccepts): in particular the second incarnation's Connect comes after the Reset that ends the
// first session — Add cannot take effect while Remove is still winding the old session down.
//
// Self-contained (its own bufconn server and collaborators); the observation is the monitors'
// verdict only: `acc=<0|1> done=<0|1>`.

import (
	"context"
	"net"
	"strconv"
	"sync"
	"time"

	"google.golang.org/grpc"
	"google.golang.org/grpc/credentials/insecure"
	"google.golang.org/grpc/test/bufconn"

	"github.com/openconfig/gnmi/manager"
	gpb "github.com/openconfig/gnmi/proto/gnmi"
	tpb "github.com/openconfig/gnmi/proto/target"
)

type mgRaceServer struct {
	gpb.UnimplementedGNMIServer
	k         int
	sync      bool
	mu        sync.Mutex
	cancelled []chan struct{} // per stream, closed when its context ends
}

func (s *mgRaceServer) Subscribe(stream gpb.GNMI_SubscribeServer) error {
	if _, err := stream.Recv(); err != nil {
		return err
	}
	done := make(chan struct{})
	s.mu.Lock()
	s.cancelled = append(s.cancelled, done)
	s.mu.Unlock()
	defer close(done)
	for j := 0; j < s.k; j++ {
		if err := stream.Send(mgResponse('u', j)); err != nil {
			return err
		}
	}
	if s.sync {
		if err := stream.Send(mgResponse('s', s.k)); err != nil {
			return err
		}
	}
	<-stream.Context().Done()
	return stream.Context().Err()
}

type mgRaceConns struct{ lis *bufconn.Listener }

func (c *mgRaceConns) Connection(ctx context.Context, addr, dialer string) (*grpc.ClientConn, func(), error) {
	conn, err := grpc.DialContext(ctx, "bufnet",
		grpc.WithContextDialer(func(ctx context.Context, _ string) (net.Conn, error) { return c.lis.DialContext(ctx) }),
		grpc.WithTransportCredentials(insecure.NewCredentials()), grpc.WithBlock())
	if err != nil {
		return nil, func() {}, err
	}
	return conn, func() { conn.Close() }, nil
}

func mgReaddRace(k int, heldKind byte) string {
	if k < 1 {
		k = 1
	}
	lis := bufconn.Listen(1 << 16)
	srvImpl := &mgRaceServer{k: k, sync: heldKind == 'S'}
	srv := grpc.NewServer()
	gpb.RegisterGNMIServer(srv, srvImpl)
	go srv.Serve(lis)
	defer srv.Stop()

	acct := &mgAcct{} // every connection acquired by the manager is released once both incarnations are removed
	var mu sync.Mutex
	var evs []string
	rec := func(s string) { mu.Lock(); evs = append(evs, s); mu.Unlock() }
	hold, reached := make(chan struct{}), make(chan struct{})
	var once sync.Once
	maybeHold := func() {
		first := false
		once.Do(func() { first = true })
		if first {
			close(reached)
			<-hold
		}
	}
	reached2 := make(chan struct{})
	var once2 sync.Once
	sessions := 0
	oldBase, oldMax := manager.RetryBaseDelay, manager.RetryMaxDelay
	manager.RetryBaseDelay, manager.RetryMaxDelay = time.Millisecond, 2*time.Millisecond
	defer func() { manager.RetryBaseDelay, manager.RetryMaxDelay = oldBase, oldMax }()
	m, err := manager.NewManager(manager.Config{
		Connect: func(string) { mu.Lock(); sessions++; mu.Unlock(); rec("C") },
		Reset:   func(string) { rec("R") },
		Sync: func(string) {
			rec("S")
			if heldKind == 'S' {
				maybeHold()
			}
		},
		ConnectError: func(string, error) { rec("E") },
		MonitorError: func(string, error) { rec("M") },
		Update: func(_ string, n *gpb.Notification) {
			rec("U" + strconv.FormatInt(n.GetTimestamp(), 10))
			mu.Lock()
			second := sessions >= 2
			mu.Unlock()
			if second && int(n.GetTimestamp()) == k-1 {
				once2.Do(func() { close(reached2) })
			}
			if heldKind == 'U' && int(n.GetTimestamp()) == k-1 {
				maybeHold()
			}
		},
		ConnectionManager: &mgAcctCM{inner: &mgRaceConns{lis: lis}, acct: acct},
	})
	if err != nil {
		return "err-new"
	}
	tgt := &tpb.Target{Addresses: []string{"race-address:1"}}
	wait := func(ch <-chan struct{}, d time.Duration) bool {
		select {
		case <-ch:
			return true
		case <-time.After(scaled(d)):
			return false
		}
	}
	done := true
	if m.Add("t0", tgt, mgRequest()) != nil {
		return "err-add"
	}
	if !wait(reached, 3*time.Second) {
		close(hold)
		m.Remove("t0")
		return "acc=1 done=0"
	}
	rmDone, addDone := make(chan struct{}), make(chan struct{})
	go func() { m.Remove("t0"); close(rmDone) }()
	// Remove has cancelled the target once the first stream's context is done
	srvImpl.mu.Lock()
	c0 := srvImpl.cancelled[0]
	srvImpl.mu.Unlock()
	wait(c0, time.Second)
	var addErr error
	go func() { addErr = m.Add("t0", tgt, mgRequest()); close(addDone) }()
	wait(addDone, 8*time.Millisecond) // it must not take effect yet; give a wrong one the time to
	time.Sleep(scaled(8 * time.Millisecond))
	close(hold)
	done = wait(rmDone, 3*time.Second) && wait(addDone, 3*time.Second)
	if done && addErr == nil {
		wait(reached2, 2*time.Second)
	}
	m.Remove("t0")
	time.Sleep(scaled(5 * time.Millisecond))
	mu.Lock()
	trace := mgStripEM(append([]string(nil), evs...))
	mu.Unlock()
	acc := "1"
	// connection errors between sessions (E, M) are legal only outside a session: mgAccepts knows
	if !mgAccepts(trace) {
		acc = "0"
	}
	d := "1"
	if !done {
		d = "0"
	}
	_, leak, twice, _ := acct.counts("")
	return "acc=" + acc + " done=" + d + " leak=" + strconv.Itoa(leak) + " twice=" + strconv.Itoa(twice)
}
