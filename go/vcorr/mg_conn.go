package main

// mg, connection side (property C16 as seen from manager/manager.go).
//
// Manager.createConn / monitor acquire a connection through ConnectionManager.Connection and must
// call the returned done exactly as the contract of connection.Manager demands: once the handle is
// unused, on every exit path of monitor (stream error, Remove, Reconnect, receive timeout, a
// cancellation that arrived while the dial was in flight).  mgAcct is the ledger the harness keeps
// of that: one entry per SUCCESSFUL Connection return, with the number of times its done was called.
// It sits in front of whatever ConnectionManager a scenario uses: the harness's scripted one
// (`run`), the real connection.Manager with a scripted Dial (`runc`), or the ones of mg_race.go /
// mg_pace.go.
//
// Reported at quiescence (every Remove of the scenario has returned, so every monitor goroutine has
// run its deferred calls):
//
//   acq   = successful acquisitions made for the target   (compared with the model's ghost counter)
//   leak  = handles whose done was never called            (must be 0)
//   twice = handles whose done was called more than once   (harmless for connection.Manager, whose
//           done is once-guarded, but the manager never does it: must be 0)
//   uad   = streams opened by a target on a connection of which it held no unreleased handle at
//           that moment (use after done; must be 0)
//
// `runc` scenarios add, for the real connection.Manager:  cm = entries still registered in its table
// (pkg_connection/zz_verif_export.go: VerifSnapshot), open = connections its Dial handed out that are
// not in state Shutdown.  Both must be 0 once all targets are removed.

import (
	"context"
	"sync"
	"sync/atomic"

	"google.golang.org/grpc"
	"google.golang.org/grpc/metadata"

	"github.com/openconfig/gnmi/manager"
)

type mgHandle struct {
	target string
	conn   *grpc.ClientConn
	dones  int32
}

type mgAcct struct {
	mu      sync.Mutex
	handles []*mgHandle
	uad     map[string]int
}

// mgTargetOf: the target a manager call is made for (gRPCMeta puts the name into the outgoing metadata).
func mgTargetOf(ctx context.Context) string {
	md, _ := metadata.FromOutgoingContext(ctx)
	if names := md.Get(manager.Target); len(names) == 1 {
		return names[0]
	}
	return ""
}

// acquire records a successful Connection return and wraps its done.
func (a *mgAcct) acquire(target string, conn *grpc.ClientConn, done func()) func() {
	h := &mgHandle{target: target, conn: conn}
	a.mu.Lock()
	a.handles = append(a.handles, h)
	a.mu.Unlock()
	return func() {
		atomic.AddInt32(&h.dones, 1)
		done()
	}
}

// streamOpened is called (from the client-side stream interceptor) when `target` opens a stream on conn.
func (a *mgAcct) streamOpened(target string, conn *grpc.ClientConn) {
	a.mu.Lock()
	defer a.mu.Unlock()
	for _, h := range a.handles {
		if h.conn == conn && h.target == target && atomic.LoadInt32(&h.dones) == 0 {
			return
		}
	}
	if a.uad == nil {
		a.uad = map[string]int{}
	}
	a.uad[target]++
}

// counts of one target ("" = all targets).
func (a *mgAcct) counts(target string) (acq, leak, twice, uad int) {
	a.mu.Lock()
	defer a.mu.Unlock()
	for _, h := range a.handles {
		if target != "" && h.target != target {
			continue
		}
		acq++
		switch d := atomic.LoadInt32(&h.dones); {
		case d == 0:
			leak++
		case d > 1:
			twice++
		}
	}
	for t, n := range a.uad {
		if target == "" || t == target {
			uad += n
		}
	}
	return
}

// mgAcctCM puts the ledger in front of any ConnectionManager.
type mgAcctCM struct {
	inner manager.ConnectionManager
	acct  *mgAcct
}

func (w *mgAcctCM) Connection(ctx context.Context, addr, dialer string) (*grpc.ClientConn, func(), error) {
	conn, done, err := w.inner.Connection(ctx, addr, dialer)
	if err != nil {
		return conn, done, err
	}
	return conn, w.acct.acquire(mgTargetOf(ctx), conn, done), nil
}
