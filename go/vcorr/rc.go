package main

// rc: client.Reconnect over BaseClient / CacheClient (and the two unwrapped
// clients) driven with a scripted transport.  One op line = one scenario:
//
//	rc new <mode> <qtype> <script> <inj>
//
//	mode    rb | rc   client.Reconnect over BaseClient | CacheClient
//	        b  | c    BaseClient | CacheClient alone
//	qtype   s | p     Stream | Poll query
//	script  attempts joined by ','; an attempt is
//	          X            the registered InitImpl fails (no Impl)
//	          Y            Impl created, Impl.Subscribe fails (BaseClient closes it)
//	          m.m. … .T    messages then a terminal, joined by '.'
//	        message  u<k>d<j> one SubscribeResponse_Update with k updates, j deletes
//	                 s        SyncResponse          r   Error response (Recv fails)
//	        terminal E stream error | F io.EOF | B block until closed / cancelled
//	        attempts past the end of the script connect and block (B)
//	inj     where Close (or, with prefix x, cancellation of the caller's context,
//	        followed by Close once Subscribe has returned) is injected:
//	          pre          before Subscribe is called
//	          conn:a       while attempt a is inside InitImpl
//	          msg:a:i:e    while attempt a is inside its (i+1)-th Recv; the parked
//	                       Recv fails once released (by Close or cancellation)
//	          msg:a:i:bN   same, but the parked Recv waits for Impl.Close and then
//	                       N already buffered messages are handed out before the error
//	          disc:a       from inside the disconnect callback ending attempt a
//	          rst:a        from inside the reset callback preceding attempt a (a>=1)
//	          bo:a         during the backoff sleep after attempt a (timer based)
//	          end          after Subscribe returned by itself (modes b, c)
//	          jit:n        ungated: n x 100us after Subscribe was called (modes rb, rc).  Where
//	                       Close lands is up to the scheduler, so the trace and the class of
//	                       Close are not compared (printed as *); the scenario is judged by
//	                       the monitors and by sub=canceled.  This is the search through the
//	                       racy windows (initDone/first Subscribe, callback/ctx check, sleep).
//
// The transport is the repository's own gNMI client (client/gnmi: Subscribe,
// Recv, defaultRecv with its Connected-once flag) on top of a scripted
// gpb.GNMI_SubscribeClient; it is registered with client.RegisterTest.  The
// scripted stream enforces the hypothesis of C18 on an Impl: InitImpl,
// Subscribe and Recv return once the context is cancelled or Close was called.
//
// One scenario is three op lines: `new …` answers tr=<callback trace>, `ret`
// answers sub=<class> close=<class>, `mon` answers the monitor verdicts (ok, or
// the failed monitors joined by +).
// Trace alphabet: c Connected, u Update, d Delete, s Sync, e Error (handler
// calls), / disconnect callback, ^ reset callback, ! the injection.  For bo the
// part after ! is inherently racy (Close may land before the ctx check) and is
// checked against the two legal tails by the monitor and printed as ~.

import (
	"net"
	"context"
	"errors"
	"flag"
	"fmt"
	"io"
	"math/rand"
	"os"
	"regexp"
	"runtime"
	"strconv"
	"strings"
	"sync"
	"time"

	"github.com/openconfig/gnmi/client"
	gclient "github.com/openconfig/gnmi/client/gnmi"
	gpb "github.com/openconfig/gnmi/proto/gnmi"
	"google.golang.org/grpc"
)

type rcComp struct {
	ret, mon string // of the last scenario
}

func init() { components["rc"] = &rcComp{} }

// every scenario registers its own transport name so that goroutines abandoned
// by an earlier (hung) scenario can never reach a later scenario's world
var rcScenarioNo int

// ---- scenario syntax ----

type rcMsg struct {
	kind byte // 'u', 's', 'r'
	k, j int
}

type rcAttempt struct {
	conn byte // 'X', 'Y' or 'o' (connects)
	msgs []rcMsg
	term byte // 'E', 'F', 'B'
}

type rcInj struct {
	failClose bool // f prefix: the transport's Impl.Close returns an error (it still closes the stream)
	double bool   // 2 prefix: once the injected Close is inside the wrapped client's Close, Close is called again
	cancel bool   // x prefix
	hang   bool   // h prefix (conn only): the connect of that attempt is the real gnmi transport's dial
	              // (client/gnmi.New) to a listener that accepts TCP and never answers
	kind   string // pre conn msg disc rst bo end
	a, i   int
	beh    byte // 'e' or 'b'
	n      int
}

type rcScenario struct {
	mode   string
	poll   bool
	script []rcAttempt
	inj    rcInj
}

func (s *rcScenario) reconnect() bool { return s.mode == "rb" || s.mode == "rc" }

func rcParseAttempt(t string) (rcAttempt, bool) {
	switch t {
	case "X":
		return rcAttempt{conn: 'X'}, true
	case "Y":
		return rcAttempt{conn: 'Y'}, true
	}
	f := strings.Split(t, ".")
	a := rcAttempt{conn: 'o'}
	for n, x := range f {
		if n == len(f)-1 {
			if x != "E" && x != "F" && x != "B" {
				return a, false
			}
			a.term = x[0]
			break
		}
		switch {
		case x == "s":
			a.msgs = append(a.msgs, rcMsg{kind: 's'})
		case x == "r":
			a.msgs = append(a.msgs, rcMsg{kind: 'r'})
		case strings.HasPrefix(x, "u"):
			kd := strings.Split(x[1:], "d")
			if len(kd) != 2 {
				return a, false
			}
			k, e1 := strconv.Atoi(kd[0])
			j, e2 := strconv.Atoi(kd[1])
			if e1 != nil || e2 != nil || k < 0 || j < 0 {
				return a, false
			}
			a.msgs = append(a.msgs, rcMsg{kind: 'u', k: k, j: j})
		default:
			return a, false
		}
	}
	return a, true
}

func rcParse(args []string) (*rcScenario, bool) {
	if len(args) != 5 || args[0] != "new" {
		return nil, false
	}
	s := &rcScenario{mode: args[1]}
	switch s.mode {
	case "rb", "rc", "b", "c":
	default:
		return nil, false
	}
	switch args[2] {
	case "s":
	case "p":
		s.poll = true
	default:
		return nil, false
	}
	if args[3] != "-" {
		for _, t := range strings.Split(args[3], ",") {
			a, ok := rcParseAttempt(t)
			if !ok {
				return nil, false
			}
			s.script = append(s.script, a)
		}
	}
	in := args[4]
	if strings.HasPrefix(in, "f") {
		s.inj.failClose = true
		in = in[1:]
	}
	if strings.HasPrefix(in, "2") {
		s.inj.double = true
		in = in[1:]
	}
	if strings.HasPrefix(in, "x") {
		s.inj.cancel = true
		in = in[1:]
	}
	if strings.HasPrefix(in, "hconn:") {
		s.inj.hang = true
		in = in[1:]
	}
	f := strings.Split(in, ":")
	s.inj.kind = f[0]
	num := func(i int) (int, bool) {
		if i >= len(f) {
			return 0, false
		}
		v, err := strconv.Atoi(f[i])
		return v, err == nil && v >= 0
	}
	var ok bool
	switch f[0] {
	case "pre", "end":
		ok = len(f) == 1
	case "conn", "disc", "rst", "bo", "jit":
		s.inj.a, ok = num(1)
		ok = ok && len(f) == 2
	case "msg":
		var ok1, ok2 bool
		s.inj.a, ok1 = num(1)
		s.inj.i, ok2 = num(2)
		ok = ok1 && ok2 && len(f) == 4 && len(f[3]) >= 1
		if ok {
			switch {
			case f[3] == "e":
				s.inj.beh = 'e'
			case f[3][0] == 'b':
				s.inj.beh = 'b'
				n, err := strconv.Atoi(f[3][1:])
				ok = err == nil && n >= 0
				s.inj.n = n
			default:
				ok = false
			}
		}
	}
	if !ok {
		return nil, false
	}
	return s, true
}

func (s *rcScenario) attempt(a int) rcAttempt {
	if a < len(s.script) {
		return s.script[a]
	}
	return rcAttempt{conn: 'o', term: 'B'}
}

// deliverable returns how many messages of the attempt are handed to the
// client before the attempt ends by itself, and whether it ends by itself.
func (s *rcScenario) deliverable(at rcAttempt) (int, bool) {
	if at.conn != 'o' {
		return 0, true
	}
	for i, m := range at.msgs {
		if m.kind == 'r' || (m.kind == 's' && s.poll) {
			return i, true // message i itself is received; nothing after it
		}
	}
	return len(at.msgs), at.term != 'B'
}

// valid: the injection point is reached on the unchanged code (no attempt
// before it blocks) -- mirrors the model's `bad-scenario` answer.
func (s *rcScenario) valid() bool {
	in := s.inj
	rec := s.reconnect()
	endsBefore := func(n int) bool { // attempts 0..n-1 end by themselves
		for a := 0; a < n; a++ {
			if _, e := s.deliverable(s.attempt(a)); !e {
				return false
			}
		}
		return true
	}
	if !rec {
		// a single attempt
		if in.cancel && (in.kind == "pre" || in.kind == "end") {
			return false
		}
		switch in.kind {
		case "pre", "end":
			return endsBefore(1)
		case "conn":
			return in.cancel && in.a == 0
		case "msg":
			if in.a != 0 || (in.cancel && in.beh != 'e') {
				return false
			}
		default:
			return false
		}
	}
	switch in.kind {
	case "jit":
		return rec
	case "pre":
		return !in.cancel || rec
	case "end":
		return !rec
	case "conn":
		return endsBefore(in.a)
	case "msg":
		if in.cancel && in.beh != 'e' {
			return false
		}
		at := s.attempt(in.a)
		if at.conn != 'o' || !endsBefore(in.a) {
			return false
		}
		n, ends := s.deliverable(at)
		if ends && n < len(at.msgs) {
			// attempt ends while receiving message n: gates 0..n are reachable
			return in.i <= n
		}
		return in.i <= n
	case "disc", "bo":
		return endsBefore(in.a + 1)
	case "rst":
		return in.a >= 1 && endsBefore(in.a)
	}
	return false
}

// ---- the scripted world ----

type rcEvent struct {
	kind byte
	seq  int
}

type rcWorld struct {
	sc *rcScenario

	mu       sync.Mutex
	log      []rcEvent
	attempts int   // InitImpl calls so far
	discs    int   // disconnect callbacks so far
	resets   int   // reset callbacks so far
	emitted  []int // sequence numbers handed out by the streams, in order
	seen     []int // sequence numbers seen by the handler, in order
	nextSeq  int

	atInj      chan struct{} // closed when the injection point is reached
	atInjOnce  sync.Once
	innerClose chan struct{} // closed when the wrapped client's Close has been entered
	icOnce     sync.Once
	abandon    chan struct{} // closed when the harness gives up (deadline)
	abOnce     sync.Once
}

func (w *rcWorld) ev(k byte) {
	w.mu.Lock()
	w.log = append(w.log, rcEvent{kind: k})
	w.mu.Unlock()
}

func (w *rcWorld) reached() { w.atInjOnce.Do(func() { close(w.atInj) }) }

var errRcConnect = errors.New("scripted connect failure")
var errRcStream = errors.New("scripted stream failure")
var errRcClosed = errors.New("scripted transport closed")

// rcImpl is the repository's gNMI transport client with a Close that does not
// need a grpc.ClientConn.
type rcImpl struct {
	*gclient.Client
	st *rcStream
}

var errRcImplClose = errors.New("scripted: transport close failed")

func (i *rcImpl) Close() error {
	i.st.closeOnce.Do(func() { close(i.st.closed) })
	if i.st.w.sc.inj.failClose {
		return errRcImplClose
	}
	return nil
}

// rcStream is the scripted gpb.GNMIClient and its single Subscribe stream.
type rcStream struct {
	grpc.ClientStream // nil; only the methods below are used by client/gnmi
	w                 *rcWorld
	a                 int
	at                rcAttempt
	ctx               context.Context
	closed            chan struct{}
	closeOnce         sync.Once
	n                 int // messages handed out
	gated             bool
	buffered          int
}

func (s *rcStream) Capabilities(context.Context, *gpb.CapabilityRequest, ...grpc.CallOption) (*gpb.CapabilityResponse, error) {
	return nil, errRcStream
}
func (s *rcStream) Get(context.Context, *gpb.GetRequest, ...grpc.CallOption) (*gpb.GetResponse, error) {
	return nil, errRcStream
}
func (s *rcStream) Set(context.Context, *gpb.SetRequest, ...grpc.CallOption) (*gpb.SetResponse, error) {
	return nil, errRcStream
}

func (s *rcStream) Subscribe(ctx context.Context, _ ...grpc.CallOption) (gpb.GNMI_SubscribeClient, error) {
	if s.at.conn == 'Y' {
		return nil, errRcConnect
	}
	if ctx.Err() != nil {
		return nil, ctx.Err()
	}
	s.ctx = ctx
	s.w.ev('[')
	return s, nil
}

func (s *rcStream) Send(*gpb.SubscribeRequest) error { return nil }
func (s *rcStream) CloseSend() error                 { return nil }
func (s *rcStream) Context() context.Context         { return s.ctx }

func (s *rcStream) message(m rcMsg) *gpb.SubscribeResponse {
	w := s.w
	switch m.kind {
	case 's':
		return &gpb.SubscribeResponse{Response: &gpb.SubscribeResponse_SyncResponse{SyncResponse: true}}
	case 'r':
		return &gpb.SubscribeResponse{Response: &gpb.SubscribeResponse_Error{Error: &gpb.Error{Message: "scripted"}}}
	}
	w.mu.Lock()
	defer w.mu.Unlock()
	n := &gpb.Notification{Timestamp: int64(w.nextSeq + 1)}
	elem := func(kind string) *gpb.Path {
		q := w.nextSeq
		w.nextSeq++
		w.emitted = append(w.emitted, q)
		return &gpb.Path{Elem: []*gpb.PathElem{{Name: kind}, {Name: strconv.Itoa(q)}}}
	}
	for x := 0; x < m.k; x++ {
		n.Update = append(n.Update, &gpb.Update{Path: elem("u"),
			Val: &gpb.TypedValue{Value: &gpb.TypedValue_IntVal{IntVal: int64(x)}}})
	}
	for x := 0; x < m.j; x++ {
		n.Delete = append(n.Delete, elem("d"))
	}
	return &gpb.SubscribeResponse{Response: &gpb.SubscribeResponse_Update{Update: n}}
}

func (s *rcStream) Recv() (*gpb.SubscribeResponse, error) {
	w, in := s.w, s.w.sc.inj
	if in.kind == "msg" && in.a == s.a && in.i == s.n && !s.gated {
		s.gated = true
		w.reached()
		if in.beh == 'e' {
			select {
			case <-s.closed:
			case <-s.ctx.Done():
			case <-w.abandon:
			}
			return nil, errRcClosed
		}
		select {
		case <-s.closed:
		case <-w.abandon:
		}
		s.buffered = in.n
	}
	if s.gated {
		if s.buffered > 0 {
			s.buffered--
			w.ev('m')
			return s.message(rcMsg{kind: 'u', k: 1}), nil
		}
		return nil, errRcClosed
	}
	// the hypothesis of C18 on an Impl: no progress once cancelled or closed
	select {
	case <-s.closed:
		return nil, errRcClosed
	case <-s.ctx.Done():
		return nil, s.ctx.Err()
	case <-w.abandon:
		return nil, errRcClosed
	default:
	}
	if s.n < len(s.at.msgs) {
		m := s.at.msgs[s.n]
		s.n++
		w.ev('m')
		return s.message(m), nil
	}
	switch s.at.term {
	case 'E':
		return nil, errRcStream
	case 'F':
		return nil, io.EOF
	}
	select {
	case <-s.closed:
	case <-s.ctx.Done():
	case <-w.abandon:
	}
	return nil, errRcClosed
}

func (w *rcWorld) initImpl(ctx context.Context, _ client.Destination) (client.Impl, error) {
	w.mu.Lock()
	a := w.attempts
	w.attempts++
	w.mu.Unlock()
	in := w.sc.inj
	if in.kind == "conn" && in.a == a && in.hang {
		// The real transport: a blocking gRPC dial to an address that accepts the TCP connection and
		// then says nothing.  The injection point is reached once the listener has accepted; Close or the
		// caller's cancellation must end the dial (it is bounded by the Subscribe context, not only by the
		// destination's timeout, which is far beyond the scenario's deadline).
		ln, err := net.Listen("tcp", "127.0.0.1:0")
		if err != nil {
			return nil, errRcConnect
		}
		go func() {
			var held []net.Conn
			defer func() {
				for _, c := range held {
					c.Close()
				}
			}()
			for {
				c, err := ln.Accept()
				if err != nil {
					return
				}
				held = append(held, c)
				w.reached()
			}
		}()
		impl, err := gclient.New(ctx, client.Destination{Addrs: []string{ln.Addr().String()}, Timeout: 30 * time.Second})
		ln.Close()
		if err == nil {
			impl.Close()
		}
		return nil, errRcClosed
	}
	if in.kind == "conn" && in.a == a {
		w.reached()
		select {
		case <-ctx.Done():
		case <-w.abandon:
		}
		return nil, errRcClosed
	}
	select {
	case <-ctx.Done():
		return nil, ctx.Err() // a dial with a cancelled context fails
	case <-w.abandon:
		return nil, errRcClosed
	default:
	}
	at := w.sc.attempt(a)
	if at.conn == 'X' {
		return nil, errRcConnect
	}
	st := &rcStream{w: w, a: a, at: at, closed: make(chan struct{})}
	return &rcImpl{Client: gclient.VerifNewScripted(st), st: st}, nil
}

func (w *rcWorld) handler(n client.Notification) error {
	k := byte('?')
	seq := -1
	switch v := n.(type) {
	case client.Connected:
		k = 'c'
	case client.Sync:
		k = 's'
	case client.Error:
		k = 'e'
	case client.Update:
		k = 'u'
		if len(v.Path) == 2 {
			seq, _ = strconv.Atoi(v.Path[1])
		}
	case client.Delete:
		k = 'd'
		if len(v.Path) == 2 {
			seq, _ = strconv.Atoi(v.Path[1])
		}
	}
	w.mu.Lock()
	w.log = append(w.log, rcEvent{kind: k, seq: seq})
	if k == 'u' || k == 'd' {
		w.seen = append(w.seen, seq)
	}
	w.mu.Unlock()
	return nil
}

// rcProbe wraps the client handed to Reconnect: it records when the inner
// Subscribe starts and returns and when the inner Close is entered.
type rcProbe struct {
	client.Client
	w *rcWorld
}

func (p *rcProbe) Subscribe(ctx context.Context, q client.Query, t ...string) error {
	p.w.ev('(')
	err := p.Client.Subscribe(ctx, q, t...)
	p.w.ev(')')
	return err
}

func (p *rcProbe) Close() error {
	p.w.icOnce.Do(func() { close(p.w.innerClose) })
	return p.Client.Close()
}

// ---- running one scenario ----

var rcRunMu sync.Mutex // scenarios share package-level variables of package client
var rcMisses int

func rcClass(err error) string {
	switch {
	case err == nil:
		return "nil"
	case errors.Is(err, context.Canceled):
		return "canceled"
	case err == client.ErrClientInit:
		return "init"
	}
	return "err"
}

func rcEps() time.Duration {
	if v, err := strconv.Atoi(os.Getenv("VERIF_RC_EPS_MS")); err == nil && v > 0 {
		return time.Duration(v) * time.Millisecond
	}
	if rcMisses >= 1 {
		return 250 * time.Millisecond
	}
	return 1250 * time.Millisecond
}

// Run: `new …` runs one scenario and answers its callback trace; the two
// follow-up queries `ret` and `mon` answer the return classes and the monitor
// verdicts of that scenario.
func (c *rcComp) Run(args []string) string {
	if len(args) == 1 && args[0] == "ret" {
		return c.ret
	}
	if len(args) == 1 && args[0] == "mon" {
		return c.mon
	}
	c.ret, c.mon = "-", "-"
	if len(args) == 6 && args[0] == "new" && args[1] == "poll" {
		return c.pollRun(args) // Close while Poll calls are in flight (rc_poll.go)
	}
	if (len(args) == 3 || len(args) == 4) && args[0] == "new" && args[1] == "pxr" {
		return c.pxrRun(args) // a Poll in flight across a second Subscribe, then Close (rc_pxr.go)
	}
	if len(args) == 2 && args[0] == "new" && args[1] == "rs2" {
		return c.rs2Run() // a second Subscribe on one ReconnectClient after a cancelled first one, then Close (rc_rs2.go)
	}
	if len(args) == 4 && args[0] == "new" && args[1] == "gf" {
		return c.gfRun(args) // client.NewImpl = getFirst over several client types (rc_gf.go)
	}
	sc, ok := rcParse(args)
	if !ok {
		return "bad-op"
	}
	if !sc.valid() {
		return "bad-scenario"
	}
	rcRunMu.Lock()
	defer rcRunMu.Unlock()
	if rcMisses >= 6 {
		// the code under test hangs; do not spend a deadline on every remaining scenario
		return "skipped-after-6-hangs"
	}
	tr, ret, mon, missed := rcRunScenario(sc)
	if missed && rcMisses == 0 {
		// A deadline miss is a failing schedule.  To tell a hang of the code under
		// test from a stall of the machine, the first missing scenario of a process
		// is run once more: a hang caused by the code (every seeded mutant) repeats.
		// Every miss is written to stderr with all goroutine stacks.
		fmt.Fprintf(os.Stderr, "rc: deadline missed (%s %s) in: %s; re-running once\n", ret, mon, strings.Join(args, " "))
		tr2, ret2, mon2, missed2 := rcRunScenario(sc)
		if !missed2 {
			fmt.Fprintf(os.Stderr, "rc: second run terminated: %s %s %s\n", tr2, ret2, mon2)
			rcFlakes++
			if p := os.Getenv("VERIF_RC_FLAKELOG"); p != "" {
				if f, err := os.OpenFile(p, os.O_APPEND|os.O_CREATE|os.O_WRONLY, 0o644); err == nil {
					fmt.Fprintf(f, "%s | first run: %s %s %s | second run: %s %s %s\n", strings.Join(args, " "), tr, ret, mon, tr2, ret2, mon2)
					f.Close()
				}
			}
		}
		tr, ret, mon, missed = tr2, ret2, mon2, missed2
	}
	if missed {
		rcMisses++
	}
	c.ret, c.mon = ret, mon
	return tr
}

var rcFlakes int

var rcQuiet sync.Once

var (
	rcBetween    = regexp.MustCompile(`^(\^[cudse]*/)*$`)
	rcMidAttempt = regexp.MustCompile(`^(\^[cudse]*/)*\^[cudse]*$`)
	rcTailIdle   = regexp.MustCompile(`^(\^[cudse]*/)?$`)
	rcTailMid    = regexp.MustCompile(`^[cudse]*/$`)
)

func rcRunScenario(sc *rcScenario) (trObs, retObs, monObs string, missed bool) {
	in := sc.inj
	rcQuiet.Do(func() { // glog: no files in $TMPDIR; the retry loop logs every attempt
		flag.Set("logtostderr", "true")
	})
	w := &rcWorld{sc: sc, atInj: make(chan struct{}), innerClose: make(chan struct{}), abandon: make(chan struct{})}
	rcScenarioNo++
	rcType := fmt.Sprintf("verif-rc-%d", rcScenarioNo)
	client.RegisterTest(rcType, w.initImpl)

	if in.kind == "bo" {
		client.RetryBaseDelay, client.RetryMaxDelay = 80*time.Millisecond, 80*time.Millisecond
	} else {
		client.RetryBaseDelay, client.RetryMaxDelay = 2*time.Millisecond, 4*time.Millisecond
	}
	client.RetryRandomization = 0.5
	deadline := 3 * client.RetryMaxDelay / 2
	if deadline < 750*time.Millisecond {
		deadline = 750 * time.Millisecond
	}
	deadline += rcEps()

	var inner client.Client
	switch sc.mode {
	case "rb", "b":
		inner = &client.BaseClient{}
	default:
		inner = client.New()
	}
	probe := &rcProbe{Client: inner, w: w}

	parent, cancelParent := context.WithCancel(context.Background())
	defer cancelParent()

	var top client.Client = probe
	closeDone := make(chan struct{})
	var closeErr error
	var closeStarted sync.Once
	close2Done := make(chan struct{})
	if !in.double || in.cancel {
		close(close2Done)
	}
	doClose := func() { // asynchronous Close of the top-level client
		closeStarted.Do(func() {
			go func() {
				closeErr = top.Close()
				w.ev('$')
				close(closeDone)
			}()
			if in.double && !in.cancel {
				// a second Close (another goroutine of the caller) once the first one is inside the
				// wrapped client's Close: it makes the same promises — when it returns, Subscribe has
				// returned and nothing more is delivered
				go func() {
					select {
					case <-w.innerClose:
					case <-w.abandon:
					}
					top.Close()
					w.ev('$')
					close(close2Done)
				}()
			}
		})
	}
	// inject from inside a callback (runs on the Subscribe goroutine)
	injectHere := func() {
		w.ev('!')
		if in.cancel {
			cancelParent()
			return
		}
		doClose()
		select { // until ReconnectClient.Close has left its critical section
		case <-w.innerClose:
		case <-w.abandon:
		}
	}
	disconnect := func() {
		w.mu.Lock()
		k := w.discs
		w.discs++
		w.log = append(w.log, rcEvent{kind: '/'})
		w.mu.Unlock()
		if in.kind == "disc" && in.a == k {
			injectHere()
		}
		if in.kind == "bo" && in.a == k {
			w.reached()
		}
	}
	reset := func() {
		w.mu.Lock()
		w.resets++
		k := w.resets
		w.log = append(w.log, rcEvent{kind: '^'})
		w.mu.Unlock()
		if in.kind == "rst" && in.a == k {
			injectHere()
		}
	}
	if sc.reconnect() {
		top = client.VerifReconnect(probe, disconnect, reset)
	}

	q := client.Query{Addrs: []string{"scripted"}, Queries: []client.Path{{"a"}}, Type: client.Stream,
		NotificationHandler: w.handler}
	if sc.poll {
		q.Type = client.Poll
	}
	subDone := make(chan struct{})
	var subErr error
	startSub := func() {
		go func() {
			subErr = top.Subscribe(parent, q, rcType)
			close(subDone)
		}()
	}
	timer := time.NewTimer(deadline)
	defer timer.Stop()
	hung := false
	wait := func(ch <-chan struct{}) bool {
		if hung {
			return false
		}
		select {
		case <-ch:
			return true
		case <-timer.C:
			hung = true
			return false
		}
	}

	switch in.kind {
	case "pre":
		w.ev('!')
		if in.cancel {
			cancelParent()
		} else {
			doClose()
			wait(closeDone)
		}
		startSub()
	case "end":
		startSub()
		wait(subDone)
		w.ev('!')
		doClose()
	case "disc", "rst":
		startSub() // injected from the callback
	case "jit":
		startSub()
		time.Sleep(time.Duration(in.a) * 100 * time.Microsecond)
		w.ev('!')
		if in.cancel {
			cancelParent()
		} else {
			doClose()
		}
	default: // conn, msg, bo: a parked (or sleeping) Subscribe goroutine signals the point
		startSub()
		reachedOrDone := make(chan struct{})
		go func() {
			select {
			case <-w.atInj:
			case <-subDone:
			}
			close(reachedOrDone)
		}()
		if wait(reachedOrDone) {
			if in.kind == "bo" {
				d := 10 * time.Millisecond
				if v, err := strconv.Atoi(os.Getenv("VERIF_RC_BO_DELAY_MS")); err == nil { // test knob
					d = time.Duration(v) * time.Millisecond
				}
				time.Sleep(d)
			}
			w.ev('!')
			if in.cancel {
				cancelParent()
			} else {
				doClose()
			}
		}
	}
	subOK := wait(subDone)
	if subOK && in.cancel {
		doClose() // release the resources; not an injection
	}
	closeOK := false
	if subOK || !in.cancel {
		doClose()
		closeOK = wait(closeDone) && wait(close2Done)
	}
	if !subOK || !closeOK {
		missed = true
		buf := make([]byte, 1<<20)
		fmt.Fprintf(os.Stderr, "=== rc: deadline missed; goroutines:\n%s\n", buf[:runtime.Stack(buf, true)])
		w.abOnce.Do(func() { close(w.abandon) })
		cancelParent()
		// give the abandoned goroutines a moment so that their late events do
		// not bleed into the next scenario's world (they hold their own world)
	}

	// ---- observation ----
	w.mu.Lock()
	log := append([]rcEvent(nil), w.log...)
	emitted := append([]int(nil), w.emitted...)
	seen := append([]int(nil), w.seen...)
	w.mu.Unlock()

	var tr strings.Builder
	for _, e := range log {
		switch e.kind {
		case 'c', 'u', 'd', 's', 'e', '/', '^', '!', '?':
			tr.WriteByte(e.kind)
		}
	}
	trace := tr.String()
	var bad []string
	if !subOK || !closeOK {
		bad = append(bad, "deadline")
	}
	if in.kind == "bo" {
		// Compared textually: everything up to the disconnect callback ending attempt a.
		// The rest depends on when the (timer driven) Close lands relative to the ctx
		// check / the end of the sleep and is judged against the legal continuations:
		// Close before the loop is back in an attempt: nothing, or the pending sleep runs
		// out (reset, an attempt that ends at once, disconnect); Close arriving late, in
		// the middle of a later attempt: that attempt ends, disconnect, no further reset.
		n, cut := 0, -1
		for i := 0; i < len(trace); i++ {
			if trace[i] == '/' {
				if n == in.a {
					cut = i
					break
				}
				n++
			}
		}
		if p := strings.IndexByte(trace, '!'); cut >= 0 && p > cut {
			pre, post := trace[cut+1:p], trace[p+1:]
			ok := false
			switch {
			case rcBetween.MatchString(pre):
				ok = rcTailIdle.MatchString(post)
			case rcMidAttempt.MatchString(pre):
				ok = rcTailMid.MatchString(post)
			}
			if ok {
				trace = trace[:cut+1] + "!~"
			} else {
				bad = append(bad, "backoff-tail")
			}
		}
	}
	bad = append(bad, rcMonitors(sc, log, emitted, seen, subOK && closeOK)...)
	sub, cl := "hang", "hang"
	if subOK {
		sub = rcClass(subErr)
	}
	if closeOK {
		cl = rcClass(closeErr)
	}
	mon := "ok"
	if len(bad) > 0 {
		mon = strings.Join(bad, "+")
	}
	if in.kind == "jit" && subOK && closeOK && len(bad) == 0 {
		trace, cl = "*", "*"
	}
	if trace == "" {
		trace = "-"
	}
	if len(trace) > 120 { // a loop that no longer stops
		trace = fmt.Sprintf("%s...(%d)", trace[:120], len(trace))
	}
	return "tr=" + trace, fmt.Sprintf("sub=%s close=%s", sub, cl), mon, missed
}

// rcMonitors evaluates the trace-level clauses of C18 on the recorded events.
func rcMonitors(sc *rcScenario, log []rcEvent, emitted, seen []int, terminated bool) []string {
	var bad []string
	add := func(s string) {
		for _, b := range bad {
			if b == s {
				return
			}
		}
		bad = append(bad, s)
	}
	// connected-first / connected-once per stream ('[' opens a stream)
	inStream, first := false, true
	for _, e := range log {
		switch e.kind {
		case '[':
			inStream, first = true, true
		case 'c':
			if !inStream || !first {
				add("connfirst")
			}
			first = false
		case 'u', 'd', 's', 'e':
			if !inStream || first {
				add("connfirst")
			}
		}
	}
	// order: the handler sees exactly the emitted leaves, in emission order
	if len(seen) > len(emitted) {
		add("order")
	} else {
		for i := range seen {
			if seen[i] != emitted[i] {
				add("order")
				break
			}
		}
		if terminated && len(seen) != len(emitted) {
			add("order")
		}
	}
	// after Close returned: reconnect => silence; plain => at most one more message.
	// (A Close that returned before Subscribe was even called -- pre -- promises nothing
	// about that later call: BaseClient.Subscribe re-arms the client.)
	after, msgs, lateDisc := false, 0, false
	for _, e := range log {
		switch e.kind {
		case '$':
			after = sc.inj.kind != "pre"
		case 'm':
			if after {
				msgs++
			}
		case 'c', 'u', 'd', 's', 'e', '/', '^':
			if after && sc.reconnect() {
				// An ungated Close may have run entirely before initDone (then it does not
				// wait, like pre); Subscribe then starts with a cancelled context: with this
				// transport nothing but the one disconnect callback can follow.
				if sc.inj.kind == "jit" && e.kind == '/' && !lateDisc {
					lateDisc = true
				} else {
					add("afterclose")
				}
			}
		}
	}
	if msgs > 1 || (msgs > 0 && sc.reconnect()) {
		add("afterclose")
	}
	// after Close was *called* while a Recv is parked: at most one further message
	if sc.inj.kind == "msg" && !sc.inj.cancel {
		called, n := false, 0
		for _, e := range log {
			if e.kind == '!' {
				called = true
			} else if e.kind == 'm' && called {
				n++
			}
		}
		if n > 1 {
			add("afterclose")
		}
	}
	// disconnect exactly once right after every ended inner Subscribe; reset
	// exactly once right before every retry
	if sc.reconnect() {
		var cb []byte
		for _, e := range log {
			switch e.kind {
			case '(', ')', '/', '^':
				cb = append(cb, e.kind)
			}
		}
		s := string(cb)
		// expected language: ( ) /  ( ^ ( ) / )*   with a possibly unfinished tail when hung
		i, firstAttempt := 0, true
		okDisc, okReset := true, true
		for i < len(s) {
			if !firstAttempt {
				if s[i] != '^' {
					okReset = false
					break
				}
				i++
				if i >= len(s) {
					break
				}
			}
			firstAttempt = false
			if s[i] != '(' {
				if s[i] == '^' {
					okReset = false
				} else {
					okDisc = false
				}
				break
			}
			i++
			if i >= len(s) {
				break
			}
			if s[i] != ')' {
				okDisc = false
				break
			}
			i++
			if i >= len(s) {
				if terminated {
					okDisc = false
				}
				break
			}
			if s[i] != '/' {
				okDisc = false
				break
			}
			i++
		}
		if !okDisc {
			add("disc")
		}
		if !okReset {
			add("reset")
		}
	}
	return bad
}

// ---- generation ----

func rcGenAttempt(r *rand.Rand, poll bool, mustEnd bool) string {
	switch x := r.Intn(10); {
	case x == 0:
		return "X"
	case x == 1:
		return "Y"
	}
	var f []string
	n := r.Intn(4)
	for i := 0; i < n; i++ {
		switch y := r.Intn(10); {
		case y < 6:
			f = append(f, fmt.Sprintf("u%dd%d", r.Intn(4), r.Intn(3)))
		case y < 9:
			f = append(f, "s")
		default:
			f = append(f, "r")
		}
	}
	t := "EFB"[r.Intn(3)]
	if mustEnd && t == 'B' {
		t = "EF"[r.Intn(2)]
	}
	f = append(f, string(t))
	return strings.Join(f, ".")
}

func (c *rcComp) Gen(r *rand.Rand, tier string) []string {
	if r.Intn(12) == 0 {
		return gfGen(r) // getFirst over several client types (rc_gf.go)
	}
	if r.Intn(10) == 0 {
		return rpGen(r) // Close while Poll calls are in flight (rc_poll.go)
	}
	if r.Intn(25) == 0 {
		return []string{"new pxr " + strconv.Itoa(1+r.Intn(30)) + []string{"", " mid", " mid", " before", " none", " after"}[r.Intn(6)], "ret", "mon"} // rc_pxr.go
	}
	for {
		mode := []string{"rb", "rb", "rb", "rc", "rc", "b", "c"}[r.Intn(7)]
		rec := mode == "rb" || mode == "rc"
		qt := "s"
		if r.Intn(4) == 0 {
			qt = "p"
		}
		na := 1 + r.Intn(3)
		if !rec {
			na = 1
		}
		var at []string
		for i := 0; i < na; i++ {
			at = append(at, rcGenAttempt(r, qt == "p", i < na-1 || r.Intn(3) != 0))
		}
		var inj string
		x := ""
		if r.Intn(4) == 0 {
			x = "x"
		}
		a := r.Intn(na + 1)
		if r.Intn(3) != 0 {
			a = r.Intn(na)
		}
		beh := "e"
		if x == "" && r.Intn(2) == 0 {
			beh = fmt.Sprintf("b%d", r.Intn(4))
		}
		if rec {
			switch k := r.Intn(24); {
			case k >= 20:
				inj = fmt.Sprintf("%sjit:%d", x, r.Intn(70))
			case k < 2:
				inj = x + "pre"
			case k < 5:
				inj = fmt.Sprintf("%sconn:%d", x, a)
				if r.Intn(3) == 0 {
					inj = fmt.Sprintf("%shconn:%d", x, a) // the real transport's dial, to a peer that never answers
				}
			case k < 12:
				inj = fmt.Sprintf("%smsg:%d:%d:%s", x, a, r.Intn(4), beh)
				if x == "" && r.Intn(4) == 0 {
					inj = "f" + inj // the transport's Close reports an error
				}
			case k < 15:
				inj = fmt.Sprintf("%sdisc:%d", x, a)
				if x == "" && r.Intn(3) == 0 {
					inj = "2" + inj
				}
			case k < 18:
				inj = fmt.Sprintf("%srst:%d", x, a+1)
				if x == "" && r.Intn(3) == 0 {
					inj = "2" + inj
				}
			default:
				inj = fmt.Sprintf("bo:%d", a)
				if tier != "thorough" && r.Intn(2) != 0 {
					inj = fmt.Sprintf("%sdisc:%d", x, a)
				}
			}
		} else {
			switch k := r.Intn(10); {
			case k < 1:
				inj = "pre"
			case k < 3:
				inj = "end"
			case k < 4:
				inj = "xconn:0"
			default:
				inj = fmt.Sprintf("%smsg:0:%d:%s", x, r.Intn(4), beh)
			}
		}
		line := []string{"new", mode, qt, strings.Join(at, ","), inj}
		if sc, ok := rcParse(line); ok && sc.valid() {
			return []string{strings.Join(line, " "), "ret", "mon"}
		}
	}
}

// Exhaustive: every injection point of a few fixed scripts (small scope).
func (c *rcComp) Exhaustive(tier string) [][]string {
	scripts := []string{"u1d0.E", "X,u1d1.s.F", "s.u2d0.r.E,Y,u0d1.E", "-"}
	if tier == "thorough" {
		scripts = append(scripts, "u1d0.s.F,u1d0.E,X", "F,F", "u3d2.u1d0.E")
	}
	var out [][]string
	for _, mode := range []string{"rb", "rc", "b", "c"} {
		for _, qt := range []string{"s", "p"} {
			for _, s := range scripts {
				var injs []string
				for _, x := range []string{"", "x"} {
					injs = append(injs, x+"pre", x+"end")
					for a := 0; a < 4; a++ {
						injs = append(injs, fmt.Sprintf("%sconn:%d", x, a), fmt.Sprintf("%sdisc:%d", x, a),
							fmt.Sprintf("%srst:%d", x, a))
						for i := 0; i < 4; i++ {
							injs = append(injs, fmt.Sprintf("%smsg:%d:%d:e", x, a, i))
							if x == "" {
								injs = append(injs, fmt.Sprintf("msg:%d:%d:b0", a, i), fmt.Sprintf("msg:%d:%d:b1", a, i),
									fmt.Sprintf("msg:%d:%d:b3", a, i))
							}
						}
					}
				}
				if tier == "thorough" {
					injs = append(injs, "bo:0", "bo:1")
				}
				for _, in := range injs {
					line := []string{"new", mode, qt, s, in}
					if sc, ok := rcParse(line); ok && sc.valid() {
						out = append(out, []string{strings.Join(line, " "), "ret", "mon"})
					}
				}
			}
		}
	}
	out = append(out, gfExhaustive(tier)...) // getFirst over several client types (rc_gf.go)
	out = append(out, rpExhaustive(tier)...) // Close while Poll calls are in flight (rc_poll.go)
	out = append(out, []string{"new rs2", "ret", "mon"})
	for _, k := range []int{1, 2, 3, 6, 17} { // a Poll in flight across a second Subscribe, then Close (rc_pxr.go)
		out = append(out, []string{"new pxr " + strconv.Itoa(k), "ret", "mon"})
		for _, w := range []string{"mid", "before", "none", "after"} {
			out = append(out, []string{"new pxr " + strconv.Itoa(k) + " " + w, "ret", "mon"})
		}
	}
	return out
}
