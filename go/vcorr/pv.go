package main

// pv: path indexing (path.ToStrings / path.CompletePath), the client query ->
// SubscribeRequest path conversion (client/gnmi.ToSubscribeRequest, which runs
// pathToString + ygot.StringToPath) and value conversion / equality
// (value.FromScalar / ToScalar / Equal).  Property C19.
//
// Token syntax: see lean/Driver/PV.lean.  The Go side parses each token into
// the real protobuf objects, calls the real functions and renders the result
// back from the protobuf objects it got.

import (
	"fmt"
	"math"
	"math/rand"
	"reflect"
	"sort"
	"strconv"
	"strings"
	"unicode/utf8"

	"github.com/openconfig/gnmi/client"
	gnmiclient "github.com/openconfig/gnmi/client/gnmi"
	"github.com/openconfig/gnmi/path"
	gpb "github.com/openconfig/gnmi/proto/gnmi"
	"github.com/openconfig/gnmi/value"
	"google.golang.org/protobuf/proto"
	"google.golang.org/protobuf/types/known/anypb"
)

type pvComp struct{}

func init() { components["pv"] = &pvComp{} }

// ---------------------------------------------------------------- codecs

func pvParseElem(s string) *gpb.PathElem {
	if s == "!" {
		return nil
	}
	f := strings.Split(s, ",")
	e := &gpb.PathElem{Name: decStr(f[0])}
	if len(f) > 1 {
		e.Key = map[string]string{}
		for _, kv := range f[1:] {
			x := strings.SplitN(kv, "=", 2)
			if len(x) != 2 {
				continue
			}
			e.Key[decStr(x[0])] = decStr(x[1])
		}
	}
	return e
}

func pvParseGPath(s string) *gpb.Path {
	if s == "N" {
		return nil
	}
	f := strings.Split(s, ";")
	if len(f) != 5 {
		return &gpb.Path{}
	}
	p := &gpb.Path{Target: decStr(f[1]), Origin: decStr(f[2])}
	if f[3] != "." {
		for _, e := range strings.Split(f[3], "/")[1:] {
			p.Elem = append(p.Elem, pvParseElem(e))
		}
	}
	p.Element = decPath(f[4])
	return p
}

func pvRenderGPath(p *gpb.Path) string {
	if p == nil {
		return "N"
	}
	var sb strings.Builder
	sb.WriteString("P;" + encStr(p.GetTarget()) + ";" + encStr(p.GetOrigin()) + ";")
	if len(p.GetElem()) == 0 {
		sb.WriteString(".")
	}
	for _, e := range p.GetElem() {
		sb.WriteString("/" + encStr(e.GetName()))
		ks := make([]string, 0, len(e.GetKey()))
		for k := range e.GetKey() {
			ks = append(ks, k)
		}
		sort.Strings(ks)
		for _, k := range ks {
			sb.WriteString("," + encStr(k) + "=" + encStr(e.GetKey()[k]))
		}
	}
	sb.WriteString(";" + encPath(p.GetElement()))
	return sb.String()
}

// splitTop splits a comma separated list at parenthesis depth 0.
func pvSplitTop(s string) []string {
	if s == "" {
		return nil
	}
	var out []string
	depth, start := 0, 0
	for i := 0; i < len(s); i++ {
		switch s[i] {
		case '(':
			depth++
		case ')':
			depth--
		case ',':
			if depth == 0 {
				out = append(out, s[start:i])
				start = i + 1
			}
		}
	}
	return append(out, s[start:])
}

func pvHex(s string) uint64 {
	v, _ := strconv.ParseUint(s, 16, 64)
	return v
}

func pvParseTV(s string) *gpb.TypedValue {
	switch {
	case s == "N":
		return nil
	case s == "U":
		return &gpb.TypedValue{}
	case s == "m!":
		return &gpb.TypedValue{Value: &gpb.TypedValue_DecimalVal{}}
	case s == "l!":
		return &gpb.TypedValue{Value: &gpb.TypedValue_LeaflistVal{}}
	case strings.HasPrefix(s, "l("):
		sa := &gpb.ScalarArray{}
		for _, e := range pvSplitTop(s[2 : len(s)-1]) {
			sa.Element = append(sa.Element, pvParseTV(e))
		}
		return &gpb.TypedValue{Value: &gpb.TypedValue_LeaflistVal{LeaflistVal: sa}}
	}
	if len(s) < 2 || s[1] != ':' {
		return &gpb.TypedValue{}
	}
	r := s[2:]
	switch s[0] {
	case 's':
		return &gpb.TypedValue{Value: &gpb.TypedValue_StringVal{StringVal: decStr(r)}}
	case 'i':
		v, _ := strconv.ParseInt(r, 10, 64)
		return &gpb.TypedValue{Value: &gpb.TypedValue_IntVal{IntVal: v}}
	case 'u':
		v, _ := strconv.ParseUint(r, 10, 64)
		return &gpb.TypedValue{Value: &gpb.TypedValue_UintVal{UintVal: v}}
	case 'b':
		return &gpb.TypedValue{Value: &gpb.TypedValue_BoolVal{BoolVal: r == "1"}}
	case 'y':
		return &gpb.TypedValue{Value: &gpb.TypedValue_BytesVal{BytesVal: []byte(decStr(r))}}
	case 'f':
		return &gpb.TypedValue{Value: &gpb.TypedValue_FloatVal{FloatVal: math.Float32frombits(uint32(pvHex(r)))}}
	case 'd':
		return &gpb.TypedValue{Value: &gpb.TypedValue_DoubleVal{DoubleVal: math.Float64frombits(pvHex(r))}}
	case 'm':
		f := strings.Split(r, ":")
		d, _ := strconv.ParseInt(f[0], 10, 64)
		p, _ := strconv.ParseUint(f[1], 10, 32)
		return &gpb.TypedValue{Value: &gpb.TypedValue_DecimalVal{DecimalVal: &gpb.Decimal64{Digits: d, Precision: uint32(p)}}}
	case 'a':
		return &gpb.TypedValue{Value: &gpb.TypedValue_AnyVal{AnyVal: &anypb.Any{TypeUrl: "verif/any", Value: []byte(decStr(r))}}}
	case 'j':
		return &gpb.TypedValue{Value: &gpb.TypedValue_JsonVal{JsonVal: []byte(decStr(r))}}
	case 'J':
		return &gpb.TypedValue{Value: &gpb.TypedValue_JsonIetfVal{JsonIetfVal: []byte(decStr(r))}}
	case 'A':
		return &gpb.TypedValue{Value: &gpb.TypedValue_AsciiVal{AsciiVal: decStr(r)}}
	case 'p':
		return &gpb.TypedValue{Value: &gpb.TypedValue_ProtoBytes{ProtoBytes: []byte(decStr(r))}}
	}
	return &gpb.TypedValue{}
}

func pvF32(f float32) string {
	if f != f {
		return "nan"
	}
	return fmt.Sprintf("%08X", math.Float32bits(f))
}

func pvF64(f float64) string {
	if f != f {
		return "nan"
	}
	return fmt.Sprintf("%016X", math.Float64bits(f))
}

func pvRenderTV(tv *gpb.TypedValue) string {
	if tv == nil {
		return "N"
	}
	switch v := tv.Value.(type) {
	case nil:
		return "U"
	case *gpb.TypedValue_StringVal:
		return "s:" + encStr(v.StringVal)
	case *gpb.TypedValue_IntVal:
		return "i:" + strconv.FormatInt(v.IntVal, 10)
	case *gpb.TypedValue_UintVal:
		return "u:" + strconv.FormatUint(v.UintVal, 10)
	case *gpb.TypedValue_BoolVal:
		if v.BoolVal {
			return "b:1"
		}
		return "b:0"
	case *gpb.TypedValue_BytesVal:
		return "y:" + encStr(string(v.BytesVal))
	case *gpb.TypedValue_FloatVal:
		return "f:" + pvF32(v.FloatVal)
	case *gpb.TypedValue_DoubleVal:
		return "d:" + pvF64(v.DoubleVal)
	case *gpb.TypedValue_DecimalVal:
		if v.DecimalVal == nil {
			return "m!"
		}
		return fmt.Sprintf("m:%d:%d", v.DecimalVal.Digits, v.DecimalVal.Precision)
	case *gpb.TypedValue_LeaflistVal:
		if v.LeaflistVal == nil {
			return "l!"
		}
		var out []string
		for _, e := range v.LeaflistVal.Element {
			out = append(out, pvRenderTV(e))
		}
		return "l(" + strings.Join(out, ",") + ")"
	case *gpb.TypedValue_AnyVal:
		return "a:" + encStr(string(v.AnyVal.GetValue()))
	case *gpb.TypedValue_JsonVal:
		return "j:" + encStr(string(v.JsonVal))
	case *gpb.TypedValue_JsonIetfVal:
		return "J:" + encStr(string(v.JsonIetfVal))
	case *gpb.TypedValue_AsciiVal:
		return "A:" + encStr(v.AsciiVal)
	case *gpb.TypedValue_ProtoBytes:
		return "p:" + encStr(string(v.ProtoBytes))
	}
	return "?"
}

type pvForeign struct{ X int }

func pvParseScalar(s string) interface{} {
	switch {
	case s == "other":
		return pvForeign{1}
	case strings.HasPrefix(s, "strs("):
		out := []string{}
		for _, e := range pvSplitTop(s[5 : len(s)-1]) {
			out = append(out, decStr(e))
		}
		return out
	case strings.HasPrefix(s, "list("):
		out := []interface{}{}
		for _, e := range pvSplitTop(s[5 : len(s)-1]) {
			out = append(out, pvParseScalar(e))
		}
		return out
	}
	f := strings.SplitN(s, ":", 2)
	if len(f) != 2 {
		return nil
	}
	iv, _ := strconv.ParseInt(f[1], 10, 64)
	uv, _ := strconv.ParseUint(f[1], 10, 64)
	switch f[0] {
	case "str":
		return decStr(f[1])
	case "int":
		return int(iv)
	case "i8":
		return int8(iv)
	case "i16":
		return int16(iv)
	case "i32":
		return int32(iv)
	case "i64":
		return iv
	case "uint":
		return uint(uv)
	case "u8":
		return uint8(uv)
	case "u16":
		return uint16(uv)
	case "u32":
		return uint32(uv)
	case "u64":
		return uv
	case "f32":
		return math.Float32frombits(uint32(pvHex(f[1])))
	case "f64":
		return math.Float64frombits(pvHex(f[1]))
	case "bool":
		return f[1] == "1"
	case "bytes":
		return []byte(decStr(f[1]))
	}
	return nil
}

func pvRenderScalar(i interface{}) string {
	switch v := i.(type) {
	case string:
		return "str:" + encStr(v)
	case int64:
		return "i64:" + strconv.FormatInt(v, 10)
	case uint64:
		return "u64:" + strconv.FormatUint(v, 10)
	case float32:
		return "f32:" + pvF32(v)
	case float64:
		return "f64:" + pvF64(v)
	case bool:
		if v {
			return "bool:1"
		}
		return "bool:0"
	case []byte:
		return "bytes:" + encStr(string(v))
	case []interface{}:
		out := make([]string, len(v))
		for x, e := range v {
			out[x] = pvRenderScalar(e)
		}
		return "list(" + strings.Join(out, ",") + ")"
	case value.DeprecatedScalar:
		if strings.Contains(v.Message, "Ietf") {
			return "jsonietf"
		}
		return "json"
	}
	return fmt.Sprintf("unexpected-%T", i)
}

// pvHasJSON reports whether ToScalar reaches a JSON arm before anything that
// fails: the outcome of those arms is decided by encoding/json, which the model
// does not cover; the observation is then the arm's name only.
func pvJSONArm(tv *gpb.TypedValue) string {
	switch tv.GetValue().(type) {
	case *gpb.TypedValue_JsonVal:
		return "json"
	case *gpb.TypedValue_JsonIetfVal:
		return "jsonietf"
	}
	return ""
}

// ---------------------------------------------------------------- run

func pvBool(b bool) string {
	if b {
		return "true"
	}
	return "false"
}

func pvTry(f func() string) (out string) {
	defer func() {
		if r := recover(); r != nil {
			out = "panic"
		}
	}()
	return f()
}

func (c *pvComp) Run(args []string) string {
	if len(args) == 0 {
		return "bad-op"
	}
	switch args[0] {
	case "new":
		return "ok"
	case "tostr":
		if len(args) != 3 {
			return "bad-op"
		}
		pfx := args[2] == "1"
		p := pvParseGPath(args[1])
		first := path.ToStrings(p, pfx)
		// Go randomises map iteration: evaluate 20 times, on the same object, on a
		// freshly parsed one (new map objects) and on a proto.Clone.
		for i := 1; i < 20; i++ {
			q := p
			switch i % 3 {
			case 1:
				q = pvParseGPath(args[1])
			case 2:
				if p != nil {
					q = proto.Clone(p).(*gpb.Path)
				}
			}
			if r := path.ToStrings(q, pfx); !reflect.DeepEqual(append([]string{}, r...), append([]string{}, first...)) {
				return "nondet:[" + encPath(first) + "!=" + encPath(r) + "]"
			}
		}
		// The index is the caller's to keep and to extend (subscribe.isTargetDelete and cache.joinPrefixAndPath
		// append the path's index to the prefix's): writing through it and appending to it must not change
		// the message, nor what the same message indexes to afterwards (seeded change c19_seed8 returned the
		// message's own Element slice; the spare capacity is part of the test: paths cut from one array)
		if p != nil {
			want := append([]string{}, first...)
			before := proto.Clone(p).(*gpb.Path)
			if el := p.GetElement(); len(el) > 0 {
				// give the message's element slice spare capacity, as a path sliced off a longer array has
				ext := make([]string, len(el), len(el)+4)
				copy(ext, el)
				p.Element = ext
			}
			r1 := path.ToStrings(p, pfx)
			for i := range r1 {
				r1[i] = "<overwritten>"
			}
			r1 = append(r1, "x", "y")
			_ = r1
			if !proto.Equal(before, p) {
				return "aliased:message-changed-through-its-index"
			}
			if r2 := path.ToStrings(p, pfx); !reflect.DeepEqual(append([]string{}, r2...), want) {
				return "aliased:[" + encPath(want) + "!=" + encPath(r2) + "]"
			}
		}
		return "[" + encPath(first) + "]"
	case "complete":
		if len(args) != 3 {
			return "bad-op"
		}
		r, err := path.CompletePath(pvParseGPath(args[1]), pvParseGPath(args[2]))
		if err != nil {
			return "err"
		}
		return "[" + encPath(r) + "]"
	case "q2req":
		q := client.Query{Target: "dev", Type: client.Once}
		for _, a := range args[1:] {
			q.Queries = append(q.Queries, client.Path(decPath(a)))
		}
		// A reconnecting client converts the same Query object again for every attempt
		// (client.Reconnect -> Subscribe): convert it three times, the answers must agree
		// and the caller's query must come back untouched.
		render := func() string {
			req, err := gnmiclient.ToSubscribeRequest(q)
			if err != nil {
				return "err"
			}
			var out []string
			for _, s := range req.GetSubscribe().GetSubscription() {
				out = append(out, pvRenderGPath(s.GetPath()))
			}
			return "[" + strings.Join(out, "|") + "]"
		}
		first := render()
		for i := 1; i < 3; i++ {
			if r := render(); r != first {
				return "nonidem:" + first + "!=" + r
			}
		}
		for i, a := range args[1:] {
			if !reflect.DeepEqual(append([]string{}, q.Queries[i]...), append([]string{}, decPath(a)...)) {
				return "mutated:[" + encPath(q.Queries[i]) + "]"
			}
		}
		return first
	case "scalar":
		if len(args) != 2 {
			return "bad-op"
		}
		tv, err := value.FromScalar(pvParseScalar(args[1]))
		if err != nil {
			return "err"
		}
		back := pvTry(func() string {
			i, err := value.ToScalar(tv)
			if err != nil {
				return "err"
			}
			return pvRenderScalar(i)
		})
		return pvRenderTV(tv) + "=>" + back
	case "toscalar":
		if len(args) != 2 {
			return "bad-op"
		}
		tv := pvParseTV(args[1])
		if a := pvJSONArm(tv); a != "" {
			value.ToScalar(tv)
			return a
		}
		i, err := value.ToScalar(tv)
		if err != nil {
			return "err"
		}
		return pvRenderScalar(i)
	case "equal":
		if len(args) != 3 {
			return "bad-op"
		}
		a, b := pvParseTV(args[1]), pvParseTV(args[2])
		ab := pvTry(func() string { return pvBool(value.Equal(a, b)) })
		ba := pvTry(func() string { return pvBool(value.Equal(b, a)) })
		return ab + "," + ba
	}
	return "bad-op"
}

// ---------------------------------------------------------------- generators

var pvNames = []string{"a", "b", "c", "interfaces", "eth0", "", "é", "日本", "x/y", "a b", "[", "k=v", "*", "\\", "~", "%41", "A", "aa", "ab", "😀"}
var pvKeyNames = []string{"k", "a", "b", "z", "é", "K", "aa", "ab", "name", "", "Z", "日", "_", "0"}
var pvTargets = []string{"", "", "dev", "é t", "*"}
var pvOrigins = []string{"", "", "", "oc", "openconfig", "é"}

func pvPick(r *rand.Rand, l []string) string { return l[r.Intn(len(l))] }

func pvName(r *rand.Rand) string {
	if r.Intn(4) == 0 {
		return pvRandStr(r, []rune("ab/[]\\= é日~%,;:()!|"), 4)
	}
	return pvPick(r, pvNames)
}

func pvRandStr(r *rand.Rand, alpha []rune, max int) string {
	n := r.Intn(max + 1)
	var sb strings.Builder
	for i := 0; i < n; i++ {
		sb.WriteRune(alpha[r.Intn(len(alpha))])
	}
	return sb.String()
}

func pvGenElem(r *rand.Rand) string {
	if r.Intn(25) == 0 {
		return "/!"
	}
	s := "/" + encStr(pvName(r))
	nk := 0
	switch x := r.Intn(10); {
	case x < 3:
		nk = 0
	case x < 5:
		nk = 1
	case x < 8:
		nk = 2
	case x < 9:
		nk = 3
	default:
		nk = 4 + r.Intn(6)
	}
	seen := map[string]bool{}
	for i := 0; i < nk; i++ {
		k := pvPick(r, pvKeyNames)
		if r.Intn(6) == 0 {
			k = pvRandStr(r, []rune("abkzé"), 3)
		}
		if seen[k] {
			continue
		}
		seen[k] = true
		s += "," + encStr(k) + "=" + encStr(pvName(r))
	}
	return s
}

// pvGenGPath renders a random gnmi.Path token: both encodings, 0-9 keys per
// element, arbitrary UTF-8 names.  originMode: 0 random, 1 force empty, 2 force set.
func pvGenGPath(r *rand.Rand, originMode int) string {
	if r.Intn(14) == 0 {
		return "N"
	}
	t, o := pvPick(r, pvTargets), pvPick(r, pvOrigins)
	switch originMode {
	case 1:
		o = ""
	case 2:
		if o == "" {
			o = "oc"
		}
	}
	elems, element := ".", "."
	mode := r.Intn(10) // 0-5 elem, 6-7 element, 8 both, 9 neither
	if mode <= 5 || mode == 8 {
		n := 1 + r.Intn(4)
		elems = ""
		for i := 0; i < n; i++ {
			elems += pvGenElem(r)
		}
	}
	if mode == 6 || mode == 7 || mode == 8 {
		n := 1 + r.Intn(4)
		p := make([]string, n)
		for i := range p {
			p[i] = pvName(r)
		}
		element = encPath(p)
	}
	return "P;" + encStr(t) + ";" + encStr(o) + ";" + elems + ";" + element
}

var pvPlainElems = []string{"a", "b", "interfaces", "eth0", "x/y", "/", "/a", "a/b/c", "é", "日本", "k=v", "a=", "=", "*", "...", "~", "%2F", "a//b", "😀", "state"}
var pvOddElems = []string{"", "a b", " ", "a[k=v]", "a[k=v][j=w]", "[", "]", "a\\", "\\", "\\\\", "a[k=v", "a[k=v]x", "a[k=1][k=2]", "a[b=c/d]", "a[b=\\]]", "a[ k=v]", "a[k=]", "[k=v]", "a[=v]", "a[k]", "a]", "a\\/", "a[k=v]/", "a[b=/", "a[k=v]]", "a[[k=v]", "a[k=v=w]", "a[k=\\=]", "a[é=日]", "a/", "b/"}

func pvIsPlain(e string) bool {
	return e != "" && !strings.ContainsAny(e, "[]\\ ")
}

func pvGenQuery(r *rand.Rand) []string {
	n := r.Intn(5)
	if r.Intn(8) != 0 && n == 0 {
		n = 1
	}
	q := make([]string, n)
	odd := r.Intn(3) == 0
	for i := range q {
		switch {
		case odd && r.Intn(2) == 0:
			q[i] = pvPick(r, pvOddElems)
		case r.Intn(5) == 0:
			q[i] = pvRandStr(r, []rune("ab/=é*.日"), 5)
			if odd {
				q[i] = pvRandStr(r, []rune("ab/[]\\= é"), 6)
			}
		default:
			q[i] = pvPick(r, pvPlainElems)
		}
	}
	// Known finding D18 (third-party ygot): a query of plain elements whose last
	// element ends in '/' loses that element.  Exactly that class is kept out of
	// the random stream (its witnesses live in corpus/C19); every other query,
	// plain or not, is generated.
	allPlain := true
	for _, e := range q {
		if !pvIsPlain(e) {
			allPlain = false
		}
	}
	if allPlain && n > 0 && strings.HasSuffix(q[n-1], "/") {
		q[n-1] += "x"
	}
	return q
}

var pvF64s = []uint64{0, 0x8000000000000000, 0x3FF0000000000000, 0xBFF0000000000000, 0x3FF0000000000001,
	0x7FF0000000000000, 0xFFF0000000000000, 0x7FF8000000000001, 0x0000000000000001, 0x7FEFFFFFFFFFFFFF,
	0x400921FB54442D18, 0x3FB999999999999A, 0x47EFFFFFE0000000, 0x47EFFFFFF0000000, 0x36A0000000000000}
var pvF32s = []uint32{0, 0x80000000, 0x3F800000, 0xBF800000, 0x3F800001, 0x7F800000, 0xFF800000, 0x7FC00001,
	0x00000001, 0x7F7FFFFF, 0x40490FDB, 0x3DCCCCCD}
var pvInts = []int64{0, 1, -1, 2, 127, -128, 255, 32767, -32768, 65535, 2147483647, -2147483648, 4294967295,
	9223372036854775807, -9223372036854775808, 9007199254740993, 42}
var pvUints = []uint64{0, 1, 2, 255, 65535, 4294967295, 9223372036854775807, 9223372036854775808, 18446744073709551615, 42}
var pvStrs = []string{"", "a", "b", "é", "日本", "a b", "1", "true", "x/y", "(", ")", ",", "l(", "N", "😀", "a\x00b"}

func pvGenBytes(r *rand.Rand) string {
	n := r.Intn(4)
	b := make([]byte, n)
	for i := range b {
		b[i] = []byte{0, 1, 'a', 0xff, 0x80, '{', '}'}[r.Intn(7)]
	}
	return encStr(string(b))
}

const pvTopDepth = 3

func pvGenTV(r *rand.Rand, depth int) string {
	x := r.Intn(34)
	switch {
	case x == 0:
		return "N"
	case x == 1:
		return "U"
	case x < 5:
		return "s:" + encStr(pvPick(r, pvStrs))
	case x < 8:
		return "i:" + strconv.FormatInt(pvInts[r.Intn(len(pvInts))], 10)
	case x < 11:
		return "u:" + strconv.FormatUint(pvUints[r.Intn(len(pvUints))], 10)
	case x < 13:
		return "b:" + strconv.Itoa(r.Intn(2))
	case x < 15:
		return "y:" + pvGenBytes(r)
	case x < 17:
		return fmt.Sprintf("f:%08X", pvF32s[r.Intn(len(pvF32s))])
	case x < 21:
		return fmt.Sprintf("d:%016X", pvF64s[r.Intn(len(pvF64s))])
	case x < 23:
		return fmt.Sprintf("m:%d:%d", pvInts[r.Intn(len(pvInts))], r.Intn(19))
	case x == 23:
		return "m!"
	case x < 28:
		if depth <= 0 {
			return "l()"
		}
		n := r.Intn(4)
		out := make([]string, n)
		for i := range out {
			out[i] = pvGenTV(r, depth-1)
		}
		return "l(" + strings.Join(out, ",") + ")"
	case x == 28:
		return "l!"
	case x == 29:
		return "a:" + pvGenBytes(r)
	case x == 30:
		// nested JSON payloads are always valid JSON: whether encoding/json accepts a
		// payload is not modelled, and below the top level it would decide err/ok
		if depth < pvTopDepth {
			return "j:" + encStr([]string{"1", "{\"a\":1}", "\"x\""}[r.Intn(3)])
		}
		return "j:" + encStr([]string{"1", "{\"a\":1}", "{", "", "\"x\"", "nul"}[r.Intn(6)])
	case x == 31:
		if depth < pvTopDepth {
			return "J:" + encStr([]string{"1", "[1,2]"}[r.Intn(2)])
		}
		return "J:" + encStr([]string{"1", "{\"a\":1}", "{", "", "[1,2]"}[r.Intn(5)])
	case x == 32:
		return "A:" + encStr(pvPick(r, pvStrs))
	}
	return "p:" + pvGenBytes(r)
}

// pvMutateTV returns a token close to t: equal, or differing in one place.
func pvMutateTV(r *rand.Rand, t string, depth int) string {
	if strings.HasPrefix(t, "l(") && r.Intn(3) != 0 {
		es := pvSplitTop(t[2 : len(t)-1])
		switch r.Intn(5) {
		case 0:
			if len(es) > 0 {
				es = es[:len(es)-1]
			}
		case 1:
			es = append(es, pvGenTV(r, 0))
		case 2:
			if len(es) > 0 {
				i := r.Intn(len(es))
				es[i] = pvMutateTV(r, es[i], depth-1)
			}
		case 3:
			if len(es) > 1 {
				es[0], es[len(es)-1] = es[len(es)-1], es[0]
			}
		}
		return "l(" + strings.Join(es, ",") + ")"
	}
	if r.Intn(2) == 0 {
		return t
	}
	// same payload text under another arm, where that parses
	if len(t) > 2 && t[1] == ':' && r.Intn(2) == 0 {
		switch t[0] {
		case 'i':
			if !strings.HasPrefix(t[2:], "-") {
				return "u:" + t[2:]
			}
		case 'u':
			if v, err := strconv.ParseInt(t[2:], 10, 64); err == nil {
				return "i:" + strconv.FormatInt(v, 10)
			}
		case 's':
			return "A:" + t[2:]
		case 'y':
			return "p:" + t[2:]
		case 'j':
			return "J:" + t[2:]
		}
	}
	return pvGenTV(r, depth)
}

func pvGenScalar(r *rand.Rand, depth int) string {
	x := r.Intn(26)
	iv := pvInts[r.Intn(len(pvInts))]
	uv := pvUints[r.Intn(len(pvUints))]
	switch {
	case x < 3:
		return "str:" + encStr(pvPick(r, pvStrs))
	case x == 3:
		return "str:" + encStr([]string{"\xff", "a\xc3", "\xed\xa0\x80", "\xc0\xaf"}[r.Intn(4)])
	case x == 4:
		return "int:" + strconv.FormatInt(iv, 10)
	case x == 5:
		return "i8:" + strconv.FormatInt(int64(int8(iv)), 10)
	case x == 6:
		return "i16:" + strconv.FormatInt(int64(int16(iv)), 10)
	case x == 7:
		return "i32:" + strconv.FormatInt(int64(int32(iv)), 10)
	case x == 8:
		return "i64:" + strconv.FormatInt(iv, 10)
	case x == 9:
		return "uint:" + strconv.FormatUint(uv, 10)
	case x == 10:
		return "u8:" + strconv.FormatUint(uint64(uint8(uv)), 10)
	case x == 11:
		return "u16:" + strconv.FormatUint(uint64(uint16(uv)), 10)
	case x == 12:
		return "u32:" + strconv.FormatUint(uint64(uint32(uv)), 10)
	case x == 13:
		return "u64:" + strconv.FormatUint(uv, 10)
	case x < 16:
		return fmt.Sprintf("f32:%08X", pvF32s[r.Intn(len(pvF32s))])
	case x < 18:
		return fmt.Sprintf("f64:%016X", pvF64s[r.Intn(len(pvF64s))])
	case x == 18:
		return "bool:" + strconv.Itoa(r.Intn(2))
	case x == 19:
		return "bytes:" + pvGenBytes(r)
	case x < 22:
		n := r.Intn(4)
		out := make([]string, n)
		for i := range out {
			out[i] = encStr(pvPick(r, pvStrs))
		}
		return "strs(" + strings.Join(out, ",") + ")"
	case x < 25:
		if depth <= 0 {
			return "list()"
		}
		n := r.Intn(4)
		out := make([]string, n)
		for i := range out {
			out[i] = pvGenScalar(r, depth-1)
		}
		return "list(" + strings.Join(out, ",") + ")"
	}
	return "other"
}

func (c *pvComp) Gen(r *rand.Rand, tier string) []string {
	seq := []string{"new"}
	n := 8 + r.Intn(17)
	for i := 0; i < n; i++ {
		switch x := r.Intn(100); {
		case x < 30:
			seq = append(seq, fmt.Sprintf("tostr %s %d", pvGenGPath(r, 0), r.Intn(2)))
		case x < 45:
			// all prefix/path origin combinations
			om := r.Intn(4)
			seq = append(seq, "complete "+pvGenGPath(r, 1+om&1)+" "+pvGenGPath(r, 1+om>>1))
		case x < 48:
			seq = append(seq, "complete "+pvGenGPath(r, 0)+" "+pvGenGPath(r, 0))
		case x < 68:
			k := 1
			if r.Intn(5) == 0 {
				k = 2 + r.Intn(2)
			}
			l := "q2req"
			for j := 0; j < k; j++ {
				l += " " + encPath(pvGenQuery(r))
			}
			seq = append(seq, l)
		case x < 80:
			seq = append(seq, "scalar "+pvGenScalar(r, 3))
		case x < 86:
			seq = append(seq, "toscalar "+pvGenTV(r, 3))
		default:
			a := pvGenTV(r, 3)
			b := pvMutateTV(r, a, 3)
			if r.Intn(2) == 0 {
				a, b = b, a
			}
			seq = append(seq, "equal "+a+" "+b)
		}
	}
	return seq
}

// pvRepresentatives: every oneof arm, nil message, unset oneof, nil payloads,
// equal-looking payloads under different arms, float corner cases, nested lists.
func pvRepresentatives() []string {
	return []string{
		"N", "U",
		"s:~", "s:a", "s:b", "s:1", "s:%C3%A9",
		"i:0", "i:1", "i:-1", "i:9223372036854775807", "i:-9223372036854775808",
		"u:0", "u:1", "u:18446744073709551615",
		"b:0", "b:1",
		"y:~", "y:a", "y:%00", "y:%FF",
		"f:00000000", "f:80000000", "f:3F800000", "f:7FC00001", "f:7F800000",
		"d:0000000000000000", "d:8000000000000000", "d:3FF0000000000000", "d:3FF0000000000001",
		"d:7FF8000000000001", "d:7FF0000000000000", "d:FFF0000000000000",
		"m:0:0", "m:1:0", "m:1:1", "m:10:1", "m:-1:0", "m!",
		"l()", "l!", "l(s:a)", "l(s:a,s:b)", "l(s:b,s:a)", "l(i:1)", "l(u:1)", "l(N)", "l(U)", "l(d:3FF0000000000000)",
		"l(d:3FF0000000000000,N)", "l(l(s:a))", "l(l())", "l(l!)", "l(m!)", "l(s:a,m!)", "l(s:b,m!)",
		"a:~", "a:a", "j:1", "j:%7B", "J:1", "A:a", "A:~", "p:a", "p:~",
	}
}

func (c *pvComp) Exhaustive(tier string) [][]string {
	var out [][]string
	// all pairs of the representative TypedValues
	reps := pvRepresentatives()
	for _, a := range reps {
		seq := []string{"new"}
		for _, b := range reps {
			seq = append(seq, "equal "+a+" "+b)
		}
		seq = append(seq, "toscalar "+a)
		out = append(out, seq)
	}
	// CompletePath / ToStrings: all combinations of a small structured scope
	var paths []string
	for _, o := range []string{"~", "oc"} {
		for _, t := range []string{"~", "dev"} {
			for _, body := range []string{".;.", "/a;.", "/a,k=v;.", "/a,k=2,j=1/b;.", ".;/x", ".;/x/y", "/a;/x", "/~;.", ".;/~"} {
				paths = append(paths, "P;"+t+";"+o+";"+body)
			}
		}
	}
	paths = append(paths, "N")
	for _, a := range paths {
		seq := []string{"new", "tostr " + a + " 0", "tostr " + a + " 1"}
		for _, b := range paths {
			seq = append(seq, "complete "+a+" "+b)
		}
		out = append(out, seq)
	}
	// queries: all sequences of length <= 3 (<= 4 thorough) over a small alphabet,
	// minus the known-finding class (all plain, last ends in '/')
	alpha := []string{"a", "/", "b/", "", "a[k=v]", "\\", "a b"}
	maxLen := 3
	if tier == "thorough" {
		alpha = append(alpha, "é", "[", "a]")
		maxLen = 4
	}
	var qs [][]string
	var rec func(cur []string)
	rec = func(cur []string) {
		qs = append(qs, cloneStrs(cur))
		if len(cur) == maxLen {
			return
		}
		for _, e := range alpha {
			rec(append(cloneStrs(cur), e))
		}
	}
	rec(nil)
	seq := []string{"new"}
	for _, q := range qs {
		allPlain := true
		for _, e := range q {
			if !pvIsPlain(e) {
				allPlain = false
			}
		}
		if allPlain && len(q) > 0 && strings.HasSuffix(q[len(q)-1], "/") {
			continue
		}
		seq = append(seq, "q2req "+encPath(q))
		if len(seq) >= 40 {
			out = append(out, seq)
			seq = []string{"new"}
		}
	}
	if len(seq) > 1 {
		out = append(out, seq)
	}
	_ = utf8.RuneError
	return out
}
