package main

// rc new rs2: one client.ReconnectClient is subscribed, its Subscribe ends because the caller's context is
// cancelled (no Close), it is subscribed AGAIN with a fresh context, and then closed while that second Subscribe
// is streaming.  C18: "for any timing of Close relative to Subscribe ... both calls return" — also for the second
// Subscribe of a client (Model/ClientLTS.lean has one Subscribe and one Close per client; this sequence is judged
// by the harness monitor on the real ReconnectClient over BaseClient only).  Observation: rs2=ok or the call that
// did not return within the deadline.  Found necessary by seeded change c18_seed12 (the per-Subscribe done
// function guarded by a sync.Once stored in the client: spent by the first Subscribe, so Close waits for ever on
// the second one's channel).

import (
	"context"
	"errors"
	"fmt"
	"sync"
	"sync/atomic"
	"time"

	"github.com/openconfig/gnmi/client"
)

type rs2Impl struct {
	ctx     context.Context
	first   int32
	closedC chan struct{}
	once    sync.Once
	h       client.NotificationHandler
}

func (i *rs2Impl) Subscribe(ctx context.Context, q client.Query) error {
	i.ctx, i.h = ctx, q.NotificationHandler
	return nil
}

func (i *rs2Impl) Recv() error {
	if atomic.CompareAndSwapInt32(&i.first, 0, 1) {
		return i.h(client.Update{Path: client.Path{"up"}, TS: time.Unix(1, 0), Val: 1})
	}
	select {
	case <-i.ctx.Done():
		return i.ctx.Err()
	case <-i.closedC:
		return errors.New("transport closed")
	}
}

func (i *rs2Impl) Poll() error { return nil }

func (i *rs2Impl) Close() error {
	i.once.Do(func() { close(i.closedC) })
	return nil
}

var rs2No int32

func (c *rcComp) rs2Run() string {
	rcRunMu.Lock()
	defer rcRunMu.Unlock()
	c.ret, c.mon = "-", "ok"
	typ := fmt.Sprintf("verif-rs2-%d", atomic.AddInt32(&rs2No, 1))
	client.RegisterTest(typ, func(context.Context, client.Destination) (client.Impl, error) {
		return &rs2Impl{closedC: make(chan struct{})}, nil
	})
	up := make(chan struct{}, 16)
	q := client.Query{
		Addrs:   []string{"rs2"},
		Type:    client.Stream,
		Queries: []client.Path{{"*"}},
		NotificationHandler: func(n client.Notification) error {
			if _, ok := n.(client.Update); ok {
				up <- struct{}{}
			}
			return nil
		},
	}
	deadline := scaled(10 * time.Second)
	wait := func(ch <-chan struct{}) bool {
		select {
		case <-ch:
			return true
		case <-time.After(deadline):
			return false
		}
	}
	fail := func(rcl *client.ReconnectClient, what string) string {
		go rcl.Close() // may never return: that is the failure being reported
		c.mon = what
		return "rs2=" + what
	}
	rcl := client.Reconnect(&client.BaseClient{}, nil, nil)
	ctx1, cancel1 := context.WithCancel(context.Background())
	sub1 := make(chan struct{})
	go func() { defer close(sub1); rcl.Subscribe(ctx1, q, typ) }()
	if !wait(up) {
		cancel1()
		return fail(rcl, "first-subscribe-never-streamed")
	}
	cancel1()
	if !wait(sub1) {
		return fail(rcl, "deadline-first-subscribe-after-cancel")
	}
	ctx2, cancel2 := context.WithCancel(context.Background())
	defer cancel2()
	sub2 := make(chan struct{})
	go func() { defer close(sub2); rcl.Subscribe(ctx2, q, typ) }()
	if !wait(up) {
		return fail(rcl, "second-subscribe-never-streamed")
	}
	closed := make(chan struct{})
	go func() { defer close(closed); rcl.Close() }()
	if !wait(closed) {
		c.mon = "deadline-close"
		return "rs2=deadline-close"
	}
	if !wait(sub2) {
		c.mon = "deadline-second-subscribe"
		return "rs2=deadline-second-subscribe"
	}
	return "rs2=ok"
}
