package main

// ca own <notification token> [<second notification token>]
//
// Monitor for the object-level statements of lean/Gnmi/Props/C03Unmodified.lean (model
// lean/Gnmi/Model/CacheMut.lean), which the value-level observations of `ca upd` cannot see.
// A fresh cache with the target of the prefix; when a second token is given it is built with the
// SAME *pb.Path prefix object (the pool shares prefix objects between notifications) and applied
// first.  Then Target.GnmiUpdate(n) is run through Cache.GnmiUpdate and the monitor checks, with
// pointer comparisons:
//   restored   after the call n.Update / n.Delete are the very slices' elements the caller put there
//              (same length, same pointers, proto.Equal to a clone taken before), the shared prefix
//              object and the other notification are proto.Equal to their clones
//              (caller_notification_restored, shared_prefix_untouched);
//   cleared    inside the client callback of a multi notification the caller's n has no updates and
//              no deletes (cleared_while_running); of any other shape it is complete;
//   multi      (non-atomic, more than one update+delete): every leaf value fed is a fresh
//              notification (!= n), its prefix object is not the caller's (when there is one), and
//              its Update[0] IS one of the caller's own *pb.Update objects
//              (clone_fresh_header_and_prefix, clone_shares_update_object);
//   single     (one update, or atomic with updates): the leaf value fed is the caller's own object n
//              (single_update_stores_callers_object).
// Observation: the monitor's verdict only (`mon=ok`); the model side answers `mon=ok`.

import (
	"fmt"
	"strings"

	"github.com/openconfig/gnmi/cache"
	"github.com/openconfig/gnmi/ctree"
	"google.golang.org/protobuf/proto"

	pb "github.com/openconfig/gnmi/proto/gnmi"
)

func caOwn(args []string) (out string) {
	if len(args) != 2 && len(args) != 3 {
		return "bad-op"
	}
	defer func() {
		if r := recover(); r != nil {
			out = "mon=panic"
		}
	}()
	pool := newPool()
	n := parseNotiToken(args[1]).proto(pool)
	var other, otherBefore *pb.Notification
	if len(args) == 3 {
		other = parseNotiToken(args[2]).proto(pool)
		otherBefore = proto.Clone(other).(*pb.Notification)
	}
	target := n.GetPrefix().GetTarget()
	c := cache.New([]string{target})
	var bad []string
	fail := func(f string, a ...interface{}) { bad = append(bad, fmt.Sprintf(f, a...)) }

	multi := !n.GetAtomic() && len(n.GetUpdate())+len(n.GetDelete()) > 1
	single := (n.GetAtomic() && len(n.GetUpdate()) > 0 && len(n.GetDelete()) == 0) ||
		(!n.GetAtomic() && len(n.GetUpdate()) == 1 && len(n.GetDelete()) == 0)
	updPtrs := append([]*pb.Update(nil), n.GetUpdate()...)
	delPtrs := append([]*pb.Path(nil), n.GetDelete()...)
	prefixPtr := n.GetPrefix()
	var prefixBefore *pb.Path
	if prefixPtr != nil {
		prefixBefore = proto.Clone(prefixPtr).(*pb.Path)
	}
	before := proto.Clone(n).(*pb.Notification)

	armed := false
	c.SetClient(func(l *ctree.Leaf) {
		if !armed {
			return
		}
		v, ok := l.Value().(*pb.Notification)
		if !ok {
			fail("fed-non-notification")
			return
		}
		if len(v.GetUpdate()) == 0 {
			return // a delete notification built by the cache
		}
		switch {
		case multi:
			if len(n.GetUpdate())+len(n.GetDelete()) != 0 {
				fail("caller-not-cleared-during-loop")
			}
			if v == n {
				fail("multi-fed-callers-object")
			}
			if prefixPtr != nil && v.GetPrefix() == prefixPtr {
				fail("multi-shares-prefix-object")
			}
			shared := false
			for _, u := range updPtrs {
				if len(v.GetUpdate()) == 1 && v.GetUpdate()[0] == u {
					shared = true
				}
			}
			if !shared {
				fail("multi-update-object-not-the-callers")
			}
		case single:
			if v != n {
				fail("single-fed-a-copy")
			}
			if len(n.GetUpdate()) != len(updPtrs) {
				fail("single-caller-modified-during-call")
			}
		}
	})
	if other != nil {
		c.GnmiUpdate(other)
	}
	armed = true
	c.GnmiUpdate(n)
	armed = false

	if !proto.Equal(before, n) {
		fail("caller-notification-mutated")
	}
	if len(n.GetUpdate()) != len(updPtrs) || len(n.GetDelete()) != len(delPtrs) {
		fail("caller-slices-length")
	} else {
		for i, u := range n.GetUpdate() {
			if u != updPtrs[i] {
				fail("caller-update-pointer-%d", i)
			}
		}
		for i, d := range n.GetDelete() {
			if d != delPtrs[i] {
				fail("caller-delete-pointer-%d", i)
			}
		}
	}
	if n.GetPrefix() != prefixPtr {
		fail("caller-prefix-pointer")
	}
	if prefixPtr != nil && !proto.Equal(prefixBefore, prefixPtr) {
		fail("prefix-object-mutated")
	}
	if other != nil {
		if other.GetPrefix() != prefixPtr && prefixPtr != nil && proto.Equal(other.GetPrefix(), prefixPtr) {
			fail("pool-did-not-share-prefix") // the scenario is about a shared object: make sure it is one
		}
		if !proto.Equal(otherBefore, other) {
			fail("other-notification-mutated")
		}
	}
	if len(bad) > 0 {
		return "mon=" + strings.Join(bad, ",")
	}
	return "mon=ok"
}
