package main

// cc qvd <seed> <rounds>: a Query that names a leaf by its full literal path against a Delete of that leaf (or of
// one of its ancestors), and cc avd <seed> <rounds>: an Add that overwrites an EXISTING leaf against a conditional
// delete of that leaf.  Stress scenarios, one fresh tree per round, both calls released together with a swept offset.
//
// qvd.  A query keeps every node on its way down read-locked until its visitor has returned, and a delete needs the
// root's write lock: so a visitor is never called for a leaf whose Delete has already RETURNED (the delete either
// finished before the query started — the leaf is not found — or waits until the query is done).  The subscribe
// server relies on it: a leaf queued by the walk of a new subscription is followed, never preceded, by its delete
// notification.  Found necessary by seeded change c04_seed11 (queryInternal releasing a node's read lock before it
// descends through a literal path element).
//
// avd.  Add(p, new) over an existing leaf holding `old` against DeleteConditional(p, value == old): under either
// order of the two calls the leaf exists afterwards and holds `new` (Add first: the condition rejects `new`; delete
// first: Add re-creates the leaf).  An Add that returned nil whose value is nowhere is a lost update.  Found necessary
// by seeded change c10_seed11 (Add looking the node up and then writing it under the node's own lock only).
//
// Observation: the monitor's verdict only.

import (
	"math/rand"
	"runtime"
	"strconv"
	"sync"
	"sync/atomic"
	"time"

	"github.com/openconfig/gnmi/ctree"
)

// ccSpin: a start offset of n busy iterations (a few nanoseconds each): the windows looked for are a handful of
// instructions wide, so the two calls are swept against each other in steps far below a scheduler quantum
// ccSpin: a start offset of n busy iterations (a few nanoseconds each): the windows looked for are a handful of
// instructions wide, so the two calls are swept against each other in steps far below a scheduler quantum
func ccSpin(n int) {
	var x int32
	for i := 0; i < n; i++ {
		atomic.AddInt32(&x, 1)
	}
}

// ccDuel runs a() and b() against each other `rounds` times on two goroutines that stay spinning on a round counter
// between rounds (a goroutine started or woken per round arrives microseconds apart: too coarse), b after a swept
// busy offset.  setup(i) runs before round i with both workers idle, judge(i) after both returned; the first
// non-empty verdict ends the duel.
func ccDuel(rounds int, setup func(i int), a, b func(), judge func(i int) string) string {
	if p := runtime.GOMAXPROCS(0); p < 4 {
		defer runtime.GOMAXPROCS(runtime.GOMAXPROCS(4))
	}
	var round, spin int64
	var stop int32
	var wg sync.WaitGroup
	worker := func(f func(), delayed bool) {
		seen := int64(0)
		for {
			for atomic.LoadInt64(&round) == seen {
				if atomic.LoadInt32(&stop) == 1 {
					return
				}
			}
			seen++
			if delayed {
				ccSpin(int(atomic.LoadInt64(&spin)))
			}
			f()
			wg.Done()
		}
	}
	go worker(a, false)
	go worker(b, true)
	defer atomic.StoreInt32(&stop, 1)
	deadline := time.Now().Add(scaled(8 * time.Second))
	for i := 0; i < rounds && time.Now().Before(deadline); i++ {
		setup(i)
		atomic.StoreInt64(&spin, int64(i%400))
		wg.Add(2)
		atomic.AddInt64(&round, 1)
		wg.Wait()
		if v := judge(i); v != "" {
			return v
		}
	}
	return "mon=ok"
}

func ccQueryVsDelete(seed int64, rounds int) string {
	r := rand.New(rand.NewSource(seed))
	var (
		t             *ctree.Tree
		p, del        []string
		how           int
		deleted, late int32
	)
	return ccDuel(rounds,
		func(int) {
			depth := 1 + r.Intn(4)
			p = []string{"a", "b", "c", "d"}[:depth]
			t = &ctree.Tree{}
			t.Add(p, 7)
			t.Add([]string{"k", "l"}, 8)
			del = p[:1+r.Intn(depth)] // the leaf itself or one of its ancestors
			how = r.Intn(3)
			atomic.StoreInt32(&deleted, 0)
			atomic.StoreInt32(&late, 0)
		},
		func() {
			t.Query(p, func(_ []string, _ *ctree.Leaf, _ interface{}) error {
				if atomic.LoadInt32(&deleted) == 1 {
					atomic.StoreInt32(&late, 1)
				}
				return nil
			})
		},
		func() {
			switch how {
			case 0:
				t.Delete(del)
			case 1:
				t.DeleteConditional(del, func(interface{}) bool { return true })
			default:
				t.WalkDeleted(del, func(interface{}) bool { return true }, func(interface{}) {})
			}
			atomic.StoreInt32(&deleted, 1)
		},
		func(int) string {
			if atomic.LoadInt32(&late) == 1 {
				return "mon=FAIL:query-visited-a-leaf-whose-delete-had-returned depth=" + strconv.Itoa(len(p)) + " deleted-depth=" + strconv.Itoa(len(del))
			}
			if t.GetLeafValue(p) != nil {
				return "mon=FAIL:leaf-survived-its-delete"
			}
			if v := t.GetLeafValue([]string{"k", "l"}); v != 8 {
				return "mon=FAIL:other-leaf-changed"
			}
			return ""
		})
}

func ccAddVsCondDelete(seed int64, rounds int) string {
	r := rand.New(rand.NewSource(seed))
	var (
		t      *ctree.Tree
		p, q   []string
		addErr error
	)
	return ccDuel(rounds,
		func(int) {
			depth := 1 + r.Intn(4)
			p = []string{"a", "b", "c", "d"}[:depth]
			t = &ctree.Tree{}
			t.Add(p, 0)
			t.Add([]string{"k"}, 8)
			if depth > 1 && r.Intn(2) == 0 {
				t.Add(append(append([]string{}, p[:depth-1]...), "sib"), 0) // keeps the leaf's branch alive
			}
			q = p[:1+r.Intn(depth)]
		},
		func() { addErr = t.Add(p, 1) },
		func() { t.DeleteConditional(q, func(v interface{}) bool { n, _ := v.(int); return n == 0 }) },
		func(int) string {
			if addErr != nil {
				return "mon=FAIL:add-over-existing-leaf-rejected"
			}
			if v := t.GetLeafValue(p); v != 1 {
				return "mon=FAIL:accepted-add-lost depth=" + strconv.Itoa(len(p)) + " deleted-depth=" + strconv.Itoa(len(q))
			}
			if v := t.GetLeafValue([]string{"k"}); v != 8 {
				return "mon=FAIL:other-leaf-changed"
			}
			return ""
		})
}
