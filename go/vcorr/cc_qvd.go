package main

// cc qvd <seed> <rounds>: a Query that names a leaf by its full literal path against a Delete of that leaf (or of
// one of its ancestors), and cc avd <seed> <rounds>: an Add that overwrites an EXISTING leaf against a conditional
// delete of that leaf.  Stress scenarios, one fresh tree per round, both calls released together with a swept offset.
//
// qvd.  A query keeps every node on its way down read-locked until its visitor has returned, and a delete needs the
// root's write lock: so a visitor is never called for a leaf whose Delete has already RETURNED (the delete either
// finished before the query started — the leaf is not found — or waits until the query is done).  The subscribe
// server relies on it: a leaf queued by the walk of a new subscription is followed, never preceded, by its delete
// notification.  Found necessary by seeded change c04_seed11 (queryInternal releasing a node's read lock before it
// descends through a literal path element).
//
// avd.  Add(p, new) over an existing leaf holding `old` against DeleteConditional(p, value == old): under either
// order of the two calls the leaf exists afterwards and holds `new` (Add first: the condition rejects `new`; delete
// first: Add re-creates the leaf).  An Add that returned nil whose value is nowhere is a lost update.  Found necessary
// by seeded change c10_seed11 (Add looking the node up and then writing it under the node's own lock only).
//
// Observation: the monitor's verdict only.

import (
	"math/rand"
	"runtime"
	"strconv"
	"sync"
	"sync/atomic"

	"github.com/openconfig/gnmi/ctree"
)

func ccSpin(n int) {
	for i := 0; i < n; i++ {
		runtime.Gosched()
	}
}

func ccQueryVsDelete(seed int64, rounds int) string {
	r := rand.New(rand.NewSource(seed))
	if p := runtime.GOMAXPROCS(0); p < 4 {
		defer runtime.GOMAXPROCS(runtime.GOMAXPROCS(4))
	}
	for round := 0; round < rounds; round++ {
		depth := 1 + r.Intn(4)
		p := []string{"a", "b", "c", "d"}[:depth]
		t := &ctree.Tree{}
		if t.Add(p, 7) != nil || t.Add([]string{"k", "l"}, 8) != nil {
			return "mon=setup-failed"
		}
		del := p[:1+r.Intn(depth)] // the leaf itself or one of its ancestors
		how := r.Intn(3)
		offQ, offD := r.Intn(4), r.Intn(4)
		var deleted, late int32
		start := make(chan struct{})
		var wg sync.WaitGroup
		wg.Add(2)
		go func() {
			defer wg.Done()
			<-start
			ccSpin(offD)
			switch how {
			case 0:
				t.Delete(del)
			case 1:
				t.DeleteConditional(del, func(interface{}) bool { return true })
			default:
				t.WalkDeleted(del, func(interface{}) bool { return true }, func(interface{}) {})
			}
			atomic.StoreInt32(&deleted, 1)
		}()
		go func() {
			defer wg.Done()
			<-start
			ccSpin(offQ)
			t.Query(p, func(_ []string, _ *ctree.Leaf, _ interface{}) error {
				if atomic.LoadInt32(&deleted) == 1 {
					atomic.StoreInt32(&late, 1)
				}
				return nil
			})
		}()
		close(start)
		wg.Wait()
		if late == 1 {
			return "mon=FAIL:query-visited-a-leaf-whose-delete-had-returned depth=" + strconv.Itoa(depth) + " deleted-depth=" + strconv.Itoa(len(del))
		}
		if t.GetLeafValue(p) != nil {
			return "mon=FAIL:leaf-survived-its-delete"
		}
		if v := t.GetLeafValue([]string{"k", "l"}); v != 8 {
			return "mon=FAIL:other-leaf-changed"
		}
	}
	return "mon=ok"
}

func ccAddVsCondDelete(seed int64, rounds int) string {
	r := rand.New(rand.NewSource(seed))
	if p := runtime.GOMAXPROCS(0); p < 4 {
		defer runtime.GOMAXPROCS(runtime.GOMAXPROCS(4))
	}
	for round := 0; round < rounds; round++ {
		depth := 1 + r.Intn(4)
		p := []string{"a", "b", "c", "d"}[:depth]
		t := &ctree.Tree{}
		if t.Add(p, 0) != nil || t.Add([]string{"k"}, 8) != nil {
			return "mon=setup-failed"
		}
		q := p[:1+r.Intn(depth)]
		offA, offD := r.Intn(4), r.Intn(4)
		start := make(chan struct{})
		var wg sync.WaitGroup
		var addErr error
		wg.Add(2)
		go func() {
			defer wg.Done()
			<-start
			ccSpin(offA)
			addErr = t.Add(p, 1)
		}()
		go func() {
			defer wg.Done()
			<-start
			ccSpin(offD)
			t.DeleteConditional(q, func(v interface{}) bool { n, _ := v.(int); return n == 0 })
		}()
		close(start)
		wg.Wait()
		if addErr != nil {
			return "mon=FAIL:add-over-existing-leaf-rejected"
		}
		if v := t.GetLeafValue(p); v != 1 {
			return "mon=FAIL:accepted-add-lost depth=" + strconv.Itoa(depth) + " deleted-depth=" + strconv.Itoa(len(q))
		}
		if v := t.GetLeafValue([]string{"k"}); v != 8 {
			return "mon=FAIL:other-leaf-changed"
		}
	}
	return "mon=ok"
}
