package main

// rx: the receive surfaces of property C12 other than cache ingest.  One abstract decoded
// message (or a short sequence of them) is pushed through the REAL code of a surface,
// in-process, and the visible result is digested:
//
//   rx sub <cache> <nodup> <req>     subscribe.Server.Subscribe over an in-memory stream against a
//                                    cache built from <cache>; before that, in the calling goroutine,
//                                    path.CompletePath on every subscription and
//                                    MakeSubscribeResponse / isTargetDelete on every cache leaf
//   rx mk <nodup> <stored> <dup>     MakeSubscribeResponse, isTargetDelete, Server.Update on one value
//   rx recv <o|p|s> <resps>          client.CacheClient on the repository's gNMI transport client
//                                    (client/gnmi) reading a scripted stream
//   rx cli <dt> <qt> <tm> <full|count> <resps>   cli.QueryDisplay with a capturing Display
//   rx mgr <resp>                    manager.handleGNMIUpdate
//
// Token grammar and observations: lean/Driver/RX.lean (both sides parse the same tokens).
// A panic in the calling goroutine becomes the observation `panic` (safeRun); a panic in a
// goroutine started by the code under test kills the process, which the check reports as a
// divergence at that line (`<no-output>`).

import (
	"context"
	"encoding/hex"
	"flag"
	"fmt"
	"io"
	"math/rand"
	"net"
	"os"
	"sort"
	"strconv"
	"strings"
	"sync"
	"time"

	"google.golang.org/grpc"
	"google.golang.org/grpc/codes"
	"google.golang.org/grpc/metadata"
	"google.golang.org/grpc/peer"
	"google.golang.org/grpc/status"
	"google.golang.org/protobuf/proto"

	"github.com/openconfig/gnmi/cache"
	"github.com/openconfig/gnmi/cli"
	"github.com/openconfig/gnmi/client"
	gclient "github.com/openconfig/gnmi/client/gnmi"
	"github.com/openconfig/gnmi/ctree"
	"github.com/openconfig/gnmi/manager"
	"github.com/openconfig/gnmi/path"
	gpb "github.com/openconfig/gnmi/proto/gnmi"
	"github.com/openconfig/gnmi/subscribe"
)

type rxComp struct{ once sync.Once }

func init() { components["rx"] = &rxComp{} }

// ---------------------------------------------------------------- token parsing

func rxParseOld(s string) *gpb.Value {
	if s == "-" {
		return nil
	}
	f := strings.SplitN(s, ":", 2)
	if len(f) != 2 {
		return &gpb.Value{}
	}
	t, _ := strconv.Atoi(f[0])
	return &gpb.Value{Type: gpb.Encoding(t), Value: []byte(decStr(f[1]))}
}

func rxParseUpd(s string) *gpb.Update {
	if s == "!" {
		return nil
	}
	f := strings.Split(s, "|")
	if len(f) != 4 {
		return &gpb.Update{}
	}
	d, _ := strconv.ParseUint(f[3], 10, 32)
	return &gpb.Update{Path: pvParseGPath(f[0]), Val: pvParseTV(f[1]), Value: rxParseOld(f[2]), Duplicates: uint32(d)}
}

func rxParseNoti(s string) *gpb.Notification {
	f := strings.Split(s, "^")
	if len(f) != 5 {
		return &gpb.Notification{}
	}
	ts, _ := strconv.ParseInt(f[0], 10, 64)
	n := &gpb.Notification{Timestamp: ts, Prefix: pvParseGPath(f[1]), Atomic: f[2] == "A"}
	if f[3] != "-" {
		for _, u := range strings.Split(f[3], "+") {
			n.Update = append(n.Update, rxParseUpd(u))
		}
	}
	if f[4] != "-" {
		for _, d := range strings.Split(f[4], "+") {
			n.Delete = append(n.Delete, pvParseGPath(d))
		}
	}
	return n
}

func rxParseResp(s string) *gpb.SubscribeResponse {
	switch {
	case s == "X":
		return nil
	case s == "Z":
		return &gpb.SubscribeResponse{}
	case s == "U!":
		return &gpb.SubscribeResponse{Response: &gpb.SubscribeResponse_Update{}}
	case strings.HasPrefix(s, "U"):
		return &gpb.SubscribeResponse{Response: &gpb.SubscribeResponse_Update{Update: rxParseNoti(s[1:])}}
	case s == "S0" || s == "S1":
		return &gpb.SubscribeResponse{Response: &gpb.SubscribeResponse_SyncResponse{SyncResponse: s == "S1"}}
	case s == "E1":
		return &gpb.SubscribeResponse{Response: &gpb.SubscribeResponse_Error{Error: &gpb.Error{Code: 3, Message: "scripted"}}}
	case s == "E0":
		return &gpb.SubscribeResponse{Response: &gpb.SubscribeResponse_Error{}}
	}
	return &gpb.SubscribeResponse{}
}

func rxParseResps(s string) []*gpb.SubscribeResponse {
	if s == "-" {
		return nil
	}
	var out []*gpb.SubscribeResponse
	for _, r := range strings.Split(s, "&") {
		out = append(out, rxParseResp(r))
	}
	return out
}

func rxParseReq(s string) *gpb.SubscribeRequest {
	switch {
	case s == "X":
		return nil
	case s == "Z":
		return &gpb.SubscribeRequest{}
	case s == "P":
		return &gpb.SubscribeRequest{Request: &gpb.SubscribeRequest_Poll{Poll: &gpb.Poll{}}}
	case s == "S!":
		return &gpb.SubscribeRequest{Request: &gpb.SubscribeRequest_Subscribe{}}
	case strings.HasPrefix(s, "S"):
		f := strings.Split(s[1:], "^")
		if len(f) != 4 {
			return &gpb.SubscribeRequest{}
		}
		m, err := strconv.Atoi(f[1])
		if err != nil {
			m = 99
		}
		sl := &gpb.SubscriptionList{Prefix: pvParseGPath(f[0]), Mode: gpb.SubscriptionList_Mode(m), UpdatesOnly: f[2] == "1"}
		if f[3] != "-" {
			for _, x := range strings.Split(f[3], "+") {
				if x == "!" {
					sl.Subscription = append(sl.Subscription, nil)
				} else {
					sl.Subscription = append(sl.Subscription, &gpb.Subscription{Path: pvParseGPath(x)})
				}
			}
		}
		return &gpb.SubscribeRequest{Request: &gpb.SubscribeRequest_Subscribe{Subscribe: sl}}
	}
	return &gpb.SubscribeRequest{}
}

// rxBuildCache ingests one single-update notification per listed leaf (lean: leafNoti).
func rxBuildCache(spec string) *cache.Cache {
	c := cache.New(nil)
	if spec == "-" {
		return c
	}
	for _, t := range strings.Split(spec, "+") {
		f := strings.SplitN(t, "=", 2)
		if len(f) != 2 {
			continue
		}
		name := decStr(f[0])
		c.Add(name)
		if f[1] == "" {
			continue
		}
		for _, l := range strings.Split(f[1], ",") {
			x := strings.SplitN(l, ":", 2)
			v, _ := strconv.ParseInt(x[1], 10, 64)
			p := &gpb.Path{}
			for _, e := range decPath(x[0]) {
				p.Elem = append(p.Elem, &gpb.PathElem{Name: e})
			}
			c.GnmiUpdate(&gpb.Notification{Timestamp: v + 1, Prefix: &gpb.Path{Target: name},
				Update: []*gpb.Update{{Path: p, Val: &gpb.TypedValue{Value: &gpb.TypedValue_IntVal{IntVal: v}}}}})
		}
	}
	return c
}

// ---------------------------------------------------------------- (2) Subscribe

type rxSubStream struct {
	ctx    context.Context
	cancel context.CancelFunc
	req    *gpb.SubscribeRequest
	mu     sync.Mutex
	recvs  int
	keys   []string
	synced bool
	syncC  chan struct{}
	stream bool
}

func (s *rxSubStream) Context() context.Context     { return s.ctx }
func (s *rxSubStream) SetHeader(metadata.MD) error  { return nil }
func (s *rxSubStream) SendHeader(metadata.MD) error { return nil }
func (s *rxSubStream) SetTrailer(metadata.MD)       {}
func (s *rxSubStream) SendMsg(interface{}) error    { return nil }
func (s *rxSubStream) RecvMsg(interface{}) error    { return nil }

func (s *rxSubStream) Recv() (*gpb.SubscribeRequest, error) {
	s.mu.Lock()
	n := s.recvs
	s.recvs++
	s.mu.Unlock()
	if n == 0 {
		return s.req, nil
	}
	// POLL: the client half-closes once it has seen the sync response
	select {
	case <-s.syncC:
		return nil, io.EOF
	case <-s.ctx.Done():
		return nil, s.ctx.Err()
	}
}

func (s *rxSubStream) Send(r *gpb.SubscribeResponse) error {
	s.mu.Lock()
	defer s.mu.Unlock()
	switch v := r.Response.(type) {
	case *gpb.SubscribeResponse_SyncResponse:
		if !s.synced {
			s.synced = true
			close(s.syncC)
			if s.stream {
				s.cancel() // STREAM: the client goes away after the sync response
			}
		}
	case *gpb.SubscribeResponse_Update:
		g := fromNoti(v.Update)
		var p gPath
		if len(g.upd) > 0 {
			p = g.upd[0].path
		} else if len(g.del) > 0 {
			p = g.del[0]
		}
		s.keys = append(s.keys, encPath(subIndexOf(g.prefix, p)))
	}
	return nil
}

func rxSubCode(err error) string {
	switch status.Code(err) {
	case codes.InvalidArgument:
		return "err:invalid"
	case codes.NotFound:
		return "err:notfound"
	case codes.PermissionDenied:
		return "err:denied"
	case codes.Unauthenticated:
		return "err:unauthenticated"
	}
	return "err:unknown"
}

func rxSub(cacheSpec string, noDup bool, reqTok string) string {
	return rxSubReq(cacheSpec, noDup, rxParseReq(reqTok))
}

func rxSubReq(cacheSpec string, noDup bool, req *gpb.SubscribeRequest) string {
	c := rxBuildCache(cacheSpec)
	opts := []subscribe.Option{subscribe.WithTimeout(2 * time.Second), subscribe.WithStats()}
	if noDup {
		opts = append(opts, subscribe.WithoutDupReport())
	}
	srv, _ := subscribe.NewServer(c, opts...)
	c.SetClient(srv.Update)
	// In the calling goroutine (a panic here is the observation `panic`): the pure pieces the
	// RPC's own goroutines will run.
	if sl := req.GetSubscribe(); sl != nil && sl.GetPrefix() != nil && c.HasTarget(sl.GetPrefix().GetTarget()) &&
		sl.GetMode() >= 0 && sl.GetMode() <= 2 && !sl.GetUpdatesOnly() {
		// exactly the calls processSubscription will make for an accepted request
		for _, sub := range sl.GetSubscription() {
			path.CompletePath(sl.GetPrefix(), sub.GetPath())
		}
	}
	c.Query("*", []string{"*"}, func(_ []string, l *ctree.Leaf, v interface{}) error {
		for _, dup := range []uint32{0, 1} {
			srv.MakeSubscribeResponse(v, dup)
		}
		subscribe.VerifIsTargetDelete(ctree.DetachedLeaf(v))
		return nil
	})
	ctx := peer.NewContext(context.Background(), &peer.Peer{Addr: &net.TCPAddr{IP: net.IPv4(127, 0, 0, 1), Port: 1}})
	st := &rxSubStream{req: req, syncC: make(chan struct{})}
	st.ctx, st.cancel = context.WithCancel(ctx)
	defer st.cancel()
	st.stream = req.GetSubscribe().GetMode() == gpb.SubscriptionList_STREAM
	watchdog := time.AfterFunc(5*time.Second, st.cancel)
	defer watchdog.Stop()
	err := srv.Subscribe(st)
	st.mu.Lock()
	defer st.mu.Unlock()
	if err != nil && !(st.stream && st.synced && status.Code(err) != codes.InvalidArgument && st.ctx.Err() != nil) {
		return rxSubCode(err)
	}
	sort.Strings(st.keys)
	var keys []string
	for i, k := range st.keys {
		if i == 0 || k != st.keys[i-1] {
			keys = append(keys, k)
		}
	}
	sy := "0"
	if st.synced {
		sy = "1"
	}
	return "ok:" + bracket(keys) + ":" + sy
}

func rxParseStored(s string) interface{} {
	switch s {
	case "F":
		return "foreign"
	case "!":
		return (*gpb.Notification)(nil)
	}
	return rxParseNoti(s)
}

func rxMk(noDup bool, storedTok string, dup uint32) string {
	return rxMkStored(noDup, nil, dup, storedTok)
}

// rxMkStored: the stored value is `fixed` when given, else parsed afresh from the token for each call.
func rxMkStored(noDup bool, fixed *gpb.Notification, dup uint32, tok ...string) string {
	stored := func() interface{} {
		if fixed != nil {
			return proto.Clone(fixed)
		}
		return rxParseStored(tok[0])
	}
	var opts []subscribe.Option
	if noDup {
		opts = append(opts, subscribe.WithoutDupReport())
	}
	srv, _ := subscribe.NewServer(cache.New(nil), opts...)
	a := pvTry(func() string {
		r, err := srv.MakeSubscribeResponse(stored(), dup)
		if err != nil {
			return "err"
		}
		if us := r.GetUpdate().GetUpdate(); len(us) > 0 && us[0] != nil {
			return "ok:" + strconv.Itoa(int(us[0].GetDuplicates()))
		}
		return "ok:-"
	})
	b := pvTry(func() string {
		return strconv.FormatBool(subscribe.VerifIsTargetDelete(ctree.DetachedLeaf(stored())))
	})
	c := pvTry(func() string {
		srv.Update(ctree.DetachedLeaf(stored()))
		return "ok"
	})
	return a + "," + b + "," + c
}

// ---------------------------------------------------------------- (3) client receive path

// rxScript is a scripted gpb.GNMIClient and its single Subscribe stream: the listed
// responses, then io.EOF (again and again).
type rxScript struct {
	grpc.ClientStream // nil; only the methods below are used by client/gnmi
	ctx               context.Context
	resps             []*gpb.SubscribeResponse
	n                 int
}

func (s *rxScript) Capabilities(context.Context, *gpb.CapabilityRequest, ...grpc.CallOption) (*gpb.CapabilityResponse, error) {
	return nil, io.ErrUnexpectedEOF
}
func (s *rxScript) Get(context.Context, *gpb.GetRequest, ...grpc.CallOption) (*gpb.GetResponse, error) {
	return nil, io.ErrUnexpectedEOF
}
func (s *rxScript) Set(context.Context, *gpb.SetRequest, ...grpc.CallOption) (*gpb.SetResponse, error) {
	return nil, io.ErrUnexpectedEOF
}
func (s *rxScript) Subscribe(ctx context.Context, _ ...grpc.CallOption) (gpb.GNMI_SubscribeClient, error) {
	s.ctx = ctx
	return s, nil
}
func (s *rxScript) Send(*gpb.SubscribeRequest) error { return nil }
func (s *rxScript) CloseSend() error                 { return nil }
func (s *rxScript) Context() context.Context         { return s.ctx }
func (s *rxScript) Recv() (*gpb.SubscribeResponse, error) {
	if s.n >= len(s.resps) {
		return nil, io.EOF
	}
	r := s.resps[s.n]
	s.n++
	return r, nil
}

// rxImpl is the repository's gNMI transport client with a Close that needs no grpc.ClientConn.
type rxImpl struct{ *gclient.Client }

func (rxImpl) Close() error { return nil }

func rxRegister(resps []*gpb.SubscribeResponse) {
	client.ResetRegisteredImpls()
	client.RegisterTest(gclient.Type, func(ctx context.Context, _ client.Destination) (client.Impl, error) {
		return rxImpl{gclient.VerifNewScripted(&rxScript{resps: resps})}, nil
	})
}

func rxQType(s string) client.Type {
	switch s {
	case "o":
		return client.Once
	case "p":
		return client.Poll
	case "s":
		return client.Stream
	}
	return client.Unknown
}

func rxQuery(qt string) client.Query {
	return client.Query{Addrs: []string{"scripted"}, Target: "dev", Queries: []client.Path{{"*"}},
		Type: rxQType(qt), Timeout: 5 * time.Second}
}

func rxRenderVal(v interface{}) string {
	switch x := v.(type) {
	case nil:
		return "jnull"
	case map[string]interface{}:
		return "jmap"
	default:
		return pvRenderScalar(x)
	}
}

func rxLeaves(c *client.CacheClient) string {
	var out []string
	for _, l := range c.Leaves() {
		out = append(out, encPath(l.Path)+"="+strconv.FormatInt(l.TS.UnixNano(), 10)+":"+rxRenderVal(l.Val))
	}
	return bracket(out)
}

func rxRecv(qt, respsTok string) string { return rxRecvResps(qt, rxParseResps(respsTok)) }

func rxRecvResps(qt string, resps []*gpb.SubscribeResponse) string {
	rxRegister(resps)
	c := client.New()
	err := c.Subscribe(context.Background(), rxQuery(qt), gclient.Type)
	// the same stream once more for an application that KEEPS what its handler is given (a batching consumer):
	// the index path of a delivered update or delete is that update's own — it does not change when the rest
	// of the notification is delivered (seeded change c19_seed11: every path of one notification built on the
	// prefix's slice).  Independent of the model: only ever adds a suffix when something changed.
	kept := rxRetained(qt, resps)
	if err != nil {
		return "err:" + rxLeaves(c) + kept
	}
	return "ok:" + rxLeaves(c) + kept
}

func rxRetained(qt string, resps []*gpb.SubscribeResponse) (verdict string) {
	defer func() {
		if recover() != nil {
			verdict = "" // a panic on this stream is the CacheClient run's to report
		}
	}()
	rxRegister(resps)
	var got []client.Notification
	var then []string
	render := func(n client.Notification) string {
		switch v := n.(type) {
		case client.Update:
			return "U" + encPath(v.Path)
		case client.Delete:
			return "D" + encPath(v.Path)
		}
		return "-"
	}
	q := rxQuery(qt)
	q.NotificationHandler = func(n client.Notification) error {
		got = append(got, n)
		then = append(then, render(n))
		return nil
	}
	(&client.BaseClient{}).Subscribe(context.Background(), q, gclient.Type)
	for i, n := range got {
		if now := render(n); now != then[i] {
			return " retained-path-changed:" + then[i] + "->" + now
		}
	}
	return ""
}

// ---------------------------------------------------------------- (4) CLI display

func rxCli(text bool, dt, qt, tm, mode, respsTok string) string {
	return rxCliResps(text, dt, qt, tm, mode, rxParseResps(respsTok))
}

func rxCliResps(text bool, dt, qt, tm, mode string, resps []*gpb.SubscribeResponse) string {
	rxRegister(resps)
	var shown []string
	cfg := &cli.Config{
		Delimiter:     "/",
		Display:       func(b []byte) { shown = append(shown, string(b)) },
		DisplayIndent: "  ",
		DisplayType:   map[string]string{"g": "group", "s": "single", "p": "proto", "sp": "shortproto"}[dt],
		Timestamp:     map[string]string{"off": "", "on": "on", "raw": "raw", "layout": "x"}[tm],
		ClientTypes:   []string{gclient.Type},
	}
	if dt != "g" && dt != "s" && dt != "p" && dt != "sp" {
		cfg.DisplayType = "bogus"
	}
	if qt == "p" {
		cfg.Count = 1
	}
	if err := cli.QueryDisplay(context.Background(), rxQuery(qt), cfg); err != nil {
		return "err"
	}
	body := strings.Join(shown, "\x1e")
	switch {
	case text:
		return "ok:" + strconv.Itoa(len(shown)) + ":" + encStr(body)
	case mode == "full":
		return "ok:" + strconv.Itoa(len(shown)) + ":" + strconv.FormatUint(uint64(fnv32(body)), 10)
	}
	return "ok:" + strconv.Itoa(len(shown)) + ":-"
}

// ---------------------------------------------------------------- (5) manager

type rxConnMgr struct{}

func (rxConnMgr) Connection(context.Context, string, string) (*grpc.ClientConn, func(), error) {
	return nil, func() {}, io.ErrUnexpectedEOF
}

func rxMgr(respTok string) string { return rxMgrResp(rxParseResp(respTok)) }

func rxMgrResp(resp *gpb.SubscribeResponse) string {
	obs := "ok:none"
	m, err := manager.NewManager(manager.Config{
		ConnectionManager: rxConnMgr{},
		Update: func(_ string, n *gpb.Notification) {
			if n == nil {
				obs = "ok:update:nil"
				return
			}
			obs = fmt.Sprintf("ok:update:%d:%d", len(n.Update), len(n.Delete))
		},
		Sync: func(string) { obs = "ok:sync" },
	})
	if err != nil {
		return "bad-op"
	}
	if err := m.VerifHandleGNMIUpdate("dev", resp); err != nil {
		return "err"
	}
	return obs
}

// ---------------------------------------------------------------- wire-byte fuzzing (search only)

var (
	rxFuzzRespSeeds [][]byte
	rxFuzzReqSeeds  [][]byte
	rxFuzzOnce      sync.Once
)

func rxFuzzInit() {
	for _, n := range rxWeirdNotis(true) {
		if b, err := proto.Marshal(rxParseResp("U" + n)); err == nil {
			rxFuzzRespSeeds = append(rxFuzzRespSeeds, b)
		}
	}
	for _, r := range rxOtherResps {
		if m := rxParseResp(r); m != nil {
			if b, err := proto.Marshal(m); err == nil {
				rxFuzzRespSeeds = append(rxFuzzRespSeeds, b)
			}
		}
	}
	for _, op := range rxSubReqs(true) {
		f := strings.Fields(op)
		if m := rxParseReq(f[3]); m != nil {
			if b, err := proto.Marshal(m); err == nil {
				rxFuzzReqSeeds = append(rxFuzzReqSeeds, b)
			}
		}
	}
}

func rxMutate(r *rand.Rand, seeds [][]byte) []byte {
	b := append([]byte(nil), seeds[r.Intn(len(seeds))]...)
	for k := 1 + r.Intn(2); k > 0; k-- {
		switch x := r.Intn(12); {
		case x < 3:
			// concatenation of two encodings is an encoding (merge: oneof replaced, repeated appended)
			b = append(b, seeds[r.Intn(len(seeds))]...)
		case len(b) == 0 || x == 3:
			b = append(b, byte(r.Intn(256)))
		case x < 6:
			b[r.Intn(len(b))] = byte(r.Intn(256))
		case x < 8:
			b[r.Intn(len(b))] ^= 1 << uint(r.Intn(8))
		case x < 9:
			i := r.Intn(len(b))
			b = append(b[:i], b[i+1:]...)
		case x < 10:
			i := r.Intn(len(b) + 1)
			b = append(b[:i], append([]byte{byte(r.Intn(256))}, b[i:]...)...)
		case x < 11:
			o := seeds[r.Intn(len(seeds))]
			i, j := r.Intn(len(b)+1), r.Intn(len(o)+1)
			b = append(append([]byte(nil), b[:i]...), o[j:]...)
		default:
			b = b[:r.Intn(len(b)+1)]
		}
	}
	return b
}

// rxFuzz mutates wire bytes of enumerated messages, decodes them with proto.Unmarshal (what
// comes out is WireValid by construction) and pushes each decoded message through one
// surface.  The only observation is "no panic": `ok`, or `panic:<hex of the wire bytes>`.
func rxFuzz(surface string, seed int64, n int) (out string) {
	rxFuzzOnce.Do(rxFuzzInit)
	r := rand.New(rand.NewSource(seed))
	var cur []byte
	defer func() {
		if e := recover(); e != nil {
			out = "panic:" + hex.EncodeToString(cur)
		}
	}()
	sync1 := rxParseResp("S1")
	decoded := 0
	defer func() {
		if os.Getenv("VERIF_FUZZ_STATS") != "" {
			fmt.Fprintf(os.Stderr, "rx fuzz %s: %d of %d mutants decoded\n", surface, decoded, n)
		}
	}()
	for i := 0; i < n; i++ {
		if surface == "s" {
			cur = rxMutate(r, rxFuzzReqSeeds)
			req := &gpb.SubscribeRequest{}
			if proto.Unmarshal(cur, req) != nil {
				continue
			}
			decoded++
			rxSubReq(rxCaches[2], i%2 == 0, req)
			continue
		}
		cur = rxMutate(r, rxFuzzRespSeeds)
		resp := &gpb.SubscribeResponse{}
		if proto.Unmarshal(cur, resp) != nil {
			continue
		}
		decoded++
		clone := func() *gpb.SubscribeResponse { return proto.Clone(resp).(*gpb.SubscribeResponse) }
		switch surface {
		case "r":
			rxRecvResps("s", []*gpb.SubscribeResponse{clone(), sync1, clone()})
		case "c":
			dt := []string{"g", "s", "p", "sp"}[i%4]
			tm := []string{"off", "raw", "on", "layout"}[(i/4)%4]
			qt := []string{"s", "o", "p"}[(i/16)%3]
			rxCliResps(false, dt, qt, tm, "count", []*gpb.SubscribeResponse{clone(), sync1, clone(), sync1})
		case "m":
			rxMgrResp(resp)
			if n := resp.GetUpdate(); n != nil {
				rxMkStored(false, n, uint32(i%3))
			}
		}
	}
	return "ok"
}

// ---------------------------------------------------------------- run

func (c *rxComp) Run(args []string) string {
	c.once.Do(func() { flag.Set("logtostderr", "true"); flag.Set("stderrthreshold", "FATAL") })
	if len(args) == 0 {
		return "bad-op"
	}
	switch {
	case args[0] == "new":
		return "ok"
	case args[0] == "sub" && len(args) == 4:
		return rxSub(args[1], args[2] == "1", args[3])
	case args[0] == "mk" && len(args) == 4:
		d, _ := strconv.ParseUint(args[3], 10, 32)
		return rxMk(args[1] == "1", args[2], uint32(d))
	case args[0] == "recv" && len(args) == 3:
		return rxRecv(args[1], args[2])
	case (args[0] == "cli" || args[0] == "clitext") && len(args) == 6:
		return rxCli(args[0] == "clitext", args[1], args[2], args[3], args[4], args[5])
	case args[0] == "mgr" && len(args) == 2:
		return rxMgr(args[1])
	case args[0] == "fuzz" && len(args) == 4:
		seed, _ := strconv.ParseInt(args[2], 10, 64)
		n, _ := strconv.Atoi(args[3])
		return rxFuzz(args[1], seed, n)
	}
	return "bad-op"
}

// ---------------------------------------------------------------- generators

// ---- building blocks: "small weird messages" ----

func rxPath(target, origin string, elems []string, element []string) string {
	es := "."
	if len(elems) > 0 {
		es = ""
		for _, e := range elems {
			es += "/" + e // already rendered: enc(name)[,k=v]*
		}
	}
	return "P;" + encStr(target) + ";" + encStr(origin) + ";" + es + ";" + encPath(element)
}

// prefixes: nil, empty, target only, target+origin, with an element in either encoding,
// metadata root, wildcard
var rxPrefixes = []string{
	"N",
	rxPath("", "", nil, nil),
	rxPath("dev", "", nil, nil),
	rxPath("dev", "oc", nil, nil),
	rxPath("dev", "", []string{"a"}, nil),
	rxPath("dev", "", nil, []string{"a"}),
	rxPath("", "", []string{"meta"}, nil),
	rxPath("dev", "", []string{"*"}, nil),
	rxPath("*", "", nil, nil),
}

// paths: nil, empty, one or two elements in both encodings, keys, meta, wildcard, empty name
var rxPaths = []string{
	"N",
	rxPath("", "", nil, nil),
	rxPath("", "", []string{"a"}, nil),
	rxPath("", "", []string{"a", "b"}, nil),
	rxPath("", "", []string{"b"}, nil),
	rxPath("", "", nil, []string{"a"}),
	rxPath("", "", nil, []string{"a", "b"}),
	rxPath("", "", []string{"a,k=v"}, nil),
	rxPath("", "", []string{"a,k=v,j=w", "c"}, nil),
	rxPath("", "", []string{"meta"}, nil),
	rxPath("", "", []string{"meta", "sync"}, nil),
	rxPath("", "", []string{"*"}, nil),
	rxPath("", "", []string{"a", "*"}, nil),
	rxPath("", "", []string{"~"}, nil),
	rxPath("", "oc", []string{"a"}, nil),
	rxPath("t2", "", []string{"a"}, nil),
	rxPath("", "", []string{"a"}, []string{"z"}),
	rxPath("", "", []string{"value", "x"}, nil),
	rxPath("", "", []string{"timestamp"}, nil),
}

var rxJSONValid = []string{"{}", "{\"a\":1}", "1", "\"x\"", "[1]", "null", "true"}
var rxJSONInvalid = []string{"{", "", "nul", "[1", "\xff"}

// value arms as (tv token, old-value token, wire valid)
type rxValArm struct {
	tv, old string
	wire    bool
}

var rxVals = []rxValArm{
	{"N", "-", true}, // no value at all
	{"U", "-", true}, // TypedValue with no arm set
	{"s:x", "-", true}, {"s:~", "-", true}, {"i:1", "-", true}, {"i:-5", "-", true}, {"u:7", "-", true},
	{"b:1", "-", true}, {"y:%00", "-", true}, {"f:3FC00000", "-", true}, {"d:3FF8000000000000", "-", true},
	{"d:7FF8000000000001", "-", true}, // NaN
	{"m:15:1", "-", true}, {"m:0:0", "-", true},
	{"l()", "-", true}, {"l(i:1,s:x)", "-", true}, {"l(U)", "-", true}, {"l(l(i:1))", "-", true},
	{"l(i:1,A:x,i:2)", "-", true},
	{"j:" + encStr("{}"), "-", true}, {"j:" + encStr("{"), "-", true}, {"J:" + encStr("[1]"), "-", true}, {"J:~", "-", true},
	{"l(j:" + encStr("1") + ")", "-", true},
	{"A:x", "-", true}, {"a:%01", "-", true}, {"p:%01", "-", true},
	{"N", "1:%00%01", true}, {"N", "0:" + encStr("{}"), true}, {"N", "0:" + encStr("{"), true}, {"N", "4:" + encStr("\"x\""), true},
	{"N", "2:%00", true}, {"N", "3:x", true}, {"N", "9:x", true},
	{"i:1", "1:%00", true}, // both set: Val wins
	// only constructible in-process (not WireValid)
	{"m!", "-", false}, {"l!", "-", false}, {"l(N)", "-", false}, {"l(i:1,N)", "-", false}, {"l(U,N)", "-", false}, {"l(m!)", "-", false},
}

func rxUpd(p string, v rxValArm, dup int) string {
	return p + "|" + v.tv + "|" + v.old + "|" + strconv.Itoa(dup)
}

func rxNoti(ts int64, prefix string, atomic bool, upds, dels []string) string {
	a := "N"
	if atomic {
		a = "A"
	}
	us, ds := "-", "-"
	if len(upds) > 0 {
		us = strings.Join(upds, "+")
	}
	if len(dels) > 0 {
		ds = strings.Join(dels, "+")
	}
	return strconv.FormatInt(ts, 10) + "^" + prefix + "^" + a + "^" + us + "^" + ds
}

// response kinds other than update
var rxOtherResps = []string{"S1", "S0", "E1", "E0", "Z", "X", "U!"}

// rxWeirdNotis: the structure-aware enumeration (every prefix × path × value arm × atomic,
// single update; deletes; nil entries; empty notification; two-element combinations)
func rxWeirdNotis(full bool) []string {
	var out []string
	for pi, pre := range rxPrefixes {
		for qi, p := range rxPaths {
			for vi, v := range rxVals {
				if !full && (pi+qi+vi)%3 != 0 {
					continue
				}
				for _, at := range []bool{false, true} {
					if at && (vi%4 != 0) {
						continue
					}
					out = append(out, rxNoti(int64(100+vi), pre, at, []string{rxUpd(p, v, 0)}, nil))
				}
			}
			out = append(out, rxNoti(50, pre, false, nil, []string{p}))
		}
		// empty notification, nil entries, mixtures
		out = append(out, rxNoti(1, pre, false, nil, nil))
		out = append(out, rxNoti(1, pre, false, []string{"!"}, nil))
		out = append(out, rxNoti(1, pre, false, []string{rxUpd(rxPaths[2], rxVals[4], 0), "!"}, nil))
		out = append(out, rxNoti(1, pre, false, []string{rxUpd(rxPaths[2], rxVals[4], 0), rxUpd("N", rxVals[4], 0)}, nil))
		out = append(out, rxNoti(1, pre, false, []string{rxUpd(rxPaths[2], rxVals[4], 0), rxUpd(rxPaths[3], rxVals[2], 0)}, []string{rxPaths[2]}))
		out = append(out, rxNoti(1, pre, false, []string{rxUpd(rxPaths[3], rxVals[4], 0), rxUpd(rxPaths[2], rxVals[2], 0)}, nil))
		out = append(out, rxNoti(1, pre, false, []string{rxUpd(rxPaths[2], rxVals[4], 0), rxUpd(rxPaths[3], rxVals[20], 0)}, nil))
		out = append(out, rxNoti(1, pre, false, nil, []string{rxPaths[2], "N", rxPaths[11]}))
	}
	return out
}

// a handful of notifications that, in sequence, build and reshape a client tree
func rxTreeSeqs() [][]string {
	p := rxPrefixes[2]
	u := func(path string, v int) string { return rxUpd(path, rxVals[v], 0) }
	n := func(upds, dels []string) string { return "U" + rxNoti(7, p, false, upds, dels) }
	a, ab, b, root, star, astar := rxPaths[2], rxPaths[3], rxPaths[4], rxPaths[1], rxPaths[11], rxPaths[12]
	return [][]string{
		{n([]string{u(a, 4)}, nil), n([]string{u(ab, 2)}, nil), "S1", n([]string{u(b, 7)}, nil)},       // leaf then below it
		{n([]string{u(ab, 2)}, nil), n([]string{u(a, 4)}, nil), "S1", n(nil, []string{a})},             // branch then leaf at it
		{"U" + rxNoti(7, "N", false, []string{u(root, 4)}, nil), n([]string{u(a, 4)}, nil), "S1"},      // value at the root
		{n([]string{u(a, 4), u(b, 2)}, nil), "S1", n(nil, []string{star}), n([]string{u(b, 6)}, nil)},  // wildcard delete
		{n([]string{u(ab, 4), u(b, 2)}, nil), n(nil, []string{astar}), "S1", "S1", n(nil, []string{root})},
		{n([]string{u(a, 4)}, nil), "S1", n([]string{u(b, 2), u("N", 2)}, nil)},                        // rejected after a partial apply
		{n([]string{u(a, 4)}, nil), "E1", n([]string{u(b, 2)}, nil)},
		{n([]string{u(a, 4)}, nil), "Z"},
		{"S1", n([]string{u(a, 15)}, nil), n([]string{u(a, 0)}, nil)},
		{n([]string{u(a, 4)}, nil), "S1", n([]string{u(b, 2)}, nil), "S1", n([]string{u(ab, 2)}, nil)}, // two poll cycles
		// values and deletes at the root, before and after the sync
		{"S1", "U" + rxNoti(8, "N", false, []string{u(root, 4)}, nil), "U" + rxNoti(9, "N", false, nil, []string{root})},
		{"U" + rxNoti(8, rxPrefixes[1], false, []string{u("N", 0), u(root, 2)}, nil), "S1", "U" + rxNoti(9, "N", false, []string{u(root, 15)}, []string{"N"})},
		{"S0", "U" + rxNoti(8, "N", false, []string{u(rxPaths[13], 4)}, nil), "U" + rxNoti(8, "N", false, []string{u(rxPath("", "", []string{"~", "~"}, nil), 4)}, nil)},
	}
}

func rxChunk(ops []string, n int) [][]string {
	var out [][]string
	for i := 0; i < len(ops); i += n {
		j := i + n
		if j > len(ops) {
			j = len(ops)
		}
		out = append(out, append([]string{"new"}, ops[i:j]...))
	}
	return out
}

// ---- renderability of a response sequence for the full CLI digest ----

func rxPlainStr(s string) bool {
	for i := 0; i < len(s); i++ {
		if s[i] < 0x20 || s[i] > 0x7e {
			return false
		}
	}
	return true
}

func rxPlainPath(p *gpb.Path) bool {
	if p == nil {
		return true
	}
	if !rxPlainStr(p.GetTarget()) || !rxPlainStr(p.GetOrigin()) {
		return false
	}
	for _, e := range p.GetElement() {
		if !rxPlainStr(e) {
			return false
		}
	}
	for _, e := range p.GetElem() {
		if e == nil || !rxPlainStr(e.GetName()) {
			return false
		}
		for _, v := range e.GetKey() {
			if !rxPlainStr(v) {
				return false
			}
		}
	}
	return true
}

func rxPlainVal(v *gpb.TypedValue, top bool) bool {
	switch x := v.GetValue().(type) {
	case *gpb.TypedValue_StringVal:
		return rxPlainStr(x.StringVal)
	case *gpb.TypedValue_IntVal, *gpb.TypedValue_UintVal, *gpb.TypedValue_BoolVal:
		return true
	case *gpb.TypedValue_LeaflistVal:
		if !top || x.LeaflistVal == nil {
			return false
		}
		for _, e := range x.LeaflistVal.GetElement() {
			if e == nil || !rxPlainVal(e, false) {
				return false
			}
		}
		return true
	}
	return false
}

func rxRenderable(dt, tm string, resps []*gpb.SubscribeResponse) bool {
	if (dt != "g" && dt != "s") || tm == "on" {
		return false
	}
	for _, r := range resps {
		n := r.GetUpdate()
		if n == nil {
			continue
		}
		if !rxPlainPath(n.GetPrefix()) {
			return false
		}
		for _, u := range n.GetUpdate() {
			if u == nil || !rxPlainPath(u.GetPath()) {
				return false
			}
			if u.GetVal() == nil {
				if u.GetValue() != nil {
					return false
				}
				continue
			}
			if !rxPlainVal(u.GetVal(), true) {
				return false
			}
		}
		for _, d := range n.GetDelete() {
			if !rxPlainPath(d) {
				return false
			}
		}
	}
	return true
}

func rxCliOp(dt, qt, tm, resps string) string {
	mode := "count"
	if rxRenderable(dt, tm, rxParseResps(resps)) {
		mode = "full"
	}
	return "cli " + dt + " " + qt + " " + tm + " " + mode + " " + resps
}

// ---- subscribe requests ----

var rxCaches = []string{
	"-",
	"dev=",
	"dev=/a/b:1,/a/c:2,/x:3+dev2=/a/b:5",
}

var rxReqPrefixes = []string{
	"N",
	rxPath("", "", nil, nil),
	rxPath("dev", "", nil, nil),
	rxPath("dev", "oc", nil, nil),
	rxPath("*", "", nil, nil),
	rxPath("nosuch", "", nil, nil),
	rxPath("dev", "", []string{"a"}, nil),
	rxPath("dev", "", nil, []string{"a"}),
	rxPath("dev", "oc", []string{"a"}, nil),
	rxPath("dev2", "", []string{"*"}, nil),
}

var rxSubLists = []string{
	"-",
	"N",
	"!",
	rxPaths[1],
	rxPaths[2],
	rxPaths[3],
	rxPaths[11],
	rxPaths[12],
	rxPaths[14],
	rxPaths[5],
	rxPaths[2] + "+" + rxPaths[3],
	rxPaths[11] + "+" + rxPaths[2] + "+" + rxPaths[1],
	rxPaths[2] + "+" + rxPaths[14],
	rxPaths[2] + "+!+N",
	rxPath("", "", []string{"x"}, nil),
}

var rxModes = []string{"0", "1", "2", "3", "7"}

func rxSubReqs(full bool) []string {
	var out []string
	i := 0
	for _, ca := range rxCaches {
		for _, pre := range rxReqPrefixes {
			for _, m := range rxModes {
				for _, uo := range []string{"0", "1"} {
					for _, sl := range rxSubLists {
						for _, nd := range []string{"0", "1"} {
							i++
							if !full && i%9 != 0 {
								continue
							}
							out = append(out, "sub "+ca+" "+nd+" S"+pre+"^"+m+"^"+uo+"^"+sl)
						}
					}
				}
			}
		}
		for _, r := range []string{"X", "Z", "P", "S!"} {
			out = append(out, "sub "+ca+" 0 "+r)
		}
	}
	return out
}

func rxStoredOps() []string {
	var out []string
	stored := []string{"F", "!"}
	for _, n := range rxWeirdNotis(false) {
		if len(stored) < 400 {
			stored = append(stored, n)
		}
	}
	// target deletes and their neighbours
	for _, pre := range rxPrefixes {
		for _, d := range []string{rxPaths[11], rxPaths[1], "N", rxPaths[12], rxPaths[2]} {
			stored = append(stored, rxNoti(3, pre, false, nil, []string{d}))
		}
		stored = append(stored, rxNoti(3, pre, false, nil, []string{rxPaths[11], rxPaths[11]}))
	}
	for i, s := range stored {
		for _, dup := range []string{"0", "1", "3"} {
			nd := "0"
			if i%5 == 4 {
				nd = "1"
			}
			out = append(out, "mk "+nd+" "+s+" "+dup)
		}
	}
	return out
}

// rxPairs: two update units per notification, every ordered pair of (path, value) units of a
// reduced scope (thorough tier)
func rxPairs() []string {
	var units []string
	for qi, p := range rxPaths {
		for vi, v := range rxVals {
			if (qi+vi)%4 == 0 {
				units = append(units, rxUpd(p, v, vi%2))
			}
		}
	}
	var out []string
	for i, a := range units {
		for j, b := range units {
			pre := rxPrefixes[(i+j)%len(rxPrefixes)]
			out = append(out, rxNoti(int64(i), pre, (i+j)%11 == 0, []string{a, b}, nil))
		}
	}
	return out
}

func (c *rxComp) Exhaustive(tier string) [][]string {
	full := true // the whole single-unit scope runs in ~2 s: used in both tiers
	var ops []string
	notis := rxWeirdNotis(full)
	if tier == "thorough" {
		for i, n := range rxPairs() {
			ops = append(ops, "recv "+[]string{"s", "o", "p"}[i%3]+" U"+n+"&S1")
			if i%5 == 0 {
				ops = append(ops, rxCliOp([]string{"g", "s", "g", "p"}[i%4], []string{"s", "o", "p"}[i%3],
					[]string{"off", "raw", "layout", "on"}[(i/3)%4], "U"+n+"&S1&U"+n))
			}
		}
	}
	// (3) one response, then a sync; every response kind; the tree-shaping sequences
	for i, n := range notis {
		qt := []string{"s", "o", "p"}[i%3]
		ops = append(ops, "recv "+qt+" U"+n+"&S1")
	}
	for _, r := range rxOtherResps {
		for _, qt := range []string{"s", "o", "p", "u"} {
			ops = append(ops, "recv "+qt+" "+r)
			ops = append(ops, "recv "+qt+" U"+notis[3]+"&"+r+"&U"+notis[5])
		}
	}
	ops = append(ops, "recv s -")
	for _, seq := range rxTreeSeqs() {
		for _, qt := range []string{"s", "o", "p"} {
			ops = append(ops, "recv "+qt+" "+strings.Join(seq, "&"))
		}
	}
	// (5)
	for i, n := range notis {
		if i%7 == 0 {
			ops = append(ops, "mgr U"+n)
		}
	}
	for _, r := range rxOtherResps {
		ops = append(ops, "mgr "+r)
	}
	// (4) every display type × query type × timestamp setting over a reduced message set
	var cliMsgs []string
	for i, n := range notis {
		if i%41 == 0 {
			cliMsgs = append(cliMsgs, "U"+n+"&S1&U"+n)
		}
	}
	for _, seq := range rxTreeSeqs() {
		cliMsgs = append(cliMsgs, strings.Join(seq, "&"))
	}
	for _, r := range rxOtherResps {
		cliMsgs = append(cliMsgs, r, "U"+notis[3]+"&S1&"+r)
	}
	cliMsgs = append(cliMsgs, "-")
	for _, dt := range []string{"g", "s", "p", "sp", "x"} {
		for _, qt := range []string{"o", "p", "s", "u"} {
			for _, tm := range []string{"off", "on", "raw", "layout"} {
				for i, m := range cliMsgs {
					if !full && (dt == "x" || qt == "u") && i > 3 {
						continue
					}
					ops = append(ops, rxCliOp(dt, qt, tm, m))
				}
			}
		}
	}
	// (2)
	ops = append(ops, rxSubReqs(full)...)
	ops = append(ops, rxStoredOps()...)
	return rxChunk(ops, 40)
}

// ---- random larger messages ----

// "value" and "timestamp" are the element names the CLI's display itself files a timestamped value under
// (seeded change c12_seed9: a display map reused across streamed updates keeps them as scalars)
var rxNames = []string{"a", "b", "c", "d", "meta", "*", "", "é", "x/y", "a b", "q\"t", "b\\s", "sync", "日本", "value", "timestamp", "value", "timestamp"}

func rxRandName(r *rand.Rand) string {
	if r.Intn(3) == 0 {
		return rxNames[r.Intn(len(rxNames))]
	}
	return rxNames[r.Intn(4)]
}

func rxRandPath(r *rand.Rand, prefix bool) string {
	if r.Intn(12) == 0 {
		return "N"
	}
	t, o := "", ""
	if prefix && r.Intn(4) != 0 {
		t = []string{"dev", "dev", "*", "é t"}[r.Intn(4)]
	}
	if r.Intn(6) == 0 {
		o = []string{"oc", "openconfig"}[r.Intn(2)]
	}
	n := r.Intn(4)
	if prefix {
		n = r.Intn(2)
	}
	var elems, element []string
	switch x := r.Intn(10); {
	case x < 6:
		for i := 0; i < n; i++ {
			e := encStr(rxRandName(r))
			for k := r.Intn(3); k > 0 && r.Intn(3) == 0; k-- {
				e += "," + encStr([]string{"k", "j", "z"}[k%3]) + "=" + encStr(rxRandName(r))
			}
			elems = append(elems, e)
		}
	case x < 9:
		for i := 0; i < n; i++ {
			element = append(element, rxRandName(r))
		}
	default:
		elems = append(elems, encStr(rxRandName(r)))
		element = append(element, rxRandName(r))
	}
	return rxPath(t, o, elems, element)
}

func rxRandVal(r *rand.Rand) rxValArm {
	switch x := r.Intn(20); {
	case x < 8:
		return []rxValArm{{"i:" + strconv.Itoa(r.Intn(5)-1), "-", true}, {"s:" + encStr(rxRandName(r)), "-", true},
			{"u:" + strconv.Itoa(r.Intn(3)), "-", true}, {"b:" + strconv.Itoa(r.Intn(2)), "-", true}}[r.Intn(4)]
	case x < 10:
		n := r.Intn(4)
		var es []string
		for i := 0; i < n; i++ {
			es = append(es, []string{"i:1", "s:x", "u:2", "b:0", "s:" + encStr(rxRandName(r))}[r.Intn(5)])
		}
		return rxValArm{"l(" + strings.Join(es, ",") + ")", "-", true}
	case x < 11:
		return rxValArm{"j:" + encStr(rxJSONValid[r.Intn(len(rxJSONValid))]), "-", true}
	case x < 12:
		return rxValArm{"J:" + encStr(rxJSONInvalid[r.Intn(len(rxJSONInvalid))]), "-", true}
	case x < 13:
		return rxValArm{"N", strconv.Itoa([]int{0, 1, 4, 2}[r.Intn(4)]) + ":" + encStr(append(rxJSONValid, rxJSONInvalid...)[r.Intn(len(rxJSONValid)+len(rxJSONInvalid))]), true}
	default:
		v := rxVals[r.Intn(len(rxVals))]
		if !v.wire && r.Intn(3) != 0 {
			v = rxVals[r.Intn(len(rxVals))]
		}
		return v
	}
}

func rxRandNoti(r *rand.Rand) string {
	var upds, dels []string
	for n := r.Intn(4); n > 0; n-- {
		if r.Intn(40) == 0 {
			upds = append(upds, "!")
			continue
		}
		upds = append(upds, rxUpd(rxRandPath(r, false), rxRandVal(r), r.Intn(3)/2))
	}
	for n := r.Intn(3); n > 0 && r.Intn(2) == 0; n-- {
		dels = append(dels, rxRandPath(r, false))
	}
	return rxNoti(int64(r.Intn(5)), rxRandPath(r, true), r.Intn(8) == 0, upds, dels)
}

func rxRandResps(r *rand.Rand) string {
	n := r.Intn(7)
	if n == 0 && r.Intn(4) != 0 {
		n = 2
	}
	var rs []string
	for i := 0; i < n; i++ {
		switch x := r.Intn(20); {
		case x < 13:
			rs = append(rs, "U"+rxRandNoti(r))
		case x < 17:
			rs = append(rs, "S1")
		case x < 18:
			rs = append(rs, "S0")
		default:
			rs = append(rs, rxOtherResps[r.Intn(len(rxOtherResps))])
		}
	}
	if len(rs) == 0 {
		return "-"
	}
	return strings.Join(rs, "&")
}

func rxRandReq(r *rand.Rand) string {
	if r.Intn(15) == 0 {
		return []string{"X", "Z", "P", "S!"}[r.Intn(4)]
	}
	pre := rxReqPrefixes[r.Intn(len(rxReqPrefixes))]
	if r.Intn(3) == 0 {
		pre = rxRandPath(r, true)
	}
	var subs []string
	for n := r.Intn(4); n > 0; n-- {
		switch r.Intn(12) {
		case 0:
			subs = append(subs, "!")
		case 1, 2, 3:
			subs = append(subs, rxRandPath(r, false))
		default:
			subs = append(subs, []string{rxPaths[2], rxPaths[3], rxPaths[11], rxPaths[12], rxPaths[1], rxPath("", "", []string{"x"}, nil)}[r.Intn(6)])
		}
	}
	sl := "-"
	if len(subs) > 0 {
		sl = strings.Join(subs, "+")
	}
	return "S" + pre + "^" + rxModes[r.Intn(len(rxModes))] + "^" + strconv.Itoa(r.Intn(4)/3) + "^" + sl
}

func (c *rxComp) Gen(r *rand.Rand, tier string) []string {
	seq := []string{"new"}
	n := 6 + r.Intn(8)
	if r.Intn(4) == 0 {
		// wire-byte fuzzing as search: mutated encodings of the enumerated messages
		k := 60
		if tier == "thorough" {
			k = 600
		}
		seq = append(seq, "fuzz "+[]string{"r", "c", "m", "s"}[r.Intn(4)]+" "+strconv.FormatInt(r.Int63n(1<<40), 10)+" "+strconv.Itoa(k))
	}
	for i := 0; i < n; i++ {
		switch x := r.Intn(20); {
		case x < 8:
			seq = append(seq, "recv "+[]string{"s", "o", "p", "s"}[r.Intn(4)]+" "+rxRandResps(r))
		case x < 14:
			dt := []string{"g", "g", "s", "p", "sp"}[r.Intn(5)]
			qt := []string{"o", "p", "s", "s"}[r.Intn(4)]
			tm := []string{"off", "on", "raw", "layout"}[r.Intn(4)]
			seq = append(seq, rxCliOp(dt, qt, tm, rxRandResps(r)))
		case x < 16:
			seq = append(seq, "mgr "+strings.Split(rxRandResps(r), "&")[0])
		case x < 18:
			st := rxRandNoti(r)
			if r.Intn(10) == 0 {
				st = []string{"F", "!"}[r.Intn(2)]
			}
			seq = append(seq, "mk "+strconv.Itoa(r.Intn(4)/3)+" "+st+" "+strconv.Itoa(r.Intn(3)))
		default:
			seq = append(seq, "sub "+rxCaches[r.Intn(len(rxCaches))]+" "+strconv.Itoa(r.Intn(4)/3)+" "+rxRandReq(r))
		}
	}
	return seq
}
