package main

// wi: from the wire to the cache (property C12), and the whole Subscribe request stream.
//
//   wi ingest <p|c> <name> <targets> <now> <resps>
//       the REAL manager.handleUpdates loop (seam manager.VerifHandleUpdates, go/pkg_manager/verif_session.go:
//       Connect on the first response, handleGNMIUpdate per
//       response, Reset when the stream ends) on a scripted stream of decoded protobuf responses,
//       wired to a REAL cache.Cache the way cmd/gnmi_collector wires it: Update = cache.GnmiUpdate
//       (`p`) or the collector's closure that stamps target and default origin first (`c`;
//       re-stated here, the closure lives in package main of the collector), Sync = cache.Sync,
//       Connect = cache.Connect, Reset = cache.Reset.  The model side (lean/Driver/WI.lean)
//       translates every notification with Wire.toNoti and runs the cache model: the rendered
//       leaves carry the raw renderings of prefix and updates the translation produced, so the
//       translation is compared field by field with what the real cache stored.
//   wi subs <cache> <nodup> <first req> <later reqs>
//       subscribe.Server.Subscribe over an in-memory stream that delivers the first request and
//       then, each time the sync response of the running walk went out, the next later request;
//       io.EOF after the last.
//
// Token grammar: lean/Driver/RX.lean; observations: lean/Driver/WI.lean.

import (
	"context"
	"encoding/hex"
	"io"
	"math"
	"math/rand"
	"net"
	"sort"
	"strconv"
	"strings"
	"sync"
	"time"

	"google.golang.org/grpc"
	"google.golang.org/grpc/codes"
	"google.golang.org/grpc/metadata"
	"google.golang.org/grpc/peer"
	"google.golang.org/grpc/status"

	"github.com/openconfig/gnmi/cache"
	"github.com/openconfig/gnmi/ctree"
	"github.com/openconfig/gnmi/manager"
	gmeta "github.com/openconfig/gnmi/metadata"
	gpb "github.com/openconfig/gnmi/proto/gnmi"
	"github.com/openconfig/gnmi/subscribe"
)

type wiComp struct{}

func init() { components["wi"] = &wiComp{} }

// ---------------------------------------------------------------- canonical renderings
// (mirror lean/Gnmi/Model/WireIngest.lean: rawPath / rawTV / rawUpd, and Driver/WI.lean: renderValW)

func wiRawPath(p *gpb.Path) string { return fromPath(p).raw() }

func wiRawFloat(tag string, bits uint64, isNaN, isZero bool) string {
	switch {
	case isNaN:
		return tag + ":nan"
	case isZero:
		return tag + ":0"
	}
	return tag + ":" + strconv.FormatUint(bits, 10)
}

func wiRawVal(v *gpb.TypedValue) string {
	if v == nil {
		return "absent"
	}
	switch x := v.GetValue().(type) {
	case nil:
		return "unset"
	case *gpb.TypedValue_StringVal:
		return "s:" + encStr(x.StringVal)
	case *gpb.TypedValue_IntVal:
		return "i:" + strconv.FormatInt(x.IntVal, 10)
	case *gpb.TypedValue_UintVal:
		return "u:" + strconv.FormatUint(x.UintVal, 10)
	case *gpb.TypedValue_BoolVal:
		return "b:" + strconv.FormatBool(x.BoolVal)
	case *gpb.TypedValue_BytesVal:
		return "y:" + hex.EncodeToString(x.BytesVal)
	case *gpb.TypedValue_FloatVal:
		return wiRawFloat("f", uint64(math.Float32bits(x.FloatVal)), x.FloatVal != x.FloatVal, x.FloatVal == 0)
	case *gpb.TypedValue_DoubleVal:
		return wiRawFloat("d", math.Float64bits(x.DoubleVal), x.DoubleVal != x.DoubleVal, x.DoubleVal == 0)
	case *gpb.TypedValue_DecimalVal:
		return "m:" + strconv.FormatInt(x.DecimalVal.GetDigits(), 10) + ":" + strconv.FormatUint(uint64(x.DecimalVal.GetPrecision()), 10)
	case *gpb.TypedValue_LeaflistVal:
		var xs []string
		for _, e := range x.LeaflistVal.GetElement() {
			xs = append(xs, wiRawVal(e))
		}
		return "l:(" + strings.Join(xs, ",") + ")"
	case *gpb.TypedValue_AnyVal:
		return "x:any:" + hex.EncodeToString(x.AnyVal.GetValue())
	case *gpb.TypedValue_JsonVal:
		return "x:json:" + hex.EncodeToString(x.JsonVal)
	case *gpb.TypedValue_JsonIetfVal:
		return "x:jsonietf:" + hex.EncodeToString(x.JsonIetfVal)
	case *gpb.TypedValue_AsciiVal:
		return "x:ascii:" + hex.EncodeToString([]byte(x.AsciiVal))
	case *gpb.TypedValue_ProtoBytes:
		return "x:protobytes:" + hex.EncodeToString(x.ProtoBytes)
	}
	return "?"
}

func wiRawUpd(u *gpb.Update) string {
	if u == nil {
		return "nil-entry"
	}
	s := wiRawPath(u.GetPath()) + "#" + wiRawVal(u.GetVal()) + "#" + strconv.FormatUint(uint64(u.GetDuplicates()), 10)
	if u.Value != nil {
		s += "#v" + strconv.Itoa(int(u.Value.GetType())) + ":" + hex.EncodeToString(u.Value.GetValue())
	}
	return s
}

// one oneof arm as value.Equal sees it (Wire.toScalar + renderScalarW)
func wiScalarToken(v *gpb.TypedValue) string {
	if v == nil {
		return "unset"
	}
	switch x := v.GetValue().(type) {
	case nil:
		return "unset"
	case *gpb.TypedValue_StringVal:
		return "s=" + encStr(x.StringVal)
	case *gpb.TypedValue_IntVal:
		return "i=" + strconv.FormatInt(x.IntVal, 10)
	case *gpb.TypedValue_UintVal:
		return "u=" + strconv.FormatUint(x.UintVal, 10)
	case *gpb.TypedValue_BoolVal:
		return "b=" + strconv.FormatBool(x.BoolVal)
	case *gpb.TypedValue_BytesVal:
		return "y=" + hex.EncodeToString(x.BytesVal)
	case *gpb.TypedValue_FloatVal:
		if x.FloatVal != x.FloatVal {
			return "f=nan"
		}
		return "f=" + strconv.FormatUint(uint64(math.Float32bits(x.FloatVal)), 10)
	case *gpb.TypedValue_DoubleVal:
		if x.DoubleVal != x.DoubleVal {
			return "d=nan"
		}
		return "d=" + strconv.FormatUint(math.Float64bits(x.DoubleVal), 10)
	case *gpb.TypedValue_DecimalVal:
		return "m=" + strconv.FormatInt(x.DecimalVal.GetDigits(), 10) + "_" + strconv.FormatUint(uint64(x.DecimalVal.GetPrecision()), 10)
	case *gpb.TypedValue_LeaflistVal:
		return "x=list_" + wiRawVal(v)
	case *gpb.TypedValue_AnyVal:
		return "x=any_" + hex.EncodeToString(x.AnyVal.GetValue())
	case *gpb.TypedValue_JsonVal:
		return "x=json_" + hex.EncodeToString(x.JsonVal)
	case *gpb.TypedValue_JsonIetfVal:
		return "x=jsonietf_" + hex.EncodeToString(x.JsonIetfVal)
	case *gpb.TypedValue_AsciiVal:
		return "x=ascii_" + hex.EncodeToString([]byte(x.AsciiVal))
	case *gpb.TypedValue_ProtoBytes:
		return "x=protobytes_" + hex.EncodeToString(x.ProtoBytes)
	}
	return "?"
}

func wiValToken(v *gpb.TypedValue) string {
	if v == nil {
		return "absent"
	}
	if x, ok := v.GetValue().(*gpb.TypedValue_LeaflistVal); ok {
		var xs []string
		for _, e := range x.LeaflistVal.GetElement() {
			xs = append(xs, wiScalarToken(e))
		}
		return "l=(" + strings.Join(xs, "+") + ")"
	}
	return wiScalarToken(v)
}

func wiRenderStored(n *gpb.Notification) string {
	v := "absent"
	if n.GetAtomic() {
		v = "A" + strconv.Itoa(len(n.GetUpdate()))
	} else if len(n.GetUpdate()) > 0 {
		v = wiValToken(n.GetUpdate()[0].GetVal())
	}
	var raws []string
	for _, u := range n.GetUpdate() {
		raws = append(raws, wiRawUpd(u))
	}
	return "@" + strconv.FormatInt(n.GetTimestamp(), 10) + "=" + v + "#" + wiRawPath(n.GetPrefix()) + "|" + strings.Join(raws, "|")
}

func wiRenderEvent(l *ctree.Leaf) string {
	n, ok := l.Value().(*gpb.Notification)
	if !ok {
		return "?non-notification"
	}
	pre := fromPath(n.GetPrefix())
	if len(n.GetDelete()) > 0 {
		return "D" + encPath(subIndexOf(pre, fromPath(n.GetDelete()[0]))) + "@" + strconv.FormatInt(n.GetTimestamp(), 10)
	}
	kind, p := "U", gPath{}
	if n.GetAtomic() {
		kind = "A"
	} else if len(n.GetUpdate()) > 0 {
		p = fromPath(n.GetUpdate()[0].GetPath())
	}
	return kind + encPath(subIndexOf(pre, p)) + wiRenderStored(n)
}

func wiContent(c *cache.Cache) string {
	var out []string
	err := c.Query("*", nil, func(p []string, _ *ctree.Leaf, v interface{}) error {
		n, ok := v.(*gpb.Notification)
		if !ok {
			out = append(out, "?non-notification")
			return nil
		}
		out = append(out, encStr(n.GetPrefix().GetTarget())+encPath(p)+wiRenderStored(n))
		return nil
	})
	if err != nil {
		return "err"
	}
	return sortedBracket(out)
}

func wiMeta(c *cache.Cache, name string) string {
	md, ok := c.Metadata()[name]
	if !ok {
		return "none"
	}
	var out []string
	for k := range gmeta.TargetIntValues {
		if v, err := md.GetInt(k); err == nil {
			out = append(out, k+"="+strconv.FormatInt(v, 10))
		}
	}
	for k := range gmeta.TargetBoolValues {
		if v, err := md.GetBool(k); err == nil {
			out = append(out, k+"="+strconv.FormatBool(v))
		}
	}
	for k := range gmeta.TargetStrValues {
		if v, err := md.GetStr(k); err == nil {
			out = append(out, k+"="+encStr(v))
		}
	}
	return sortedBracket(out)
}

// ---------------------------------------------------------------- ingest

// wiScript: the scripted target stream; tells the harness which response the loop is handling.
type wiScript struct {
	grpc.ClientStream
	resps  []*gpb.SubscribeResponse
	n      int
	onRecv func(i int)
}

func (s *wiScript) Send(*gpb.SubscribeRequest) error { return nil }
func (s *wiScript) CloseSend() error                 { return nil }
func (s *wiScript) Context() context.Context         { return context.Background() }
func (s *wiScript) Recv() (*gpb.SubscribeResponse, error) {
	s.onRecv(s.n)
	if s.n >= len(s.resps) {
		return nil, io.EOF
	}
	r := s.resps[s.n]
	s.n++
	return r, nil
}

func wiIngest(w, name, targetsTok string, now int64, resps []*gpb.SubscribeResponse) string {
	gmeta.UnregisterServerNameMetadata()
	c := cache.New(nil)
	if targetsTok != "-" {
		for _, t := range strings.Split(targetsTok, "+") {
			c.Add(decStr(t))
		}
	}
	var events []string
	c.SetClient(func(l *ctree.Leaf) { events = append(events, wiRenderEvent(l)) })
	marks := make([]string, len(resps)+1)
	cur := 0
	var contentBefore, metaBefore string
	resetStart := -1
	m, err := manager.NewManager(manager.Config{
		ConnectionManager: rxConnMgr{},
		Connect:           c.Connect,
		Sync: func(n string) {
			c.Sync(n)
			marks[cur] = "S"
		},
		Update: func(target string, v *gpb.Notification) {
			if w == "c" {
				// the Update closure of cmd/gnmi_collector, verbatim
				if prefix := v.GetPrefix(); prefix == nil {
					v.Prefix = &gpb.Path{Origin: "openconfig", Target: target}
				} else {
					if prefix.Origin == "" {
						prefix.Origin = "openconfig"
					}
					prefix.Target = target
				}
			}
			switch err := c.GnmiUpdate(v); {
			case err == nil:
				marks[cur] = "U:ok"
			case err == cache.ErrStale:
				marks[cur] = "U:stale"
			case err == cache.ErrFuture:
				marks[cur] = "U:future"
			default:
				marks[cur] = "U:err"
			}
		},
		Reset: func(n string) {
			contentBefore, metaBefore, resetStart = wiContent(c), wiMeta(c, n), len(events)
			c.Reset(n)
		},
	})
	if err != nil {
		return "bad-op"
	}
	sc := &wiScript{resps: resps, onRecv: func(i int) { scriptedNow = now + int64(i); cur = i }}
	m.VerifHandleUpdates(context.Background(), name, sc)
	if resetStart < 0 {
		return "no-reset"
	}
	var handled []string
	for i := range resps {
		if marks[i] == "" {
			marks[i] = "L"
		}
		handled = append(handled, marks[i])
	}
	return bracket(handled) + ";" + renderGroupsGo(events[:resetStart]) + ";" + contentBefore + ";" + metaBefore + ";" +
		sortedBracket(events[resetStart:]) + ";" + wiContent(c)
}

// wiOpt: manager.Config leaves every callback optional.  A Manager built from a Config holding exactly the
// callbacks of the mask (1 Connect, 2 Sync, 4 Update, 8 Reset; the others nil) runs handleUpdates over the
// scripted stream; the observation is the list of callbacks invoked (Model/ManagerOpt.lean).  Found necessary
// by seeded change c12_seed10 (no-op defaults installed for three of the four callbacks, all nil checks dropped).
func wiOpt(mask int, resps []*gpb.SubscribeResponse) string {
	var trace []string
	cfg := manager.Config{ConnectionManager: rxConnMgr{}}
	if mask&1 != 0 {
		cfg.Connect = func(string) { trace = append(trace, "C") }
	}
	if mask&2 != 0 {
		cfg.Sync = func(string) { trace = append(trace, "S") }
	}
	if mask&4 != 0 {
		cfg.Update = func(string, *gpb.Notification) { trace = append(trace, "U") }
	}
	if mask&8 != 0 {
		cfg.Reset = func(string) { trace = append(trace, "R") }
	}
	m, err := manager.NewManager(cfg)
	if err != nil {
		return "bad-op"
	}
	m.VerifHandleUpdates(context.Background(), "dev", &wiScript{resps: resps, onRecv: func(int) {}})
	return bracket(trace)
}

// ---------------------------------------------------------------- subs

type wiSubStream struct {
	ctx    context.Context
	cancel context.CancelFunc
	first  *gpb.SubscribeRequest
	later  []*gpb.SubscribeRequest
	mu     sync.Mutex
	recvs  int
	reads  int
	cur    []string
	rounds []string
	synced bool
	syncC  chan struct{}
	stream bool
}

func (s *wiSubStream) Context() context.Context     { return s.ctx }
func (s *wiSubStream) SetHeader(metadata.MD) error  { return nil }
func (s *wiSubStream) SendHeader(metadata.MD) error { return nil }
func (s *wiSubStream) SetTrailer(metadata.MD)       {}
func (s *wiSubStream) SendMsg(interface{}) error    { return nil }
func (s *wiSubStream) RecvMsg(interface{}) error    { return nil }

func (s *wiSubStream) Recv() (*gpb.SubscribeRequest, error) {
	s.mu.Lock()
	n := s.recvs
	s.recvs++
	s.mu.Unlock()
	if n == 0 {
		return s.first, nil
	}
	// a later request is delivered once the sync response of the running walk went out
	select {
	case <-s.syncC:
	case <-s.ctx.Done():
		return nil, s.ctx.Err()
	}
	if k := n - 1; k < len(s.later) {
		s.mu.Lock()
		s.reads++
		s.mu.Unlock()
		return s.later[k], nil
	}
	return nil, io.EOF
}

func wiRound(keys []string, synced bool) string {
	sort.Strings(keys)
	var ks []string
	for i, k := range keys {
		if i == 0 || k != keys[i-1] {
			ks = append(ks, k)
		}
	}
	sy := "0"
	if synced {
		sy = "1"
	}
	return bracket(ks) + ":" + sy
}

func (s *wiSubStream) Send(r *gpb.SubscribeResponse) error {
	s.mu.Lock()
	defer s.mu.Unlock()
	switch v := r.Response.(type) {
	case *gpb.SubscribeResponse_SyncResponse:
		s.rounds = append(s.rounds, wiRound(s.cur, true))
		s.cur = nil
		s.synced = true
		s.syncC <- struct{}{}
		if s.stream {
			s.cancel() // STREAM: the client goes away after the sync response
		}
	case *gpb.SubscribeResponse_Update:
		g := fromNoti(v.Update)
		var p gPath
		if len(g.upd) > 0 {
			p = g.upd[0].path
		} else if len(g.del) > 0 {
			p = g.del[0]
		}
		s.cur = append(s.cur, encPath(subIndexOf(g.prefix, p)))
	}
	return nil
}

func wiSubs(cacheSpec string, noDup bool, first *gpb.SubscribeRequest, later []*gpb.SubscribeRequest) string {
	c := rxBuildCache(cacheSpec)
	opts := []subscribe.Option{subscribe.WithTimeout(2 * time.Second), subscribe.WithStats()}
	if noDup {
		opts = append(opts, subscribe.WithoutDupReport())
	}
	srv, _ := subscribe.NewServer(c, opts...)
	c.SetClient(srv.Update)
	ctx := peer.NewContext(context.Background(), &peer.Peer{Addr: &net.TCPAddr{IP: net.IPv4(127, 0, 0, 1), Port: 1}})
	st := &wiSubStream{first: first, later: later, syncC: make(chan struct{}, len(later)+4)}
	st.ctx, st.cancel = context.WithCancel(ctx)
	defer st.cancel()
	st.stream = first.GetSubscribe().GetMode() == gpb.SubscriptionList_STREAM
	watchdog := time.AfterFunc(5*time.Second, st.cancel)
	defer watchdog.Stop()
	err := srv.Subscribe(st)
	st.mu.Lock()
	defer st.mu.Unlock()
	if err != nil && !(st.stream && st.synced && status.Code(err) != codes.InvalidArgument && st.ctx.Err() != nil) {
		return rxSubCode(err)
	}
	rounds := st.rounds
	if len(st.cur) > 0 || len(rounds) == 0 {
		rounds = append(rounds, wiRound(st.cur, false))
	}
	return "ok:" + strings.Join(rounds, "/") + ":r" + strconv.Itoa(st.reads)
}

// ---------------------------------------------------------------- run

func (c *wiComp) Run(args []string) string {
	if len(args) == 0 {
		return "bad-op"
	}
	switch {
	case args[0] == "new":
		return "ok"
	case args[0] == "ingest" && len(args) == 6:
		now, _ := strconv.ParseInt(args[4], 10, 64)
		return wiIngest(args[1], decStr(args[2]), args[3], now, rxParseResps(args[5]))
	case args[0] == "conc" && len(args) == 3:
		seed, _ := strconv.ParseInt(args[1], 10, 64)
		rounds, _ := strconv.Atoi(args[2])
		return wiConc(seed, rounds) // wi_conc.go
	case args[0] == "opt" && len(args) == 3:
		mask, _ := strconv.Atoi(args[1])
		return wiOpt(mask, rxParseResps(args[2]))
	case args[0] == "subs" && len(args) == 5:
		var later []*gpb.SubscribeRequest
		if args[4] != "-" {
			for _, r := range strings.Split(args[4], "&") {
				later = append(later, rxParseReq(r))
			}
		}
		return wiSubs(args[1], args[2] == "1", rxParseReq(args[3]), later)
	}
	return "bad-op"
}

// ---------------------------------------------------------------- generators

// wiSpecialTV: values the cache model's value type (Cache.Val) cannot hold exactly - a nil payload
// or a nil leaf-list element (not WireValid; value.Equal dereferences them: C19
// equal_nil_payload_panics) and a leaf-list inside a leaf-list (WireValid; value.Equal recurses
// into it, the model treats it as an opaque never-equal arm: Wire.toScalar).  They are translated
// and stored, but only sessions that never make value.Equal look at them are generated (a single
// write of the leaf).
func wiSpecialTV(v *gpb.TypedValue, inList bool) bool {
	if v == nil {
		return inList
	}
	switch x := v.GetValue().(type) {
	case *gpb.TypedValue_DecimalVal:
		return x.DecimalVal == nil
	case *gpb.TypedValue_LeaflistVal:
		if x.LeaflistVal == nil || inList {
			return true
		}
		for _, e := range x.LeaflistVal.Element {
			if wiSpecialTV(e, true) {
				return true
			}
		}
	}
	return false
}

func wiSpecial(resps string) bool {
	for _, r := range rxParseResps(resps) {
		for _, u := range r.GetUpdate().GetUpdate() {
			if wiSpecialTV(u.GetVal(), false) {
				return true
			}
		}
	}
	return false
}

func wiIngestOp(w, name, targets string, now int64, resps string) string {
	return "ingest " + w + " " + encStr(name) + " " + targets + " " + strconv.FormatInt(now, 10) + " " + resps
}

// wiBump: the same notification token with a later timestamp
func wiBump(noti string, by int64) string {
	i := strings.IndexByte(noti, '^')
	ts, _ := strconv.ParseInt(noti[:i], 10, 64)
	return strconv.FormatInt(ts+by, 10) + noti[i:]
}

// wiSessions: crafted streams about the translation itself: one leaf written through different
// encodings of the same index (keys in both orders, deprecated elements, the path carried by the
// prefix), origins in prefix and path, metadata written by the target at exactly the clock reading
// of the cache's own metadata writes, repeated objects (stale by proto.Equal), type changes.
func wiSessions() []string {
	pre := rxPath("dev", "", nil, nil)
	preOC := rxPath("dev", "oc", nil, nil)
	preA := rxPath("dev", "", []string{"a,k=v,j=w"}, nil)
	preAel := rxPath("dev", "", nil, []string{"a", "w", "v"})
	kj := rxPath("", "", []string{"a,k=v,j=w", "c"}, nil)
	jk := rxPath("", "", []string{"a,j=w,k=v", "c"}, nil)
	el := rxPath("", "", nil, []string{"a", "w", "v", "c"})
	c := rxPath("", "", []string{"c"}, nil)
	cOC := rxPath("", "oc", []string{"c"}, nil)
	ocC := rxPath("", "", []string{"oc", "c"}, nil)
	i1, i2, s1 := rxValArm{"i:1", "-", true}, rxValArm{"i:2", "-", true}, rxValArm{"s:x", "-", true}
	dz, dnz := rxValArm{"d:0000000000000000", "-", true}, rxValArm{"d:8000000000000000", "-", true}
	nan1, nan2 := rxValArm{"d:7FF8000000000001", "-", true}, rxValArm{"d:7FF8000000000002", "-", true}
	u := func(ts int64, p, path string, v rxValArm) string {
		return "U" + rxNoti(ts, p, false, []string{rxUpd(path, v, 0)}, nil)
	}
	d := func(ts int64, p, path string) string { return "U" + rxNoti(ts, p, false, nil, []string{path}) }
	msync := rxPath("", "", []string{"meta", "sync"}, nil)
	mconn := rxPath("", "", []string{"meta", "connected"}, nil)
	bT, bF := rxValArm{"b:1", "-", true}, rxValArm{"b:0", "-", true}
	seqs := [][]string{
		// keys in both orders: the same leaf, and the same message for proto.Equal
		{u(5, pre, kj, i1), u(5, pre, jk, i1), u(6, pre, jk, i2), d(7, pre, kj)},
		// deprecated element encoding of the same index: same leaf, a different message
		{u(5, pre, kj, i1), u(5, pre, el, i1), u(5, pre, el, i1), u(6, pre, kj, i1)},
		// the index split differently between prefix and path
		{u(5, preA, c, i1), u(5, pre, kj, i1), u(6, preAel, c, i2), u(7, preA, "N", s1), u(8, pre, rxPath("", "", []string{"a,k=v,j=w"}, nil), s1)},
		// origin in the prefix vs origin in the path vs an element named like the origin
		{u(5, preOC, c, i1), u(6, pre, cOC, i1), u(7, pre, ocC, i2), d(8, pre, cOC), d(9, preOC, c)},
		{u(5, preOC, cOC, i1), u(6, preOC, c, i2), d(7, preOC, rxPath("", "", []string{"*"}, nil))},
		// zero of either sign, NaNs of either payload: value.Equal vs proto.Equal
		{u(5, pre, c, dz), u(5, pre, c, dnz), u(6, pre, c, dnz), u(7, pre, c, dz)},
		{u(5, pre, c, nan1), u(5, pre, c, nan2), u(5, pre, c, nan1), u(6, pre, c, nan1)},
		// the target writes metadata at exactly the reading of the cache's own writes
		{u(100, pre, msync, bT), "S1", u(101, pre, msync, bT), "S1", u(103, pre, msync, bF), "S0"},
		{u(100, pre, mconn, bT), u(100, pre, mconn, bF), u(102, pre, mconn, s1), d(103, pre, mconn), "S1"},
		{"S1", "S1", u(102, pre, c, i1), "E1", "Z", u(105, pre, c, i1), u(105, pre, c, i1)},
		// type change on a leaf; deprecated value beside / instead of the value; duplicates field
		{u(5, pre, c, i1), u(6, pre, c, s1), u(7, pre, c, rxValArm{"N", "-", true}), u(8, pre, c, rxValArm{"N", "1:%00", true}),
			u(8, pre, c, rxValArm{"N", "1:%01", true}), u(8, pre, c, rxValArm{"N", "1:%01", true})},
		{"U" + rxNoti(5, pre, false, []string{rxUpd(c, i1, 0)}, nil), "U" + rxNoti(5, pre, false, []string{rxUpd(c, i1, 1)}, nil),
			"U" + rxNoti(5, pre, false, []string{rxUpd(c, i1, 1)}, nil)},
		// any / json / ascii / nested list contents are part of the message
		{u(5, pre, c, rxValArm{"a:%01", "-", true}), u(5, pre, c, rxValArm{"a:%02", "-", true}), u(5, pre, c, rxValArm{"a:%02", "-", true}),
			u(6, pre, c, rxValArm{"j:" + encStr("{}"), "-", true}), u(6, pre, c, rxValArm{"J:" + encStr("{}"), "-", true}),
			u(7, pre, c, rxValArm{"l(l(i:1))", "-", true}), u(7, pre, c, rxValArm{"l(l(i:2))", "-", true})},
		// leaf lists compared element-wise
		{u(5, pre, c, rxValArm{"l(i:1,s:x)", "-", true}), u(6, pre, c, rxValArm{"l(i:1,s:x)", "-", true}), u(7, pre, c, rxValArm{"l(i:1)", "-", true}),
			u(8, pre, c, rxValArm{"l()", "-", true}), u(9, pre, c, rxValArm{"l()", "-", true})},
		// atomic containers, then a plain leaf at and below the container
		{"U" + rxNoti(5, preA, true, []string{rxUpd(c, i1, 0), rxUpd(rxPaths[4], s1, 0)}, nil),
			"U" + rxNoti(5, preA, true, []string{rxUpd(c, i1, 0), rxUpd(rxPaths[4], s1, 0)}, nil),
			"U" + rxNoti(6, preA, true, []string{rxUpd(rxPaths[4], s1, 0)}, nil), u(7, preA, c, i1), u(8, preA, "N", i1),
			"U" + rxNoti(9, preA, true, nil, nil), "U" + rxNoti(9, preA, true, []string{rxUpd(c, i1, 0)}, []string{c})},
	}
	var out []string
	for _, s := range seqs {
		out = append(out, strings.Join(s, "&"))
	}
	return out
}

var wiFirstReqs = []string{
	"S" + rxPath("dev", "", nil, nil) + "^2^0^" + rxPaths[2],                // POLL dev/a
	"S" + rxPath("dev", "", nil, nil) + "^2^0^" + rxPaths[2] + "+" + rxPaths[4], // POLL two paths
	"S" + rxPath("dev", "", nil, nil) + "^2^1^" + rxPaths[2],                // POLL updates_only
	"S" + rxPath("*", "", nil, nil) + "^2^0^" + rxPaths[1],                  // POLL every target
	"S" + rxPath("dev", "", nil, nil) + "^1^0^" + rxPaths[2],                // ONCE
	"S" + rxPath("dev", "", nil, nil) + "^0^0^" + rxPaths[2],                // STREAM
	"S" + rxPath("dev", "oc", nil, nil) + "^2^0^" + rxPaths[14],             // POLL, origin conflict: CompletePath fails
	"S" + rxPath("zz", "", nil, nil) + "^2^0^" + rxPaths[2],                 // unknown target
	"S" + rxPath("dev", "", nil, nil) + "^7^0^" + rxPaths[2],                // unknown mode
	"SN^2^0^" + rxPaths[2], "P", "Z", "X", "S!",
}

var wiLaterReqs = []string{
	"P", "Z", "X", "S!",
	"S" + rxPath("dev", "", nil, nil) + "^2^0^" + rxPaths[4], // another valid list
	"S" + rxPath("zz", "", nil, nil) + "^1^0^" + rxPaths[2],  // a list that would be refused as a first request
	"SN^7^0^!",
}

func (c *wiComp) Exhaustive(tier string) [][]string {
	var ops []string
	notis := rxWeirdNotis(true)
	for i, n := range notis {
		// the message, the same object again (stale for proto.Equal), the same content later
		resps := "U" + n + "&U" + n + "&U" + wiBump(n, 1) + "&S1"
		if wiSpecial("U" + n) {
			resps = "U" + n + "&S1"
		}
		w := []string{"p", "c"}[i%2]
		if tier == "thorough" || i%3 == 0 {
			ops = append(ops, wiIngestOp(w, "dev", "dev+t2", 100, resps))
		}
		if tier == "thorough" && i%2 == 0 {
			ops = append(ops, wiIngestOp([]string{"c", "p"}[i%2], "dev", "dev+t2", 100, resps))
		}
	}
	for _, w := range []string{"p", "c"} {
		for _, r := range rxOtherResps {
			ops = append(ops, wiIngestOp(w, "dev", "dev", 100, r))
			ops = append(ops, wiIngestOp(w, "dev", "dev", 100, "U"+notis[3]+"&"+r+"&U"+notis[5]))
		}
		ops = append(ops, wiIngestOp(w, "dev", "dev", 100, "-"))
		ops = append(ops, wiIngestOp(w, "zz", "dev", 100, "S1&U"+notis[3]))
		ops = append(ops, wiIngestOp(w, "", "dev", 100, "S1&U"+notis[3]))
		ops = append(ops, wiIngestOp(w, "dev", "-", 100, "S1&U"+notis[3]))
		for _, seq := range rxTreeSeqs() {
			ops = append(ops, wiIngestOp(w, "dev", "dev", 5, strings.Join(seq, "&")))
		}
		for _, s := range wiSessions() {
			for _, now := range []int64{0, 100} {
				ops = append(ops, wiIngestOp(w, "dev", "dev+t2", now, s))
			}
		}
	}
	ops = append(ops, "conc 1 3", "conc 2 3") // RPCs of several peers at once on one server with statistics (wi_conc.go)
	// every subset of the optional callbacks x streams reaching every call site
	for mask := 0; mask < 16; mask++ {
		for _, resps := range []string{"-", "S1", "U" + notis[3], "E1", "Z", "S1&U" + notis[3] + "&E1&Z&U" + notis[5] + "&S0"} {
			ops = append(ops, "opt "+strconv.Itoa(mask)+" "+resps)
		}
	}
	for _, f := range wiFirstReqs {
		for _, ca := range []string{rxCaches[len(rxCaches)-1], rxCaches[0]} {
			ops = append(ops, "subs "+ca+" 0 "+f+" -")
			for _, l := range wiLaterReqs {
				ops = append(ops, "subs "+ca+" 0 "+f+" "+l)
			}
			ops = append(ops, "subs "+ca+" 1 "+f+" "+strings.Join(wiLaterReqs, "&"))
			ops = append(ops, "subs "+ca+" 0 "+f+" P&"+wiLaterReqs[5]+"&P")
		}
	}
	return rxChunk(ops, 40)
}

func (c *wiComp) Gen(r *rand.Rand, tier string) []string {
	seq := []string{"new"}
	n := 4 + r.Intn(6)
	for i := 0; i < n; i++ {
		if r.Intn(5) == 0 {
			var later []string
			for k := r.Intn(4); k > 0; k-- {
				if r.Intn(2) == 0 {
					later = append(later, wiLaterReqs[r.Intn(len(wiLaterReqs))])
				} else {
					later = append(later, rxRandReq(r))
				}
			}
			l := "-"
			if len(later) > 0 {
				l = strings.Join(later, "&")
			}
			first := wiFirstReqs[r.Intn(len(wiFirstReqs))]
			if r.Intn(3) == 0 {
				first = rxRandReq(r)
			}
			seq = append(seq, "subs "+rxCaches[r.Intn(len(rxCaches))]+" "+strconv.Itoa(r.Intn(4)/3)+" "+first+" "+l)
			continue
		}
		if r.Intn(6) == 0 {
			seq = append(seq, "opt "+strconv.Itoa(r.Intn(16))+" "+rxRandResps(r))
			continue
		}
		// a session: random responses whose timestamps (0..4) collide with the clock readings of the
		// cache's own metadata writes, now and then a crafted stream spliced in
		resps := rxRandResps(r)
		if r.Intn(4) == 0 {
			s := wiSessions()
			resps = s[r.Intn(len(s))]
			if r.Intn(2) == 0 {
				resps += "&" + rxRandResps(r)
			}
		}
		for k := 0; wiSpecial(resps); k++ {
			if resps = rxRandResps(r); k > 20 {
				resps = "S1"
			}
		}
		name := []string{"dev", "dev", "dev", "t2", "zz", "é t", ""}[r.Intn(7)]
		targets := []string{"dev", "dev+t2", "dev+" + encStr("é t"), "-", "t2"}[r.Intn(5)]
		seq = append(seq, wiIngestOp([]string{"p", "c"}[r.Intn(2)], name, targets, int64(r.Intn(4)), resps))
	}
	return seq
}
