package main

import (
	"context"
	"fmt"
	"io"
	"math/rand"
	"net"
	"runtime"
	"sort"
	"strconv"
	"strings"
	"sync"
	"time"

	"github.com/openconfig/gnmi/cache"
	"github.com/openconfig/gnmi/ctree"
	"github.com/openconfig/gnmi/subscribe"
	"google.golang.org/grpc/codes"
	"google.golang.org/grpc/metadata"
	"google.golang.org/grpc/peer"
	"google.golang.org/grpc/status"

	pb "github.com/openconfig/gnmi/proto/gnmi"
)

// su: subscribe.Server over a cache.Cache, driven through quiescent schedules: after every
// operation the harness waits until every server goroutine is blocked (sender in Queue.Next,
// in a gated Send, handler waiting for a result, POLL handler in Recv).

type suComp struct {
	ca   *caComp
	srv  *subscribe.Server
	subs map[string]*suSub
	pregate map[string]bool // ids whose stream starts with flow control shut
	afterFeed func(l *ctree.Leaf) // runs inside the cache's client callback after the event was forwarded
}

func init() { components["su"] = &suComp{} }

// the server's send timeout is real time: a send held by the harness longer than this ends the
// subscription whether or not an `expire` was scripted; VERIF_TIME_SCALE stretches it (and `expire` with it)
var suTimeout = scaled(150 * time.Millisecond)

type suACLKey struct{}

// suACL implements subscribe.ACL: the caller's allowed targets travel in the context.
type suACL struct{}

type suRPCACL struct{ allowed map[string]bool }

func (a suRPCACL) Check(t string) bool { return a.allowed[t] }

func (suACL) NewRPCACL(ctx context.Context) (subscribe.RPCACL, error) {
	v, _ := ctx.Value(suACLKey{}).(*suCaller)
	if v == nil || v.fail {
		return nil, fmt.Errorf("no credentials")
	}
	return suRPCACL{allowed: v.allowed}, nil
}
func (suACL) Check(string, string) bool { return true }

type suCaller struct {
	fail    bool
	allowed map[string]bool
}

type suSub struct {
	id      string
	ctx     context.Context
	cancel  context.CancelFunc
	reqs    chan *pb.SubscribeRequest
	mu      sync.Mutex
	out     []string // rendered (key, resp) pairs: "key\x00resp", or "sync"
	gate    chan struct{} // nil = open
	stepc   chan struct{} // releases exactly one gated Send
	pregated bool
	gated   bool          // a gate was shut since the last drain
	done    bool
	err     error
	regs    [][]string // for the view monitor
	mode    string
	uo      bool
	caller  *suCaller
	hasACL  bool
	view    map[string]string
	viewOK  bool
	reqsClosed bool
}

// ---- in-memory pb.GNMI_SubscribeServer ----

type suStream struct {
	s *suSub
	c *suComp
}

func (st *suStream) Context() context.Context     { return st.s.ctx }
func (st *suStream) SetHeader(metadata.MD) error  { return nil }
func (st *suStream) SendHeader(metadata.MD) error { return nil }
func (st *suStream) SetTrailer(metadata.MD)       {}
func (st *suStream) SendMsg(interface{}) error    { return nil }
func (st *suStream) RecvMsg(interface{}) error    { return nil }

func (st *suStream) Recv() (*pb.SubscribeRequest, error) {
	select {
	case r, ok := <-st.s.reqs:
		if !ok {
			return nil, io.EOF
		}
		return r, nil
	case <-st.s.ctx.Done():
		return nil, st.s.ctx.Err()
	}
}

func (st *suStream) Send(r *pb.SubscribeResponse) error {
	st.s.mu.Lock()
	g := st.s.gate
	st.s.mu.Unlock()
	if g != nil {
		select {
		case <-g:
		case <-st.s.stepc:
		case <-st.s.ctx.Done():
			return st.s.ctx.Err()
		}
	}
	st.s.mu.Lock()
	defer st.s.mu.Unlock()
	showDup := st.s.gated
	switch v := r.Response.(type) {
	case *pb.SubscribeResponse_SyncResponse:
		st.s.out = append(st.s.out, "sync")
	case *pb.SubscribeResponse_Update:
		g := fromNoti(v.Update)
		if len(g.del) > 0 {
			idx := subIndexOf(g.prefix, g.del[0])
			if st.c.pregate[st.s.id] {
				st.s.out = append(st.s.out, encPath(idx)+"\x00D\x000")
			} else {
				st.s.out = append(st.s.out, encPath(idx)+"\x00D@"+strconv.FormatInt(g.ts, 10)+"\x000")
			}
			viewDeleteIn(st.s.view, idx)
			break
		}
		kind := "U"
		var idx []string
		dup := uint32(0)
		if len(g.upd) > 0 {
			dup = g.upd[0].dup
			g.upd[0].dup = 0
		}
		if g.atomic {
			kind = "A"
			idx = subIndexOf(g.prefix, gPath{})
			viewDeleteIn(st.s.view, idx)
		} else if len(g.upd) > 0 {
			idx = subIndexOf(g.prefix, g.upd[0].path)
		}
		resp := kind + renderStored(g)
		cnt := 0
		if showDup {
			cnt = int(dup) + 1
		}
		if st.c.pregate[st.s.id] {
			// which response the sender was holding when the stream stalled at its very first send
			// depends on the walk order (a map iteration): values and counts of such a subscriber
			// are not compared, only what was delivered for which key in which order
			resp, cnt = kind, 0
		}
		st.s.out = append(st.s.out, encPath(idx)+"\x00"+resp+"\x00"+strconv.Itoa(cnt))
		st.s.view[encPath(idx)] = viewVal(g, st.c.ca.ed)
	}
	return nil
}

func viewDeleteIn(view map[string]string, idx []string) {
	for k := range view {
		if qmatchesGo(idx, decPath(k)) {
			delete(view, k)
		}
	}
}

// ---- quiescence ----

var suFrames = []string{"subscribe.(*Server)", "main.(*suStream)", "main.(*suComp).Run.func"}

// allBlocked reports whether every goroutine running server code for a subscriber is parked in
// one of the places it can only leave through an external event.
func allBlocked() bool {
	buf := make([]byte, 1<<20)
	n := runtime.Stack(buf, true)
	for i, g := range strings.Split(string(buf[:n]), "\n\n") {
		if i == 0 {
			continue // the goroutine asking (the op runner, or server code inside a schedule hook)
		}
		rel := false
		for _, f := range suFrames {
			if strings.Contains(g, f) {
				rel = true
			}
		}
		if !rel {
			continue
		}
		if strings.Contains(g, "main.quiesce") {
			return false // server code inside a schedule hook, itself waiting for the others
		}
		hdr := g[:strings.IndexByte(g+"\n", '\n')]
		ok := strings.Contains(hdr, "[select") || strings.Contains(hdr, "[chan receive")
		if !ok {
			return false
		}
		// a select/receive inside the code under test must be one of the known wait points
		known := strings.Contains(g, "coalesce.(*Queue).Next") || strings.Contains(g, "main.(*suStream).Send") ||
			strings.Contains(g, "main.(*suStream).Recv") || strings.Contains(g, "subscribe.(*Server).Subscribe(") ||
			strings.Contains(g, "sendStreamingResults.func")
		if !known {
			return false
		}
	}
	return true
}

func quiesce() bool {
	deadline := time.Now().Add(5 * time.Second)
	stable := 0
	for time.Now().Before(deadline) {
		if allBlocked() {
			stable++
			if stable >= 3 {
				return true
			}
		} else {
			stable = 0
		}
		time.Sleep(50 * time.Microsecond)
	}
	return false
}

// ---- running ----

func suCode(err error) string {
	if err == nil {
		return "ok"
	}
	st, ok := status.FromError(err)
	if !ok {
		return "unknown"
	}
	switch st.Code() {
	case codes.OK:
		return "ok"
	case codes.InvalidArgument:
		return "invalid"
	case codes.NotFound:
		return "notfound"
	case codes.PermissionDenied:
		return "denied"
	case codes.Unauthenticated:
		return "unauthenticated"
	}
	return "unknown"
}

func (s *suSub) status() string {
	s.mu.Lock()
	defer s.mu.Unlock()
	if s.done {
		return "ended:" + suCode(s.err)
	}
	return "alive"
}

func isUpdResp(r string) bool { return strings.HasPrefix(r, "U") || strings.HasPrefix(r, "A") }

// entries are "key\x00resp\x00count": count = inserts represented (dup+1) when the dup count
// is deterministic (sent after a gate was shut since the last drain), else 0
func renderSegmentGo(seg []string) string {
	type rc struct {
		r string
		n int
	}
	per := map[string][]rc{}
	var keys []string
	for _, e := range seg {
		f := strings.Split(e, "\x00")
		k, r := f[0], f[1]
		cnt, _ := strconv.Atoi(f[2])
		if _, ok := per[k]; !ok {
			keys = append(keys, k)
		}
		l := per[k]
		if n := len(l); n > 0 && isUpdResp(l[n-1].r) && isUpdResp(r) {
			l[n-1] = rc{r, l[n-1].n + cnt}
		} else if n > 0 && l[n-1].r == r {
			if cnt > l[n-1].n {
				l[n-1].n = cnt
			}
		} else {
			l = append(l, rc{r, cnt})
		}
		per[k] = l
	}
	sort.Strings(keys)
	var out []string
	for _, k := range keys {
		var rs []string
		for _, x := range per[k] {
			if x.n > 1 {
				rs = append(rs, x.r+"~n"+strconv.Itoa(x.n))
			} else {
				rs = append(rs, x.r)
			}
		}
		out = append(out, k+":"+strings.Join(rs, ">"))
	}
	return bracket(out)
}

func (s *suSub) drain() string {
	st := s.status()
	s.mu.Lock()
	out := s.out
	s.out = nil
	s.gated = s.gate != nil
	s.mu.Unlock()
	if strings.HasPrefix(st, "ended:") && st != "ended:ok" {
		return st
	}
	if s.pregated {
		// (see Send: only what was delivered per key, and how many sync markers — where an update
		// lands relative to the sync marker depends on which response the sender was holding)
		var all []string
		n := 0
		for _, e := range out {
			if e == "sync" {
				n++
			} else {
				all = append(all, e)
			}
		}
		return renderSegmentGo(all) + " syncs=" + strconv.Itoa(n) + " " + st
	}
	var segs []string
	var cur []string
	for _, e := range out {
		if e == "sync" {
			segs = append(segs, renderSegmentGo(cur))
			cur = nil
			continue
		}
		cur = append(cur, e)
	}
	segs = append(segs, renderSegmentGo(cur))
	return strings.Join(segs, " sync ") + " " + st
}

func parseSuReq(tok string) (*pb.SubscribeRequest, [][]string, string, bool) {
	if tok == "eof" {
		return nil, nil, "", false
	}
	f := strings.Split(tok, "|")
	if f[0] != "1" {
		return &pb.SubscribeRequest{Request: &pb.SubscribeRequest_Poll{Poll: &pb.Poll{}}}, nil, "", false
	}
	sl := &pb.SubscriptionList{}
	target, origin := decStr(f[2]), decStr(f[3])
	pfx := decPath(f[4])
	if f[1] != "1" {
		sl.Prefix = &pb.Path{Target: target, Origin: origin}
		for _, e := range pfx {
			sl.Prefix.Elem = append(sl.Prefix.Elem, &pb.PathElem{Name: e})
		}
	}
	switch f[5] {
	case "o":
		sl.Mode = pb.SubscriptionList_ONCE
	case "p":
		sl.Mode = pb.SubscriptionList_POLL
	case "s":
		sl.Mode = pb.SubscriptionList_STREAM
	default:
		sl.Mode = pb.SubscriptionList_Mode(7)
	}
	sl.UpdatesOnly = f[6] == "1"
	var regs [][]string
	pre := []string{target}
	if origin != "" {
		pre = append(pre, origin)
	}
	pre = append(pre, pfx...)
	if f[7] != "-" {
		for _, sp := range strings.Split(f[7], ";") {
			sf := strings.Split(sp, ":")
			if sf[0] == "1" {
				sl.Subscription = append(sl.Subscription, &pb.Subscription{})
				regs = append(regs, cloneStrs(pre))
				continue
			}
			p := &pb.Path{Origin: decStr(sf[1])}
			// alternate the two encodings
			elems := decPath(sf[2])
			if len(sl.Subscription)%2 == 0 {
				for _, e := range elems {
					p.Elem = append(p.Elem, &pb.PathElem{Name: e})
				}
			} else {
				p.Element = append(p.Element, elems...)
			}
			sl.Subscription = append(sl.Subscription, &pb.Subscription{Path: p})
			q := cloneStrs(pre)
			if origin == "" && p.Origin != "" {
				q = append(q, p.Origin)
			}
			regs = append(regs, append(q, elems...))
		}
	}
	return &pb.SubscribeRequest{Request: &pb.SubscribeRequest_Subscribe{Subscribe: sl}}, regs, f[5], sl.UpdatesOnly
}

func (c *suComp) Run(args []string) string {
	if len(args) == 0 {
		return "bad-op"
	}
	switch args[0] {
	case "rwalk":
		return suRaceWalk() // su_rwalk.go
	case "new":
		for _, s := range c.subs {
			s.cancel()
		}
		c.subs = map[string]*suSub{}
		c.pregate = map[string]bool{}
		c.ca = &caComp{}
		out := c.ca.Run(args)
		c.srv, _ = subscribe.NewServer(c.ca.c, suServerOptions(args)...)
		c.ca.c.SetClient(func(l *ctree.Leaf) {
			c.ca.record(l)
			c.srv.Update(l)
			if f := c.afterFeed; f != nil {
				f(l)
			}
		})
		quiesce()
		return out
	case "ca":
		out := c.ca.Run(args[1:])
		if !quiesce() {
			return out + " not-quiescent"
		}
		return out
	case "pregate":
		c.pregate[decStr(args[1])] = true
		return "ok"
	case "churn":
		t, r := 6, 20
		if len(args) > 2 {
			t, _ = strconv.Atoi(args[1])
			r, _ = strconv.Atoi(args[2])
		}
		return suChurn(t, r)
	case "subreset":
		// `subreset <id> <acl> <req> <target> <now>`: Cache.Reset(target) with a subscription attached in
		// the middle of it — from inside the cache's client callback, right after the first whole-subtree
		// delete of the reset was forwarded.  Whatever the subscriber was or was not sent, once
		// everything is quiet its view must agree with the cache (a delete announced before the leaves
		// are gone would leave it holding leaves nobody will ever tell it to drop).  What it received is
		// discarded; the observation is its status and the view monitor.  (Model: reset, then subscribe.)
		if len(args) != 6 {
			return "bad-op"
		}
		target := decStr(args[4])
		attached := false
		if args[2] == "-" {
			c.noACLServer() // (installing it replaces the cache's client callback: not from inside that callback)
		}
		c.afterFeed = func(l *ctree.Leaf) {
			n, ok := l.Value().(*pb.Notification)
			if attached || !ok || len(n.GetDelete()) == 0 || n.GetPrefix().GetTarget() != target {
				return
			}
			attached = true
			c.afterFeed = nil
			c.Run([]string{"sub", args[1], args[2], args[3]})
		}
		c.ca.Run([]string{"reset", args[4], args[5]})
		c.afterFeed = nil
		quiesce()
		if !attached {
			c.Run([]string{"sub", args[1], args[2], args[3]})
		}
		s := c.subs[decStr(args[1])]
		if s == nil {
			return "no-such-subscriber"
		}
		s.drain()
		return s.status() + " mon=" + c.viewCheck(s, false)
	case "sub", "subw":
		id := decStr(args[1])
		ran := false
		if args[0] == "subw" {
			point := "subscribe.walk." + args[4]
			caArgs := args[5:]
			armed := true
			subscribe.VerifHook = func(name string) {
				if armed && name == point {
					armed = false
					ran = true
					if strings.HasSuffix(point, ".end") {
						quiesce() // let the sender drain what the walk queued
					}
					c.ca.Run(caArgs)
				}
			}
			defer func() { subscribe.VerifHook = nil }()
		}
		s := &suSub{id: id, reqs: make(chan *pb.SubscribeRequest, 4), view: map[string]string{}, stepc: make(chan struct{})}
		caller := &suCaller{allowed: map[string]bool{}}
		switch {
		case args[2] == "-":
			// no per-user restriction: the installed ACL allows every existing name
			caller = nil
		case args[2] == "fail":
			caller.fail = true
		case strings.HasPrefix(args[2], "a="):
			if b := args[2][2:]; b != "" {
				for _, t := range strings.Split(b, ",") {
					caller.allowed[decStr(t)] = true
				}
			}
		}
		s.caller = caller
		ctx := peer.NewContext(context.Background(), &peer.Peer{Addr: &net.TCPAddr{IP: net.IPv4(127, 0, 0, 1), Port: 1}})
		srv := c.srv
		if caller == nil {
			// server without ACL for this call
			srv, _ = subscribe.NewServer(c.ca.c, subscribe.WithTimeout(suTimeout))
			// share the match structure: updates go through c.srv, so register there instead
			srv = c.noACLServer()
		} else {
			ctx = context.WithValue(ctx, suACLKey{}, caller)
		}
		s.ctx, s.cancel = context.WithCancel(ctx)
		req, regs, mode, uo := parseSuReq(args[3])
		s.regs, s.mode, s.uo = regs, mode, uo
		if req == nil {
			s.reqsClosed = true
			close(s.reqs)
		} else {
			s.reqs <- req
		}
		if c.pregate[id] {
			s.gate = make(chan struct{})
			s.gated = true
			s.pregated = true
		}
		c.subs[id] = s
		go func() {
			err := srv.Subscribe(&suStream{s: s, c: c})
			s.mu.Lock()
			s.done, s.err = true, err
			s.mu.Unlock()
			s.cancel()
		}()
		if !quiesce() {
			return s.status() + " not-quiescent"
		}
		if args[0] == "subw" {
			if ran {
				return s.status() + " ran=1"
			}
			return s.status() + " ran=0"
		}
		return s.status()
	}
	s := c.subs[decStr(args[1])]
	if s == nil {
		return "no-such-subscriber"
	}
	switch args[0] {
	case "drain":
		return s.drain()
	case "poll":
		if !s.isDone() && !s.reqsClosed && s.mode == "p" {
			select {
			case s.reqs <- &pb.SubscribeRequest{Request: &pb.SubscribeRequest_Poll{Poll: &pb.Poll{}}}:
			default:
			}
		}
		quiesce()
		return "ok"
	case "eof":
		if !s.reqsClosed {
			s.reqsClosed = true
			close(s.reqs)
		}
		quiesce()
		return "ok"
	case "gate":
		s.mu.Lock()
		if args[2] == "shut" {
			if s.gate == nil {
				s.gate = make(chan struct{})
			}
			s.gated = true
		} else if args[2] == "step" {
			// let exactly one held Send through; the gate stays shut (every goroutine is parked
			// after the previous op, so a held Send is already waiting in its select)
			if s.gate != nil {
				select {
				case s.stepc <- struct{}{}:
				default:
				}
			}
		} else if s.gate != nil {
			close(s.gate)
			s.gate = nil
		}
		s.mu.Unlock()
		quiesce()
		return "ok"
	case "expire":
		time.Sleep(suTimeout + scaled(100*time.Millisecond))
		quiesce()
		return "ok"
	case "view":
		return c.viewCheck(s, false)
	case "view!":
		// the monitor without the exemption for finding D25 (see viewCheck); used by its witness case
		return c.viewCheck(s, true)
	}
	return "bad-op"
}

func (s *suSub) isDone() bool {
	s.mu.Lock()
	defer s.mu.Unlock()
	return s.done
}

// noACLServer: a second Server on the same cache without ACL, fed by the same callback.
var suNoACL = map[*cache.Cache]*subscribe.Server{}

// suServerOptions returns the options of the server under test in one of several equivalent spellings:
// NewServer tolerates nil options (the usual way to make an option conditional) and the options are
// independent of one another, so their order and any nil entries between them must not matter
// (seeded change c07_seed7 stopped option processing at the first nil one, dropping WithACL).
// The spelling is a function of the `new` line, so that a replay of the sequence uses the same one.
func suServerOptions(args []string) []subscribe.Option {
	h := 0
	for _, a := range args {
		for _, b := range []byte(a) {
			h = h*31 + int(b)
		}
	}
	to, acl := subscribe.WithTimeout(suTimeout), subscribe.WithACL(suACL{})
	switch (h & 0x7fffffff) % 4 {
	case 0:
		return []subscribe.Option{to, acl}
	case 1:
		return []subscribe.Option{nil, to, acl}
	case 2:
		return []subscribe.Option{acl, nil, to}
	default:
		return []subscribe.Option{to, nil, acl, nil}
	}
}

func (c *suComp) noACLServer() *subscribe.Server {
	if s, ok := suNoACL[c.ca.c]; ok {
		return s
	}
	s, _ := subscribe.NewServer(c.ca.c, subscribe.WithTimeout(suTimeout))
	suNoACL = map[*cache.Cache]*subscribe.Server{c.ca.c: s}
	withACL := c.srv
	c.ca.c.SetClient(func(l *ctree.Leaf) {
		c.ca.record(l)
		withACL.Update(l)
		s.Update(l)
		if f := c.afterFeed; f != nil {
			f(l)
		}
	})
	return s
}

func compatibleGo(q, p []string) bool {
	for i := 0; i < len(q) && i < len(p); i++ {
		if q[i] != "*" && p[i] != "*" && q[i] != p[i] {
			return false
		}
	}
	return true
}

// viewCheck is the C04 monitor, independent of the model. For a live, ungated STREAM subscriber
// (not updates_only), replaying everything it received must give a view in which
//   (1) every cache leaf that a Query for one of its (completed) paths returns, on a target its
//       ACL allows, is present with the cache's current value — "the cache's matching content";
//   (2) every entry equals the cache's current value for that leaf (nothing stale, nothing the
//       cache no longer has), and concerns an allowed target and a path compatible with one of
//       its registrations (C06: streamed = compatible, a superset of what a query returns).
//
// Known finding D25 (KNOWN_FINDINGS.txt, corpus/C04/d25_subscription_below_atomic_prefix.ops): an atomic
// notification is stored as ONE leaf at its prefix but offered by the paths of the updates it carries.  A
// subscriber all of whose compatible registrations are strictly longer than that prefix (it asked for
// something inside the container) is offered one version of the container and not a later one that
// carries no update under its path: it keeps the old version.  Unless `strict`, a stale entry of exactly
// this kind (atomic container on either side, no compatible registration that is at most as long as
// the key) is not reported; an entry the cache no longer has at all still is.
func (c *suComp) viewCheck(s *suSub, strict bool) string {
	if s.mode != "s" || s.uo || s.isDone() {
		return "ok"
	}
	s.mu.Lock()
	defer s.mu.Unlock()
	if s.gate != nil {
		return "ok"
	}
	cur := map[string]string{}    // every allowed leaf: index -> value
	compat := map[string]bool{}   // ... compatible with a registration
	short := map[string]bool{}    // ... compatible with a registration that is no longer than the key
	matched := map[string]bool{}  // ... returned by a query for a registration path
	c.ca.c.Query("*", nil, func(p []string, l *ctree.Leaf, v interface{}) error {
		n, ok := v.(*pb.Notification)
		if !ok {
			return nil
		}
		g := fromNoti(n)
		idx := append([]string{g.prefix.target}, p...)
		if s.caller != nil && !s.caller.allowed[g.prefix.target] {
			return nil
		}
		k := encPath(idx)
		cur[k] = viewVal(g, c.ca.ed)
		var paths [][]string
		if g.atomic {
			for _, u := range g.upd {
				paths = append(paths, subIndexOf(g.prefix, u.path))
			}
		} else {
			paths = [][]string{idx}
		}
		for _, q := range s.regs {
			for _, p := range paths {
				if compatibleGo(q, p) {
					compat[k] = true
				}
			}
			// a query for q (target first; "*" addresses every target) returns the stored key
			if qmatchesGo(q, idx) {
				matched[k] = true
			}
			if len(q) <= len(idx) && compatibleGo(q, idx) {
				short[k] = true
			}
		}
		return nil
	})
	var diff []string
	for k := range matched {
		if s.view[k] != cur[k] {
			diff = append(diff, "missing-or-stale:"+k)
		}
	}
	for k, v := range s.view {
		if cv, ok := cur[k]; !ok || cv != v {
			if ok && !strict && !short[k] && (viewIsAtomic(v) || viewIsAtomic(cv)) {
				continue // D25
			}
			diff = append(diff, "phantom-or-stale:"+k)
		} else if !compat[k] {
			diff = append(diff, "not-subscribed:"+k)
		}
	}
	if len(diff) == 0 {
		return "ok"
	}
	sort.Strings(diff)
	if len(diff) > 3 {
		diff = diff[:3]
	}
	return "view-differs:" + strings.Join(diff, ",")
}

// viewIsAtomic: is this monitor value (viewVal) that of an atomic container ("@<ts>=A<n>#<fingerprint>")?
func viewIsAtomic(v string) bool {
	i := strings.Index(v, "=A")
	return strings.HasPrefix(v, "@") && i > 0 && !strings.ContainsAny(v[1:i], "=#")
}

// ---------------------------------------------------------------- generating

func (c *suComp) Exhaustive(tier string) [][]string { return nil }

type suGen struct {
	g    *caGen
	r    *rand.Rand
	ids  []string
	seq  []string
	gate map[string]bool
	lastLeaf []string // index path of the leaf the last generated subscription path was drawn from
	readd    []string // targets removed by an injected operation, to be added again
}

func (s *suGen) emit(format string, a ...interface{}) { s.seq = append(s.seq, fmt.Sprintf(format, a...)) }

// move the cache generator's pending lines into the su sequence, prefixed with "ca"
func (s *suGen) flushCA() {
	for _, l := range s.g.seq {
		f := strings.Fields(l)
		switch f[0] {
		case "query", "meta", "has":
			continue // cache observations are the ca component's business
		}
		s.emit("ca %s", l)
	}
	s.g.seq = nil
}

// subPathAfter: a path for a leaf whose index *text* starts with that of the previous subscription
// path's leaf without being below it (eth1 then eth10), unmodified — or "" if the universe has none.
func (s *suGen) subPathAfter(prev []string) string {
	pj := strings.Join(prev, "/")
	for _, i := range s.r.Perm(len(s.g.leaves)) {
		q := elemsToElement(s.g.leaves[i].elems)
		qj := strings.Join(q, "/")
		if len(prev) > 0 && qj != pj && strings.HasPrefix(qj, pj) && !strings.HasPrefix(qj, pj+"/") {
			return "0:" + encStr("") + ":" + encPath(q)
		}
	}
	return ""
}

func (s *suGen) subPath() string {
	r := s.r
	g := s.g
	l := g.leaves[r.Intn(len(g.leaves))]
	q := elemsToElement(l.elems)
	s.lastLeaf = append([]string(nil), q...)
	switch r.Intn(8) {
	case 0:
		q = q[:r.Intn(len(q)+1)]
	case 1:
		if len(q) > 0 {
			q[r.Intn(len(q))] = "*"
		}
	case 2:
		q = append(q, "*")
		if r.Intn(3) == 0 {
			// two (or more) trailing globs: a leaf one level above the end of the query still matches
			// (a trailing glob matches at or below the node it reaches); also cut to a shallower leaf
			// (seeded change c05_seed9 skipped leaf children whenever the query continued after a glob)
			if len(q) > 2 && r.Intn(2) == 0 {
				q = q[:len(q)-2]
				q = append(q, "*")
			}
			q = append(q, "*")
		}
	case 3:
		q = nil
	case 4:
		q = append(q, "zz")
	case 5:
		// inside an atomic container (the generator's atomic notifications have prefix <leaf>/at and a
		// few of genNames below it): a subscriber for one member is offered the container only when
		// that member is among the notification's updates
		g.atLeaves = append(g.atLeaves, l)
		q = append(q, "at", genNames[r.Intn(4)])
		if r.Intn(3) == 0 {
			q = append(q, "x")
		}
	}
	origin := ""
	return "0:" + encStr(origin) + ":" + encPath(q)
}

func (s *suGen) genSub(id string) {
	r := s.r
	g := s.g
	target := g.targets[r.Intn(len(g.targets))]
	switch r.Intn(10) {
	case 0, 1, 2:
		target = "*"
	case 3:
		target = []string{"zz", "", "*"}[r.Intn(3)]
	}
	mode := []string{"s", "s", "s", "o", "o", "p", "x"}[r.Intn(7)]
	if r.Intn(20) != 0 && mode == "x" {
		mode = "s"
	}
	uo := "0"
	if r.Intn(5) == 0 {
		uo = "1"
	}
	origin := ""
	pfx := "."
	// prefix origin / elements so that leaves with origin "oc" are reachable
	switch r.Intn(5) {
	case 0:
		origin = g.org
	case 1:
		l := g.leaves[r.Intn(len(g.leaves))]
		pfx = encPath(elemsToElement(l.elems[:r.Intn(len(l.elems)+1)]))
		if r.Intn(2) == 0 {
			origin = l.origin
		}
	}
	n := 1 + r.Intn(3)
	if r.Intn(12) == 0 {
		n = 0
	}
	var subs []string
	for i := 0; i < n; i++ {
		sp := ""
		if i > 0 && r.Intn(3) == 0 {
			sp = s.subPathAfter(s.lastLeaf)
		}
		if sp == "" {
			sp = s.subPath()
		}
		if r.Intn(25) == 0 {
			sp = "1:~:." // nil path
		}
		if r.Intn(25) == 0 {
			sp = "0:" + encStr("po") + ":" + encPath([]string{"a"}) // path-level origin (may conflict)
		}
		subs = append(subs, sp)
	}
	sj := "-"
	if len(subs) > 0 {
		sj = strings.Join(subs, ";")
	}
	hs, pn := "1", "0"
	switch r.Intn(40) {
	case 0:
		hs = "0"
	case 1:
		pn = "1"
	}
	acl := "-"
	var denied []string // targets this caller's ACL denies
	switch x := r.Intn(10); {
	case x < 3:
		var al []string
		for _, t := range g.targets {
			if r.Intn(3) != 0 {
				al = append(al, encStr(t))
			} else {
				denied = append(denied, t)
			}
		}
		acl = "a=" + strings.Join(al, ",")
	case x < 4:
		acl = "fail"
	}
	req := strings.Join([]string{hs, pn, encStr(target), encStr(origin), pfx, mode, uo, sj}, "|")
	if r.Intn(40) == 0 {
		req = "eof"
	}
	if r.Intn(3) == 0 && req != "eof" {
		// place a cache write in the registration/walk window of this subscription
		saved := s.g.seq
		s.g.seq = nil
		savedTargets := s.g.targets
		if len(denied) > 0 && r.Intn(2) == 0 {
			// the write in the window goes to a target the subscriber's ACL denies: whatever reaches the
			// subscriber's queue between its registration and the sync marker is subject to the ACL like
			// everything else (seeded change c07_seed8 checked only what is sent after the marker)
			s.g.targets = denied
		}
		for len(s.g.seq) == 0 || !strings.HasPrefix(s.g.seq[0], "upd ") && !strings.HasPrefix(s.g.seq[0], "reset ") {
			s.g.seq = nil
			s.g.step()
		}
		op := s.g.seq[0]
		s.g.seq = saved
		s.g.targets = savedTargets
		if r.Intn(12) == 0 && target != "*" && target != "" && target != "zz" {
			// the subscription's own target is removed in the window (and usually added again later)
			op = fmt.Sprintf("remove %s %d", encStr(target), g.tick())
			s.readd = append(s.readd, target)
		}
		s.emit("subw %s %s %s %s %s", encStr(id), acl, req, []string{"start", "end"}[r.Intn(2)], op)
	} else if mode == "s" && !s.gate[id] && req != "eof" && r.Intn(6) == 0 {
		// the subscription attaches in the middle of a Reset of one of the targets
		s.emit("subreset %s %s %s %s %d", encStr(id), acl, req, encStr(g.targets[r.Intn(len(g.targets))]), g.tick())
	} else {
		s.emit("sub %s %s %s", encStr(id), acl, req)
	}
	s.ids = append(s.ids, id)
}

func (c *suComp) Gen(r *rand.Rand, tier string) []string {
	g := &caGen{r: r, now: 1000 + int64(r.Intn(1000)), lastTS: map[string]int64{}, atomicApart: true}
	g.thr = []int64{0, 0, 50}[r.Intn(3)]
	ed := "1"
	if r.Intn(3) == 0 {
		ed = "0"
	}
	s := &suGen{g: g, r: r, gate: map[string]bool{}}
	s.emit("new %d %s -", g.thr, ed)
	nt := 1 + r.Intn(3)
	for i := 0; i < nt; i++ {
		t := []string{"t1", "t2", "dev/3"}[i]
		g.targets = append(g.targets, t)
		s.emit("ca add %s", encStr(t))
	}
	g.genLeafUniverse()
	// clean inputs only: no element named "*" or "meta" inside data paths
	for i := range g.leaves {
		for j := range g.leaves[i].elems {
			if n := g.leaves[i].elems[j].name; n == "*" || n == "meta" || n == "" {
				g.leaves[i].elems[j].name = "m"
			}
		}
	}
	steps := 6 + r.Intn(25)
	nsub := 0
	for i := 0; i < steps; i++ {
		switch x := r.Intn(100); {
		case x < 22 && nsub < 5:
			nsub++
			if genProfile == "c08" && r.Intn(4) == 0 {
				// the stream is under back-pressure from its first response on: the whole
				// snapshot waits in the queue while the cache moves on
				id := fmt.Sprintf("s%d", nsub)
				s.emit("pregate %s", encStr(id))
				s.gate[id] = true
			}
			s.genSub(fmt.Sprintf("s%d", nsub))
		case x < 30 && len(s.ids) > 0:
			// (a re-walk under a shut gate races with the sender taking the first entry)
			if id := s.ids[r.Intn(len(s.ids))]; !s.gate[id] {
				s.emit("poll %s", encStr(id))
			}
		case x < 33 && len(s.ids) > 0:
			// (the client may half-close while the sender holds a response: the RPC ends, the held
			// response is dropped — the model agrees since Sub.eof clears `blocked`)
			if id := s.ids[r.Intn(len(s.ids))]; !s.gate[id] || genProfile == "c08" {
				s.emit("eof %s", encStr(id))
			}
		case x >= 97 && len(s.ids) > 0 && genProfile == "c08" && r.Intn(2) == 0:
			// a quiet period longer than the send timeout: only a subscriber with a send in
			// progress may be timed out (not one whose last item was withheld by the ACL, or idle)
			s.emit("expire %s", encStr(s.ids[r.Intn(len(s.ids))]))
		case x < 39 && len(s.ids) > 0 && genProfile == "c08":
			id := s.ids[r.Intn(len(s.ids))]
			if s.gate[id] {
				if r.Intn(5) < 2 {
					// one response at a time: the queue stays non-empty between sends
					for k := 1 + r.Intn(3); k > 0; k-- {
						s.emit("gate %s step", encStr(id))
						if r.Intn(2) == 0 {
							g.step()
							s.flushCA()
						}
					}
					break
				}
				if r.Intn(4) == 0 {
					s.emit("expire %s", encStr(id))
				}
				s.emit("gate %s open", encStr(id))
				s.gate[id] = false
			} else {
				s.emit("gate %s shut", encStr(id))
				s.gate[id] = true
			}
		default:
			if len(s.readd) > 0 && r.Intn(2) == 0 {
				// (first let the POLL subscribers poll against the cache that lacks the target)
				for _, id := range s.ids {
					if !s.gate[id] && r.Intn(2) == 0 {
						s.emit("poll %s", encStr(id))
					}
				}
				// (Cache.Add on a registered name silently replaces the target — the feed is not told —, so
				// whether or not the injected Remove ran, the name is removed before it is added again)
				s.emit("ca remove %s %d", encStr(s.readd[0]), g.tick())
				s.emit("ca add %s", encStr(s.readd[0]))
				s.readd = s.readd[1:]
				break
			}
			g.step()
			s.flushCA()
		}
		if r.Intn(2) == 0 {
			for _, id := range s.ids {
				if !s.gate[id] {
					s.emit("drain %s", encStr(id))
				}
			}
		}
	}
	for _, id := range s.ids {
		if s.gate[id] {
			s.emit("gate %s open", encStr(id))
		}
	}
	for _, id := range s.ids {
		s.emit("drain %s", encStr(id))
		s.emit("view %s", encStr(id))
	}
	return s.seq
}
