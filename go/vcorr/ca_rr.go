package main

// ca rr <seed>: a target is removed while a reset of the SAME target is being announced to the change
// feed (a slow feed consumer: the client callback stalls once, on the k-th notification the reset of A
// produces, until a concurrent Cache.Remove(A) has returned or a short time has passed — with the
// cache's own locking Remove cannot get in before the reset is done, so the wait simply times out).
// Whatever happens, once Remove has returned:
//   * A is unknown to the cache,
//   * the whole-target delete of A is the last thing the change feed says about A — a subscriber to "*"
//     that replays the feed believes in no leaf of A any more (C14: Remove announces a whole-target
//     delete; C03: the feed reproduces the cache),
//   * the other target is untouched, in the cache and in the replayed view.
// Observation: the monitor's verdict only.  Found necessary by seeded change c14_seed7 (Cache.Reset
// running Target.Reset without the cache's read lock).

import (
	"math/rand"
	"sort"
	"strconv"
	"strings"
	"sync"
	"sync/atomic"
	"time"

	"github.com/openconfig/gnmi/cache"
	"github.com/openconfig/gnmi/ctree"
	"github.com/openconfig/gnmi/path"
	"google.golang.org/protobuf/proto"

	pb "github.com/openconfig/gnmi/proto/gnmi"
)

func caRRUpdate(target string, p []string, ts int64, v string) *pb.Notification {
	pe := make([]*pb.PathElem, 0, len(p))
	for _, e := range p {
		pe = append(pe, &pb.PathElem{Name: e})
	}
	return &pb.Notification{
		Timestamp: ts,
		Prefix:    &pb.Path{Target: target},
		Update: []*pb.Update{{
			Path: &pb.Path{Elem: pe},
			Val:  &pb.TypedValue{Value: &pb.TypedValue_StringVal{StringVal: v}},
		}},
	}
}

type caRRView map[string]bool

func (v caRRView) apply(n *pb.Notification) {
	prefix := path.ToStrings(n.GetPrefix(), true)
	for _, u := range n.GetUpdate() {
		p := append(append([]string{}, prefix...), path.ToStrings(u.GetPath(), false)...)
		v[strings.Join(p, "/")] = true
	}
	for _, d := range n.GetDelete() {
		p := append(append([]string{}, prefix...), path.ToStrings(d, false)...)
		if l := len(p); l > 0 && p[l-1] == "*" {
			p = p[:l-1]
		}
		k := strings.Join(p, "/")
		for have := range v {
			if have == k || strings.HasPrefix(have, k+"/") {
				delete(v, have)
			}
		}
	}
}

func (v caRRView) of(target string) []string {
	var r []string
	for k := range v {
		if k == target || strings.HasPrefix(k, target+"/") {
			r = append(r, k)
		}
	}
	sort.Strings(r)
	return r
}

func caRRIsTargetDelete(n *pb.Notification, target string) bool {
	if n.GetPrefix().GetTarget() != target || n.GetPrefix().GetOrigin() != "" || len(n.GetDelete()) != 1 {
		return false
	}
	p := path.ToStrings(n.GetDelete()[0], false)
	return len(p) == 1 && p[0] == "*"
}

func caRR(args []string) string {
	if len(args) != 2 {
		return "bad-op"
	}
	seed, _ := strconv.ParseInt(args[1], 10, 64)
	r := rand.New(rand.NewSource(seed))
	savedNow := scriptedNow
	defer func() { scriptedNow = savedNow }()
	scriptedNow = int64(1000 * time.Second)
	c := cache.New([]string{"A", "B"})
	var (
		mu      sync.Mutex
		feed    []*pb.Notification
		armed   int32
		seen    int32
		inReset = make(chan struct{})
		removed = make(chan struct{})
	)
	stallAt := int32(1 + r.Intn(4)) // which of the reset's notifications for A the consumer is slow on
	c.SetClient(func(l *ctree.Leaf) {
		n, ok := l.Value().(*pb.Notification)
		if !ok {
			return
		}
		n = proto.Clone(n).(*pb.Notification)
		mu.Lock()
		feed = append(feed, n)
		mu.Unlock()
		if atomic.LoadInt32(&armed) == 1 && n.GetPrefix().GetTarget() == "A" && atomic.AddInt32(&seen, 1) == stallAt {
			close(inReset)
			select {
			case <-removed:
			case <-time.After(scaled(150 * time.Millisecond)):
			}
		}
	})
	ts := int64(1)
	for _, tgt := range []string{"A", "B"} {
		for i := 1 + r.Intn(3); i > 0; i-- {
			p := []string{[]string{"a", "b", "c"}[r.Intn(3)], []string{"x", "y"}[r.Intn(2)]}
			if err := c.GnmiUpdate(caRRUpdate(tgt, p, ts, strconv.Itoa(i))); err != nil {
				return "mon=setup-update-rejected"
			}
			ts++
		}
		c.Connect(tgt)
		c.Sync(tgt)
	}
	atomic.StoreInt32(&armed, 1)
	go func() {
		select {
		case <-inReset:
		case <-time.After(scaled(5 * time.Second)):
		}
		c.Remove("A")
		close(removed)
	}()
	c.Reset("A")
	select {
	case <-removed:
	case <-time.After(scaled(20 * time.Second)):
		return "mon=remove-did-not-return"
	}
	if c.HasTarget("A") {
		return "mon=removed-target-still-known"
	}
	mu.Lock()
	defer mu.Unlock()
	view := caRRView{}
	del := -1
	for i, n := range feed {
		view.apply(n)
		if caRRIsTargetDelete(n, "A") {
			del = i
		}
	}
	if del < 0 {
		return "mon=no-whole-target-delete-announced"
	}
	for _, n := range feed[del+1:] {
		if n.GetPrefix().GetTarget() == "A" {
			return "mon=feed-mentions-removed-target-after-its-delete"
		}
	}
	if len(view.of("A")) != 0 {
		return "mon=replayed-view-keeps-leaves-of-removed-target"
	}
	var stored []string
	c.Query("B", []string{"*"}, func(_ []string, _ *ctree.Leaf, v interface{}) error {
		n := v.(*pb.Notification)
		p := append(path.ToStrings(n.GetPrefix(), true), path.ToStrings(n.GetUpdate()[0].GetPath(), false)...)
		stored = append(stored, strings.Join(p, "/"))
		return nil
	})
	sort.Strings(stored)
	if strings.Join(view.of("B"), " ") != strings.Join(stored, " ") {
		return "mon=other-target-differs"
	}
	return "mon=ok"
}

// ca ra <seed>: a target is removed and, while its whole-target delete is being handed to the change feed (a
// slow feed consumer: the client callback, on seeing the delete, starts a goroutine that re-adds the target and
// writes a leaf into it, and gives it a short time to finish), registered again.  The cache's lock makes
// "the target disappears" and "its delete is announced" one step with respect to Add: whatever is written into
// the re-added target is announced AFTER the delete of the old incarnation, so a subscriber to "*" that replays
// the feed ends with exactly what the cache holds.  Found necessary by seeded change c04_seed10 (Remove
// releasing the lock before it notifies).  Observation: the monitor's verdict only.
func caRA(args []string) string {
	if len(args) != 2 {
		return "bad-op"
	}
	seed, _ := strconv.ParseInt(args[1], 10, 64)
	r := rand.New(rand.NewSource(seed))
	savedNow := scriptedNow
	defer func() { scriptedNow = savedNow }()
	scriptedNow = int64(1000 * time.Second)
	c := cache.New([]string{"A", "B"})
	var (
		mu      sync.Mutex
		feed    []*pb.Notification
		armed   int32
		fired   int32
		readded = make(chan struct{})
	)
	leaf := []string{[]string{"a", "b"}[r.Intn(2)], "x"}
	c.SetClient(func(l *ctree.Leaf) {
		n, ok := l.Value().(*pb.Notification)
		if !ok {
			return
		}
		n = proto.Clone(n).(*pb.Notification)
		if atomic.LoadInt32(&armed) == 1 && caRRIsTargetDelete(n, "A") && atomic.CompareAndSwapInt32(&fired, 0, 1) {
			go func() {
				defer close(readded)
				c.Add("A")
				c.GnmiUpdate(caRRUpdate("A", leaf, 50, "new"))
			}()
			select {
			case <-readded:
			case <-time.After(scaled(150 * time.Millisecond)): // the re-add is (correctly) excluded until Remove is done
			}
		}
		mu.Lock()
		feed = append(feed, n)
		mu.Unlock()
	})
	for i, tgt := range []string{"A", "B"} {
		if err := c.GnmiUpdate(caRRUpdate(tgt, leaf, int64(10+i), "old")); err != nil {
			return "mon=setup-update-rejected"
		}
		if err := c.GnmiUpdate(caRRUpdate(tgt, []string{"c", "y"}, int64(20+i), "old")); err != nil {
			return "mon=setup-update-rejected"
		}
	}
	atomic.StoreInt32(&armed, 1)
	c.Remove("A")
	select {
	case <-readded:
	case <-time.After(scaled(20 * time.Second)):
		return "mon=readd-did-not-return"
	}
	mu.Lock()
	defer mu.Unlock()
	view := caRRView{}
	for _, n := range feed {
		view.apply(n)
	}
	for _, tgt := range []string{"A", "B"} {
		var stored []string
		c.Query(tgt, []string{"*"}, func(_ []string, _ *ctree.Leaf, v interface{}) error {
			n := v.(*pb.Notification)
			p := append(path.ToStrings(n.GetPrefix(), true), path.ToStrings(n.GetUpdate()[0].GetPath(), false)...)
			stored = append(stored, strings.Join(p, "/"))
			return nil
		})
		sort.Strings(stored)
		if strings.Join(view.of(tgt), " ") != strings.Join(stored, " ") {
			return "mon=replayed-view-differs-from-cache target=" + tgt
		}
	}
	if len(view.of("A")) != 1 {
		return "mon=readded-target-holds-" + strconv.Itoa(len(view.of("A"))) + "-leaves"
	}
	return "mon=ok"
}
