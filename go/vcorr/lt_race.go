package main

// lt race: the periodic metadata refresh (Latency.UpdateReset from the refresh goroutine) is held
// while it is exporting a window's maximum (a slow Metadata.SetInt); the target's update stream then
// records a large latency and refreshes the metadata itself (what Target.Reset does).  Latency's
// mutex must exclude the stream until the first refresh is done; whatever the interleaving, the
// statistics exported in the end are bounded by the latencies observed in the window and mutually
// consistent (min <= avg <= max).  Observation: the monitor's verdict only.

import (
	"sync"
	"sync/atomic"
	"time"

	"github.com/openconfig/gnmi/latency"
)

type ltRaceMeta struct {
	mu   sync.Mutex
	m    map[string]int64
	hook func(name string)
}

func (z *ltRaceMeta) SetInt(name string, v int64) error {
	z.mu.Lock()
	h := z.hook
	z.mu.Unlock()
	if h != nil {
		h(name)
	}
	z.mu.Lock()
	z.m[name] = v
	z.mu.Unlock()
	return nil
}

func (z *ltRaceMeta) get(name string) int64 {
	z.mu.Lock()
	defer z.mu.Unlock()
	return z.m[name]
}

func ltRace() string {
	saved := latency.Now
	defer func() { latency.Now = saved }()
	var cmu sync.Mutex
	now := time.Unix(1000, 0)
	set := func(d time.Duration) { cmu.Lock(); now = time.Unix(1000, 0).Add(d); cmu.Unlock() }
	get := func() time.Time { cmu.Lock(); defer cmu.Unlock(); return now }
	latency.Now = get

	const small, large = 10 * time.Millisecond, 500 * time.Millisecond
	win := 2 * time.Second
	lat := latency.New([]time.Duration{win}, nil)
	m := &ltRaceMeta{m: map[string]int64{}}
	compute := func(at, l time.Duration) { set(at); lat.Compute(get().Add(-l)) }

	compute(1*time.Second, small)
	set(3 * time.Second)
	lat.UpdateReset(m)
	compute(4*time.Second, small)

	entered, release := make(chan struct{}), make(chan struct{})
	var armed int32 = 1
	maxName := latency.MetadataName(win, latency.Max)
	m.mu.Lock()
	m.hook = func(name string) {
		if name != maxName || !atomic.CompareAndSwapInt32(&armed, 1, 0) {
			return
		}
		close(entered)
		select {
		case <-release:
		case <-time.After(scaled(40 * time.Millisecond)): // the update stream is (correctly) excluded
		}
	}
	m.mu.Unlock()

	set(5 * time.Second)
	refreshDone, streamDone := make(chan struct{}), make(chan struct{})
	go func() { defer close(refreshDone); lat.UpdateReset(m) }()
	select {
	case <-entered:
	case <-refreshDone:
	}
	go func() {
		defer close(streamDone)
		compute(5500*time.Millisecond, large)
		set(6 * time.Second)
		lat.UpdateReset(m)
	}()
	select {
	case <-streamDone: // only possible if the refresh does not hold the lock while it exports
		close(release)
	case <-refreshDone:
	}
	<-refreshDone
	<-streamDone
	mn, avg, mx := time.Duration(m.get(latency.MetadataName(win, latency.Min))),
		time.Duration(m.get(latency.MetadataName(win, latency.Avg))), time.Duration(m.get(maxName))
	switch {
	case mx != large:
		return "mon=FAIL:max-below-observed"
	case mn != small:
		return "mon=FAIL:min-above-observed"
	case !(mn <= avg && avg <= mx):
		return "mon=FAIL:inconsistent"
	}
	return "mon=ok"
}

// lt race2: the update stream reads the clock just before an update-period boundary while the periodic
// refresh for that boundary is due.  A sample's observation time must be taken inside the critical
// section that decides which slot it is booked into: the first clock reading of the phase (the
// stream's) lets the refresh go ahead and gives it a short time to finish — which it can only do if the
// stream is not inside Latency's critical section — before it returns.  The statistics exported one
// period later for the window that starts at the boundary must then be bounded by the latencies
// observed in that window.  Found necessary by seeded change c15_seed9 (Compute reading the clock before
// taking the lock).  Observation: the monitor's verdict only.
func ltRace2() string {
	saved := latency.Now
	defer func() { latency.Now = saved }()
	var cmu sync.Mutex
	var fixed time.Time
	var script func() time.Time
	latency.Now = func() time.Time {
		cmu.Lock()
		s, f := script, fixed
		cmu.Unlock()
		if s != nil {
			return s()
		}
		return f
	}
	set := func(t time.Time) { cmu.Lock(); fixed, script = t, nil; cmu.Unlock() }
	sec := func(s, ms int64) time.Time { return time.Unix(s, ms*int64(time.Millisecond)) }

	win := 2 * time.Second
	lat := latency.New([]time.Duration{win}, nil)
	m := &ltRaceMeta{m: map[string]int64{}}
	set(sec(98, 0))
	lat.Compute(sec(97, 0)) // 1s, observed at 98s
	set(sec(100, 0))
	lat.UpdateReset(m)

	var calls int32
	gotTime, refreshDone := make(chan struct{}), make(chan struct{})
	cmu.Lock()
	script = func() time.Time {
		if atomic.AddInt32(&calls, 1) == 1 {
			close(gotTime)
			select {
			case <-refreshDone:
			case <-time.After(scaled(60 * time.Millisecond)): // the refresh is (correctly) excluded
			}
			return sec(101, 999)
		}
		return sec(102, 0)
	}
	cmu.Unlock()
	var wg sync.WaitGroup
	wg.Add(2)
	go func() { defer wg.Done(); lat.Compute(sec(51, 999)) }() // the stream: 50s, observed at 101.999s
	go func() { defer wg.Done(); <-gotTime; lat.UpdateReset(m); close(refreshDone) }()
	wg.Wait()

	set(sec(103, 0))
	lat.Compute(sec(102, 0)) // 1s, observed at 103s
	set(sec(104, 0))
	lat.UpdateReset(m)
	for _, typ := range []latency.StatType{latency.Avg, latency.Max, latency.Min} {
		if v := m.get(latency.MetadataName(win, typ)); v != time.Second.Nanoseconds() {
			return "mon=FAIL:window-holds-a-latency-observed-before-it"
		}
	}
	return "mon=ok"
}
