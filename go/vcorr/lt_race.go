package main

// lt race: the periodic metadata refresh (Latency.UpdateReset from the refresh goroutine) is held
// while it is exporting a window's maximum (a slow Metadata.SetInt); the target's update stream then
// records a large latency and refreshes the metadata itself (what Target.Reset does).  Latency's
// mutex must exclude the stream until the first refresh is done; whatever the interleaving, the
// statistics exported in the end are bounded by the latencies observed in the window and mutually
// consistent (min <= avg <= max).  Observation: the monitor's verdict only.

import (
	"sync"
	"sync/atomic"
	"time"

	"github.com/openconfig/gnmi/latency"
)

type ltRaceMeta struct {
	mu   sync.Mutex
	m    map[string]int64
	hook func(name string)
}

func (z *ltRaceMeta) SetInt(name string, v int64) error {
	z.mu.Lock()
	h := z.hook
	z.mu.Unlock()
	if h != nil {
		h(name)
	}
	z.mu.Lock()
	z.m[name] = v
	z.mu.Unlock()
	return nil
}

func (z *ltRaceMeta) get(name string) int64 {
	z.mu.Lock()
	defer z.mu.Unlock()
	return z.m[name]
}

func ltRace() string {
	saved := latency.Now
	defer func() { latency.Now = saved }()
	var cmu sync.Mutex
	now := time.Unix(1000, 0)
	set := func(d time.Duration) { cmu.Lock(); now = time.Unix(1000, 0).Add(d); cmu.Unlock() }
	get := func() time.Time { cmu.Lock(); defer cmu.Unlock(); return now }
	latency.Now = get

	const small, large = 10 * time.Millisecond, 500 * time.Millisecond
	win := 2 * time.Second
	lat := latency.New([]time.Duration{win}, nil)
	m := &ltRaceMeta{m: map[string]int64{}}
	compute := func(at, l time.Duration) { set(at); lat.Compute(get().Add(-l)) }

	compute(1*time.Second, small)
	set(3 * time.Second)
	lat.UpdateReset(m)
	compute(4*time.Second, small)

	entered, release := make(chan struct{}), make(chan struct{})
	var armed int32 = 1
	maxName := latency.MetadataName(win, latency.Max)
	m.mu.Lock()
	m.hook = func(name string) {
		if name != maxName || !atomic.CompareAndSwapInt32(&armed, 1, 0) {
			return
		}
		close(entered)
		select {
		case <-release:
		case <-time.After(scaled(40 * time.Millisecond)): // the update stream is (correctly) excluded
		}
	}
	m.mu.Unlock()

	set(5 * time.Second)
	refreshDone, streamDone := make(chan struct{}), make(chan struct{})
	go func() { defer close(refreshDone); lat.UpdateReset(m) }()
	select {
	case <-entered:
	case <-refreshDone:
	}
	go func() {
		defer close(streamDone)
		compute(5500*time.Millisecond, large)
		set(6 * time.Second)
		lat.UpdateReset(m)
	}()
	select {
	case <-streamDone: // only possible if the refresh does not hold the lock while it exports
		close(release)
	case <-refreshDone:
	}
	<-refreshDone
	<-streamDone
	mn, avg, mx := time.Duration(m.get(latency.MetadataName(win, latency.Min))),
		time.Duration(m.get(latency.MetadataName(win, latency.Avg))), time.Duration(m.get(maxName))
	switch {
	case mx != large:
		return "mon=FAIL:max-below-observed"
	case mn != small:
		return "mon=FAIL:min-above-observed"
	case !(mn <= avg && avg <= mx):
		return "mon=FAIL:inconsistent"
	}
	return "mon=ok"
}
