// Command vcorr is the correspondence harness: it generates operation
// sequences (gen) and executes them against the real packages of this
// repository (run), one canonicalised observation per operation line.
//
// It is compiled inside the repository's own module through `go build
// -overlay` (see /verif/check), so nothing is written into /repo.
package main

import (
	"bufio"
	"strconv"
	"encoding/json"
	"flag"
	"fmt"
	"math/rand"
	"os"
	"sort"
	"strings"
	"time"
)

// component is one modelled package.
type component interface {
	// Gen returns one operation sequence (lines without the component prefix;
	// the first line must reset the component state).
	Gen(r *rand.Rand, tier string) []string
	// Exhaustive returns all sequences of a small scope (may be nil).
	Exhaustive(tier string) [][]string
	// Run executes one operation line and returns the observation.
	Run(args []string) string
}

var components = map[string]component{}

// genProfile selects a component-specific emphasis of the random generator (gen -profile).
var genProfile string

// stats collected while generating.
type stats struct {
	Sequences int            `json:"sequences"`
	Ops       int            `json:"ops"`
	Kinds     map[string]int `json:"op_kinds"`
	Lens      map[string]int `json:"path_lengths"`
}

func main() {
	if len(os.Args) < 2 {
		fmt.Fprintln(os.Stderr, "usage: vcorr gen|run ...")
		os.Exit(2)
	}
	switch os.Args[1] {
	case "gen":
		fs := flag.NewFlagSet("gen", flag.ExitOnError)
		comp := fs.String("c", "", "component")
		seed := fs.Int64("seed", 1, "seed")
		n := fs.Int("n", 100, "number of random sequences")
		tier := fs.String("tier", "quick", "tier")
		exh := fs.Bool("exhaustive", false, "emit the exhaustive small scope instead of random sequences")
		statsFile := fs.String("stats", "", "write generation statistics to this file")
		fs.StringVar(&genProfile, "profile", "", "generator profile (component specific emphasis)")
		fs.Parse(os.Args[2:])
		c, ok := components[*comp]
		if !ok {
			fmt.Fprintln(os.Stderr, "unknown component", *comp)
			os.Exit(2)
		}
		w := bufio.NewWriterSize(os.Stdout, 1<<20)
		st := stats{Kinds: map[string]int{}, Lens: map[string]int{}}
		emit := func(seq []string) {
			st.Sequences++
			for _, l := range seq {
				st.Ops++
				f := strings.Fields(l)
				if len(f) > 0 {
					st.Kinds[f[0]]++
				}
				fmt.Fprintln(w, *comp, l)
			}
		}
		if *exh {
			for _, seq := range c.Exhaustive(*tier) {
				emit(seq)
			}
		} else {
			r := rand.New(rand.NewSource(*seed))
			for i := 0; i < *n; i++ {
				emit(c.Gen(r, *tier))
			}
		}
		w.Flush()
		if *statsFile != "" {
			b, _ := json.Marshal(st)
			os.WriteFile(*statsFile, b, 0o644)
		}
	case "run":
		sc := bufio.NewScanner(os.Stdin)
		sc.Buffer(make([]byte, 1<<20), 1<<26)
		w := bufio.NewWriterSize(os.Stdout, 1<<20)
		defer w.Flush()
		lastFlush := time.Now()
		flushEach := os.Getenv("VERIF_FLUSH_EACH") != ""
		for sc.Scan() {
			// answers reach the checker while the run is in progress: it watches for progress, and
			// what was answered before a crash or a hang must not be lost in the buffer
			if w.Buffered() > 0 && (time.Since(lastFlush) > 50*time.Millisecond || flushEach) {
				w.Flush()
				lastFlush = time.Now()
			}
			line := sc.Text()
			f := strings.Fields(line)
			if len(f) == 0 {
				fmt.Fprintln(w, "")
				continue
			}
			if len(f) > 1 && f[1] == "new" && w.Buffered() > 0 {
				// a sequence starts: everything answered so far is on disk, so that if the implementation
				// hangs, the first unanswered operation lies in the sequence that hangs
				w.Flush()
				lastFlush = time.Now()
			}
			c, ok := components[f[0]]
			if !ok {
				fmt.Fprintln(w, "bad-component")
				continue
			}
			t0 := time.Now()
			fmt.Fprintln(w, safeRun(c, f[1:]))
			if d := time.Since(t0); d > 2*time.Second && os.Getenv("VERIF_SLOW") != "" {
				fmt.Fprintf(os.Stderr, "slow op (%v): %s\n", d, line)
			}
		}
	default:
		fmt.Fprintln(os.Stderr, "usage: vcorr gen|run ...")
		os.Exit(2)
	}
}

// timeScale stretches the harness's own deadlines (the waits after which a scenario is declared
// stuck): on a loaded machine the checker re-runs a sequence that did not reproduce with a larger
// scale before believing it (VERIF_TIME_SCALE).
var timeScale = func() float64 {
	if v, err := strconv.ParseFloat(os.Getenv("VERIF_TIME_SCALE"), 64); err == nil && v >= 1 {
		return v
	}
	return 1
}()

func scaled(d time.Duration) time.Duration { return time.Duration(float64(d) * timeScale) }

func safeRun(c component, args []string) (out string) {
	defer func() {
		if r := recover(); r != nil {
			out = "panic"
			if os.Getenv("VERIF_PANIC_TEXT") != "" {
				out = fmt.Sprintf("panic %v", r)
			}
		}
	}()
	return c.Run(args)
}

// ---- codec (mirrors lean/Driver/Codec.lean) ----

func plainByte(b byte) bool {
	return (b >= '0' && b <= '9') || (b >= 'A' && b <= 'Z') || (b >= 'a' && b <= 'z') ||
		b == '_' || b == '.' || b == '*' || b == '-'
}

func encStr(s string) string {
	if s == "" {
		return "~"
	}
	var sb strings.Builder
	for i := 0; i < len(s); i++ {
		b := s[i]
		if plainByte(b) {
			sb.WriteByte(b)
		} else {
			fmt.Fprintf(&sb, "%%%02X", b)
		}
	}
	return sb.String()
}

func hexVal(c byte) byte {
	switch {
	case c >= '0' && c <= '9':
		return c - '0'
	case c >= 'A' && c <= 'F':
		return c - 'A' + 10
	case c >= 'a' && c <= 'f':
		return c - 'a' + 10
	}
	return 0
}

func decStr(s string) string {
	if s == "~" {
		return ""
	}
	var sb strings.Builder
	for i := 0; i < len(s); i++ {
		if s[i] == '%' && i+2 < len(s) {
			sb.WriteByte(hexVal(s[i+1])<<4 | hexVal(s[i+2]))
			i += 2
		} else {
			sb.WriteByte(s[i])
		}
	}
	return sb.String()
}

func encPath(p []string) string {
	if len(p) == 0 {
		return "."
	}
	var sb strings.Builder
	for _, e := range p {
		sb.WriteByte('/')
		sb.WriteString(encStr(e))
	}
	return sb.String()
}

func decPath(s string) []string {
	if s == "." {
		return nil
	}
	parts := strings.Split(s, "/")
	out := make([]string, 0, len(parts))
	for _, e := range parts[1:] {
		out = append(out, decStr(e))
	}
	return out
}

func bracket(l []string) string { return "[" + strings.Join(l, ",") + "]" }

func sortedBracket(l []string) string {
	sort.Strings(l)
	return bracket(l)
}

func cloneStrs(p []string) []string { return append([]string(nil), p...) }
