package main

// mg pace <plain|reconnect|rt>: failed sessions are retried *with backoff* for as long as the target is
// managed — also after the target was force-reconnected.
//
// The LTS model of the manager has the retry timer as a transition without a duration, so the pacing is
// not a theorem; this scenario is the monitor for that clause of C13 on the real code.  A target streams
// one update and a sync marker and falls silent.  Then the dialer starts refusing every connection and
// the running session is ended (plain: the target fails the stream; reconnect: Manager.Reconnect; rt: a
// receive timeout is configured and expires on the silent stream, which takes the Reconnect path).  With
// RetryBaseDelay = RetryMaxDelay = D and no randomisation every retry comes D after the end of the failed
// attempt; the scenario counts the dial attempts in a window of 3 D after the first refused one: at most
// one per D of the time that really passed, plus two — a retry loop that lost its backoff makes hundreds.
// Finally Remove must return.  Observation: `paced=<0|1> done=<0|1>`.

import (
	"context"
	"errors"
	"net"
	"strconv"
	"sync"
	"sync/atomic"
	"time"

	"google.golang.org/grpc"
	"google.golang.org/grpc/credentials/insecure"
	"google.golang.org/grpc/test/bufconn"

	"github.com/openconfig/gnmi/manager"
	gpb "github.com/openconfig/gnmi/proto/gnmi"
	tpb "github.com/openconfig/gnmi/proto/target"
)

type mgPaceServer struct {
	gpb.UnimplementedGNMIServer
	kill chan struct{}
}

func (s *mgPaceServer) Subscribe(stream gpb.GNMI_SubscribeServer) error {
	if _, err := stream.Recv(); err != nil {
		return err
	}
	if err := stream.Send(mgResponse('u', 0)); err != nil {
		return err
	}
	if err := stream.Send(mgResponse('s', 1)); err != nil {
		return err
	}
	select {
	case <-s.kill:
		return errors.New("target fails the stream")
	case <-stream.Context().Done():
		return stream.Context().Err()
	}
}

type mgPaceConns struct {
	lis     *bufconn.Listener
	refuse  int32
	refused int32 // dial attempts made while refusing
	first   chan struct{}
	once    sync.Once
}

func (c *mgPaceConns) Connection(ctx context.Context, addr, dialer string) (*grpc.ClientConn, func(), error) {
	if atomic.LoadInt32(&c.refuse) != 0 {
		atomic.AddInt32(&c.refused, 1)
		c.once.Do(func() { close(c.first) })
		return nil, func() {}, errors.New("connection refused")
	}
	conn, err := grpc.DialContext(ctx, "bufnet",
		grpc.WithContextDialer(func(ctx context.Context, _ string) (net.Conn, error) { return c.lis.DialContext(ctx) }),
		grpc.WithTransportCredentials(insecure.NewCredentials()), grpc.WithBlock())
	if err != nil {
		return nil, func() {}, err
	}
	return conn, func() { conn.Close() }, nil
}

func mgPace(how string) string {
	if how != "plain" && how != "reconnect" && how != "rt" {
		return "bad-op"
	}
	lis := bufconn.Listen(1 << 16)
	srvImpl := &mgPaceServer{kill: make(chan struct{})}
	srv := grpc.NewServer()
	gpb.RegisterGNMIServer(srv, srvImpl)
	go srv.Serve(lis)
	defer srv.Stop()

	D := scaled(150 * time.Millisecond)
	oldBase, oldMax, oldRand := manager.RetryBaseDelay, manager.RetryMaxDelay, manager.RetryRandomization
	manager.RetryBaseDelay, manager.RetryMaxDelay, manager.RetryRandomization = D, D, 0
	defer func() {
		manager.RetryBaseDelay, manager.RetryMaxDelay, manager.RetryRandomization = oldBase, oldMax, oldRand
	}()

	conns := &mgPaceConns{lis: lis, first: make(chan struct{})}
	acct := &mgAcct{}
	synced := make(chan struct{})
	var syncOnce sync.Once
	cfg := manager.Config{
		Connect:           func(string) {},
		Reset:             func(string) {},
		Sync:              func(string) { syncOnce.Do(func() { close(synced) }) },
		Update:            func(string, *gpb.Notification) {},
		ConnectionManager: &mgAcctCM{inner: conns, acct: acct},
	}
	if how == "rt" {
		cfg.ReceiveTimeout = scaled(40 * time.Millisecond)
	}
	m, err := manager.NewManager(cfg)
	if err != nil {
		return "err-new"
	}
	wait := func(ch <-chan struct{}, d time.Duration) bool {
		select {
		case <-ch:
			return true
		case <-time.After(scaled(d)):
			return false
		}
	}
	if m.Add("t0", &tpb.Target{Addresses: []string{"pace-address:1"}}, mgRequest()) != nil {
		return "err-add"
	}
	rm := func() bool {
		done := make(chan struct{})
		go func() { m.Remove("t0"); close(done) }()
		return wait(done, 3*time.Second)
	}
	if !wait(synced, 3*time.Second) {
		rm()
		return "paced=1 done=0"
	}
	atomic.StoreInt32(&conns.refuse, 1)
	switch how {
	case "plain":
		close(srvImpl.kill)
	case "reconnect":
		m.Reconnect("t0")
	case "rt":
		// the receive timeout expires by itself
	}
	if !wait(conns.first, 3*time.Second) {
		rm()
		return "paced=1 done=0" // never retried at all: the session discipline scenarios' subject
	}
	n0 := atomic.LoadInt32(&conns.refused)
	t0 := time.Now()
	time.Sleep(3 * D)
	n := atomic.LoadInt32(&conns.refused) - n0
	// one retry per D of the time that really passed (a loaded machine oversleeps), one for a timer already
	// under way, one for rounding
	allowed := int32(time.Since(t0)/D) + 2
	paced := "1"
	if n > allowed {
		paced = "0"
	}
	d := "1"
	if !rm() {
		d = "0"
	}
	_, leak, twice, _ := acct.counts("")
	return "paced=" + paced + " done=" + d + " leak=" + strconv.Itoa(leak) + " twice=" + strconv.Itoa(twice)
}
