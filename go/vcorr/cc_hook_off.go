//go:build !ctreehook

package main

func ccHookAvailable() bool { return false }

func ccInstallHook(func(string)) {}
