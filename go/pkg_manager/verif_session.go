//go:build verif

package manager

import (
	"context"

	gpb "github.com/openconfig/gnmi/proto/gnmi"
)

// VerifHandleUpdates is handleUpdates — the receive loop of one session of target
// `name` (no receive timeout): Connect before the first response, handleGNMIUpdate
// per response, the Reset callback when Recv fails — on a stream the caller scripts.
// Seam for the C01 in-process composition (`e2e`, run mode `direct`: session ends and
// restarts); add-only, compiled through the harness overlay.
func (m *Manager) VerifHandleUpdates(ctx context.Context, name string, sc gpb.GNMI_SubscribeClient) error {
	return m.handleUpdates(ctx, &target{name: name}, sc)
}
