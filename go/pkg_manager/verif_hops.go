//go:build verif

package manager

import (
	"context"

	"google.golang.org/grpc"

	gpb "github.com/openconfig/gnmi/proto/gnmi"
	tpb "github.com/openconfig/gnmi/proto/target"
)

// Seams for the `mh` correspondence (createConn's next-hop loop, uniqueNextHops,
// customizeRequest); add-only, compiled through the harness overlay.

// VerifUniqueNextHops returns the keys of uniqueNextHops(addrs) in map order.
func VerifUniqueNextHops(addrs []string) []string {
	var out []string
	for nh := range uniqueNextHops(addrs) {
		out = append(out, nh)
	}
	return out
}

// VerifCreateConn is createConn.
func (m *Manager) VerifCreateConn(ctx context.Context, name string, t *tpb.Target) (*grpc.ClientConn, func(), error) {
	return m.createConn(ctx, name, t)
}

// VerifCustomizeRequest is customizeRequest.
func VerifCustomizeRequest(target string, sr *gpb.SubscribeRequest) *gpb.SubscribeRequest {
	return customizeRequest(target, sr)
}
