//go:build verif

package manager

import gpb "github.com/openconfig/gnmi/proto/gnmi"

// VerifHandleGNMIUpdate is handleGNMIUpdate, the function the receive loop
// (handleUpdates) applies to every response of a target.  Seam for the C12
// receive-surface correspondence (`rx`); add-only, compiled through the
// harness overlay.
func (m *Manager) VerifHandleGNMIUpdate(name string, resp *gpb.SubscribeResponse) error {
	return m.handleGNMIUpdate(name, resp)
}
