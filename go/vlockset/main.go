// vlockset: lockset table of the cache / metadata / latency packages, as Lean source.
//
//	vlockset <repo> [-diag]
//
// Parses and type-checks <repo>/latency, <repo>/metadata and <repo>/cache (go/ast + go/types; every
// import outside these three packages is replaced by an empty package, so the tool needs nothing but
// the three directories and keeps working on a tree whose dependencies are not available), then walks
// the functions reachable from the entry points below and emits, on stdout, the Lean module
// Gnmi.Gen.LocksetCache: for every read / write of a struct field of the three packages the tuple
// (entry group, function, field, R/W, mutexes held).  With -diag it prints, instead, the conflicting
// pairs that share no mutex (one per line; a convenience for the report: the kernel decides).
//
// The mutexes held at an access are a MUST set, computed by a structured walk of the function body:
//   - x.mu.Lock() / RLock() adds (Struct.mu, exclusive / shared), Unlock() / RUnlock() removes it;
//   - `defer` pushes on the function's defer stack; at every `return` (after its operands are
//     evaluated) and at the end of the body the stack is run last-in first-out — a deferred Unlock
//     removes the mutex, a deferred closure is walked with what is held at that moment (so a closure
//     deferred BEFORE the Lock whose Unlock is deferred after it runs unlocked);
//   - branches are walked with a copy; what is held after an if / switch / select / loop is the
//     intersection over the arms that fall through (loops: fixpoint with the entry set);
//   - a call of a function declared in the three packages is walked with the caller's set (so locks
//     held by callers along the call path are in the set); what is held when the callee returns is
//     what the caller continues with;
//   - a call through an interface of the three packages goes to every method of that name whose
//     receiver implements it; a call of a function value goes to every method value / method
//     expression / function whose value is taken somewhere in the three packages and whose signature
//     is identical; if there is none the call is listed as a callback (not followed);
//   - a function literal that is neither called on the spot nor deferred is walked where it is
//     created, with NO mutex held (it may run any time); `go f()` likewise.
//
// Not recorded: accesses to a local variable initialised from a composite literal / new(T) in the
// same function, through that variable (the object is not shared yet); keys of composite literals;
// the mutex fields themselves; package-level variables.
package main

import (
	"bytes"
	"fmt"
	"go/ast"
	"go/build"
	"go/parser"
	"go/printer"
	"go/token"
	"go/types"
	"os"
	"path/filepath"
	"sort"
	"strings"
)

var pkgDirs = []string{"cache", "metadata", "latency"} // emission order; checked in reverse (dependency) order

// entry points: group -> "Recv.Name" (or "pkg.Name" for functions) in order
var groups = []string{"setup", "admin", "stream", "refresh", "reader", "other"}
var entries = map[string][]string{
	// documented to be called before any update is sent into the cache
	"setup": {"Cache.SetClient"},
	// target set administration (collector configuration / tunnel handlers)
	"admin": {"Cache.Add", "Cache.Remove"},
	// one target's update stream: the session goroutine of the target manager and its callbacks
	"stream": {"Cache.GnmiUpdate", "Target.GnmiUpdate", "Cache.Sync", "Target.Sync", "Cache.Connect", "Target.Connect",
		"Cache.ConnectError", "Cache.Reset", "Target.Reset"},
	// the periodic goroutines of the collector
	"refresh": {"Cache.UpdateMetadata", "Cache.UpdateSize"},
	// readers: the subscribe server and whoever holds the result of Cache.Metadata()
	"reader": {"Cache.Metadata", "Cache.GetTarget", "Cache.HasTarget", "Cache.Query", "Metadata.GetInt", "Metadata.GetBool", "Metadata.GetStr"},
	// "other": every other exported function / method of the three packages (filled in below)
}

type pkgInfo struct {
	dir   string
	files []*ast.File
	pkg   *types.Package
	info  *types.Info
}

type funcInfo struct {
	name string // Recv.Name or pkg.Name
	decl *ast.FuncDecl
	obj  *types.Func
	p    *pkgInfo
}

type lockTok struct {
	mu   string
	excl bool
}

type held []lockTok // sorted by mu

func (h held) String() string {
	var xs []string
	for _, l := range h {
		m := "R"
		if l.excl {
			m = "W"
		}
		xs = append(xs, l.mu+":"+m)
	}
	return strings.Join(xs, ",")
}

func (h held) clone() held { return append(held(nil), h...) }

func (h held) with(l lockTok) held {
	out := held{}
	done := false
	for _, x := range h {
		if x.mu == l.mu {
			// re-acquired: keep the stronger mode
			out = append(out, lockTok{x.mu, x.excl || l.excl})
			done = true
		} else {
			out = append(out, x)
		}
	}
	if !done {
		out = append(out, l)
	}
	sort.Slice(out, func(i, j int) bool { return out[i].mu < out[j].mu })
	return out
}

func (h held) without(mu string) held {
	out := held{}
	for _, x := range h {
		if x.mu != mu {
			out = append(out, x)
		}
	}
	return out
}

func meet(a, b held) held {
	out := held{}
	for _, x := range a {
		for _, y := range b {
			if x.mu == y.mu {
				out = append(out, lockTok{x.mu, x.excl && y.excl})
			}
		}
	}
	return out
}

func meetAll(hs []held) (held, bool) {
	if len(hs) == 0 {
		return nil, false
	}
	r := hs[0].clone()
	for _, h := range hs[1:] {
		r = meet(r, h)
	}
	return r, true
}

type rec struct {
	group, fn, field string
	write            bool
	locks            held
	pos              map[string]bool
	entries          map[string]bool
}

type cbRec struct {
	group, fn, callee string
	locks             held
	pos               map[string]bool
}

type edgeRec struct {
	group, fn string
	from, to  lockTok
	pos       map[string]bool
}

type world struct {
	fset      *token.FileSet
	repo      string
	pkgs      map[string]*pkgInfo // by dir
	funcs     map[*types.Func]*funcInfo
	byName    map[string]*funcInfo
	order     []*funcInfo
	fieldName map[*types.Var]string // Struct.field
	fieldIdx  map[string]int
	fields    []string
	fieldPos  map[string]string
	mutexes   []string
	isMutex   map[string]string // Struct.field -> sync.Mutex | sync.RWMutex
	litName   map[*ast.FuncLit]string
	litPkg    map[*ast.FuncLit]*pkgInfo
	taken     []takenFn // function values taken
	recs      map[string]*rec
	cbs       map[string]*cbRec
	edges     map[string]*edgeRec
	reached   map[*funcInfo]bool
	warnings  []string
}

type takenFn struct {
	fn  *funcInfo
	typ types.Type
}

type fakeImporter struct{ pkgs map[string]*types.Package }

func (i *fakeImporter) Import(path string) (*types.Package, error) {
	if p, ok := i.pkgs[path]; ok {
		return p, nil
	}
	p := types.NewPackage(path, filepath.Base(path))
	p.MarkComplete()
	i.pkgs[path] = p
	return p, nil
}

func die(f string, a ...interface{}) {
	fmt.Fprintf(os.Stderr, "vlockset: "+f+"\n", a...)
	os.Exit(2)
}

func render(fset *token.FileSet, n ast.Node) string {
	var b bytes.Buffer
	printer.Fprint(&b, fset, n)
	return b.String()
}

func modulePath(repo string) string {
	b, err := os.ReadFile(filepath.Join(repo, "go.mod"))
	if err != nil {
		die("%v", err)
	}
	for _, l := range strings.Split(string(b), "\n") {
		if strings.HasPrefix(l, "module ") {
			return strings.TrimSpace(l[len("module "):])
		}
	}
	die("no module line in go.mod")
	return ""
}

func (w *world) load() {
	mod := modulePath(w.repo)
	imp := &fakeImporter{pkgs: map[string]*types.Package{}}
	bctx := build.Default
	bctx.BuildTags = append(bctx.BuildTags, "verif")
	bctx.CgoEnabled = false
	for i := len(pkgDirs) - 1; i >= 0; i-- {
		dir := pkgDirs[i]
		full := filepath.Join(w.repo, dir)
		var names []string
		if bp, err := bctx.ImportDir(full, 0); err == nil {
			names = append(names, bp.GoFiles...)
		} else {
			ms, _ := filepath.Glob(filepath.Join(full, "*.go"))
			for _, m := range ms {
				if !strings.HasSuffix(m, "_test.go") {
					names = append(names, filepath.Base(m))
				}
			}
		}
		sort.Strings(names)
		p := &pkgInfo{dir: dir}
		for _, n := range names {
			f, err := parser.ParseFile(w.fset, filepath.Join(full, n), nil, parser.ParseComments)
			if err != nil {
				die("parse %s/%s: %v", dir, n, err)
			}
			p.files = append(p.files, f)
		}
		if len(p.files) == 0 {
			die("no Go files in %s", full)
		}
		p.info = &types.Info{
			Types:      map[ast.Expr]types.TypeAndValue{},
			Defs:       map[*ast.Ident]types.Object{},
			Uses:       map[*ast.Ident]types.Object{},
			Selections: map[*ast.SelectorExpr]*types.Selection{},
		}
		conf := types.Config{Importer: imp, Error: func(error) {}, DisableUnusedImportCheck: true}
		pkg, _ := conf.Check(mod+"/"+dir, w.fset, p.files, p.info)
		if pkg == nil {
			die("type check of %s produced nothing", dir)
		}
		p.pkg = pkg
		imp.pkgs[mod+"/"+dir] = pkg
		w.pkgs[dir] = p
	}
}

func recvName(fd *ast.FuncDecl) string {
	if fd.Recv == nil || len(fd.Recv.List) == 0 {
		return ""
	}
	t := fd.Recv.List[0].Type
	for {
		switch x := t.(type) {
		case *ast.StarExpr:
			t = x.X
			continue
		case *ast.ParenExpr:
			t = x.X
			continue
		case *ast.IndexExpr:
			t = x.X
			continue
		case *ast.Ident:
			return x.Name
		}
		return "?"
	}
}

func (w *world) index() {
	for _, dir := range pkgDirs {
		p := w.pkgs[dir]
		// struct fields, in declaration order
		for _, f := range p.files {
			for _, d := range f.Decls {
				gd, ok := d.(*ast.GenDecl)
				if !ok || gd.Tok != token.TYPE {
					continue
				}
				for _, s := range gd.Specs {
					ts := s.(*ast.TypeSpec)
					st, ok := ts.Type.(*ast.StructType)
					if !ok {
						continue
					}
					for _, fl := range st.Fields.List {
						typ := render(w.fset, fl.Type)
						for _, n := range fl.Names {
							v, _ := p.info.Defs[n].(*types.Var)
							if v == nil {
								continue
							}
							name := ts.Name.Name + "." + n.Name
							if _, dup := w.fieldIdx[name]; dup {
								name = dir + "_" + name
							}
							w.fieldName[v] = name
							if typ == "sync.Mutex" || typ == "sync.RWMutex" {
								w.isMutex[name] = typ
								w.mutexes = append(w.mutexes, name)
								continue
							}
							w.fieldIdx[name] = len(w.fields)
							w.fields = append(w.fields, name)
							w.fieldPos[name] = w.pos(n.Pos())
						}
					}
				}
			}
		}
		// functions
		for _, f := range p.files {
			for _, d := range f.Decls {
				fd, ok := d.(*ast.FuncDecl)
				if !ok || fd.Body == nil {
					continue
				}
				obj, _ := p.info.Defs[fd.Name].(*types.Func)
				if obj == nil {
					continue
				}
				name := dir + "." + fd.Name.Name
				if r := recvName(fd); r != "" {
					name = r + "." + fd.Name.Name
				}
				fi := &funcInfo{name: name, decl: fd, obj: obj, p: p}
				w.funcs[obj] = fi
				if _, dup := w.byName[name]; dup {
					w.warnings = append(w.warnings, "duplicate function name "+name)
				}
				w.byName[name] = fi
				w.order = append(w.order, fi)
				n := 0
				ast.Inspect(fd.Body, func(x ast.Node) bool {
					if l, ok := x.(*ast.FuncLit); ok {
						n++
						w.litName[l] = fmt.Sprintf("%s.func%d", name, n)
						w.litPkg[l] = p
					}
					return true
				})
			}
		}
	}
	// function values taken: method values / method expressions / functions not in call position
	for _, dir := range pkgDirs {
		p := w.pkgs[dir]
		for _, f := range p.files {
			callFun := map[ast.Expr]bool{}
			ast.Inspect(f, func(x ast.Node) bool {
				if c, ok := x.(*ast.CallExpr); ok {
					callFun[unparen(c.Fun)] = true
				}
				return true
			})
			ast.Inspect(f, func(x ast.Node) bool {
				switch e := x.(type) {
				case *ast.SelectorExpr:
					if callFun[e] {
						return true
					}
					if sel := p.info.Selections[e]; sel != nil && (sel.Kind() == types.MethodVal || sel.Kind() == types.MethodExpr) {
						if fn, ok := sel.Obj().(*types.Func); ok {
							if fi := w.funcs[fn.Origin()]; fi != nil {
								w.taken = append(w.taken, takenFn{fi, p.info.TypeOf(e)})
							}
						}
					} else if sel == nil {
						if fn, ok := p.info.Uses[e.Sel].(*types.Func); ok {
							if fi := w.funcs[fn.Origin()]; fi != nil {
								w.taken = append(w.taken, takenFn{fi, p.info.TypeOf(e)})
							}
						}
					}
				case *ast.Ident:
					if callFun[e] {
						return true
					}
					if fn, ok := p.info.Uses[e].(*types.Func); ok {
						if fi := w.funcs[fn.Origin()]; fi != nil && fi.decl.Recv == nil {
							w.taken = append(w.taken, takenFn{fi, p.info.TypeOf(e)})
						}
					}
				}
				return true
			})
		}
	}
}

func unparen(e ast.Expr) ast.Expr {
	for {
		p, ok := e.(*ast.ParenExpr)
		if !ok {
			return e
		}
		e = p.X
	}
}

func (w *world) pos(p token.Pos) string {
	ps := w.fset.Position(p)
	rel, err := filepath.Rel(w.repo, ps.Filename)
	if err != nil {
		rel = ps.Filename
	}
	return fmt.Sprintf("%s:%d", filepath.ToSlash(rel), ps.Line)
}

// ---------------------------------------------------------------- the walk

type deferItem struct {
	call *ast.CallExpr
}

type loopCtx struct {
	exits []held // held sets at break / continue
}

type frame struct {
	name   string
	p      *pkgInfo
	defers []deferItem
	fresh  map[types.Object]bool
	exits  []held
	loops  []*loopCtx
}

type walker struct {
	w       *world
	group   string
	entry   string
	record  bool
	visited map[string]held       // (func, held) -> held at return
	lits    map[types.Object]bool // locals holding a function literal (walked where it was created)
	stack   map[string]bool
}

type state struct {
	h     held
	falls bool
}

func (k *walker) rec(fr *frame, field string, write bool, h held, p token.Pos) {
	if !k.record {
		return
	}
	key := fmt.Sprintf("%s|%s|%s|%v|%s", k.group, fr.name, field, write, h)
	r := k.w.recs[key]
	if r == nil {
		r = &rec{group: k.group, fn: fr.name, field: field, write: write, locks: h.clone(), pos: map[string]bool{}, entries: map[string]bool{}}
		k.w.recs[key] = r
	}
	r.pos[k.w.pos(p)] = true
	r.entries[k.entry] = true
}

// walkFunc walks a declared function with h held at entry; returns what is held at return.
func (k *walker) walkFunc(fi *funcInfo, h held) held {
	key := fi.name + "|" + h.String()
	if r, ok := k.visited[key]; ok {
		return r
	}
	if k.stack[key] {
		return h // recursion: assume balanced
	}
	k.stack[key] = true
	k.w.reached[fi] = true
	out := k.walkBody(fi.name, fi.p, fi.decl.Body, h)
	delete(k.stack, key)
	k.visited[key] = out
	return out
}

func (k *walker) walkLit(l *ast.FuncLit, h held) held {
	name := k.w.litName[l]
	key := name + "|" + h.String()
	if r, ok := k.visited[key]; ok {
		return r
	}
	if k.stack[key] {
		return h
	}
	k.stack[key] = true
	out := k.walkBody(name, k.w.litPkg[l], l.Body, h)
	delete(k.stack, key)
	k.visited[key] = out
	return out
}

func (k *walker) walkBody(name string, p *pkgInfo, body *ast.BlockStmt, h held) held {
	fr := &frame{name: name, p: p, fresh: map[types.Object]bool{}}
	st := &state{h: h.clone(), falls: true}
	k.block(fr, body.List, st)
	if st.falls {
		k.runDefers(fr, st.h)
	}
	out, ok := meetAll(fr.exits)
	if !ok {
		return h // never returns
	}
	return out
}

// runDefers runs the defer stack registered so far, last in first out, and records the exit
func (k *walker) runDefers(fr *frame, h held) {
	st := &state{h: h.clone(), falls: true}
	saved := fr.defers
	for i := len(saved) - 1; i >= 0; i-- {
		fr.defers = nil // a deferred call does not see the stack
		k.call(fr, saved[i].call, st, true)
	}
	fr.defers = saved
	fr.exits = append(fr.exits, st.h)
}

func (k *walker) block(fr *frame, list []ast.Stmt, st *state) {
	for _, s := range list {
		if !st.falls {
			return
		}
		k.stmt(fr, s, st)
	}
}

func (k *walker) branch(fr *frame, st *state, f func(*state)) *state {
	b := &state{h: st.h.clone(), falls: true}
	f(b)
	return b
}

func mergeStates(st *state, bs []*state) {
	var hs []held
	for _, b := range bs {
		if b.falls {
			hs = append(hs, b.h)
		}
	}
	if m, ok := meetAll(hs); ok {
		st.h, st.falls = m, true
	} else {
		st.falls = false
	}
}

func (k *walker) loop(fr *frame, st *state, body func(*state)) {
	// fixpoint of the entry set (a lock released in the body is not held in the next iteration)
	entry := st.h.clone()
	saveRec := k.record
	for i := 0; i < 4; i++ {
		k.record = false
		lc := &loopCtx{}
		fr.loops = append(fr.loops, lc)
		nexits, ndefers := len(fr.exits), len(fr.defers)
		b := &state{h: entry.clone(), falls: true}
		savedVisited := k.visited
		k.visited = map[string]held{}
		body(b)
		k.visited = savedVisited
		fr.exits = fr.exits[:nexits]
		fr.defers = fr.defers[:ndefers]
		fr.loops = fr.loops[:len(fr.loops)-1]
		hs := []held{entry}
		if b.falls {
			hs = append(hs, b.h)
		}
		hs = append(hs, lc.exits...)
		m, _ := meetAll(hs)
		if m.String() == entry.String() {
			break
		}
		entry = m
	}
	k.record = saveRec
	lc := &loopCtx{}
	fr.loops = append(fr.loops, lc)
	b := &state{h: entry.clone(), falls: true}
	body(b)
	fr.loops = fr.loops[:len(fr.loops)-1]
	hs := []held{entry}
	if b.falls {
		hs = append(hs, b.h)
	}
	hs = append(hs, lc.exits...)
	st.h, _ = meetAll(hs)
	st.falls = true
}

func (k *walker) stmt(fr *frame, s ast.Stmt, st *state) {
	switch x := s.(type) {
	case nil:
	case *ast.ExprStmt:
		k.expr(fr, x.X, st)
	case *ast.AssignStmt:
		for _, r := range x.Rhs {
			k.expr(fr, r, st)
		}
		compound := x.Tok != token.ASSIGN && x.Tok != token.DEFINE
		for _, l := range x.Lhs {
			k.lhs(fr, l, compound, st)
		}
		if x.Tok == token.DEFINE && len(x.Lhs) == len(x.Rhs) {
			for i, l := range x.Lhs {
				id, ok := l.(*ast.Ident)
				if !ok {
					continue
				}
				obj := fr.p.info.Defs[id]
				if obj == nil {
					continue
				}
				if isFreshExpr(fr, x.Rhs[i]) {
					fr.fresh[obj] = true
				}
				if _, ok := unparen(x.Rhs[i]).(*ast.FuncLit); ok {
					k.lits[obj] = true
				}
			}
		}
	case *ast.IncDecStmt:
		k.lhs(fr, x.X, true, st)
	case *ast.DeclStmt:
		if gd, ok := x.Decl.(*ast.GenDecl); ok {
			for _, sp := range gd.Specs {
				vs, ok := sp.(*ast.ValueSpec)
				if !ok {
					continue
				}
				for _, v := range vs.Values {
					k.expr(fr, v, st)
				}
				for i, id := range vs.Names {
					obj := fr.p.info.Defs[id]
					if obj == nil {
						continue
					}
					if len(vs.Values) == 0 {
						// var x T: a fresh zero value (only matters when T is a struct of ours)
						fr.fresh[obj] = true
					} else if i < len(vs.Values) {
						if isFreshExpr(fr, vs.Values[i]) {
							fr.fresh[obj] = true
						}
						if _, ok := unparen(vs.Values[i]).(*ast.FuncLit); ok {
							k.lits[obj] = true
						}
					}
				}
			}
		}
	case *ast.DeferStmt:
		// operands are evaluated now, the call runs at exit
		k.callOperands(fr, x.Call, st)
		fr.defers = append(fr.defers, deferItem{x.Call})
	case *ast.GoStmt:
		k.callOperands(fr, x.Call, st)
		g := &state{h: held{}, falls: true}
		k.call(fr, x.Call, g, true)
	case *ast.ReturnStmt:
		for _, r := range x.Results {
			k.expr(fr, r, st)
		}
		k.runDefers(fr, st.h)
		st.falls = false
	case *ast.BlockStmt:
		k.block(fr, x.List, st)
	case *ast.LabeledStmt:
		k.stmt(fr, x.Stmt, st)
	case *ast.BranchStmt:
		if (x.Tok == token.BREAK || x.Tok == token.CONTINUE) && len(fr.loops) > 0 {
			lc := fr.loops[len(fr.loops)-1]
			lc.exits = append(lc.exits, st.h.clone())
		}
		if x.Tok != token.FALLTHROUGH {
			st.falls = false
		}
	case *ast.IfStmt:
		k.stmt(fr, x.Init, st)
		k.expr(fr, x.Cond, st)
		a := k.branch(fr, st, func(b *state) { k.block(fr, x.Body.List, b) })
		var e *state
		if x.Else != nil {
			e = k.branch(fr, st, func(b *state) { k.stmt(fr, x.Else, b) })
		} else {
			e = &state{h: st.h.clone(), falls: true}
		}
		mergeStates(st, []*state{a, e})
	case *ast.ForStmt:
		k.stmt(fr, x.Init, st)
		k.loop(fr, st, func(b *state) {
			if x.Cond != nil {
				k.expr(fr, x.Cond, b)
			}
			k.block(fr, x.Body.List, b)
			if b.falls {
				k.stmt(fr, x.Post, b)
			}
		})
		if x.Cond == nil && !hasBreak(x.Body) {
			st.falls = false
		}
	case *ast.RangeStmt:
		k.expr(fr, x.X, st)
		k.loop(fr, st, func(b *state) {
			if x.Tok == token.ASSIGN {
				if x.Key != nil {
					k.lhs(fr, x.Key, false, b)
				}
				if x.Value != nil {
					k.lhs(fr, x.Value, false, b)
				}
			}
			k.block(fr, x.Body.List, b)
		})
	case *ast.SwitchStmt:
		k.stmt(fr, x.Init, st)
		if x.Tag != nil {
			k.expr(fr, x.Tag, st)
		}
		k.clauses(fr, x.Body, st)
	case *ast.TypeSwitchStmt:
		k.stmt(fr, x.Init, st)
		switch a := x.Assign.(type) {
		case *ast.ExprStmt:
			k.expr(fr, a.X, st)
		case *ast.AssignStmt:
			for _, r := range a.Rhs {
				k.expr(fr, r, st)
			}
		}
		k.clauses(fr, x.Body, st)
	case *ast.SelectStmt:
		k.clauses(fr, x.Body, st)
	case *ast.SendStmt:
		k.expr(fr, x.Chan, st)
		k.expr(fr, x.Value, st)
	case *ast.EmptyStmt:
	default:
		k.w.warnings = append(k.w.warnings, fmt.Sprintf("%s: statement %T not handled", k.w.pos(s.Pos()), s))
	}
}

func hasBreak(b *ast.BlockStmt) bool {
	found := false
	ast.Inspect(b, func(n ast.Node) bool {
		switch x := n.(type) {
		case *ast.BranchStmt:
			if x.Tok == token.BREAK || x.Tok == token.GOTO {
				found = true
			}
		case *ast.FuncLit:
			return false
		}
		return true
	})
	return found
}

// clauses of a switch / type switch / select.  The guards of all clauses are evaluated with the entry
// set (conservatively: all of them); each body is a branch; break leaves the statement.
func (k *walker) clauses(fr *frame, body *ast.BlockStmt, st *state) {
	hasDefault := false
	var bs []*state
	lc := &loopCtx{}
	fr.loops = append(fr.loops, lc) // `break` inside a clause leaves the switch
	for _, c := range body.List {
		switch cc := c.(type) {
		case *ast.CaseClause:
			if cc.List == nil {
				hasDefault = true
			}
			for _, e := range cc.List {
				k.expr(fr, e, st)
			}
			bs = append(bs, k.branch(fr, st, func(b *state) { k.block(fr, cc.Body, b) }))
		case *ast.CommClause:
			if cc.Comm == nil {
				hasDefault = true
			}
			bs = append(bs, k.branch(fr, st, func(b *state) {
				k.stmt(fr, cc.Comm, b)
				k.block(fr, cc.Body, b)
			}))
		}
	}
	fr.loops = fr.loops[:len(fr.loops)-1]
	if !hasDefault {
		bs = append(bs, &state{h: st.h.clone(), falls: true})
	}
	for _, h := range lc.exits {
		bs = append(bs, &state{h: h, falls: true})
	}
	mergeStates(st, bs)
}

func isFreshExpr(fr *frame, e ast.Expr) bool {
	e = unparen(e)
	switch x := e.(type) {
	case *ast.CompositeLit:
		return true
	case *ast.UnaryExpr:
		if x.Op == token.AND {
			_, ok := unparen(x.X).(*ast.CompositeLit)
			return ok
		}
	case *ast.CallExpr:
		if id, ok := x.Fun.(*ast.Ident); ok && id.Name == "new" {
			if _, ok := fr.p.info.Uses[id].(*types.Builtin); ok {
				return true
			}
		}
	}
	return false
}

// trackedField: e is a selector of a (non-mutex) field of a struct of the three packages
func (k *walker) trackedField(fr *frame, e ast.Expr) (*ast.SelectorExpr, string, bool) {
	se, ok := unparen(e).(*ast.SelectorExpr)
	if !ok {
		return nil, "", false
	}
	sel := fr.p.info.Selections[se]
	if sel == nil || sel.Kind() != types.FieldVal {
		return nil, "", false
	}
	v, ok := sel.Obj().(*types.Var)
	if !ok {
		return nil, "", false
	}
	name, ok := k.w.fieldName[v.Origin()]
	if !ok {
		return nil, "", false
	}
	if _, mu := k.w.isMutex[name]; mu {
		return nil, "", false
	}
	return se, name, true
}

func (k *walker) isFreshBase(fr *frame, se *ast.SelectorExpr) bool {
	id, ok := unparen(se.X).(*ast.Ident)
	if !ok {
		return false
	}
	obj := fr.p.info.Uses[id]
	return obj != nil && fr.fresh[obj]
}

func (k *walker) access(fr *frame, se *ast.SelectorExpr, name string, write bool, st *state) {
	if k.isFreshBase(fr, se) {
		return
	}
	k.rec(fr, name, write, st.h, se.Sel.Pos())
}

// lhs: e is assigned to (compound: also read)
func (k *walker) lhs(fr *frame, e ast.Expr, compound bool, st *state) {
	e = unparen(e)
	if se, name, ok := k.trackedField(fr, e); ok {
		k.expr(fr, se.X, st)
		if compound {
			k.access(fr, se, name, false, st)
		}
		k.access(fr, se, name, true, st)
		return
	}
	switch x := e.(type) {
	case *ast.IndexExpr:
		k.expr(fr, x.Index, st)
		if se, name, ok := k.trackedField(fr, x.X); ok {
			// element of a map / slice held in a field: a write of the container
			k.expr(fr, se.X, st)
			if compound {
				k.access(fr, se, name, false, st)
			}
			k.access(fr, se, name, true, st)
			return
		}
		k.lhs(fr, x.X, compound, st)
	case *ast.StarExpr:
		k.expr(fr, x.X, st)
	case *ast.SelectorExpr:
		k.expr(fr, x.X, st)
	case *ast.Ident:
	default:
		k.expr(fr, e, st)
	}
}

func (k *walker) expr(fr *frame, e ast.Expr, st *state) {
	switch x := e.(type) {
	case nil:
	case *ast.Ident, *ast.BasicLit:
	case *ast.ParenExpr:
		k.expr(fr, x.X, st)
	case *ast.SelectorExpr:
		if se, name, ok := k.trackedField(fr, x); ok {
			k.expr(fr, se.X, st)
			k.access(fr, se, name, false, st)
			return
		}
		if sel := fr.p.info.Selections[x]; sel != nil {
			if sel.Kind() != types.MethodExpr {
				k.expr(fr, x.X, st)
			}
			return
		}
		if _, isPkg := fr.p.info.Uses[identOf(x.X)].(*types.PkgName); !isPkg {
			k.expr(fr, x.X, st) // selector the checker could not resolve (type from outside)
		}
	case *ast.CallExpr:
		k.callOperands(fr, x, st)
		k.call(fr, x, st, false)
	case *ast.FuncLit:
		// created here, run who knows when: nothing held
		k.walkLit(x, held{})
	case *ast.CompositeLit:
		for _, el := range x.Elts {
			if kv, ok := el.(*ast.KeyValueExpr); ok {
				if _, isIdent := kv.Key.(*ast.Ident); !isIdent {
					k.expr(fr, kv.Key, st)
				}
				k.expr(fr, kv.Value, st)
			} else {
				k.expr(fr, el, st)
			}
		}
	case *ast.UnaryExpr:
		if x.Op == token.AND {
			if se, name, ok := k.trackedField(fr, x.X); ok {
				// address taken: whoever gets the pointer may write
				k.expr(fr, se.X, st)
				k.access(fr, se, name, true, st)
				return
			}
		}
		k.expr(fr, x.X, st)
	case *ast.BinaryExpr:
		k.expr(fr, x.X, st)
		k.expr(fr, x.Y, st)
	case *ast.StarExpr:
		k.expr(fr, x.X, st)
	case *ast.IndexExpr:
		k.expr(fr, x.X, st)
		k.expr(fr, x.Index, st)
	case *ast.SliceExpr:
		k.expr(fr, x.X, st)
		k.expr(fr, x.Low, st)
		k.expr(fr, x.High, st)
		k.expr(fr, x.Max, st)
	case *ast.TypeAssertExpr:
		k.expr(fr, x.X, st)
	case *ast.KeyValueExpr:
		k.expr(fr, x.Key, st)
		k.expr(fr, x.Value, st)
	case *ast.ArrayType, *ast.MapType, *ast.FuncType, *ast.InterfaceType, *ast.StructType, *ast.ChanType, *ast.Ellipsis:
	default:
		k.w.warnings = append(k.w.warnings, fmt.Sprintf("%s: expression %T not handled", k.w.pos(e.Pos()), e))
	}
}

func identOf(e ast.Expr) *ast.Ident {
	id, _ := unparen(e).(*ast.Ident)
	return id
}

// lockOp: x.mu.Lock() etc. on a mutex field of the three packages
func (k *walker) lockOp(fr *frame, c *ast.CallExpr) (mu string, op string, ok bool) {
	se, isSel := unparen(c.Fun).(*ast.SelectorExpr)
	if !isSel || len(c.Args) != 0 {
		return "", "", false
	}
	switch se.Sel.Name {
	case "Lock", "Unlock", "RLock", "RUnlock":
	default:
		return "", "", false
	}
	inner, isSel := unparen(se.X).(*ast.SelectorExpr)
	if !isSel {
		return "", "", false
	}
	sel := fr.p.info.Selections[inner]
	if sel == nil || sel.Kind() != types.FieldVal {
		return "", "", false
	}
	v, _ := sel.Obj().(*types.Var)
	if v == nil {
		return "", "", false
	}
	name := k.w.fieldName[v.Origin()]
	if _, isMu := k.w.isMutex[name]; !isMu {
		return "", "", false
	}
	return name, se.Sel.Name, true
}

// callOperands evaluates what a call evaluates before the callee runs: the receiver chain and the arguments
func (k *walker) callOperands(fr *frame, c *ast.CallExpr, st *state) {
	if _, _, ok := k.lockOp(fr, c); ok {
		if se, ok := unparen(c.Fun).(*ast.SelectorExpr); ok {
			if inner, ok := unparen(se.X).(*ast.SelectorExpr); ok {
				k.expr(fr, inner.X, st)
			}
		}
		return
	}
	fun := unparen(c.Fun)
	// builtins with a written operand
	if id, ok := fun.(*ast.Ident); ok {
		if b, ok := fr.p.info.Uses[id].(*types.Builtin); ok {
			switch b.Name() {
			case "delete", "clear":
				if len(c.Args) > 0 {
					if se, name, ok := k.trackedField(fr, c.Args[0]); ok {
						k.expr(fr, se.X, st)
						k.access(fr, se, name, false, st)
						k.access(fr, se, name, true, st)
					} else {
						k.expr(fr, c.Args[0], st)
					}
					for _, a := range c.Args[1:] {
						k.expr(fr, a, st)
					}
				}
				return
			}
		}
	}
	switch f := fun.(type) {
	case *ast.SelectorExpr:
		if _, _, ok := k.trackedField(fr, f); ok {
			k.expr(fr, f, st) // func-typed field: read
		} else if sel := fr.p.info.Selections[f]; sel != nil {
			if sel.Kind() != types.MethodExpr {
				k.expr(fr, f.X, st)
			}
		} else if _, isPkg := fr.p.info.Uses[identOf(f.X)].(*types.PkgName); !isPkg {
			k.expr(fr, f.X, st)
		}
	case *ast.FuncLit, *ast.Ident:
	default:
		if tv, ok := fr.p.info.Types[fun]; !ok || !tv.IsType() {
			k.expr(fr, fun, st)
		}
	}
	for _, a := range c.Args {
		k.expr(fr, a, st)
	}
}

// call runs the callee (operands already evaluated by callOperands).
func (k *walker) call(fr *frame, c *ast.CallExpr, st *state, deferred bool) {
	if mu, op, ok := k.lockOp(fr, c); ok {
		switch op {
		case "Lock", "RLock":
			l := lockTok{mu, op == "Lock"}
			if k.record {
				for _, h := range st.h {
					key := fmt.Sprintf("%s|%s|%s|%s", k.group, fr.name, h.mu+fmt.Sprint(h.excl), l.mu+fmt.Sprint(l.excl))
					e := k.w.edges[key]
					if e == nil {
						e = &edgeRec{group: k.group, fn: fr.name, from: h, to: l, pos: map[string]bool{}}
						k.w.edges[key] = e
					}
					e.pos[k.w.pos(c.Pos())] = true
				}
			}
			st.h = st.h.with(l)
		default:
			st.h = st.h.without(mu)
		}
		return
	}
	fun := unparen(c.Fun)
	info := fr.p.info
	if tv, ok := info.Types[fun]; ok && tv.IsType() {
		return // conversion
	}
	switch f := fun.(type) {
	case *ast.FuncLit:
		st.h = k.walkLit(f, st.h)
		return
	case *ast.Ident:
		switch obj := info.Uses[f].(type) {
		case *types.Builtin:
			if obj.Name() == "panic" {
				st.falls = false
			}
			return
		case *types.Func:
			if fi := k.w.funcs[obj.Origin()]; fi != nil {
				st.h = k.walkFunc(fi, st.h)
			}
			return
		case *types.Var:
			if k.lits[obj] {
				return // a local function literal: walked where it was created
			}
			k.dynamic(fr, c, fun, st)
			return
		}
		return
	case *ast.SelectorExpr:
		if _, _, ok := k.trackedField(fr, f); ok {
			k.dynamic(fr, c, fun, st)
			return
		}
		if sel := info.Selections[f]; sel != nil {
			fn, ok := sel.Obj().(*types.Func)
			if !ok {
				k.dynamic(fr, c, fun, st) // func-typed field of a struct from outside
				return
			}
			if recv := sel.Recv(); recv != nil {
				if iface, ok := recv.Underlying().(*types.Interface); ok && sel.Kind() == types.MethodVal {
					k.viaInterface(fr, c, fn, iface, st)
					return
				}
			}
			if fi := k.w.funcs[fn.Origin()]; fi != nil {
				st.h = k.walkFunc(fi, st.h)
			}
			return
		}
		if fn, ok := info.Uses[f.Sel].(*types.Func); ok {
			if fi := k.w.funcs[fn.Origin()]; fi != nil {
				st.h = k.walkFunc(fi, st.h)
			}
		}
		return
	}
}

func (k *walker) callback(fr *frame, c *ast.CallExpr, fun ast.Expr, st *state) {
	if !k.record {
		return
	}
	// canonical name: Struct.field for a field, pkg.Name for a package-level variable, else the source text
	callee := render(k.w.fset, fun)
	if _, name, ok := k.trackedField(fr, fun); ok {
		callee = name
	} else if id, ok := unparen(fun).(*ast.Ident); ok {
		if v, ok := fr.p.info.Uses[id].(*types.Var); ok && v.Parent() == fr.p.pkg.Scope() {
			callee = fr.p.dir + "." + id.Name
		}
	}
	key := fmt.Sprintf("%s|%s|%s|%s", k.group, fr.name, callee, st.h)
	r := k.w.cbs[key]
	if r == nil {
		r = &cbRec{group: k.group, fn: fr.name, callee: callee, locks: st.h.clone(), pos: map[string]bool{}}
		k.w.cbs[key] = r
	}
	r.pos[k.w.pos(c.Pos())] = true
}

// dynamic: call of a function value
func (k *walker) dynamic(fr *frame, c *ast.CallExpr, fun ast.Expr, st *state) {
	t := fr.p.info.TypeOf(fun)
	var cands []*funcInfo
	seen := map[*funcInfo]bool{}
	if t != nil {
		for _, tf := range k.w.taken {
			if tf.typ != nil && types.Identical(t, tf.typ) && !seen[tf.fn] {
				seen[tf.fn] = true
				cands = append(cands, tf.fn)
			}
		}
	}
	if len(cands) == 0 {
		k.callback(fr, c, fun, st)
		return
	}
	var outs []held
	for _, fi := range cands {
		outs = append(outs, k.walkFunc(fi, st.h))
	}
	st.h, _ = meetAll(outs)
}

func (k *walker) viaInterface(fr *frame, c *ast.CallExpr, fn *types.Func, iface *types.Interface, st *state) {
	var cands []*funcInfo
	for _, fi := range k.w.order {
		if fi.decl.Recv == nil || fi.obj.Name() != fn.Name() {
			continue
		}
		sig := fi.obj.Type().(*types.Signature)
		if sig.Recv() == nil {
			continue
		}
		rt := sig.Recv().Type()
		if types.Implements(rt, iface) || types.Implements(types.NewPointer(rt), iface) {
			cands = append(cands, fi)
		}
	}
	if len(cands) == 0 {
		if fn.Pkg() != nil && k.w.ours(fn.Pkg()) {
			k.callback(fr, c, c.Fun, st)
		}
		return
	}
	var outs []held
	for _, fi := range cands {
		outs = append(outs, k.walkFunc(fi, st.h))
	}
	st.h, _ = meetAll(outs)
}

func (w *world) ours(p *types.Package) bool {
	for _, pi := range w.pkgs {
		if pi.pkg == p {
			return true
		}
	}
	return false
}

// ---------------------------------------------------------------- output

func leanIdent(s string) string {
	return strings.NewReplacer(".", "_", "$", "_").Replace(s)
}

func leanHeld(h held) string {
	var xs []string
	for _, l := range h {
		xs = append(xs, fmt.Sprintf("⟨.%s, %v⟩", leanIdent(l.mu), l.excl))
	}
	return "[" + strings.Join(xs, ", ") + "]"
}

func keys(m map[string]bool) []string {
	var xs []string
	for k := range m {
		xs = append(xs, k)
	}
	sort.Slice(xs, func(i, j int) bool {
		a, b := strings.SplitN(xs[i], ":", 2), strings.SplitN(xs[j], ":", 2)
		if a[0] != b[0] {
			return a[0] < b[0]
		}
		var x, y int
		fmt.Sscan(a[1], &x)
		fmt.Sscan(b[1], &y)
		return x < y
	})
	return xs
}

func groupIdx(g string) int {
	for i, x := range groups {
		if x == g {
			return i
		}
	}
	return len(groups)
}

func (w *world) sortedRecs() []*rec {
	var rs []*rec
	for _, r := range w.recs {
		rs = append(rs, r)
	}
	sort.Slice(rs, func(i, j int) bool {
		a, b := rs[i], rs[j]
		if a.group != b.group {
			return groupIdx(a.group) < groupIdx(b.group)
		}
		if a.field != b.field {
			return w.fieldIdx[a.field] < w.fieldIdx[b.field]
		}
		if a.fn != b.fn {
			return a.fn < b.fn
		}
		if a.write != b.write {
			return !a.write
		}
		return a.locks.String() < b.locks.String()
	})
	return rs
}

func guards(a, b held) bool {
	for _, x := range a {
		for _, y := range b {
			if x.mu == y.mu && (x.excl || y.excl) {
				return true
			}
		}
	}
	return false
}

func concurrent(g1, g2 string) bool {
	if g1 == "setup" || g2 == "setup" {
		return false
	}
	return true
}

func main() {
	if len(os.Args) < 2 {
		die("usage: vlockset <repo> [-diag]")
	}
	repo, err := filepath.Abs(os.Args[1])
	if err != nil {
		die("%v", err)
	}
	diag := len(os.Args) > 2 && os.Args[2] == "-diag"
	w := &world{fset: token.NewFileSet(), repo: repo, pkgs: map[string]*pkgInfo{}, funcs: map[*types.Func]*funcInfo{},
		byName: map[string]*funcInfo{}, fieldName: map[*types.Var]string{}, fieldIdx: map[string]int{}, fieldPos: map[string]string{},
		isMutex: map[string]string{}, litName: map[*ast.FuncLit]string{}, litPkg: map[*ast.FuncLit]*pkgInfo{},
		recs: map[string]*rec{}, cbs: map[string]*cbRec{}, edges: map[string]*edgeRec{}, reached: map[*funcInfo]bool{}}
	w.load()
	w.index()

	// construction and configuration: constructors and the functions returning an Option (applied by New
	// to the Cache under construction)
	for _, fi := range w.order {
		if fi.decl.Recv != nil || !fi.decl.Name.IsExported() {
			continue
		}
		isSetup := fi.decl.Name.Name == "New"
		if fi.decl.Type.Results != nil {
			for _, r := range fi.decl.Type.Results.List {
				if render(w.fset, r.Type) == "Option" {
					isSetup = true
				}
			}
		}
		if isSetup {
			entries["setup"] = append(entries["setup"], fi.name)
		}
	}
	var missing []string
	for _, g := range groups {
		for _, e := range entries[g] {
			fi := w.byName[e]
			if fi == nil {
				missing = append(missing, g+":"+e)
				continue
			}
			k := &walker{w: w, group: g, entry: e, record: true, visited: map[string]held{}, stack: map[string]bool{}, lits: map[types.Object]bool{}}
			k.walkFunc(fi, held{})
		}
	}
	// every other exported function / method of an exported type, walked on its own with nothing held
	// (whether or not a listed entry point reaches it: a caller from outside holds none of our mutexes)
	listed := map[string]bool{}
	for _, es := range entries {
		for _, e := range es {
			listed[e] = true
		}
	}
	var others []string
	for _, fi := range w.order {
		if !fi.decl.Name.IsExported() || listed[fi.name] {
			continue
		}
		if r := recvName(fi.decl); r != "" && !ast.IsExported(r) {
			continue
		}
		others = append(others, fi.name)
	}
	for _, e := range others {
		k := &walker{w: w, group: "other", entry: e, record: true, visited: map[string]held{}, stack: map[string]bool{}, lits: map[types.Object]bool{}}
		k.walkFunc(w.byName[e], held{})
	}
	entries["other"] = others

	rs := w.sortedRecs()

	if diag {
		// pairs that may run concurrently under A0 and A1 first, then the stream/stream pairs (A0 only)
		for pass := 0; pass < 2; pass++ {
			for _, a := range rs {
				for _, b := range rs {
					if !(a.field == b.field && (a.write || b.write) && concurrent(a.group, b.group) && !guards(a.locks, b.locks)) {
						continue
					}
					ss := a.group == "stream" && b.group == "stream"
					if ss != (pass == 1) {
						continue
					}
					if !a.write && b.write {
						continue // each unordered pair once, writer first
					}
					if a.write && b.write && fmt.Sprint(groupIdx(a.group), a.fn, a.locks) > fmt.Sprint(groupIdx(b.group), b.fn, b.locks) {
						continue
					}
					note := ""
					if ss {
						note = "  (two accesses of one target's stream: excluded by assumption A1, counted by cache_lockset_race_free_all)"
					}
					fmt.Printf("%s: %s %s %s [%s] at %s  ||  %s %s %s [%s] at %s%s\n", a.field,
						a.group, a.fn, rw(a.write), a.locks, strings.Join(keys(a.pos), ","),
						b.group, b.fn, rw(b.write), b.locks, strings.Join(keys(b.pos), ","), note)
				}
			}
		}
		for _, m := range missing {
			fmt.Printf("entry point %s not found in the source\n", m)
		}
		for _, m := range dedup(w.warnings) {
			fmt.Printf("not understood: %s\n", m)
		}
		return
	}

	var o bytes.Buffer
	p := func(f string, a ...interface{}) { fmt.Fprintf(&o, f, a...) }
	p("/- GENERATED by go/vlockset from cache/cache.go, metadata/metadata.go, latency/latency.go of the repository\n")
	p("   (regenerated by every `./check` run before the Lean build: lib/gen_lockset.py).  Do not edit.\n")
	p("   The obligations over this table are in Gnmi/GenProps/LocksetCache.lean; how the table is computed\n")
	p("   and what it leaves out is described there and in go/vlockset/main.go. -/\n\n")
	p("namespace Gnmi.Gen.LocksetCache\n\n")
	p("/-- struct fields of the three packages (mutex fields are `Mutex`es) -/\ninductive Field where\n")
	for _, f := range w.fields {
		p("  | %s  -- %s\n", leanIdent(f), w.fieldPos[f])
	}
	p("  deriving DecidableEq, Repr\n\n")
	p("inductive Mutex where\n")
	for _, m := range w.mutexes {
		p("  | %s  -- %s\n", leanIdent(m), w.isMutex[m])
	}
	p("  deriving DecidableEq, Repr\n\n")
	p("/-- who runs the code (see `entryPoints`) -/\ninductive Group where\n  | %s\n  deriving DecidableEq, Repr\n\n", strings.Join(groups, " | "))
	p("/-- a mutex held at an access; `excl = false`: held for reading (RWMutex.RLock) -/\nstructure Held where\n  mu : Mutex\n  excl : Bool\n  deriving DecidableEq, Repr\n\n")
	p("structure Access where\n  group : Group\n  fn : String\n  field : Field\n  write : Bool\n  locks : List Held\n  deriving DecidableEq, Repr\n\n")
	p("/-- a call of a function value that is not followed (set by another package) -/\nstructure Callback where\n  group : Group\n  fn : String\n  callee : String\n  locks : List Held\n  deriving Repr\n\n")
	p("/-- `to` is acquired while `frm` is held -/\nstructure Acquire where\n  group : Group\n  fn : String\n  frm : Held\n  to : Held\n  deriving Repr\n\n")

	p("def entryPoints : List (Group × String) := [\n")
	first := true
	for _, g := range groups {
		for _, e := range entries[g] {
			if w.byName[e] == nil {
				continue
			}
			if !first {
				p(",\n")
			}
			first = false
			p("  (.%s, %q)", g, e)
		}
	}
	p("]\n\n")
	p("/-- entry points named by the extractor that the source no longer has -/\ndef missingEntryPoints : List String := [")
	for i, m := range missing {
		if i > 0 {
			p(", ")
		}
		p("%q", m)
	}
	p("]\n\n")

	// grouped by field (declaration order), inside a field by group, function, R before W, mutexes
	sort.SliceStable(rs, func(i, j int) bool { return w.fieldIdx[rs[i].field] < w.fieldIdx[rs[j].field] })
	p("/-- the table, grouped by field: one row per (group, function, field, read/write, mutexes held);\n")
	p("    the comment gives the source positions and the entry points the row is reached from -/\n")
	p("def byField : List (Field × List Access) := [\n")
	for i := 0; i < len(rs); {
		j := i
		for j < len(rs) && rs[j].field == rs[i].field {
			j++
		}
		if i > 0 {
			p(",\n")
		}
		p("  (.%s, [\n", leanIdent(rs[i].field))
		for k := i; k < j; k++ {
			r := rs[k]
			if k > i {
				p(",\n")
			}
			p("    -- %s; from %s\n", strings.Join(keys(r.pos), " "), strings.Join(keysPlain(r.entries), ", "))
			p("    ⟨.%s, %q, .%s, %v, %s⟩", r.group, r.fn, leanIdent(r.field), r.write, leanHeld(r.locks))
		}
		p("])")
		i = j
	}
	p("]\n\n")
	p("/-- the table as one list -/\ndef accesses : List Access := byField.flatMap (·.2)\n\n")

	var cbs []*cbRec
	for _, c := range w.cbs {
		cbs = append(cbs, c)
	}
	sort.Slice(cbs, func(i, j int) bool {
		a, b := cbs[i], cbs[j]
		ka := fmt.Sprintf("%d|%s|%s|%s", groupIdx(a.group), a.fn, a.callee, a.locks)
		kb := fmt.Sprintf("%d|%s|%s|%s", groupIdx(b.group), b.fn, b.callee, b.locks)
		return ka < kb
	})
	p("def callbacks : List Callback := [\n")
	for i, c := range cbs {
		if i > 0 {
			p(",\n")
		}
		p("  -- %s\n", strings.Join(keys(c.pos), " "))
		p("  ⟨.%s, %q, %q, %s⟩", c.group, c.fn, c.callee, leanHeld(c.locks))
	}
	p("]\n\n")

	var es []*edgeRec
	for _, e := range w.edges {
		es = append(es, e)
	}
	sort.Slice(es, func(i, j int) bool {
		a, b := es[i], es[j]
		ka := fmt.Sprintf("%d|%s|%s%v|%s%v", groupIdx(a.group), a.fn, a.from.mu, a.from.excl, a.to.mu, a.to.excl)
		kb := fmt.Sprintf("%d|%s|%s%v|%s%v", groupIdx(b.group), b.fn, b.from.mu, b.from.excl, b.to.mu, b.to.excl)
		return ka < kb
	})
	p("def acquires : List Acquire := [\n")
	for i, e := range es {
		if i > 0 {
			p(",\n")
		}
		p("  -- %s\n", strings.Join(keys(e.pos), " "))
		p("  ⟨.%s, %q, ⟨.%s, %v⟩, ⟨.%s, %v⟩⟩", e.group, e.fn, leanIdent(e.from.mu), e.from.excl, leanIdent(e.to.mu), e.to.excl)
	}
	p("]\n\n")
	sort.Strings(w.warnings)
	p("/-- constructs the extractor did not understand (must be empty for the table to be complete) -/\ndef warnings : List String := [")
	for i, m := range dedup(w.warnings) {
		if i > 0 {
			p(", ")
		}
		p("%q", m)
	}
	p("]\n\n")
	p("end Gnmi.Gen.LocksetCache\n")
	os.Stdout.Write(o.Bytes())
}

func dedup(xs []string) []string {
	var out []string
	for i, x := range xs {
		if i == 0 || xs[i-1] != x {
			out = append(out, x)
		}
	}
	return out
}

func keysPlain(m map[string]bool) []string {
	var xs []string
	for k := range m {
		xs = append(xs, k)
	}
	sort.Strings(xs)
	return xs
}

func rw(w bool) string {
	if w {
		return "W"
	}
	return "R"
}
