//go:build verif

package subscribe

import (
	"github.com/openconfig/gnmi/coalesce"
	"github.com/openconfig/gnmi/match"
	pb "github.com/openconfig/gnmi/proto/gnmi"
)

// Seams for the correspondence harness of property C06 (added through `go build
// -overlay` only; nothing in the repository refers to them).

// VerifMatch returns the subscription matcher of the server.
func VerifMatch(s *Server) *match.Match { return s.m }

// VerifNewMatchClient returns the client type Subscribe registers for a STREAM
// subscription, delivering into q.
func VerifNewMatchClient(q *coalesce.Queue) match.Client {
	return &matchClient{acl: &aclStub{}, q: q}
}

// VerifAddSubscription is addSubscription for a client made by VerifNewMatchClient.
func VerifAddSubscription(m *match.Match, s *pb.SubscriptionList, c match.Client) (remove func()) {
	return addSubscription(m, s, c.(*matchClient))
}
