//go:build verif

package subscribe

import "github.com/openconfig/gnmi/ctree"

// Seam for the C12 receive-surface correspondence (`rx`): isTargetDelete is
// unexported and normally runs in the sender goroutine of an RPC; the harness
// calls it on a leaf directly so that a panic is observed in the calling
// goroutine.  Add-only, compiled through the harness overlay.
func VerifIsTargetDelete(l *ctree.Leaf) bool { return isTargetDelete(l) }
