// Command tgfacts extracts, from the working tree's target/target.go, the structural facts
// the Lean model Gnmi/Model/TargetCfg.lean relies on (DESIGN §5.2, property C17).  It prints
// one JSON object; lib/steps_C17.py compares it with the expectations that cite the model.
//
//	tgfacts <path to target/target.go>
package main

import (
	"encoding/json"
	"fmt"
	"go/ast"
	"go/parser"
	"go/printer"
	"go/token"
	"os"
	"strings"
)

func src(fset *token.FileSet, n ast.Node) string {
	var sb strings.Builder
	printer.Fprint(&sb, fset, n)
	return sb.String()
}

func main() {
	if len(os.Args) != 2 {
		fmt.Fprintln(os.Stderr, "usage: tgfacts <target.go>")
		os.Exit(2)
	}
	fset := token.NewFileSet()
	f, err := parser.ParseFile(fset, os.Args[1], nil, 0)
	if err != nil {
		fmt.Fprintln(os.Stderr, err)
		os.Exit(1)
	}
	facts := map[string]interface{}{}
	for _, d := range f.Decls {
		fd, ok := d.(*ast.FuncDecl)
		if !ok || fd.Body == nil {
			continue
		}
		switch fd.Name.Name {
		case "checkRevision":
			// every binary comparison in the function, as "<lhs> <op> <rhs>"
			var cmps []string
			ast.Inspect(fd.Body, func(n ast.Node) bool {
				if b, ok := n.(*ast.BinaryExpr); ok {
					switch b.Op {
					case token.LSS, token.LEQ, token.GTR, token.GEQ, token.EQL, token.NEQ:
						cmps = append(cmps, src(fset, b.X)+" "+b.Op.String()+" "+src(fset, b.Y))
					}
				}
				return true
			})
			facts["target.checkRevision.cmp"] = cmps
		case "Load":
			// the order of the calls and of the assignment to c.configuration
			var seq []string
			ast.Inspect(fd.Body, func(n ast.Node) bool {
				switch x := n.(type) {
				case *ast.CallExpr:
					name := src(fset, x.Fun)
					switch name {
					case "Validate", "c.checkRevision", "c.handleDiffs", "c.mu.Lock":
						seq = append(seq, name)
					}
				case *ast.DeferStmt:
					seq = append(seq, "defer "+src(fset, x.Call.Fun))
					return false
				case *ast.AssignStmt:
					if len(x.Lhs) == 1 && src(fset, x.Lhs[0]) == "c.configuration" {
						seq = append(seq, "c.configuration = "+src(fset, x.Rhs[0]))
					}
				}
				return true
			})
			facts["target.Load.order"] = seq
		case "handleDiffs":
			// handler invocations with their nil guards; writes to the receiver
			var calls, writes []string
			guarded := map[string]bool{}
			ast.Inspect(fd.Body, func(n ast.Node) bool {
				switch x := n.(type) {
				case *ast.IfStmt:
					c := src(fset, x.Cond)
					if strings.HasPrefix(c, "c.h.") && strings.HasSuffix(c, " != nil") {
						guarded[strings.TrimSuffix(c, " != nil")] = true
					}
				case *ast.CallExpr:
					if name := src(fset, x.Fun); strings.HasPrefix(name, "c.h.") {
						calls = append(calls, fmt.Sprintf("%s guarded=%v", name, guarded[name]))
					}
				case *ast.AssignStmt:
					for _, l := range x.Lhs {
						if s := src(fset, l); strings.HasPrefix(s, "c.") {
							writes = append(writes, s)
						}
					}
				}
				return true
			})
			facts["target.handleDiffs.handler_calls"] = calls
			facts["target.handleDiffs.receiver_writes"] = writes
		case "Validate":
			// the conditions under which the loop body returns an error, in order
			var conds []string
			ast.Inspect(fd.Body, func(n ast.Node) bool {
				if x, ok := n.(*ast.IfStmt); ok {
					c := src(fset, x.Cond)
					if x.Init != nil {
						c = src(fset, x.Init) + "; " + c
					}
					conds = append(conds, c)
				}
				return true
			})
			facts["target.Validate.arms"] = conds
		case "Current":
			var calls []string
			ast.Inspect(fd.Body, func(n ast.Node) bool {
				if x, ok := n.(*ast.ReturnStmt); ok && len(x.Results) == 1 {
					calls = append(calls, src(fset, x.Results[0]))
				}
				return true
			})
			facts["target.Current.returns"] = calls
		}
	}
	b, _ := json.MarshalIndent(facts, "", " ")
	fmt.Println(string(b))
}
