#!/usr/bin/env python3
"""docs/AS_BUILT.md is the source of DESIGN.md §13; this splices it in (replacing the previous §13)."""
import os
root = os.path.dirname(os.path.dirname(os.path.abspath(__file__)))
s = open(os.path.join(root, "docs/AS_BUILT.md")).read()
p = os.path.join(root, "DESIGN.md")
d = open(p).read()
marker = "## Appendix A — Lean skeleton"
if "## 13. As built" in d:
    a = d.index("## 13. As built"); b = d.index(marker)
    d = d[:a] + d[b:]
a = d.index(marker)
d = d[:a] + s.rstrip() + "\n\n---------------------------------------------------------------------------\n\n" + d[a:]
open(p, "w").write(d)
print("DESIGN.md: §13 replaced (%d lines)" % len(s.splitlines()))
