#!/usr/bin/env python3
"""Regenerate MANIFEST.json from lib/props_*.py (run after adding a property)."""
import json, os, subprocess, sys
V = os.path.dirname(os.path.dirname(os.path.abspath(__file__)))
sys.path.insert(0, os.path.join(V, "lib"))
import props

ALL = ["C%02d" % i for i in range(1, 21)]
PENDING_REASON = {}   # id -> reason, for properties deliberately not claimed
try:
    with open(os.path.join(V, "tools", "not_applicable.json")) as fh:
        PENDING_REASON = json.load(fh)
except FileNotFoundError:
    pass

hooks_commits = []
try:
    out = subprocess.run(["git", "-C", "/repo", "log", "--format=%h %s"], capture_output=True, text=True).stdout
    hooks_commits = [l.split()[0] for l in out.splitlines() if " verif hooks" in l or l.split(" ", 1)[1].startswith("hooks:")]
except Exception:
    pass

checks = []
for pid in ALL:
    if pid not in props.PROPS or props.PROPS[pid].get("unclaimed"):
        continue
    p = props.PROPS[pid]
    m = p["manifest"]
    checks.append({
        "property_id": pid,
        "quick_cmd": "./check %s --tier quick" % pid,
        "thorough_cmd": "./check %s --tier thorough" % pid,
        "evidence_file": "evidence/%s.json" % pid,
        "replay_cmd_template": "./check %s --replay {path}" % pid,
        "engine": "lean-proofs",
        "level_claimed": {"category": p.get("level", "proof"), "text": m["level_text"], "design_ref": m.get("design_ref", "DESIGN.md §8 " + pid)},
        "level_note": m["level_note"],
        "technique": m["technique"],
    })
claimed = [c["property_id"] for c in checks]
na = [{"property_id": pid, "reason": PENDING_REASON.get(pid, "not claimed yet: model/theorems/correspondence for this property are not finished (work in progress, see DESIGN.md §11)")}
      for pid in ALL if pid not in claimed]
man = {
    "version": 1,
    "setup_cmd": "./check setup",
    "hooks": {
        "guard": "verif",
        "enable": "go build -tags verif; harness sources are compiled into /repo's module through `go build -overlay` (nothing is written into /repo); schedule points in /repo are `verifPoint(...)` calls that are no-ops without the tag",
        "baseline_off_cmd": "cd /repo && GOFLAGS=-mod=mod go test -json -vet=off -count=1 -timeout 25m ./...",
        "source_commits": hooks_commits,
        "add_only": True,
    },
    "engines": [
        {"name": "lean-proofs", "path": "lean/Gnmi", "serves_properties": claimed,
         "kind_free_text": "Lean 4 models, abstract specs and kernel-checked theorems (lake build + #print axioms audit on every run)"},
        {"name": "vcorr", "path": "go/vcorr", "serves_properties": claimed,
         "kind_free_text": "correspondence harness: real Go code (in-process, built from /repo's working tree) vs compiled Lean model driver on generated operation sequences, with shrinking and a regression corpus"},
    ],
    "checks": checks,
    "not_applicable": na,
    "notes": "Every check: ./check <id> [--tier quick|thorough] (VERIF_SEED selects the PRNG seed); see DESIGN.md §6 and, for what was built, "
             "§13 (findings D1-D24 with their fix: commits, false alarms corrected, trusted base, seeded changes). Known findings: "
             "KNOWN_FINDINGS.txt (two kept: C19 third-party ygot trailing '/', C15 latency zero sentinel). Seeded changes and the "
             "check x change table: seeded/, seeded/MATRIX.md. A check that cannot finish because the implementation hangs reports the "
             "unanswered operation; a divergence that does not reproduce in 5 re-runs is recorded in the evidence (coverage.not_reproducible), not reported.",
}
with open(os.path.join(V, "MANIFEST.json"), "w") as fh:
    json.dump(man, fh, indent=1)
print("claimed:", claimed)
