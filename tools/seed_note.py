#!/usr/bin/env python3
"""usage: tools/seed_note.py <seed id> <first-run log> <why>   -- after a check was strengthened and the seed re-verified:
record the first run's result (from the log seed_verify.py wrote then) and what was strengthened in seeded/<id>/meta.json"""
import json, os, sys
here = os.path.dirname(os.path.abspath(__file__)) + "/.."
sid, log, why = sys.argv[1], sys.argv[2], sys.argv[3]
f = f"{here}/seeded/{sid}/meta.json"
d = json.load(open(f))
txt = open(log).read()
first = json.loads(txt[txt.index('{\n "verified_at"'):])
v = d["verification"]
v["first_run"] = {"verified_at": first["verified_at"], "check": first["check"]}
v["note"] = ("check strengthened after the first run: " + why +
             " (DESIGN.md 13.7); `check` is the result with the current machinery")
json.dump(d, open(f, "w"), indent=1)
print(sid, "caught now:", v.get("caught"))
