#!/usr/bin/env python3
"""usage: tools/seed_recheck.py <seed id> "<what was strengthened>" [--prop Cxx] [--tier quick]

Re-runs the property's check against a STORED seeded change (seeded/<id>/patch.diff applied to a scratch
worktree of /repo outside /repo and /verif) after the machinery was strengthened, and records the result in
seeded/<id>/meta.json: the earlier result is kept as verification.first_run, the new one becomes
verification.check / caught, the reason goes into verification.note.  The worktree is removed in every case."""
import json, os, subprocess, sys

ENV = dict(os.environ, GOFLAGS="-mod=mod", GOPROXY="off", GOSUMDB="off", GOTOOLCHAIN="local")
here = os.path.dirname(os.path.abspath(__file__)) + "/.."


def sh(cmd, cwd=None, env=None, timeout=3000):
    p = subprocess.run(cmd, shell=True, cwd=cwd, env=env or ENV, stdout=subprocess.PIPE, stderr=subprocess.STDOUT, text=True,
                       timeout=timeout)
    return p.returncode, p.stdout


def main():
    a = sys.argv[1:]
    sid, why = a[0], a[1]
    f = f"{here}/seeded/{sid}/meta.json"
    d = json.load(open(f))
    prop, tier = d["property"], "quick"
    i = 2
    while i < len(a):
        if a[i] == "--prop": prop = a[i + 1]; i += 2
        elif a[i] == "--tier": tier = a[i + 1]; i += 2
        else: raise SystemExit("bad arg " + a[i])
    W = "/var/tmp/seedr.%s.%d" % (sid, os.getpid())
    hit = None
    try:
        rc, o = sh("git -C /repo worktree add -q --detach %s HEAD" % W)
        assert rc == 0, o
        rc, o = sh("git apply %s" % os.path.realpath(f"{here}/seeded/{sid}/patch.diff"), cwd=W)
        assert rc == 0, o
        for s in ["1", "2", "3"]:
            rc, o = sh("./check %s --tier %s" % (prop, tier), cwd=here, env=dict(ENV, VERIF_REPO=W, VERIF_SEED=s))
            v = [l for l in o.splitlines() if l.startswith("VIOLATION")]
            if v:
                hit = {"seed": s, "line": v[0], "property": prop}
                rp = v[0].split("replay=")[1].split()[0]
                try:
                    r = json.load(open(rp if os.path.isabs(rp) else os.path.join(here, rp)))
                    hit["kind"] = r.get("kind"); hit["what"] = (r.get("what") or "")[:400]
                    if r.get("ops"): hit["ops"] = r["ops"][:40]
                except Exception as e:
                    hit["replay_read"] = str(e)
                break
    finally:
        sh("git -C /repo worktree remove --force %s" % W)
        sh("git -C /repo worktree prune")
    v = d["verification"]
    if "first_run" not in v:
        v["first_run"] = {"verified_at": v.get("verified_at"), "check": v.get("check")}
    v["check"] = {tier: hit}
    v["caught"] = bool(hit)
    v["note"] = ("check strengthened after the first run: " + why + " (DESIGN.md 13.7); `check` is the result with the current machinery")
    json.dump(d, open(f, "w"), indent=1)
    print(sid, prop, "caught now:", bool(hit), (hit or {}).get("kind"), (hit or {}).get("line"))


main()
