#!/usr/bin/env python3
"""usage: tools/seed_verify.py <Cxx> <outdir of the seeding agent> [--id NAME] [--no-suite] [--tiers quick,thorough] [--seeds 1,2,3]

Confirms a seeded change independently in a scratch worktree of /repo (outside /repo and /verif):
  1. the demonstration passes on the unchanged tree,
  2. the change applies and the tree still builds,
  3. the demonstration fails with the change,
  4. the repository's whole test suite still passes with the change (demo removed),
  5. then runs this property's check against the changed tree and records whether it alarms.
On success the change is kept as /verif/seeded/<id>/ (patch.diff, demo, meta.json with the results).
The scratch worktree is removed at the end in every case.
"""
import json, os, shutil, subprocess, sys, time

ENV = dict(os.environ, GOFLAGS="-mod=mod", GOPROXY="off", GOSUMDB="off", GOTOOLCHAIN="local")


def sh(cmd, cwd=None, timeout=3000, env=None):
    p = subprocess.run(cmd, shell=True, cwd=cwd, env=env or ENV, stdout=subprocess.PIPE, stderr=subprocess.STDOUT,
                       text=True, timeout=timeout)
    return p.returncode, p.stdout


def main():
    a = sys.argv[1:]
    prop, out = a[0], a[1]
    name = prop.lower() + "_seed"
    suite, tiers, seeds = True, ["quick", "thorough"], ["1", "2", "3"]
    i = 2
    while i < len(a):
        if a[i] == "--id": name = a[i + 1]; i += 2
        elif a[i] == "--no-suite": suite = False; i += 1
        elif a[i] == "--tiers": tiers = a[i + 1].split(","); i += 2
        elif a[i] == "--seeds": seeds = a[i + 1].split(","); i += 2
        else: raise SystemExit("bad arg " + a[i])
    meta = json.load(open(os.path.join(out, "meta.json")))
    demo_paths = [l.strip() for l in open(os.path.join(out, "demo_path.txt")) if l.strip()]
    S = "/var/tmp/seedv.%s.%d" % (name, os.getpid())
    os.makedirs(S)
    W = S + "/repo"
    res = {"verified_at": time.strftime("%Y-%m-%dT%H:%M:%S"), "repo_head": sh("git -C /repo rev-parse HEAD")[1].strip()}
    ok = True
    try:
        rc, o = sh("git -C /repo worktree add -q --detach %s HEAD" % W)
        assert rc == 0, o

        def put_demo():
            for dp in demo_paths:
                src = os.path.join(out, dp) if os.path.exists(os.path.join(out, dp)) else os.path.join(out, os.path.basename(dp))
                dst = os.path.join(W, dp)
                if os.path.isdir(src):
                    shutil.copytree(src, dst, dirs_exist_ok=True)
                else:
                    os.makedirs(os.path.dirname(dst), exist_ok=True)
                    shutil.copy(src, dst)

        def rm_demo():
            for dp in demo_paths:
                p = os.path.join(W, dp)
                if os.path.isdir(p): shutil.rmtree(p)
                elif os.path.exists(p): os.remove(p)

        put_demo()
        rc, o = sh(meta["demo_cmd"], cwd=W, timeout=1200)
        res["demo_without_change"] = "pass" if rc == 0 else "FAIL"
        if rc != 0:
            ok = False; res["demo_without_output"] = o[-1500:]
        rc, o = sh("git apply %s" % os.path.realpath(os.path.join(out, "patch.diff")), cwd=W)
        if rc != 0:
            ok = False; res["apply"] = o[-800:]
        rc, o = sh("go build ./...", cwd=W)
        res["builds"] = rc == 0
        ok = ok and rc == 0
        rc, o = sh(meta["demo_cmd"], cwd=W, timeout=1200)
        res["demo_with_change"] = "fail" if rc != 0 else "PASS"
        res["demo_with_output_tail"] = o[-1200:]
        if rc == 0: ok = False
        rm_demo()
        if suite:
            rc, o = subprocess.run(["bash", "-c", "go test -vet=off -count=1 -timeout 25m ./... 2>&1 | grep -v '^ok\\|no test files'; exit ${PIPESTATUS[0]}"],
                                   cwd=W, env=ENV, stdout=subprocess.PIPE, stderr=subprocess.STDOUT, text=True).returncode, ""
            res["suite_with_change"] = "pass" if rc == 0 else "FAIL"
            if rc != 0: ok = False
        # our check
        caught = {}
        for tier in tiers:
            hit = None
            for s in seeds:
                rc, o = sh("./check %s --tier %s" % (prop, tier), cwd="/verif", timeout=3000,
                           env=dict(ENV, VERIF_REPO=W, VERIF_SEED=s))
                v = [l for l in o.splitlines() if l.startswith("VIOLATION")]
                if v:
                    hit = {"seed": s, "line": v[0]}
                    rp = v[0].split("replay=")[1].split()[0]
                    try:
                        d = json.load(open(rp if os.path.isabs(rp) else os.path.join("/verif", rp)))
                        hit["kind"] = d.get("kind"); hit["what"] = (d.get("what") or d.get("text") or "")[:400]
                        if d.get("ops"): hit["ops"] = d["ops"][:40]
                    except Exception as e:
                        hit["replay_read"] = str(e)
                    break
            caught[tier] = hit
            if hit: break
        res["check"] = caught
        res["caught"] = any(caught.values())
    finally:
        sh("git -C /repo worktree remove --force %s" % W)
        shutil.rmtree(S, ignore_errors=True)
        sh("git -C /repo worktree prune")
    res["confirmed"] = ok
    print(json.dumps(res, indent=1))
    if ok:
        D = "/verif/seeded/" + name
        os.makedirs(D, exist_ok=True)
        shutil.copy(os.path.join(out, "patch.diff"), D + "/patch.diff")
        for dp in demo_paths:
            src = os.path.join(out, dp) if os.path.exists(os.path.join(out, dp)) else os.path.join(out, os.path.basename(dp))
            if os.path.isdir(src): shutil.copytree(src, os.path.join(D, "demo", os.path.basename(dp)), dirs_exist_ok=True)
            else:
                os.makedirs(D + "/demo", exist_ok=True); shutil.copy(src, D + "/demo/" + os.path.basename(dp))
        meta["demo_path"] = demo_paths
        meta["verification"] = res
        json.dump(meta, open(D + "/meta.json", "w"), indent=1)
    sys.exit(0 if ok else 2)


main()
