#!/bin/bash
# usage: tools/qualify_revert.sh <repo-commit(s)-to-revert,comma-separated> <property> [corpus-file] [seeds...]
# Reverts fix commit(s) in a scratch worktree of /repo and runs the property's check against it:
# the check must report a VIOLATION. With a corpus file name, the first shrunk failing sequence is
# saved to that file (header comment included).
set -u
commits=$1; prop=$2; corpus=${3:-}; shift 3 2>/dev/null || shift 2
seeds=${*:-1 2 3}
S=/var/tmp/qualify.$$
mkdir -p $S
git -C /repo worktree add -q --detach $S/repo HEAD
for c in ${commits//,/ }; do
  ( cd $S/repo && git revert -n $c >/dev/null 2>&1 ) || echo "revert of $c failed"
done
found=0
for s in $seeds; do
  out=$(cd /verif && VERIF_REPO=$S/repo VERIF_SEED=$s ./check $prop 2>&1)
  if echo "$out" | grep -q "^VIOLATION"; then
    echo "seed $s: caught"; echo "$out" | grep "^VIOLATION" | head -1; found=1
    if [ -n "$corpus" ]; then
      rp=$(echo "$out" | grep "^VIOLATION" | head -1 | sed 's/.*replay=\([^ ]*\).*/\1/')
      python3 - "$rp" "$corpus" "$commits" <<'PY'
import json,sys
d=json.load(open(sys.argv[1]))
with open(sys.argv[2],'w') as fh:
    fh.write("# regression case: shrunk failing sequence found with fix commit(s) %s reverted\n" % sys.argv[3])
    fh.write("# (implementation observation then: %s)\n" % (d['impl'][d['first_divergence']] if d.get('first_divergence') is not None else '?'))
    fh.write("\n".join(d['ops'])+"\n")
print("saved", sys.argv[2])
PY
    fi
    break
  else
    echo "seed $s: not caught"
  fi
done
git -C /repo worktree remove --force $S/repo
rm -rf $S
[ $found = 1 ]
