#!/bin/bash
# usage: tools/sweep.sh <from-seed> <to-seed> <prop> [prop...]   -- quick checks over a seed range, run from a private
# snapshot of this checkout (so that editing it meanwhile cannot disturb the runs); prints one line per run
from=$1; to=$2; shift 2
here="$(dirname "$(readlink -f "$0")")/.."
snap=/var/tmp/vsweep.$$
rsync -a --exclude .git --exclude replays --exclude 'seeded' "$here/" $snap/
cd $snap
for s in $(seq $from $to); do
  for p in "$@"; do
    out=$(VERIF_SEED=$s ./check $p 2>&1)
    echo "seed=$s $(echo "$out" | grep -E '^(OK|VIOLATION|KNOWN)' | tr '\n' ' ' | cut -c1-220)"
    if echo "$out" | grep -q '^VIOLATION'; then
      mkdir -p "$here/replays/sweep"; cp $snap/replays/*.json "$here/replays/sweep/" 2>/dev/null
    fi
  done
done
rm -rf $snap
