#!/usr/bin/env python3
"""usage: tools/locked_build.py [patch file]
Applies a builder's patch (patch -p1) and runs `lake build` under the same lock the checks take for the Lean tree,
so that a check running at the same time never sees a half-applied tree or a concurrent lake."""
import os, subprocess, sys
here = os.path.dirname(os.path.abspath(__file__)) + "/.."
sys.path.insert(0, here + "/lib")
import vcheck
with vcheck.Lock("lean"):
    if len(sys.argv) > 1:
        r = subprocess.run("patch -p1 < %s" % sys.argv[1], shell=True, cwd=here, capture_output=True, text=True)
        print(r.stdout[-600:], r.stderr[-600:])
        if r.returncode != 0:
            sys.exit(1)
    r = subprocess.run(["lake", "build"], cwd=here + "/lean", capture_output=True, text=True)
    out = [l for l in (r.stdout + r.stderr).split("\n") if "error" in l or "Build completed" in l]
    print("\n".join(out[:30]))
    sys.exit(r.returncode)
