#!/usr/bin/env python3
"""usage: tools/seed_prompts.py <wave-dir> <prop> [prop...]
Creates, per property, a detached scratch worktree of /repo at <wave-dir>/<prop> and the prompt
<wave-dir>/<prop>.prompt for a fresh seeding sub-agent.  The prompt holds the property's text (from
properties.jsonl) and the one-sentence summaries of the changes earlier agents produced (their own words,
from seeded/*/meta.json) - nothing else from /verif."""
import glob, json, os, subprocess, sys
here = os.path.dirname(os.path.abspath(__file__)) + "/.."
wave = sys.argv[1]
props = {}
for l in open(here + "/properties.jsonl"):
    if l.strip():
        d = json.loads(l)
        props[d["id"]] = d
os.makedirs(wave, exist_ok=True)
tmpl = open(here + "/tools/seed_prompt.tmpl").read()
for p in sys.argv[2:]:
    d = props[p]
    wt = f"{wave}/{p}"
    if not os.path.isdir(wt):
        subprocess.check_call(["git", "-C", "/repo", "worktree", "add", "--detach", wt, "HEAD"], stdout=subprocess.DEVNULL)
    os.makedirs(wt + ".out", exist_ok=True)
    earlier = []
    for m in sorted(glob.glob(f"{here}/seeded/{p.lower()}_seed*/meta.json")):
        x = json.load(open(m))
        earlier.append('- "%s" (files: %s)' % (x.get("summary", "").replace("\n", " "), ", ".join(x.get("changed_files", []))))
    anchors = ", ".join(d["anchors"]["files"])
    txt = (tmpl.replace("@WT@", wt).replace("@OUT@", wt + ".out").replace("@ID@", p)
           .replace("@TITLE@", d.get("title", "")).replace("@STATEMENT@", d.get("statement", d.get("property", "")))
           .replace("@QUANT@", d["quantifier"]["text"]).replace("@ANCHORS@", anchors)
           .replace("@EARLIER@", "\n".join(earlier)))
    open(f"{wave}/{p}.prompt", "w").write(txt)
    print(p, wt, len(earlier), "earlier")
