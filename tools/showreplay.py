#!/usr/bin/env python3
import json,glob,sys
pat=sys.argv[1] if len(sys.argv)>1 else 'replays/*.json'
for f in sorted(glob.glob(pat)):
    d=json.load(open(f))
    print('=====',f, d['kind'], 'div at', d.get('first_divergence'))
    for i,(o,a,m,sp) in enumerate(zip(d.get('ops',[]),d.get('impl',[]),d.get('model',[]),d.get('spec',[]))):
        print(' ',o[:260]); print('     impl :',a[:400])
        if a!=m: print('     model:',m[:400])
        if sp!=m: print('     spec :',sp[:400])
