#!/bin/bash
# usage: tools/qualify_patch.sh <python-edit-script | patch.diff> <property> [corpus-file] [seeds...]
# Applies a mutation (a unified diff, or a python script run with cwd = scratch repo) to a scratch
# worktree of /repo and runs the property's check against it; expects a VIOLATION.
set -u
mut=$1; prop=$2; corpus=${3:-}; shift 3 2>/dev/null || shift 2
seeds=${*:-1 2 3}
S=/var/tmp/qualify.$$
mkdir -p $S
git -C /repo worktree add -q --detach $S/repo HEAD
case "$mut" in
  *.py) ( cd $S/repo && python3 "$OLDPWD/$mut" ) || echo "mutation script failed" ;;
  *) git -C $S/repo apply "$(realpath $mut)" || echo "patch failed" ;;
esac
( cd $S/repo && GOFLAGS=-mod=mod GOPROXY=off GOSUMDB=off GOTOOLCHAIN=local go build ./... ) || echo "MUTANT DOES NOT BUILD"
found=0
for s in $seeds; do
  out=$(cd /verif && VERIF_REPO=$S/repo VERIF_SEED=$s ./check $prop 2>&1)
  if echo "$out" | grep -q "^VIOLATION"; then
    echo "seed $s: caught"; echo "$out" | grep "^VIOLATION" | head -1; found=1
    if [ -n "$corpus" ] && [ "$corpus" != "-" ]; then
      rp=$(echo "$out" | grep "^VIOLATION" | head -1 | sed 's/.*replay=\([^ ]*\).*/\1/')
      python3 - "$rp" "$corpus" "$mut" <<'PY'
import json,sys
d=json.load(open(sys.argv[1]))
if d.get('ops'):
    with open(sys.argv[2],'w') as fh:
        fh.write("# regression case: shrunk failing sequence found with mutation %s\n" % sys.argv[3])
        fh.write("# (implementation observation then: %s)\n" % (d['impl'][d['first_divergence']][:300] if d.get('first_divergence') is not None else '?'))
        fh.write("\n".join(d['ops'])+"\n")
    print("saved", sys.argv[2])
PY
    fi
    break
  else
    echo "seed $s: not caught"
  fi
done
git -C /repo worktree remove --force $S/repo
rm -rf $S
[ $found = 1 ]
