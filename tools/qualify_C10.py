#!/usr/bin/env python3
"""Qualification of the C10 check (DESIGN Appendix C): apply each seeded mutant of ctree/tree.go to a
scratch copy of the repository and run `./check C10` against it; every mutant must be reported as a
VIOLATION.  usage: tools/qualify_C10.py [scratch-dir] [mutant-name ...]"""
import os, shutil, subprocess, sys

VERIF = os.path.dirname(os.path.dirname(os.path.abspath(__file__)))
REPO = os.environ.get("VERIF_REPO", "/repo")

RECHECK_OLD = """		br := b[path[0]]
		if br == nil {
			br = newBranch(path[1:], value)
			b[path[0]] = br
		}
		return br.Add(path[1:], value)"""
RECHECK_NEW = """		br := newBranch(path[1:], value)
		b[path[0]] = br
		return br.Add(path[1:], value)"""


def in_func(src, header, old, new):
    i = src.index(header)
    j = src.index("\n}\n", i)
    body = src[i:j]
    assert old in body, (header, old)
    return src[:i] + body.replace(old, new) + src[j:]


MUTANTS = {
    # tree.go:141  drop the re-check after the reader->writer upgrade
    "drop_recheck": lambda s: s.replace(RECHECK_OLD, RECHECK_NEW),
    # tree.go:183  Lock -> RLock in intermediateAdd (single token: Unlock of a read-locked mutex)
    "upgrade_rlock": lambda s: in_func(s, "func (t *Tree) intermediateAdd(", "\t\tt.mu.Lock()", "\t\tt.mu.RLock()"),
    # the same, consistently (deferred Unlock -> RUnlock): slowAdd mutates under a read lock
    "upgrade_rlock_paired": lambda s: in_func(in_func(s, "func (t *Tree) intermediateAdd(", "\t\tt.mu.Lock()", "\t\tt.mu.RLock()"),
                                              "func (t *Tree) intermediateAdd(", "\t\tdefer t.mu.Unlock()", "\t\tdefer t.mu.RUnlock()"),
    # terminalAdd Lock -> RLock (single / paired)
    "terminal_rlock": lambda s: in_func(s, "func (t *Tree) terminalAdd(", "\tt.mu.Lock()", "\tt.mu.RLock()"),
    "terminal_rlock_paired": lambda s: in_func(in_func(s, "func (t *Tree) terminalAdd(", "\tt.mu.Lock()", "\tt.mu.RLock()"),
                                               "func (t *Tree) terminalAdd(", "\tdefer t.mu.Unlock()", "\tdefer t.mu.RUnlock()"),
    # tree.go:353/446  Delete: Lock -> RLock (single / paired)
    "delete_rlock": lambda s: in_func(s, "func (t *Tree) DeleteConditional(", "\tt.mu.Lock()", "\tt.mu.RLock()"),
    "delete_rlock_paired": lambda s: in_func(in_func(s, "func (t *Tree) DeleteConditional(", "\tt.mu.Lock()", "\tt.mu.RLock()"),
                                             "func (t *Tree) DeleteConditional(", "\tdefer t.mu.Unlock()", "\tdefer t.mu.RUnlock()"),
    # Get gives up the ancestors' locks early (no lock coupling): RUnlock before recursing
    "get_no_coupling": lambda s: in_func(s, "func (t *Tree) Get(", "\t\t\treturn br.Get(path[1:])",
                                         "\t\t\tt.mu.RUnlock()\n\t\t\tr := br.Get(path[1:])\n\t\t\tt.mu.RLock()\n\t\t\treturn r"),
    # revert the repair of D15: internalDelete reads descendants under the root lock only
    "revert_d15_fix": lambda s: in_func(s, "func (t *Tree) internalDelete(",
                                        "\t\tt.mu.RLock()\n\t\tlb = t.leafBranch\n\t\tt.mu.RUnlock()\n", "\t\tlb = t.leafBranch\n"),
    # the same defect through the flag: the recursion claims every node is the root
    "d15_recursion_root_true": lambda s: in_func(s, "func (t *Tree) internalDelete(",
                                                 "internalDelete(subpath, condition, f, retDeletedPaths, false)",
                                                 "internalDelete(subpath, condition, f, retDeletedPaths, true)"),
    # the schedule point is dropped: the upgrade window can no longer be forced
    "drop_hook": lambda s: s.replace('\t\tverifPoint("ctree.add.upgrade")\n', ""),
    # Leaf.Update without the node lock
    "update_unlocked": lambda s: in_func(s, "func (l *Leaf) Update(", "\tdefer l.mu.Unlock()\n\tl.mu.Lock()\n", ""),
}


def main():
    scratch = sys.argv[1] if len(sys.argv) > 1 else "/var/tmp/qualify_C10"
    names = sys.argv[2:] or list(MUTANTS)
    res = {}
    for name in names:
        d = os.path.join(scratch, name)
        shutil.rmtree(d, ignore_errors=True)
        os.makedirs(d)
        repo = os.path.join(d, "repo")
        shutil.copytree(REPO, repo, ignore=shutil.ignore_patterns(".git"))
        p = os.path.join(repo, "ctree", "tree.go")
        src = open(p).read()
        new = MUTANTS[name](src)
        assert new != src, name
        open(p, "w").write(new)
        env = dict(os.environ, VERIF_REPO=repo, GOFLAGS="-mod=mod", GOPROXY="off", GOSUMDB="off", GOTOOLCHAIN="local")
        caught = None
        for seed in ("1", "2", "3"):
            env["VERIF_SEED"] = seed
            r = subprocess.run([os.path.join(VERIF, "check"), "C10"], env=env, capture_output=True, text=True)
            v = [l for l in r.stdout.split("\n") if l.startswith("VIOLATION")]
            if v:
                caught = (seed, v[0])
                break
        res[name] = caught
        print("%-24s %s" % (name, "CAUGHT seed %s: %s" % caught if caught else "MISSED"), flush=True)
        shutil.rmtree(d, ignore_errors=True)
    return 0 if all(res.values()) else 1


if __name__ == "__main__":
    sys.exit(main())
