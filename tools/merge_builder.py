#!/usr/bin/env python3
"""usage: tools/merge_builder.py <builder copy of /verif> [--dry]

Merges the delivery of a builder sub-agent that worked in a private copy:
  * files that exist only in the copy (under lean/, go/, corpus/, lib/, docs/, tools/, proposed_*) are copied;
  * lib/props_*.py, lib/*_part.py and lean/Gnmi.lean that differ are merged as *appended tails*: the copy's lines after
    the longest common prefix with /verif's current file are appended to /verif's file (import lines of lean/Gnmi.lean:
    every `import` line the copy has and /verif lacks is appended);
  * every other differing file is only REPORTED (merge by hand).
Nothing is committed."""
import filecmp, os, shutil, subprocess, sys

V = os.path.dirname(os.path.dirname(os.path.abspath(__file__)))
copy = sys.argv[1].rstrip("/")
dry = "--dry" in sys.argv
SKIP_DIRS = {".git", ".lake", "build", "replays", "seeded", "evidence", "__pycache__"}
ROOTS = ["lean", "go", "corpus", "lib", "docs", "tools", "proposed_fixes", "proposed_hooks"]


def walk(root):
    for dp, dn, fn in os.walk(root):
        dn[:] = [d for d in dn if d not in SKIP_DIRS]
        for f in fn:
            if f.endswith((".pyc", ".olean", ".ilean", ".lock")):
                continue
            yield os.path.join(dp, f)


def history(rel):
    """every committed version of /verif/<rel> (the copy was taken from one of them)"""
    r = subprocess.run(["git", "-C", V, "log", "--format=%H", "-n", "40", "--", rel], capture_output=True, text=True)
    out = []
    for c in r.stdout.split():
        g = subprocess.run(["git", "-C", V, "show", c + ":" + rel], capture_output=True, text=True)
        if g.returncode == 0:
            out.append(g.stdout)
    return out


new, tails, manual = [], [], []
for r in ROOTS:
    for p in walk(os.path.join(copy, r)):
        rel = os.path.relpath(p, copy)
        q = os.path.join(V, rel)
        if not os.path.exists(q):
            new.append(rel)
        elif not filecmp.cmp(p, q, shallow=False):
            if open(p).read() in history(rel):
                continue        # an older committed version: the builder did not touch this file
            if rel == "lean/Gnmi.lean":
                a = open(q).read().split("\n")
                add = [l for l in open(p).read().split("\n") if l.startswith("import ") and l not in a]
                if add:
                    tails.append((rel, add))
            elif rel.startswith("lib/props_") or rel.endswith("_part.py") or rel == "lib/cacheprops.py":
                a = open(q).read().split("\n")
                b = open(p).read().split("\n")
                i = 0
                while i < len(a) and i < len(b) and a[i] == b[i]:
                    i += 1
                tb = b[i:]
                ta = a[i:]
                txt_a = "\n".join(a)
                if not tb or "\n".join(tb).strip() in txt_a:
                    continue
                if any(l.startswith("PROP = {") or l.startswith("ID = ") for l in tb) or (ta and i < len(a) - len(ta) ):
                    manual.append(rel + "  (differs before the tail: merge by hand)")
                    continue
                # /verif's own tail (from other merges) stays; the builder's tail is appended unless already there
                tails.append((rel, tb))
            else:
                manual.append(rel)
for rel in new:
    print("NEW   ", rel)
    if not dry:
        os.makedirs(os.path.dirname(os.path.join(V, rel)), exist_ok=True)
        shutil.copy(os.path.join(copy, rel), os.path.join(V, rel))
for rel, tb in tails:
    print("APPEND", rel, len(tb), "lines")
    if not dry:
        s = open(os.path.join(V, rel)).read()
        if not s.endswith("\n"):
            s += "\n"
        open(os.path.join(V, rel), "w").write(s + "\n".join(tb).rstrip("\n") + "\n")
for rel in manual:
    print("MANUAL", rel)
