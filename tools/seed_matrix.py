#!/usr/bin/env python3
"""usage: tools/seed_matrix.py [--jobs N] [--tier quick] [--only c04_seed,...] [--props C02,C03]

Runs every registered check against every stored seeded change (seeded/<id>/patch.diff applied to a
scratch worktree of /repo outside /repo and /verif) and records which checks raise a VIOLATION:
seeded/MATRIX.json and seeded/MATRIX.md.  /repo itself is never touched; worktrees are removed.
"""
import json, os, subprocess, sys, shutil, glob, time
from concurrent.futures import ThreadPoolExecutor

ENV = dict(os.environ, GOFLAGS="-mod=mod", GOPROXY="off", GOSUMDB="off", GOTOOLCHAIN="local")


def sh(cmd, cwd=None, env=None, timeout=7200):
    p = subprocess.run(cmd, shell=True, cwd=cwd, env=env or ENV, stdout=subprocess.PIPE, stderr=subprocess.STDOUT, text=True,
                       timeout=timeout)
    return p.returncode, p.stdout


def main():
    a = sys.argv[1:]
    jobs, tier, only, props = 5, "quick", None, None
    i = 0
    while i < len(a):
        if a[i] == "--jobs": jobs = int(a[i + 1]); i += 2
        elif a[i] == "--tier": tier = a[i + 1]; i += 2
        elif a[i] == "--only": only = a[i + 1].split(","); i += 2
        elif a[i] == "--props": props = a[i + 1].split(","); i += 2
        else: raise SystemExit("bad arg")
    # the checks run from a private snapshot of /verif, so that editing /verif meanwhile cannot break them
    SNAP = "/var/tmp/vsnap.%d" % os.getpid()
    sh("rsync -a --exclude .git --exclude replays --exclude 'seeded/tmp' /verif/ %s/" % SNAP)
    man = json.load(open("/verif/MANIFEST.json"))
    claimed = props or sorted(p["property_id"] for p in man["checks"])
    seeds = sorted(d for d in os.listdir("/verif/seeded") if os.path.exists("/verif/seeded/%s/patch.diff" % d))
    if only:
        seeds = [s for s in seeds if s in only]
    mpath = "/verif/seeded/MATRIX.json"
    matrix = json.load(open(mpath)) if os.path.exists(mpath) else {}
    for sd in seeds:
        S = "/var/tmp/seedm.%s.%d" % (sd, os.getpid())
        os.makedirs(S)
        W = S + "/repo"
        try:
            rc, o = sh("git -C /repo worktree add -q --detach %s HEAD && git -C %s apply /verif/seeded/%s/patch.diff" % (W, W, sd))
            if rc != 0:
                print(sd, "APPLY FAILED", o[-300:]); continue

            def one(p):
                rc, o = sh("./check %s --tier %s" % (p, tier), cwd=SNAP, env=dict(ENV, VERIF_REPO=W, VERIF_SEED="1"))
                v = [l for l in o.splitlines() if l.startswith("VIOLATION")]
                if not v:
                    return p, None
                nf = all(l.rstrip().endswith("no-failing-input-found") for l in v)
                return p, ("tie" if nf else "input")
            with ThreadPoolExecutor(jobs) as ex:
                res = dict(ex.map(one, claimed))
            row = matrix.setdefault(sd, {})
            row.update(res)
            print(sd, {k: v for k, v in res.items() if v}, flush=True)
        finally:
            sh("git -C /repo worktree remove --force %s" % W)
            shutil.rmtree(S, ignore_errors=True)
            sh("git -C /repo worktree prune")
        json.dump(matrix, open(mpath, "w"), indent=1, sort_keys=True)
    shutil.rmtree(SNAP, ignore_errors=True)
    # markdown
    allp = sorted({p for r in matrix.values() for p in r})
    with open("/verif/seeded/MATRIX.md", "w") as fh:
        fh.write("Which checks (quick tier, seed 1) raise a VIOLATION on which seeded change. `X` = with a failing input as replay, "
                 "`t` = broken tie/fact only (no-failing-input-found), `.` = silent.\n\n")
        fh.write("| seeded change | " + " | ".join(allp) + " |\n|---|" + "---|" * len(allp) + "\n")
        for sd in sorted(matrix):
            fh.write("| %s | " % sd + " | ".join({"input": "X", "tie": "t", None: "."}[matrix[sd].get(p)] for p in allp) + " |\n")
    print("written seeded/MATRIX.md")


main()
