#!/bin/bash
# run every claimed check (quick by default) a few at a time; summary at the end
tier=${1:-quick}; par=${2:-4}
cd "$(dirname "$(readlink -f "$0")")/.."
ids=$(python3 -c "import json; print(' '.join(c['property_id'] for c in json.load(open('MANIFEST.json'))['checks']))")
mkdir -p build/runall
echo $ids | tr ' ' '\n' | xargs -P $par -I{} sh -c "./check {} --tier $tier > build/runall/{}.log 2>&1; echo {} exit=\$? \$(tail -1 build/runall/{}.log | cut -c1-150)"
