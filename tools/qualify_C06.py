#!/usr/bin/env python3
"""Qualification of the C06 check: apply each single-site mutant of the Go code (DESIGN.md
Appendix C, plus the two repaired defects D11/D20 re-introduced) to a scratch copy of the
repository and confirm `./check C06` reports a VIOLATION with a failing input.

  tools/qualify_C06.py [scratch dir, default /var/tmp/qualify_C06]      (never touches /repo)
"""
import os, shutil, subprocess, sys

V = os.path.dirname(os.path.dirname(os.path.abspath(__file__)))
SRC = os.environ.get("VERIF_REPO", "/repo")
M = {
    "drop_glob_child (match.go: children[Glob] lookup removed)": ("match/match.go", """		if sb, ok := b.children[Glob]; ok {
			sb.update(n, path[1:], updated)
		}
""", ""),
    "drop_implicit_recursion (match.go: len(path)==0 arm returns)": ("match/match.go", """		for _, c := range b.children {
			c.update(n, nil, updated)
		}
		return""", """		return"""),
    "glob_in_update_literal (match.go: path[0]==Glob arm disabled)": ("match/match.go", "	if path[0] == Glob {", "	if false && path[0] == Glob {"),
    "ignore_updated (match.go: the tracking set is not consulted)": ("match/match.go", "		if _, ok := updated[client]; !ok {", "		if _, ok := updated[client]; !ok || true {"),
    "never_prune (match.go: empty child not deleted)": ("match/match.go", """	if sb.removeQuery(query[1:], client) {
		delete(b.children, query[0])
	}""", """	sb.removeQuery(query[1:], client)"""),
    "drop_explicit_child (match.go: children[path[0]] lookup removed)": ("match/match.go", """		if sb, ok := b.children[path[0]]; ok {
			sb.update(n, path[1:], updated)
		}
""", ""),
    "remove_keeps_client (match.go: delete(b.clients, client) removed)": ("match/match.go", "			delete(b.clients, client)\n", "			_ = client\n"),
    "always_append_path_origin (subscribe.go: addSubscription)": ("subscribe/subscribe.go", 's.Prefix.GetOrigin() == "" && origin != "" {', 'origin != "" {'),
    "prefix_without_target (subscribe.go: addSubscription)": ("subscribe/subscribe.go", "	prefix := path.ToStrings(s.Prefix, true)\n", "	prefix := path.ToStrings(s.Prefix, false)\n"),
    "deletes_not_matched (subscribe.go: UpdateNotification skips n.Delete)": ("subscribe/subscribe.go", "	for _, d := range n.Delete {\n		m.UpdateOnce(v, append(prefix, path.ToStrings(d, false)...), updated)\n	}\n", ""),
    "D11_guard_back (subscribe.go: updated only allocated for > 1 update+delete)": ("subscribe/subscribe.go", "	updated := make(map[match.Client]struct{})\n", "	var updated map[match.Client]struct{}\n	if len(n.Update)+len(n.Delete) > 1 {\n		updated = make(map[match.Client]struct{})\n	}\n"),
    "D20_alias_back (subscribe.go: prefix not clipped to its length)": ("subscribe/subscribe.go", "	prefix = prefix[:len(prefix):len(prefix)]\n", ""),
}


def main():
    scratch = sys.argv[1] if len(sys.argv) > 1 else "/var/tmp/qualify_C06"
    repo = os.path.join(scratch, "repo")
    missed = []
    rdir = os.path.join(V, "replays")
    before = set(os.listdir(rdir)) if os.path.isdir(rdir) else set()
    for name, (f, old, new) in M.items():
        shutil.rmtree(repo, ignore_errors=True)
        os.makedirs(scratch, exist_ok=True)
        subprocess.run(["cp", "-r", SRC, repo], check=True)
        p = os.path.join(repo, f)
        s = open(p).read()
        if s.count(old) != 1:
            print("NOT-APPLICABLE %s (site occurs %d times)" % (name, s.count(old)))
            missed.append(name)
            continue
        open(p, "w").write(s.replace(old, new))
        r = subprocess.run([os.path.join(V, "check"), "C06"], env=dict(os.environ, VERIF_REPO=repo),
                           capture_output=True, text=True)
        viol = [l for l in r.stdout.split("\n") if l.startswith("VIOLATION") and "no-failing-input-found" not in l]
        ok = r.returncode == 1 and viol
        print("%s %s" % ("CAUGHT" if ok else "MISSED", name))
        if not ok:
            missed.append(name)
    shutil.rmtree(scratch, ignore_errors=True)
    if os.path.isdir(rdir):      # remove only the replays these mutant runs wrote
        for f in set(os.listdir(rdir)) - before:
            os.unlink(os.path.join(rdir, f))
    return 1 if missed else 0


if __name__ == "__main__":
    sys.exit(main())
