#!/bin/bash
# usage: tools/merge_agent.sh /var/tmp/bCxx/verif  -- copy an agent's new files into /verif (never overwrites
# files that exist in /verif unless listed after the dir); prints files that differ and need a manual merge.
src=$1; shift
cd "$src" || exit 1
find . -type f \( -name '*.lean' -o -name '*.go' -o -name '*.py' -o -name '*.ops' -o -name '*.json' -o -name '*.diff' -o -name '*.md' -o -name '*.txt' \) \
  -not -path './.git/*' -not -path './lean/.lake/*' -not -path './build/*' -not -path './evidence/*' -not -path './replays/*' -not -path '*/__pycache__/*' | while read f; do
  if [ ! -e "/verif/$f" ]; then
    mkdir -p "/verif/$(dirname $f)"; cp "$f" "/verif/$f"; echo "added $f"
  elif ! cmp -s "$f" "/verif/$f"; then
    echo "DIFFERS $f"
  fi
done
