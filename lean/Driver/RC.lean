import Gnmi.Model.ClientRun
import Gnmi.Model.ClientResub
import Driver.Codec
import Driver.GF
import Driver.Poll
/-! `rc` component: `client.Reconnect` over `BaseClient`/`CacheClient` with a scripted transport
(model = the client LTS under the deterministic scenario schedule; there is no separate spec:
the monitors of the property are evaluated by the harness and must all answer `ok`). -/
namespace Driver.RC
open Gnmi Gnmi.ClientLTS Driver

structure St where
  ret : String := "-"     -- return classes of the last scenario
  mon : String := "-"     -- monitor verdicts the property demands of the last scenario

def parseMsg (t : String) : Option MsgSpec :=
  if t == "s" then some .sync
  else if t == "r" then some .errResp
  else match t.toList with
    | 'u' :: rest =>
        match (String.ofList rest).splitOn "d" with
        | [k, j] => match k.toNat?, j.toNat? with
            | some k, some j => some (.update k j)
            | _, _ => none
        | _ => none
    | _ => none

def parseAttempt (t : String) : Option AttemptSpec :=
  if t == "X" then some .initFail
  else if t == "Y" then some .subFail
  else
    let f := t.splitOn "."
    let term : Option (Option Term) := match f.getLast? with
      | some "E" => some (some .err)
      | some "F" => some (some .eof)
      | some "B" => some none
      | _ => none
    match term, f.dropLast.mapM parseMsg with
    | some tm, some ms => some (.stream ms tm)
    | _, _ => none

def parseScript (t : String) : Option (List AttemptSpec) :=
  if t == "-" then some [] else (t.splitOn ",").mapM parseAttempt

def parseInj (t : String) : Option (Bool × InjKind) :=
  -- a leading `2`: Close is called a second time while the first is in progress; the second call makes
  -- the same promises, so the scenario's trace and classes are those of the single Close
  let t := match t.toList with
    | '2' :: rest => String.ofList rest
    | _ => t
  let (cancel, body) := match t.toList with
    | 'x' :: rest => (true, String.ofList rest)
    | _ => (false, t)
  -- `hconn:a`: the connect of attempt `a` is the real transport's dial to a peer that never answers; the dial is
  -- bounded by the Subscribe context, so the scenario is that of `conn:a`
  let body := if body.startsWith "hconn:" then (body.drop 1).toString else body
  let k : Option InjKind := match body.splitOn ":" with
    | ["pre"] => some .pre
    | ["end"] => some .fin
    | ["conn", a] => a.toNat?.map .conn
    | ["disc", a] => a.toNat?.map .disc
    | ["rst", a] => a.toNat?.map .rst
    | ["bo", a] => a.toNat?.map .bo
    | ["jit", n] => n.toNat?.map .jit
    | ["msg", a, i, b] =>
        match a.toNat?, i.toNat? with
        | some a, some i =>
            if b == "e" then some (.msg a i none)
            else match b.toList with
              | 'b' :: n => (String.ofList n).toNat?.map (fun n => .msg a i (some n))
              | _ => none
        | _, _ => none
    | _ => none
  k.map (fun k => (cancel, k))

def parse (args : List String) : Option Scenario :=
  match args with
  | ["new", mode, qt, script, inj] =>
      let wrap : Option Bool :=
        if mode == "rb" || mode == "rc" then some true
        else if mode == "b" || mode == "c" then some false else none
      let poll : Option Bool := if qt == "s" then some false else if qt == "p" then some true else none
      match wrap, poll, parseScript script, parseInj inj with
      | some w, some p, some s, some (c, k) => some { wrap := w, poll := p, script := s, cancel := c, inj := k }
      | _, _, _, _ => none
  | _ => none

def evChar : Ev NKind → Option Char
  | .connected _ => some 'c'
  | .noti _ _ .upd => some 'u'
  | .noti _ _ .del => some 'd'
  | .noti _ _ .sync => some 's'
  | .disc _ => some '/'
  | .reset _ => some '^'
  | _ => none

def renderTrace (sc : Scenario) (o : Outcome) : String :=
  let pre := (o.final.trace.take o.mark).filterMap evChar
  let post := (o.final.trace.drop o.mark).filterMap evChar
  let post := match sc.inj with
    | .bo _ => ['~']
    | _ => post
  String.ofList (pre ++ ['!'] ++ post)

/-- (trace, return classes, monitor verdicts) -/
def render (sc : Scenario) (o : Outcome) : Option (String × String × String) :=
  match o.final.spc, o.final.kpc with
  | .returned r, .returned _ e =>
      if !o.valid then none else
      let sub := match r with | .canceled => "canceled" | .nil => "nil" | .err => "err"
      let cl := if e then "init" else "nil"
      some ("tr=" ++ renderTrace sc o, "sub=" ++ sub ++ " close=" ++ cl, "ok")
  | _, _ => none

/-- `rc new pxr <k> [<where>]`: a Poll in flight on the transport of Subscribe #1 across a second Subscribe and
Close (go/vcorr/rc_pxr.go).  Model = the LTS of `Model/ClientResub.lean` (repository variant) under the
harness's schedule `ClientResub.pxrSchedule` (a run of the LTS: `C18Resub.pxrFinal_reach`); the observation is
the verdict (`ok` iff all calls returned and at most one update entered the handler after Close returned;
for `after` — Subscribe #2 AFTER Close, outside the property's hypothesis — more than one reads `reopened`)
and the two counts. -/
def pxr (k w : String) : St × String × String :=
  let wh : Option Gnmi.ClientResub.Where :=
    if w == "mid" then some .mid else if w == "before" then some .before
    else if w == "none" then some .none else if w == "after" then some .after else none
  match (if k.length > 1 && k.startsWith "0" then none else k.toNat?), wh with
  | some n, some wh =>
      if 1 ≤ n ∧ n ≤ 40 then
        match Gnmi.ClientResub.pxrObs false n wh with
        | some (returned, a, tot) =>
            let verdict :=
              if !returned then "deadline" else if a ≤ 1 then "ok"
              else if wh == .after then "reopened" else "afterclose"
            let mon := if verdict == "reopened" then "ok" else verdict
            let o := "pxr=" ++ verdict ++ " after=" ++ toString a ++ " total=" ++ toString tot
            ({ ret := "-", mon := mon }, o, o)
        | none => ({}, "bad-scenario", "bad-scenario")
      else ({}, "bad-scenario", "bad-scenario")
  | _, _ => ({}, "bad-scenario", "bad-scenario")

/-- returns new state, model observation, spec observation -/
def step (s : St) (args : List String) : St × String × String :=
  match args with
  | ["ret"] => (s, s.ret, s.ret)
  | ["mon"] => (s, s.mon, s.mon)
  | ["new", "poll", mode, first, polls, inj] =>
      -- Close while Poll calls are in flight (Model/ClientPoll.lean, Driver/Poll.lean)
      match Driver.Poll.run mode first polls inj with
      | some (t, r) => ({ ret := r, mon := "ok" }, t, t)
      | none => ({}, "bad-scenario", "bad-scenario")
  | ["new", "pxr", k] => pxr k "mid"
  | ["new", "pxr", k, w] => pxr k w
  | ["new", "rs2"] =>
      -- a second Subscribe on one ReconnectClient after a cancelled first one, then Close: Go-side monitor (rc_rs2.go)
      ({ ret := "-", mon := "ok" }, "rs2=ok", "rs2=ok")
  | ["new", "gf", outs, sched] =>
      -- `client.NewImpl` = getFirst over several client types (Model/ClientFirst.lean, Driver/GF.lean)
      match Driver.GF.run outs sched with
      | some (t, r) => ({ ret := r, mon := "ok" }, t, t)
      | none => ({}, "bad-scenario", "bad-scenario")
  | _ =>
    -- a leading `f` on the injection: the transport's Impl.Close reports an error (while it does close the
    -- stream).  BaseClient.Close marks the client closed first and hands that error on, so everything is
    -- as without it except the class Close returns when an Impl exists.
    let (failClose, args) := match args with
      | ["new", mode, qt, script, inj] =>
          (match inj.toList with
           | 'f' :: rest => (true, ["new", mode, qt, script, String.ofList rest])
           | _ => (false, args))
      | _ => (false, args)
    let fixRet (r : String) : String := if failClose then r.replace "close=nil" "close=err" else r
    match parse args with
    | none => ({}, "bad-op", "bad-op")
    | some sc =>
        match sc.inj with
        | .jit _ =>
            -- where an ungated Close lands is up to the scheduler: every interleaving is a run of
            -- the LTS, so the theorems say: Subscribe returns ctx.Err() (returns_only_if_cancelled,
            -- terminates) and all monitors hold; trace and Close's class are not predicted
            if sc.wrap then ({ ret := "sub=canceled close=*", mon := "ok" }, "tr=*", "tr=*")
            else ({}, "bad-scenario", "bad-scenario")
        | _ =>
        match render sc (runScenario sc) with
        | some (t, r, m) => ({ ret := fixRet r, mon := m }, t, t)
        | none => ({}, "bad-scenario", "bad-scenario")

end Driver.RC
