import Gnmi.Model.CTreeConc
import Driver.CT
/-!
`cc` component: the locking-protocol LTS of `Gnmi/Model/CTreeConc.lean`, executed.

Sequential operations (`add`, `del`, `get`) run thread 0 of the LTS from `invoke` to `ret`
(so the LTS itself is validated as an implementation of the sequential tree); `win`/`win2`
run the forced upgrade-window schedules of `go/vcorr/cc.go` with threads 0 (A) and 1 (B);
`stress` answers `ok`: what `Props/C10.lean` proves for every schedule is what the Go
monitors evaluate on the recorded histories.
-/
namespace Driver.CC
open Gnmi Gnmi.CC Gnmi.Trie Driver

structure St where
  s : Cfg 2 := init 2

def labelsOf (τ : Fin 2) : List (Label 2) :=
  [.rlockRoot τ, .rlockChild τ, .termRoot τ, .termWrite τ, .upgRelease τ, .upgAcquire τ, .insert τ,
   .addErr τ, .getHit τ, .getMiss τ, .unlock τ, .delete τ, .ret τ]

/-- the (unique, for add/get/delete) enabled transition of thread `τ` -/
def stepOnce (s : Cfg 2) (τ : Fin 2) : Option (Cfg 2) :=
  (labelsOf τ).findSome? (fun l => next true s l)

def runUntil (stop : Thread → Bool) : Nat → Cfg 2 → Fin 2 → Cfg 2
  | 0, s, _ => s
  | fuel + 1, s, τ =>
      if stop (s.thr τ) then s
      else match stepOnce s τ with
        | some s' => runUntil stop fuel s' τ
        | none => s

def fuel : Nat := 10000

def toEnd (s : Cfg 2) (τ : Fin 2) : Cfg 2 := runUntil (fun th => th.pc == .idle) fuel s τ
def toWindow (s : Cfg 2) (τ : Fin 2) : Cfg 2 :=
  runUntil (fun th => th.pc == .idle || th.pc == .window) fuel s τ

def invoke (s : Cfg 2) (τ : Fin 2) (c : Call) : Cfg 2 :=
  (next true s (.invoke τ c)).getD s

/-- drop the ghost/bookkeeping state that only grows (keeps long sequences cheap) -/
def trim (s : Cfg 2) : Cfg 2 :=
  { s with log := [], qmay := fun _ => [], qmust := fun _ => [],
           thr := fun σ => { s.thr σ with hs := [] } }

def status (s : Cfg 2) (τ : Fin 2) : String :=
  if (s.thr τ).pc == .idle then CT.renderObs (s.thr τ).res else "stuck"

def walks (s : Cfg 2) : String := bracket ((walkSorted s.trie).map CT.renderKV)

def window (both : Bool) (s : Cfg 2) (pA : Path) (vA : Nat) (pB : Path) (vB : Nat) : Cfg 2 × String :=
  let a : Fin 2 := 0
  let b : Fin 2 := 1
  let s1 := toWindow (invoke s a (.add pA vA)) a
  let inWin := (s1.thr a).pc == .window
  let x := (s1.thr a).cur
  if !both then
    if inWin && x.isPrefixOf pB && x.length < pB.length then
      let s2 := toEnd (invoke s1 b (.add pB vB)) b
      let s3 := toEnd s2 a
      (s3, status s3 a ++ "," ++ status s3 b ++ " " ++ walks s3)
    else
      let s2 := toEnd s1 a
      let s3 := toEnd (invoke s2 b (.add pB vB)) b
      (s3, status s3 a ++ "," ++ status s3 b ++ " " ++ walks s3)
  else
    let sB := toWindow (invoke s1 b (.add pB vB)) b
    if inWin && (sB.thr b).pc == .window && (sB.thr b).cur == x then
      let s3 := toEnd sB a
      let s4 := toEnd s3 b
      (s4, status s4 a ++ "," ++ status s4 b ++ " " ++ walks s4)
    else
      let s2 := toEnd s1 a
      let s3 := toEnd (invoke s2 b (.add pB vB)) b
      (s3, status s3 a ++ "," ++ status s3 b ++ " " ++ walks s3)

/-- `windh`: the add is parked in the window at the root, the delete runs completely, the add
resumes; when the add's window is elsewhere (or there is none): add first, then delete -/
def windowDelete (s : Cfg 2) (pA : Path) (vA : Nat) (q : Path) : Cfg 2 × String :=
  let a : Fin 2 := 0
  let b : Fin 2 := 1
  let s1 := toWindow (invoke s a (.add pA vA)) a
  let render := fun (s3 : Cfg 2) =>
    status s3 a ++ "," ++ (if (s3.thr b).pc == .idle then CT.pathsOnly (s3.thr b).res else "stuck") ++ " " ++ walks s3
  if (s1.thr a).pc == .window && (s1.thr a).cur == [] then
    let s2 := toEnd (invoke s1 b (.del q none)) b
    let s3 := toEnd s2 a
    (s3, render s3)
  else
    let s2 := toEnd s1 a
    let s3 := toEnd (invoke s2 b (.del q none)) b
    (s3, render s3)

def both (s : Cfg 2) (o : String) : St × String × String := ({ s := trim s }, o, o)

def step (st : St) (args : List String) : St × String × String :=
  let s := st.s
  let a : Fin 2 := 0
  match args with
  | ["new"] => ({}, "ok", "ok")
  | ["add", p, v] =>
      let s' := toEnd (invoke s a (.add (decPath p) v.toNat!)) a
      both s' (status s' a)
  | ["del", q] =>
      let s' := toEnd (invoke s a (.del (decPath q) none)) a
      both s' (if (s'.thr a).pc == .idle then CT.pathsOnly (s'.thr a).res else "stuck")
  | ["get", p] =>
      let s' := toEnd (invoke s a (.get (decPath p))) a
      let o := match (s'.thr a).res with
        | .node (.leaf v) => toString v
        | _ => "nil"
      both s' (if (s'.thr a).pc == .idle then o else "stuck")
  | ["walks"] => both s (walks s)
  | ["qerr", _] => both s "ok"   -- a query abandoned by its visitor: no effect on the tree (and no lock left behind)
  | ["win", pA, vA, pB, vB] =>
      let r := window false s (decPath pA) vA.toNat! (decPath pB) vB.toNat!
      both r.1 r.2
  | ["win2", pA, vA, pB, vB] =>
      let r := window true s (decPath pA) vA.toNat! (decPath pB) vB.toNat!
      both r.1 r.2
  | ["windh", pA, vA, q] =>
      let r := windowDelete s (decPath pA) vA.toNat! (decPath q)
      both r.1 r.2
  | "cdel" :: _ => (st, "mon=ok", "mon=ok")   -- conditional delete vs an update through a retained handle: Go-side monitor
  | ["pwd", _] => (st, "ok", "ok")            -- a conditional delete whose condition panics on the first value: nothing deleted
  | "qvd" :: _ => (st, "mon=ok", "mon=ok")    -- literal-path Query vs Delete of that leaf: Go-side monitor (cc_qvd.go)
  | "avd" :: _ => (st, "mon=ok", "mon=ok")    -- Add over an existing leaf vs conditional delete: Go-side monitor
  | "stress" :: _ => (st, "ok", "ok")
  | _ => (st, "bad-op", "bad-op")

end Driver.CC
