import Gnmi.Model.Cache
import Gnmi.Model.CacheX
import Gnmi.Model.LatencyNames
import Driver.Codec
/-! `ca` component: the cache (`cache.Cache` with a recording `SetClient` callback). -/
namespace Driver.CA
open Gnmi Gnmi.Cache Driver

structure St where
  /-- the cache with its latency objects (`Model/CacheX.lean`); `sx.s` is the `State` of `Model/Cache.lean` -/
  sx : StateX := {}
  /-- `encoding/json` lengths of the prefix / update messages the harness sent so far, keyed by
  their canonical rendering (op `upd … <sizes>`, profile c15): what `updateSize` sums -/
  sizes : List (String × Int) := []

/-! ### parsing -/

def parseInt (s : String) : Int :=
  match s.toInt? with
  | some i => i
  | none => 0

def parseScalar (tok : String) : Scalar :=
  if tok == "unset" then .unset else
  match tok.splitOn "=" with
  | ["s", v] => .str (decStr v)
  | ["i", v] => .int (parseInt v)
  | ["u", v] => .uint v.toNat!
  | ["b", v] => .bool (v == "true")
  | ["y", v] => .bytes v
  | ["d", v] => .double v.toNat!
  | ["f", v] => .float v.toNat!
  | ["m", v] => match v.splitOn "_" with
      | [d, p] => .decimal (parseInt d) p.toNat!
      | _ => .unset
  | ["x", v] => match v.splitOn "_" with
      | [t, d] => .other t d
      | _ => .other v ""
  | _ => .unset

def parseVal (tok : String) : Val :=
  if tok == "absent" then .absent
  else if tok.startsWith "l=(" then
    let inner := ((tok.drop 3).dropEnd 1).toString
    if inner.isEmpty then .leaflist [] else .leaflist ((inner.splitOn "+").map parseScalar)
  else .scalar (parseScalar tok)

def parseUpd (tok : String) : Upd :=
  match tok.splitOn ":" with
  | [o, p, v, r] => { origin := decStr o, path := decPath p, val := parseVal v, raw := decStr r }
  | _ => {}

def parseDel (tok : String) : Del :=
  match tok.splitOn ":" with
  | [o, p, r] => { origin := decStr o, path := decPath p, raw := decStr r }
  | _ => {}

def parseList {α : Type} (f : String → α) (tok : String) : List α :=
  if tok == "-" then [] else (tok.splitOn ";").map f

/-- returns (prefix is nil, notification) -/
def parseNoti (tok : String) : Bool × Noti :=
  match tok.splitOn "|" with
  | [ts, tg, og, pf, pr, atm, us, ds] =>
    let praw := decStr pr
    (praw == "nil",
     { ts := parseInt ts, target := decStr tg, origin := decStr og, pfx := decPath pf, praw := praw,
       atomic := atm == "A", upd := parseList parseUpd us, del := parseList parseDel ds })
  | _ => (true, {})

/-! ### rendering -/

def renderScalar : Scalar → String
  | .unset => "unset"
  | .str s => "s=" ++ encStr s
  | .int i => "i=" ++ toString i
  | .uint n => "u=" ++ toString n
  | .bool b => "b=" ++ toString b
  | .bytes h => "y=" ++ h
  | .double b => "d=" ++ toString b
  | .float b => "f=" ++ toString b
  | .decimal d p => "m=" ++ toString d ++ "_" ++ toString p
  | .other t d => "x=" ++ t ++ "_" ++ d

def renderVal : Val → String
  | .absent => "absent"
  | .scalar s => renderScalar s
  | .leaflist l => "l=(" ++ "+".intercalate (l.map renderScalar) ++ ")"

/-- FNV-1a (32 bit) over the UTF-8 bytes: a cheap fingerprint both sides can compute -/
def fnv32 (s : String) : Nat :=
  s.toUTF8.foldl (fun h b => ((h ^^^ b.toNat) * 16777619) % 4294967296) 2166136261

def notiFingerprint (n : Noti) : String :=
  toString (fnv32 (n.praw ++ "|" ++ "|".intercalate (n.upd.map (·.raw))))

def renderStored (n : Noti) : String :=
  let u := n.upd.headD {}
  "@" ++ toString n.ts ++ "=" ++
    (if n.atomic then "A" ++ toString n.upd.length else renderVal u.val) ++ "#" ++ notiFingerprint n

def renderEvent : Event → String
  | .upd n =>
    let u := n.upd.headD {}
    let idx := subIndex n.target n.origin (n.pfx ++ (if n.atomic then [] else u.path))
    (if n.atomic then "A" else "U") ++ encPath idx ++ renderStored n
  | .del t o p ts => "D" ++ encPath (subIndex t o p) ++ "@" ++ toString ts

def isDel : Event → Bool
  | .del .. => true
  | _ => false

/-- maximal runs of consecutive delete events form one group (their mutual order comes out of
map iterations and does not matter for the replay); every update is its own group -/
def regroup : List Event → List Event → List (List Event)
  | [], cur => if cur.isEmpty then [] else [cur]
  | e :: es, cur =>
    if isDel e then regroup es (cur ++ [e])
    else (if cur.isEmpty then [] else [cur]) ++ [[e]] ++ regroup es []

def renderGroups (g : List (List Event)) : String :=
  bracket ((regroup g.flatten []).map (fun grp => "+".intercalate (sortStrs (grp.map renderEvent))))

def renderEventsSorted (l : List Event) : String := bracket (sortStrs (l.map renderEvent))
def renderEventsSeq (l : List Event) : String := bracket (l.map renderEvent)

def renderRes : Res → String
  | .ok => "ok" | .stale => "stale" | .future => "future" | .err => "err" | .panic => "panic"

def renderMeta (t : Target) : String :=
  let m := t.md
  let ints := intNames.filterMap (fun n => (m.getInt n).map (fun v => n ++ "=" ++ toString v))
  let bools := boolNames.filterMap (fun n => (m.getBool n).map (fun v => n ++ "=" ++ toString v))
  let strs := strNames.filterMap (fun n => (m.getStr n).map (fun v => n ++ "=" ++ encStr v))
  let sn := match t.serverName with
    | some v => ["serverName=" ++ encStr v]
    | none => []
  bracket (sortStrs (ints ++ bools ++ strs ++ sn))

def enc : String → String := encStr

/-- one cache operation: new state, raw feed events (callback order), observation -/
def exec (s : State) (args : List String) : State × List Event × String :=
  match args with
  | ["new", thr, ed, excl] =>
      ({ cfg := { futureThr := parseInt thr, eventDriven := ed == "1",
                  excluded := if excl == "-" then [] else (excl.splitOn ",").map decStr } }, [], "ok")
  | ["new", thr, ed, excl, sn] =>
      -- a cache created `WithServerName` (`-` = without)
      ({ cfg := { futureThr := parseInt thr, eventDriven := ed == "1",
                  excluded := if excl == "-" then [] else (excl.splitOn ",").map decStr,
                  serverName := if sn == "-" then "" else decStr sn } }, [], "ok")
  | ["add", t] => (s.addWith (decStr t), [], "ok")
  | ["remove", t, now] =>
      let r := s.remove (decStr t) (parseInt now); (r.1, r.2, renderEventsSeq r.2)
  | ["reset", t, now] =>
      let r := s.reset enc (decStr t) (parseInt now); (r.1, r.2, renderEventsSorted r.2)
  | ["sync", t, now] =>
      let r := s.sync enc (decStr t) (parseInt now); (r.1, r.2, renderEventsSeq r.2)
  | ["connect", t, now] =>
      let r := s.connect enc (decStr t) (parseInt now); (r.1, r.2, renderEventsSeq r.2)
  | ["connerr", t, msg, now] =>
      let r := s.connectError enc (decStr t) (decStr msg) (parseInt now); (r.1, r.2, renderEventsSeq r.2)
  | ["upd", now, noti] =>
      let pn := parseNoti noti
      let r := s.gnmiUpdate (parseInt now) pn.1 pn.2
      if r.1 = .panic then (r.2.1, [], "panic")
      else (r.2.1, r.2.2.flatten, renderRes r.1 ++ " " ++ renderGroups r.2.2)
  | ["updu", now, noti] =>
      -- the property's reading of a notification with several updates and deletes (C03): its updates, then its
      -- deletes, each as a notification of its own, one at a time; the implementation is handed the whole notification
      let pn := parseNoti noti
      let us := pn.2.upd.map (fun u => { pn.2 with upd := [u], del := [] }) ++
                pn.2.del.map (fun d => { pn.2 with upd := [], del := [d] })
      let r : Res × State × List (List Event) := us.foldl (fun (acc : Res × State × List (List Event)) u =>
          if acc.1 = .panic then acc else
          let r := acc.2.1.gnmiUpdate (parseInt now) pn.1 u
          ((if r.1 = Res.panic then Res.panic else if r.1 = Res.ok then acc.1 else Res.err), r.2.1, acc.2.2 ++ r.2.2)) (Res.ok, s, [])
      if r.1 = .panic then (r.2.1, [], "panic")
      else (r.2.1, r.2.2.flatten, renderRes r.1 ++ " " ++ renderGroups r.2.2)
  | ["updmeta", now] =>
      let r := s.updateMetadata enc (parseInt now); (r.1, r.2, renderEventsSorted r.2)
  | ["query", t, q] =>
      match s.query (decStr t) (decPath q) with
      | none => (s, [], "err")
      | some l => (s, [], bracket (sortStrs (l.map (fun e => encStr e.1 ++ encPath e.2.1 ++ renderStored e.2.2))))
  | ["has", t] => (s, [], toString (s.hasTarget (decStr t)))
  | ["meta", t] =>
      match s.get (decStr t) with
      | none => (s, [], "none")
      | some tg => (s, [], renderMeta tg)
  | ["serve", _] => (s, [], "ok")     -- every stored leaf is handed to a (coalescing) subscriber with a duplicate count: the cache is not written to
  | "own" :: _ => (s, [], "mon=ok")   -- object identity of what the cache stores and feeds vs the caller's notification: Go-side monitor
  | "ra" :: _ => (s, [], "mon=ok")    -- Remove of a target vs its re-Add + update while the delete is being announced: Go-side monitor
  | "rr" :: _ => (s, [], "mon=ok")    -- Remove of a target while its Reset is being announced: judged by the Go-side monitor only
  | "par" :: _ => (s, [], "mon=ok")   -- parallel writers of one target beside the refresh: judged by the Go-side monitor only
  | _ => (s, [], "bad-op")

/-! ### the wired cache (`Model/CacheX.lean`): latency windows, `UpdateSize` -/

/-- Go's `encoding/json` string encoding (`json.Marshal`, HTML escaping on) -/
def jsonStr (s : String) : String :=
  let hex (n : Nat) : String := String.singleton ("0123456789abcdef".toList.getD n '0')
  "\"" ++ String.join (s.toList.map (fun c =>
    if c == '"' then "\\\"" else if c == '\\' then "\\\\"
    else if c == '\n' then "\\n" else if c == '\r' then "\\r" else if c == '\t' then "\\t"
    else if c.toNat == 8 then "\\b" else if c.toNat == 12 then "\\f"
    else if c.toNat < 32 || c == '<' || c == '>' || c == '&' then
      "\\u00" ++ hex (c.toNat / 16) ++ hex (c.toNat % 16)
    else if c.toNat == 0x2028 then "\\u2028" else if c.toNat == 0x2029 then "\\u2029"
    else String.singleton c)) ++ "\""

/-- `json.Marshal` of the `*pb.Path` prefix `metaNoti` / `deleteNoti` build: `&pb.Path{Target: t}` -/
def jsonTargetPrefix (target : String) : String :=
  if target.isEmpty then "{}" else "{\"target\":" ++ jsonStr target ++ "}"

/-- `json.Marshal` of the `*pb.Update` `metaNoti` builds: `Path{Elem: names}`, a bool / int / string value -/
def jsonMetaUpdate (u : Upd) : String :=
  let elems := u.path.map (fun e => if e.isEmpty then "{}" else "{\"name\":" ++ jsonStr e ++ "}")
  let p := if elems.isEmpty then "{}" else "{\"elem\":[" ++ ",".intercalate elems ++ "]}"
  let v := match u.val with
    | .scalar (.bool b) => "{\"Value\":{\"BoolVal\":" ++ toString b ++ "}}"
    | .scalar (.int i) => "{\"Value\":{\"IntVal\":" ++ toString i ++ "}}"
    | .scalar (.str s) => "{\"Value\":{\"StringVal\":" ++ jsonStr s ++ "}}"
    | _ => "{\"Value\":null}"
  "{\"path\":" ++ p ++ ",\"val\":" ++ v ++ "}"

/-- key of an update message in the size table: its canonical rendering stands for `proto.Equal`,
which identifies `+0` and `-0`; their json renderings differ (`0`, `-0`), so the exact value token
is part of the key -/
def updSizeKey (u : Upd) : String := u.raw ++ "|" ++ renderVal u.val

def lookSize (sizes : List (String × Int)) (raw : String) (dflt : Int) : Int :=
  match sizes.find? (fun kv => kv.1 == raw) with
  | some kv => kv.2
  | none => dflt

/-- `len(json.Marshal(n))` of a stored notification, `0` when `json.Marshal` fails (a NaN / Inf
float somewhere: the harness sends `-1` for that message).  The framing of the
`pb.Notification` struct (`timestamp`, `prefix`, `update`, `atomic`, all `omitempty`; a stored
notification never carries deletes) is computed here; the lengths of the prefix and update
messages come from the harness (`sizes`) or, for the notifications the cache builds itself
(`metaNoti`), from `jsonTargetPrefix` / `jsonMetaUpdate`. -/
def jsonSize (sizes : List (String × Int)) (n : Noti) : Int :=
  let zp : Int := lookSize sizes n.praw ((jsonTargetPrefix n.target).utf8ByteSize : Nat)
  let zus : List Int := n.upd.map (fun u => lookSize sizes (updSizeKey u) ((jsonMetaUpdate u).utf8ByteSize : Nat))
  if decide (zp < 0) || zus.any (fun z => decide (z < 0)) then 0 else
  let fields : List Int :=
    (if n.ts == 0 then [] else [(12 : Int) + ((toString n.ts).length : Nat)]) ++
    [9 + zp] ++
    (if zus.isEmpty then [] else [9 + 2 + zus.foldl (· + ·) 0 + ((zus.length - 1 : Nat) : Int)]) ++
    (if n.atomic then [(13 : Int)] else [])
  2 + fields.foldl (· + ·) 0 + ((fields.length - 1 : Nat) : Int)

def winStr (w : Int) : String := LatNames.toStr (LatNames.compactDurationString w)

/-- `cache.WithLatencyWindows(ws, period)` + `WithAvgLatencyPrecision(prec)` from the token
`<period>:<prec>:<w1>,<w2>,…` (all in ns; `-` = neither option): period `0` disables the windows,
a window that is not a multiple of the period makes `WithLatencyWindows` fail (the harness then
creates the cache without the option) -/
def parseLatCfg (tok : String) : CfgX :=
  match tok.splitOn ":" with
  | [p, pr, ws] =>
    let period := parseInt p
    let prec := parseInt pr
    let wl := if ws == "-" then [] else (ws.splitOn ",").map parseInt
    let ok := period != 0 && wl.all (fun w => Latency.parseWindow w period == .ok)
    { windows := if ok then wl else [], prec := if prec == 0 then none else some prec, winStr := winStr }
  | _ => { winStr := winStr }

/-- `Metadata()` of a target of the wired cache: the latency entries that are set are listed too -/
def renderMetaX (x : CfgX) (t : Target) (l : LatSt) : String :=
  let m := t.md
  let ints := intNames.filterMap (fun n => (m.getInt n).map (fun v => n ++ "=" ++ toString v))
  let lats := (latKeys x).filterMap (fun k =>
    (Latency.exported l.vals k.1 k.2).map (fun v => latName x k.1 k.2 ++ "=" ++ toString v))
  let bools := boolNames.filterMap (fun n => (m.getBool n).map (fun v => n ++ "=" ++ toString v))
  let strs := strNames.filterMap (fun n => (m.getStr n).map (fun v => n ++ "=" ++ encStr v))
  let sn := match t.serverName with
    | some v => ["serverName=" ++ encStr v]
    | none => []
  bracket (sortStrs (ints ++ lats ++ bools ++ strs ++ sn))

/-- one operation on the wired cache.  Operations that only read the `State` of
`Model/Cache.lean` are answered by `exec`. -/
def execX (st : St) (args : List String) : St × String :=
  let sx := st.sx
  match args with
  | "new" :: thr :: ed :: excl :: rest =>
      let sn := rest.headD "-"
      let lw := (rest.drop 1).headD "-"
      ({ sx := { s := { cfg := { futureThr := parseInt thr, eventDriven := ed == "1",
                                  excluded := if excl == "-" then [] else (excl.splitOn ",").map decStr,
                                  serverName := if sn == "-" then "" else decStr sn } },
                 x := parseLatCfg lw } }, "ok")
  | ["add", t] => ({ st with sx := sx.addWith (decStr t) }, "ok")
  | ["remove", t, now] =>
      let r := sx.remove (decStr t) (parseInt now); ({ st with sx := r.1 }, renderEventsSeq r.2)
  | ["reset", t, now] =>
      let r := sx.reset enc (decStr t) (parseInt now); ({ st with sx := r.1 }, renderEventsSorted r.2)
  | ["sync", t, now] =>
      let r := sx.sync enc (decStr t) (parseInt now); ({ st with sx := r.1 }, renderEventsSeq r.2)
  | ["connect", t, now] =>
      let r := sx.connect enc (decStr t) (parseInt now); ({ st with sx := r.1 }, renderEventsSeq r.2)
  | ["connerr", t, msg, now] =>
      let r := sx.connectError enc (decStr t) (decStr msg) (parseInt now)
      ({ st with sx := r.1 }, renderEventsSeq r.2)
  | "upd" :: now :: noti :: rest =>
      let pn := parseNoti noti
      -- optional 4th argument: json lengths `<prefix>,<update 1>,…` of the messages of this notification
      let zs := match rest with
        | [z] => (z.splitOn ",").map parseInt
        | _ => []
      let sizes := match zs with
        | zp :: zus => st.sizes ++ [(pn.2.praw, zp)] ++ (pn.2.upd.map updSizeKey).zip zus
        | [] => st.sizes
      let r := sx.gnmiUpdate (parseInt now) pn.1 pn.2
      if r.1 = .panic then ({ sx := r.2.1, sizes := sizes }, "panic")
      else ({ sx := r.2.1, sizes := sizes }, renderRes r.1 ++ " " ++ renderGroups r.2.2)
  | ["updmeta", now] =>
      let r := sx.updateMetadata enc (parseInt now); ({ st with sx := r.1 }, renderEventsSorted r.2)
  | ["updsize"] => ({ st with sx := sx.updateSize (jsonSize st.sizes) }, "ok")
  | ["meta", t] =>
      match sx.s.get (decStr t) with
      | none => (st, "none")
      | some tg => (st, renderMetaX sx.x tg (sx.latOf (decStr t)))
  | _ =>
      -- `updu`, `query`, `has`, `own`, `rr`, `par`: no latency call, no size; `updu` changes the state
      let r := exec sx.s args
      ({ st with sx := { sx with s := r.1 } }, r.2.2)

def step (st : St) (args : List String) : St × String × String :=
  let r := execX st args
  (r.1, r.2, r.2)

end Driver.CA
