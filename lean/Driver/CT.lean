import Gnmi.Model.CTreeRun
import Driver.Codec
/-! `ct` component: the path tree (model = `Trie`, spec = `PMap`). -/
namespace Driver.CT
open Gnmi Gnmi.Trie Gnmi.C09 Driver

structure St where
  t : Trie Nat := .empty
  m : PMap Nat := []

def renderKV (kv : Path × Nat) : String := encPath kv.1 ++ "=" ++ toString kv.2

def renderObs : Obs → String
  | .status true => "ok"
  | .status false => "err"
  | .node .none => "none"
  | .node .nil => "nil"
  | .node .branch => "branch"
  | .node (.leaf v) => "leaf:" ++ toString v
  | .set l => bracket (sortStrs (l.map renderKV))
  | .seq l => bracket (l.map renderKV)

def both (s : St) (op : Op) : St × String × String :=
  let a := stepTrie s.t op
  let b := stepSpec s.m op
  ({ t := a.1, m := b.1 }, renderObs a.2, renderObs b.2)

def pathsOnly : Obs → String
  | .set l => bracket (sortStrs (l.map (fun kv => encPath kv.1)))
  | _ => "?"

def valsOnly : Obs → String
  | .set l => bracket (sortStrs (l.map (fun kv => toString kv.2)))
  | _ => "?"

/-- returns new state, model observation, spec observation -/
def step (s : St) (args : List String) : St × String × String :=
  match args with
  | ["new"] => ({}, "ok", "ok")
  | ["add", p, v] => both s (.add (decPath p) v.toNat!)
  | ["get", p] => both s (.get (decPath p))
  | ["query", q] => both s (.query (decPath q))
  | ["walk"] => both s .walk
  | ["walks"] => both s .walkSorted
  | ["del", q] =>
      let a := stepTrie s.t (.del (decPath q)); let b := stepSpec s.m (.del (decPath q))
      ({ t := a.1, m := b.1 }, pathsOnly a.2, pathsOnly b.2)
  | ["delif", q, n] =>
      let op := Op.delIf (decPath q) n.toNat!
      let a := stepTrie s.t op; let b := stepSpec s.m op
      ({ t := a.1, m := b.1 }, pathsOnly a.2, pathsOnly b.2)
  | ["wdel", q, n] =>
      let op := Op.delIf (decPath q) n.toNat!
      let a := stepTrie s.t op; let b := stepSpec s.m op
      ({ t := a.1, m := b.1 }, valsOnly a.2, valsOnly b.2)
  | ["upd", p, v] => both s (.upd (decPath p) v.toNat!)
  | ["val", p] =>
      let f (k : NodeKind) : String := match k with
        | .leaf v => toString v
        | _ => "nil"
      (s, f (kindOfTrie (get s.t (decPath p))), f (specGet s.m (decPath p)))
  | ["isbranch", p] =>
      let f (k : NodeKind) : String := match k with
        | .branch => "true"
        | _ => "false"
      (s, f (kindOfTrie (get s.t (decPath p))), f (specGet s.m (decPath p)))
  | ["children", p] =>
      let mk := match get s.t (decPath p) with
        | some n => childKeys n
        | none => []
      (s, bracket (sortStrs (mk.map encStr)),
          bracket (sortStrs ((PMap.childrenAt s.m (decPath p)).map encStr)))
  | _ => (s, "bad-op", "bad-op")

end Driver.CT
