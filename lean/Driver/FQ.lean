import Gnmi.Model.FakeQueue
import Driver.Codec
/-!
`fq` component: the synthetic target's update generator (`Gnmi.FQ`, property C20),
executed with `D := Float`; doubles cross the line protocol as bit patterns.

Operations
* `new <look> <sync 0|1> <seed>:<draws> <value>*` — build the queue as `queue.New` (+ the sync
  injection of `Client.reset` when `sync = 1`).  `<draws>` = comma separated hex raw draws of
  `rand.NewSource(seed)`.  A `<value>` is `kind|path|ts|repeat|seed:draws|payload`.
  `<look>` only concerns the Go side (length of its monitor run).  Observation `ok`.
* `next` — one call of `Next`: `<kind> <path> <ts> <val>` | `nil` | `err` (| `panic` |
  `overflow` | `nodraws`).
* `rand <fn> <n> <draws>` — `math/rand`'s `Int63n`/`Int31n`/`Intn`/`Float64`/`Shuffle` on a scripted
  list of raw draws: `<result> <draws consumed>` | `panic` | `nodraws`.
* `agent <limit>` — a fresh fake-agent client on the same configuration: the first `limit`
  responses (`reset` + `Next` + `valToResp`).
-/
namespace Driver.FQ
open Gnmi Gnmi.FQ Driver

instance : DOps Float where
  zero := 0.0
  lt a b := decide (a < b)
  ne0 x := x != 0.0
  unit v := (UInt64.ofNat v).toFloat / 9223372036854775808.0
  isOne f := f == 1.0
  add a b := a + b
  sub a b := a - b
  mul a b := a * b

abbrev V := PVal Float

structure St where
  u : Option (UQ Float) := none
  g : Draws := []
  values : List (V × Option Draws) := []
  sync : Bool := false

/-! ### decoding -/

def hexNat (s : String) : Nat := s.toList.foldl (fun acc c => acc * 16 + hexVal c) 0

def decInt (s : String) : Int := s.toInt?.getD 0
def decNat (s : String) : Nat := s.toNat?.getD 0
def decF (s : String) : Float := Float.ofBits (UInt64.ofNat (hexNat s))

def splitNE (s : String) (sep : String) : List String := (s.splitOn sep).filter (· ≠ "")

/-- `seed:draws` → `(seed, draws)` -/
def decSeedDraws (s : String) : Int × Draws :=
  match s.splitOn ":" with
  | [a, b] => (decInt a, (splitNE b ",").map hexNat)
  | [a] => (decInt a, [])
  | _ => (0, [])

def decTS (s : String) : Option TS :=
  match s.splitOn "," with
  | [a, b, c] => some { ts := decInt a, dmin := decInt b, dmax := decInt c }
  | _ => none

def decBool (s : String) : Bool := s == "1"

def decListDist {α : Type} (f : String → α) (d : List String) : ListDist α :=
  match d with
  | "l" :: rnd :: opts => .list (opts.map f) (decBool rnd)
  | _ => .const

def decKind (kind payload : String) : Kind Float :=
  let parts := payload.splitOn ";"
  let v := parts.headD ""
  let d := splitNE (parts.getD 1 "") ","
  match kind with
  | "int" =>
      let dist : IntDist := match d with
        | ["r", a, b, c, e] => .range { min := decInt a, max := decInt b, dmin := decInt c, dmax := decInt e }
        | "l" :: rnd :: opts => .list (opts.map decInt) (decBool rnd)
        | _ => .const
      .int (decInt v) dist
  | "uint" =>
      let dist : UintDist := match d with
        | ["r", a, b, c, e] => .range { min := decNat a, max := decNat b, dmin := decInt c, dmax := decInt e }
        | "l" :: rnd :: opts => .list (opts.map decNat) (decBool rnd)
        | _ => .const
      .uint (decNat v) dist
  | "dbl" =>
      let dist : DblDist Float := match d with
        | ["r", a, b, c, e] => .range { min := decF a, max := decF b, dmin := decF c, dmax := decF e }
        | "l" :: rnd :: opts => .list (opts.map decF) (decBool rnd)
        | _ => .const
      .double (decF v) dist
  | "str" => .str (decStr v) (decListDist decStr d)
  | "sl" => .strList ((splitNE v ",").map decStr) (decListDist decStr d)
  | "bool" => .bool (decBool v) (decListDist decBool d)
  | "sync" => .sync (decNat v)
  | "del" => .delete
  | _ => .unset

/-- `kind|path|ts|repeat|seed:draws|payload` -/
def decValue (s : String) : V × Option Draws :=
  match s.splitOn "|" with
  | [kind, path, ts, rep, sd, payload] =>
      let (seed, draws) := decSeedDraws sd
      ({ path := decPath path, ts := decTS ts, repeat_ := decInt rep, kind := decKind kind payload },
       if seed == 0 then none else some draws)
  | _ => ({ path := [], ts := none, repeat_ := 0, kind := .unset }, none)

/-! ### rendering -/

def hex16 (n : Nat) : String :=
  let rec go (k : Nat) (n : Nat) (acc : List Char) : List Char :=
    match k with
    | 0 => acc
    | k + 1 => go k (n / 16) ((if n % 16 < 10 then Char.ofNat (48 + n % 16) else Char.ofNat (87 + n % 16)) :: acc)
  String.ofList (go 16 n [])

def renderF (f : Float) : String := hex16 f.toBits.toNat

def renderStrs (l : List String) : String := bracket (l.map encStr)

def renderKind (k : Kind Float) : String × String :=
  match k with
  | .int v _ => ("int", toString v)
  | .double v _ => ("dbl", renderF v)
  | .str v _ => ("str", encStr v)
  | .strList v _ => ("sl", renderStrs v)
  | .bool v _ => ("bool", toString v)
  | .uint v _ => ("uint", toString v)
  | .sync n => ("sync", toString n)
  | .delete => ("del", "-")
  | .unset => ("unset", "-")

def renderTs (pv : V) : String :=
  match pv.ts with
  | some t => toString t.ts
  | none => "nil"

def renderVal (pv : V) : String :=
  let (k, v) := renderKind pv.kind
  k ++ " " ++ encPath pv.path ++ " " ++ renderTs pv ++ " " ++ v

def renderRes : Res Float → String
  | .nil => "nil"
  | .emit v => renderVal v.pv
  | .err => "err"
  | .panic => "panic"
  | .overflow => "overflow"
  | .nodraws => "nodraws"

def renderTV : TV Float → String
  | .int v => "int:" ++ toString v
  | .double v => "dbl:" ++ renderF v
  | .str v => "str:" ++ encStr v
  | .leaflist v => "ll:" ++ renderStrs v
  | .bool v => "bool:" ++ toString v
  | .uint v => "uint:" ++ toString v

def renderResp : Resp Float → String
  | .update ts p tv => "u:" ++ encPath p ++ "@" ++ toString ts ++ "=" ++ renderTV tv
  | .delete ts p => "d:" ++ encPath p ++ "@" ++ toString ts
  | .sync b => "s:" ++ toString b

def outTag {α : Type} : Out α → String
  | .ok _ => "ok"
  | .err => "err"
  | .panic => "panic"
  | .overflow => "overflow"
  | .nodraws => "nodraws"

/-- the responses the fake agent sends: `processQueue` until `Next` yields nil or an error, or
`valToResp` fails, or `limit` responses have been sent -/
def agentRun : Nat → UQ Float → List String → List String
  | 0, _, acc => acc.reverse
  | n + 1, u, acc =>
      match next u with
      | (.emit v, u') =>
          match valToResp v.pv with
          | .ok r => agentRun n u' (renderResp r :: acc)
          | .err => acc.reverse
          | o => (("!" ++ outTag o) :: acc).reverse
      | (.nil, _) => acc.reverse
      | (.err, _) => acc.reverse
      | (r, _) => (("!" ++ renderRes r) :: acc).reverse

/-- returns new state, model observation, spec observation (there is no separate abstract spec:
the property monitors are predicates evaluated on the Go side, see go/vcorr/fq.go) -/
def step (s : St) (args : List String) : St × String × String :=
  match args with
  | "new" :: _look :: sync :: gd :: vals =>
      let (_, g) := decSeedDraws gd
      let values := vals.map decValue
      let sy := decBool sync
      let r := reset g values (!sy)
      let s' : St := { g := g, values := values, sync := sy,
                       u := match r with
                         | .ok u => some u
                         | _ => none }
      (s', outTag r, outTag r)
  | ["mark"] =>
      match s.u with
      | none => (s, "noqueue", "noqueue")
      | some u =>
          let o := "latest=" ++ toString u.latest
          match add u (syncValue u.latest) none with
          | .ok u' => ({ s with u := some u' }, o, o)
          | _ => (s, "err", "err")
  | ["next"] =>
      match s.u with
      | none => (s, "noqueue", "noqueue")
      | some u =>
          let (r, u') := next u
          let o := renderRes r
          ({ s with u := some u' }, o, o)
  | "rand" :: fn :: arg :: rest =>
      let ds : Draws := (splitNE (rest.headD "") ",").map hexNat
      let n := decInt arg
      let used (ds' : Draws) : String := " " ++ toString (ds.length - ds'.length)
      let showI (o : Out (Int × Draws)) : String := match o with
        | .ok (x, ds') => toString x ++ used ds'
        | o => outTag o
      let o : String := match fn with
        | "int63n" => showI (int63n n ds)
        | "int31n" => showI (int31n n ds)
        | "intn" => showI (intn n ds)
        | "float64" => match float64 (D := Float) ds with
            | .ok (f, ds') => renderF f ++ used ds'
            | o => outTag o
        | "shuffle" => match shuffle ((List.range n.toNat).map toString) ds with
            | .ok (l, ds') => bracket l ++ used ds'
            | o => outTag o
        | _ => "bad-op"
      (s, o, o)
  | ["agent", limit] =>
      match reset s.g s.values (!s.sync) with
      | .ok u =>
          let o := bracket (agentRun (decNat limit) u [])
          (s, o, o)
      | r => (s, outTag r, outTag r)
  | _ => (s, "bad-op", "bad-op")

end Driver.FQ
