import Gnmi.Spec.TargetCfg
import Driver.Codec
/-!
`tg` component: `target.Config` (model = `TargetCfg.load` mirroring target.go, spec =
`TargetCfg.specLoad`: declarative gate + exact difference of the effective views).

Tokens (all strings through `encStr`, so `; , = : + | !` are free separators):
  cfg  := `nil` | `<rev>;<other>;<reqs>;<tgts>`
  reqs := `-` | `k=R,k=R…`          R := `!` (nil) | enc(digest)
  tgts := `-` | `k=T,k=T…`          T := `!` (nil) | addrs `:` enc(request) `:` enc(other)
  addrs := `-` | enc(a)+enc(a)…
Operations:
  (a trailing integer on new/load/validate only selects among equal Go representations of the
  same messages — nil vs empty slices and maps, shared vs fresh objects — and is ignored here)
  new <h> <base>   h = three characters `aud` (`-` = nil callback); base = `-` (NewConfig) |
                   `nil` | cfg (NewConfigWithBase)            → ok | invalid
  load <cfg>       → `<class> [sorted calls] mon=<ok|na>`
  cur              → `cfg nil` | `cfg <canonical cfg>`
  validate <cfg>   → ok | invalid | panic      (exported Validate called directly)
-/
namespace Driver.TG
open Gnmi Gnmi.TargetCfg Driver

structure St where
  /-- `none`: `NewConfigWithBase` failed, there is no `*Config` -/
  model : Option TargetCfg.St := some {}
  spec : Option TargetCfg.St := some {}

/-! ### decoding -/

def decReq (s : String) : Req := if s == "!" then .nil else .msg (decStr s)

def decAddrs (s : String) : List String :=
  if s == "-" then [] else (s.splitOn "+").map decStr

def decTgt (s : String) : Option TgtP :=
  if s == "!" then some none else
  match s.splitOn ":" with
  | [a, r, o] => some (some { addresses := decAddrs a, request := decStr r, other := decStr o })
  | _ => none

def splitKV (s : String) : Option (String × String) :=
  match s.splitOn "=" with
  | [k, v] => some (decStr k, v)
  | _ => none

def decMap {α : Type} (f : String → Option α) (s : String) : Option (List (String × α)) :=
  if s == "-" then some [] else
  (s.splitOn ",").mapM (fun kv => do
    let (k, v) ← splitKV kv
    let x ← f v
    pure (k, x))

/-- outer `none` = malformed token; inner `none` = the nil configuration -/
def decCfg (s : String) : Option (Option Cfg) :=
  if s == "nil" then some none else
  match s.splitOn ";" with
  | [rev, other, reqs, tgts] => do
    let r ← rev.toInt?
    let rq ← decMap (fun v => some (decReq v)) reqs
    let tg ← decMap decTgt tgts
    pure (some { revision := r, request := rq, target := tg, other := decStr other })
  | _ => none

def decHandlers (s : String) : Option Handlers :=
  match s.toList with
  | [a, u, d] => some { add := a != '-', update := u != '-', delete := d != '-' }
  | _ => none

/-! ### rendering (canonical: everything that came out of a map is sorted) -/

def encReq : Req → String
  | .nil => "!"
  | .msg d => encStr d

def encAddrs (l : List String) : String :=
  if l.isEmpty then "-" else "+".intercalate (l.map encStr)

def encTgt : TgtP → String
  | none => "!"
  | some t => encAddrs t.addresses ++ ":" ++ encStr t.request ++ ":" ++ encStr t.other

def encMap {α : Type} (f : α → String) (m : List (String × α)) : String :=
  if m.isEmpty then "-" else
  ",".intercalate (sortStrs (m.map (fun kv => encStr kv.1 ++ "=" ++ f kv.2)))

def encCfg : Option Cfg → String
  | none => "nil"
  | some c => toString c.revision ++ ";" ++ encStr c.other ++ ";" ++ encMap encReq c.request ++ ";" ++
      encMap encTgt c.target

def encCall : Call → String
  | .add u => "A|" ++ encStr u.name ++ "|" ++ encTgt u.target ++ "|" ++ encReq u.request
  | .update u => "U|" ++ encStr u.name ++ "|" ++ encTgt u.target ++ "|" ++ encReq u.request
  | .delete n => "D|" ++ encStr n

def encCalls (l : List Call) : String := bracket (sortStrs (l.map encCall))

def encSpecRes : SpecRes → String
  | .ok => "ok"
  | .nilConfig => "nilconfig"
  | .invalid => "invalid"
  | .revision => "revision"

/-- the Go side's model-independent monitor is only meaningful when no callback is nil -/
def monField (h : Handlers) : String :=
  if h.add && h.update && h.delete then "mon=ok" else "mon=na"

def loadObs (h : Handlers) (r : SpecRes) (cs : List Call) : String :=
  encSpecRes r ++ " " ++ encCalls cs ++ " " ++ monField h

def both (s : St) (fm fs : TargetCfg.St → TargetCfg.St × String) : St × String × String :=
  match s.model, s.spec with
  | some m, some sp =>
    let a := fm m
    let b := fs sp
    ({ model := some a.1, spec := some b.1 }, a.2, b.2)
  | _, _ => (s, "noconfig", "noconfig")

/-- returns new state, model observation, spec observation -/
def step (s : St) (args : List String) : St × String × String :=
  match args with
  | "new" :: h :: base :: _ =>
    match decHandlers h with
    | none => (s, "bad-op", "bad-op")
    | some hs =>
      if base == "-" then
        ({ model := some (newConfig hs), spec := some (newConfig hs) }, "ok", "ok")
      else match decCfg base with
        | none => (s, "bad-op", "bad-op")
        | some b =>
          let m := match newConfigWithBase hs b with
            | .ok st => some st
            | .error _ => none
          let sp : Option TargetCfg.St := match b with
            | none => some { cur := none, h := hs }
            | some c => if validB c then some { cur := some c, h := hs } else none
          ({ model := m, spec := sp }, if m.isSome then "ok" else "invalid",
            if sp.isSome then "ok" else "invalid")
  | "load" :: c :: _ =>
    match decCfg c with
    | none => (s, "bad-op", "bad-op")
    | some cfg =>
      both s
        (fun m => let r := load m cfg; (r.1, loadObs m.h r.2.1.toSpec r.2.2))
        (fun sp => let r := specLoad sp cfg; (r.1, loadObs sp.h r.2.1 r.2.2))
  | "load2" :: a :: b :: _ =>
    -- two overlapping Load calls: the second waits for the lock, so they take effect one after the other
    match decCfg a, decCfg b with
    | some ca, some cb =>
      both s
        (fun m => let r1 := load m ca; let r2 := load r1.1 cb
          (r2.1, encSpecRes r1.2.1.toSpec ++ " " ++ encSpecRes r2.2.1.toSpec ++ " " ++
            encCalls (r1.2.2 ++ r2.2.2) ++ " " ++ monField m.h))
        (fun sp => let r1 := specLoad sp ca; let r2 := specLoad r1.1 cb
          (r2.1, encSpecRes r1.2.1 ++ " " ++ encSpecRes r2.2.1 ++ " " ++
            encCalls (r1.2.2 ++ r2.2.2) ++ " " ++ monField sp.h))
    | _, _ => (s, "bad-op", "bad-op")
  | ["cur"] =>
    both s (fun m => (m, "cfg " ++ encCfg (current m))) (fun sp => (sp, "cfg " ++ encCfg sp.cur))
  | "validate" :: c :: _ =>
    match decCfg c with
    | none => (s, "bad-op", "bad-op")
    | some cfg =>
      (s, (match validateP cfg with
            | .panic => "panic"
            | .done (.ok _) => "ok"
            | .done (.error _) => "invalid"),
          (match cfg with
            | none => "panic"
            | some c => if validB c then "ok" else "invalid"))
  | _ => (s, "bad-op", "bad-op")

end Driver.TG
