import Driver.E2E
import Driver.WI
import Gnmi.Model.PipelineWire
/-!
`e2ew` component: the collector pipeline end to end **on protobuf-shaped messages** (property C01,
"whatever the value types, list keys or origins involved").

`e2ew new <client> <run> <queries> <decl|item>*` — as `e2e new` (`Driver/E2E.lean`), except that an
update item is `<i>W<notification>` with the notification in the **wire-shaped** token of the `rx` /
`wi` components (`Driver/RX.lean`: optional prefix, `elem` with key maps in *written* order vs
deprecated `element`, origin / target fields, every `TypedValue` arm, nil entries).  Nothing of the
index form comes from the Go side: the model column is `PW.wrunR` (`Model/PipelineWire.lean`) —
`manager.handleGNMIUpdate` + the collector's `Update` closure stamping the protobuf prefix
(`Wire.stampWire`) + `Cache.GnmiUpdate` on the message (`Wire.toNoti`: `path.ToStrings`, `value.Equal`'s
reading of the value) + feed + Subscribe server + the index-form client (which
`C01W.client_decode_commutes` relates to `client/gnmi noti()` on the protobuf response) — and the
spec column is `Relay.expected` of the image of the targets' final **wire-level** views
(`PW.wfinalView` of the last session: key = `origin-or-openconfig :: ToStrings(prefix) ++
ToStrings(path)`), when every session is well formed (else the model's answer again).
`C01W.wire_runR_is_index_runR` says the model column equals `e2e`'s on the translated scenario.

Observation format: as `e2e new`.
-/
namespace Driver.E2EW
open Gnmi Gnmi.Cache Gnmi.Pipeline Gnmi.PW Gnmi.Wire Driver

structure St where
  dummy : Unit := ()

abbrev Resp := RX.Resp

inductive Ev where
  | it (r : Resp)
  | restart (clean : Bool)

structure Scenario where
  client : E2E.ClientMode := .once
  queries : List Path := [[]]
  targets : List E2E.Decl := []
  items : List (Nat × Ev) := []      -- global order

def parseTok (sc : Scenario) (tok : String) : Scenario :=
  if tok.startsWith "T=" then
    match ((tok.drop 2).toString).splitOn ":" with
    | [n, r, k] => { sc with targets := sc.targets ++ [{ name := decStr n, request := decStr r, kind := k }] }
    | _ => sc
  else
    match tok.toList with
    | d :: k :: rest =>
      let i := d.toNat - 48
      let payload := String.ofList rest
      if k = 'W' then { sc with items := sc.items ++ [(i, .it (.update (some (RX.parseNoti payload))))] }
      else if k = 'S' then { sc with items := sc.items ++ [(i, .it (.sync true))] }
      else if k = 'E' then { sc with items := sc.items ++ [(i, .it (.error true))] }
      else if k = 'N' then { sc with items := sc.items ++ [(i, .it .unset)] }
      else if k = 'R' then { sc with items := sc.items ++ [(i, .restart false)] }
      else if k = 'Z' then { sc with items := sc.items ++ [(i, .restart true)] }
      else sc
    | _ => sc

def parseScenario (args : List String) : Scenario :=
  match args with
  | client :: _run :: queries :: rest =>
    rest.foldl parseTok { client := E2E.parseClient client, queries := E2E.parseQueries queries }
  | _ => {}

/-- the scenario as `e2e` reads it: every response translated by `PW.toItem` (`Wire.toNoti`) -/
def translated (sc : Scenario) : E2E.Scenario :=
  { client := sc.client, queries := sc.queries, targets := sc.targets,
    items := sc.items.map (fun x => (x.1, match x.2 with
      | .it r => E2E.Ev.it (toItem encStr r)
      | .restart c => E2E.Ev.restart c)) }

/-- the global wire-level step list (`E2E.stepsOf`) -/
def wstepsOf (sc : Scenario) : List (WStepR Float32 Float) :=
  let tsc := translated sc
  let evs : List (List (WStepR Float32 Float)) := sc.items.zipIdx.map (fun x =>
    match x.1.2 with
    | .it r => [WStepR.step (WStep.recv (E2E.nameOf tsc x.1.1) (E2E.firstOfSession tsc.items x.2 x.1.1) 0 r)]
    | .restart clean =>
      [WStepR.reset (E2E.nameOf tsc x.1.1) 0,
       WStepR.connectError (E2E.nameOf tsc x.1.1) (if clean then "EOF" else "cut") 0])
  match sc.client with
  | .once => evs.flatten
  | .stream k =>
    let subs := sc.targets.map (fun d => WStepR.step (WStep.subscribe ("s:" ++ d.name) d.name sc.queries))
    (evs.take k).flatten ++ subs ++ (evs.drop k).flatten

def runModel (sc : Scenario) : String :=
  let tsc := translated sc
  let s := wrunR encStr (Sys.start (E2E.cfgOf tsc)) (wstepsOf sc)
  if s.crashed then "crashed" else
  " ".intercalate ((E2E.sortedTargets tsc).map (fun name =>
    match sc.client with
    | .once => E2E.renderClient name (s.once name sc.queries)
    | .stream _ => E2E.renderClient name (s.streamView ("s:" ++ name))))

/-- the responses target number `t` streamed in its last session -/
def lastSessionW (sc : Scenario) (t : Nat) : List Resp :=
  (sc.items.filter (fun x => x.1 == t)).foldl (fun cur x =>
    match x.2 with
    | .it r => cur ++ [r]
    | .restart _ => []) []

def indexOfTarget (sc : Scenario) (name : String) : Nat :=
  (sc.targets.findIdx? (fun d => d.name == name)).getD 0

def runSpec (sc : Scenario) : String :=
  let tsc := translated sc
  " ".intercalate ((E2E.sortedTargets tsc).map (fun name =>
    let rs := lastSessionW sc (indexOfTarget sc name)
    let items := rs.map (toItem encStr)
    encStr name ++ "=sync" ++
      E2E.renderLeaves (Relay.expected name (absView encStr (wfinalView rs)) sc.queries ++
        E2E.metaLeaves name items (E2E.restarted tsc name) sc.queries)))

/-- `PW.TailOK encStr` on every prefix of the scenario (the one hypothesis of
`C01W.wire_run_is_index_run` that is about `String.splitOn`) -/
def tailOKAll (sc : Scenario) : Bool :=
  sc.items.all (fun x => match x.2 with
    | .it (.update (some n)) => tailOKb encStr n.pfx
    | _ => true)

def step (s : St) (args : List String) : St × String × String :=
  match args with
  | "new" :: rest =>
    let sc := parseScenario rest
    let m := runModel sc
    if !tailOKAll sc then (s, m, "TailOK-violated") else
    (s, m, if E2E.wellFormedScenario (translated sc) then runSpec sc else m)
  | "wf" :: rest =>
    let o := toString (E2E.wellFormedScenario (translated (parseScenario rest)))
    (s, o, o)
  | "asindex" :: rest =>
    -- cross-check: the `e2e` component's answer on the translated scenario (C01W.wire_runR_is_index_runR)
    let tsc := translated (parseScenario rest)
    let m := E2E.runModel tsc
    (s, m, m)
  | _ => (s, "bad-op", "bad-op")

end Driver.E2EW
