import Gnmi.Model.CoalesceLTS
import Gnmi.Spec.CoQueue
import Driver.Codec
/-!
`co` component: the coalescing queue.

* sequential API calls (`ins`, `next`, `len`, `close`, `isclosed`, `tok`): model =
  `Coalesce.step`, spec = `Coalesce.CoQ`;
* `Insert` in phases (`pcheck`, `pinsert`, `ppost`; `pins` = `pcheck; pinsert`): the producer
  transitions `pCheck`, `pInsert`, `pPost` of the LTS, one by one;
* the consumer's `Next` in two phases (`nbegin` … `cancel`/`ins`/`close` … `nresume`): the
  consumer transitions of the LTS `CoLTS` (`fire`), replayed by the harness on the real
  goroutine, which it parks at the evaluation of `ctx.Done()`, i.e. exactly between the failed
  `q.next()` (C1) and the `select` (C2);
* `conc …`: a free-running concurrent run whose monitors are evaluated on the Go side; the
  model's answer is always `ok`.

Go's `select` picks at random among ready cases: the observation of `next` / `nresume` is the
*set* of answers over all choices (`a|b`), the state follows the choice token > closed > ctx.
The generator only asks where the set is a singleton or the harness canonicalises alike.
-/
namespace Driver.CO
open Gnmi Gnmi.Coalesce Gnmi.CoLTS Driver

structure St where
  c : Cfg Nat := {}
  s : CoQ Nat := {}
  /-- protocol guard: the token may or may not have been consumed by a racy `select` -/
  tokU : Bool := false
  /-- protocol guard: the consumer was released into the real `select` with no case ready -/
  blocked : Bool := false
  /-- protocol guard: a case became ready for the really blocked consumer; `nresume` must follow -/
  mustRes : Bool := false

def renderIns : InsRes → String
  | .refused => "refused"
  | .ok true => "fresh"
  | .ok false => "dup"

def renderNext : NextRes Nat → String
  | .item i d => "item:" ++ toString i ++ ":" ++ toString d
  | .errClosed => "closed"
  | .errCtx => "canceled"
  | .blocks => "blocks"
  | .outOfFuel => "fuel"

def dedup : List String → List String
  | [] => []
  | a :: l => if a ∈ l then dedup l else a :: dedup l

def renderSet (l : List String) : String := "|".intercalate (sortStrs (dedup l))

/-- every order in which the runtime may prefer the select cases -/
def allPrefs : List (List Arm) :=
  [[.ctx, .token, .closed], [.ctx, .closed, .token], [.token, .ctx, .closed],
   [.token, .closed, .ctx], [.closed, .ctx, .token], [.closed, .token, .ctx]]

/-- the choice the driver's state follows -/
def defaultPref : List Arm := [.token, .closed, .ctx]

/-- run the consumer until `Next` returns or reaches the select (C2) -/
def settle : Nat → Cfg Nat → Cfg Nat × String
  | 0, c => (c, "fuel")
  | n + 1, c =>
    match c.cons with
    | .c1 => settle n (nextCfg c)
    | .c3 => settle n (lenCfg c)
    | .c2 => (c, "parked")
    | .idle => (c, match c.delivered.getLast? with
        | some (i, d) => renderNext (.item i d)
        | none => "?")
    | .done .closed => (c, "closed")
    | .done .cancelled => (c, "canceled")

def resumeArm (c : Cfg Nat) (a : Arm) : Cfg Nat × String :=
  match fire c (armLabel a) with
  | some c' => settle 6 c'
  | none => (c, "not-enabled")

/-- spec answer to a consumer phase: the head of the pending list, if any -/
def specHead (s : CoQ Nat) : Option String :=
  match s.items with
  | (i, d) :: _ => some (renderNext (.item i d))
  | [] => none

def specAfter (s : CoQ Nat) (obs : String) : CoQ Nat :=
  if obs.startsWith "item:" then { s with items := s.items.tail } else s

/-- the outcomes (observation class, parked afterwards, token afterwards) of executing the
`select` with token value `tv` -/
def resumeOutcomes (qne closed cancelled tv : Bool) : List (String × Bool × Bool) :=
  (if cancelled then [("canceled", false, tv)] else []) ++
  (if tv then [if qne then ("item", false, false) else ("parked", true, false)] else []) ++
  (if closed then [if qne then ("item", false, tv) else ("closed", false, tv)] else [])

def allSame {α : Type} [DecidableEq α] : List α → Bool
  | [] => true
  | a :: l => l.all (· == a)

/-- Protocol guard (the same rules as `coGenState.apply` in `go/vcorr/co.go`): is the
operation one the generator may emit in this state, and how do the guard flags change?
`none` = not allowed: neither side executes it and both answer `skip`. -/
def guard (st : St) (args : List String) : Option St :=
  let c := st.c
  let inNext := c.cons == .c2
  let qne := !c.q.queue.isEmpty
  let isNresume := match args with
    | ["nresume"] => true
    | _ => false
  if st.mustRes && !isNresume then none else
  match args with
  | ["ins", i] =>
      let i := i.toNat! % 4
      if c.q.closed || c.q.queue.contains i then some st
      else some { st with tokU := false, mustRes := st.blocked }
  | ["pins", _] => some st
  | ["pcheck", _] => some st
  | ["pinsert", i] => if c.atP2.contains (i.toNat! % 4) then some st else none
  | ["ppost"] =>
      if c.atP3 == 0 then none else some { st with tokU := false, mustRes := st.blocked }
  | ["next", cc] =>
      if inNext then none
      else if qne then some st
      else if cc != "1" && !c.q.closed then none
      else if !st.tokU && c.q.token then some { st with tokU := true }
      else some st
  | ["len"] => some st
  | ["isclosed"] => some st
  | ["dump"] => some st
  | "conc" :: _ => some st
  | ["tok"] => if st.tokU then none else some st
  | ["close"] => some { st with mustRes := st.blocked && !c.q.closed }
  | ["nbegin"] => if inNext then none else some st
  | ["cancel"] =>
      if !inNext then none else some { st with mustRes := st.blocked && !c.cancelled }
  | ["nrelease"] =>
      if !inNext || st.blocked || st.tokU || c.q.token || c.q.closed || c.cancelled then none
      else some { st with blocked := true }
  | ["nresumec"] =>
      if !inNext || st.blocked || (c.q.closed == c.cancelled) then none else some st
  | ["nresume"] =>
      if !inNext then none else
      let tvs := if st.tokU then [false, true] else [c.q.token]
      let outs := tvs.map (resumeOutcomes qne c.q.closed c.cancelled)
      if outs.any (·.isEmpty) then none else
      let flat := outs.flatten
      if !allSame (flat.map (fun o => (o.1, o.2.1))) then none else
      some { st with blocked := false, mustRes := false, tokU := !allSame (flat.map (·.2.2)) }
  | _ => none

def exec (st : St) (args : List String) : St × String × String :=
  let c := st.c
  let s := st.s
  match args with
  | ["ins", i] =>
      let i := i.toNat! % 4
      let r := Coalesce.insert c.q i
      let r' := s.insert i
      ({ st with c := { c with q := r.1 }, s := r'.1 }, renderIns r.2, renderIns r'.2)
  | ["pins", i] =>
      -- closed check + locked section of an Insert (LTS: pCheck; pInsert), token not yet posted
      let i := i.toNat! % 4
      let r' := s.insert i
      if c.q.closed then (st, "refused", renderIns r'.2) else
      match fireAll c [.pCheck i, .pInsert i] with
      | some c' =>
        ({ st with c := c', s := r'.1 }, (if c'.atP3 > c.atP3 then "fresh" else "dup"), renderIns r'.2)
      | none => (st, "bad-state", "bad-state")
  | ["pcheck", i] =>
      let i := i.toNat! % 4
      if c.q.closed then (st, "refused", "refused") else
      match fire c (.pCheck i) with
      | some c' => ({ st with c := c' }, "passed", "passed")
      | none => (st, "bad-state", "bad-state")
  | ["pinsert", i] =>
      -- the locked section of an Insert that passed its closed check earlier, possibly before
      -- Close (the sequential spec has no such call: its list is updated as by an open queue)
      let i := i.toNat! % 4
      match fire c (.pInsert i) with
      | some c' =>
        let o := if c'.atP3 > c.atP3 then "fresh" else "dup"
        let r' := ({ s with closed := false } : CoQ Nat).insert i
        ({ st with c := c', s := { r'.1 with closed := s.closed } }, o, renderIns r'.2)
      | none => (st, "bad-state", "bad-state")
  | ["ppost"] =>
      -- the token post of such an Insert (LTS: pPost)
      match fire c .pPost with
      | some c' => ({ st with c := c' }, "ok", "ok")
      | none => (st, "bad-state", "bad-state")
  | ["next", cc] =>
      let cancelled := cc == "1"
      let all := allPrefs.map (fun p => renderNext (Coalesce.next c.q cancelled p).2)
      let r := Coalesce.next c.q cancelled defaultPref
      ({ st with c := { c with q := r.1 }, s := s.afterNext r.2 }, renderSet all,
       renderSet ((s.nextAllowed cancelled).map renderNext))
  | ["len"] => (st, toString (len c.q), toString s.items.length)
  | ["close"] => ({ st with c := { c with q := Coalesce.close c.q }, s := s.close }, "ok", "ok")
  | ["isclosed"] => (st, toString (isClosed c.q), toString s.closed)
  | ["dump"] =>
      let f (qs : List Nat) (m : List (Nat × Nat)) (cl : Bool) : String :=
        "q=" ++ bracket (qs.map toString) ++ ";m=" ++
        bracket (sortStrs (m.map (fun kv => toString kv.1 ++ ":" ++ toString kv.2))) ++
        ";closed=" ++ toString cl
      (st, f c.q.queue c.q.coalesced c.q.closed, f (s.items.map (·.1)) s.items s.closed)
  | ["tok"] => let o := if c.q.token then "1" else "0"; (st, o, o)
  | ["nbegin"] =>
      match fire c (.cCall true) with
      | none => (st, "bad-state", "bad-state")
      | some c1 =>
        let r := settle 6 c1
        ({ st with c := r.1, s := specAfter s r.2 }, r.2, (specHead s).getD r.2)
  | ["cancel"] => ({ st with c := { c with cancelled := true } }, "ok", "ok")
  | ["nrelease"] => (st, "ok", "ok")
  | ["nresume"] =>
      match readyArms c with
      | [] => (st, "blocks", "blocks")
      | arms =>
        let outs := arms.map (fun a => (resumeArm c a).2)
        let a := (choose defaultPref arms).getD .ctx
        let r := resumeArm c a
        let o := renderSet outs
        let sp := match specHead s with
          | some h => if c.cancelled then o else h
          | none => o
        ({ st with c := r.1, s := specAfter s r.2 }, o, sp)
  | ["nresumec"] =>
      -- the select with the closed / ctx case chosen although the token may be ready too
      let a := if c.cancelled then Arm.ctx else Arm.closed
      let r := resumeArm c a
      let sp := match specHead s with
        | some h => if c.cancelled then r.2 else h
        | none => r.2
      ({ st with c := r.1, s := specAfter s r.2 }, r.2, sp)
  | "conc" :: _ => (st, "ok", "ok")
  | _ => (st, "bad-op", "bad-op")

def step (st : St) (args : List String) : St × String × String :=
  match args with
  | ["new"] => ({}, "ok", "ok")
  | _ =>
    match guard st args with
    | none => (st, "skip", "skip")
    | some st' => exec st' args

end Driver.CO
