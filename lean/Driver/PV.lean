import Gnmi.Model.PathConv
import Gnmi.Model.Value
import Gnmi.Model.QueryString
import Gnmi.Spec.PathIndex
import Driver.Codec
/-!
`pv` component (property C19): path indexing, client query conversion, scalar conversion and
value equality.  Stateless; `new` only delimits sequences.

Token syntax (no spaces; strings percent-encoded with `encStr`):
* gpath  `N` (nil) | `P;<target>;<origin>;<elems>;<element>` with
         elems `.` | (`/`name(`,`key`=`val)*)+  (`/!` = nil *PathElem), element = `encPath`
* tv     `N` `U` `s:<str>` `i:<int>` `u:<nat>` `b:0|1` `y:<bytes>` `f:<hex8>` `d:<hex16>`
         `m:<digits>:<prec>` `m!` `l(<tv>,…)` `l!` `a:<bytes>` `j:<bytes>` `J:<bytes>` `A:<str>` `p:<bytes>`
* scalar `str:<bytes>` `int|i8|i16|i32|i64:<int>` `uint|u8|u16|u32|u64:<nat>` `f32:<hex8>` `f64:<hex16>`
         `bool:0|1` `bytes:<bytes>` `strs(<str>,…)` `list(<scalar>,…)` `other` (+ output only `json`/`jsonietf`)

Operations → observations:
* `pv tostr <gpath> <0|1>`        → `[<path>]`   (Go: 20 evaluations, `nondet:…` if they differ)
* `pv complete <gpath> <gpath>`   → `[<path>]` | `err`
* `pv q2req <query path>…`        → `[<gpath>|…]` | `err` | `panic`   (one gpath per query, keys sorted)
* `pv scalar <scalar>`            → `<tv>=><scalar>` | `err`          (FromScalar, then ToScalar of the result)
* `pv toscalar <tv>`              → `<scalar>` | `err` | `panic`
* `pv equal <tv> <tv>`            → `<ab>,<ba>` each `true|false|panic`  (both directions)
The spec column is `specIndex` / `specComplete` / the query itself for plain queries / the widened
scalar / `specEqual` (never `panic`), and repeats the model column where the property is silent
(non-plain queries, typed values outside `payloadOK`, `toscalar`).
-/
namespace Driver.PV
open Gnmi Gnmi.PV Driver

structure St where
  dummy : Unit := ()

/-! float instance (driver only) -/
instance : FloatOps Float32 Float where
  feq32 x y := x == y
  feq64 x y := x == y
  widen f := f.toFloat
  decToF d p := (Float.ofInt d / Float.pow 10.0 (Float.ofNat p)).toFloat32

abbrev T := TV Float32 Float
abbrev S := Scalar Float32 Float
instance : Inhabited T := ⟨.unset⟩
instance : Inhabited S := ⟨.other⟩

/-! ## small char-list utilities -/

def splitChar (sep : Char) (cs : List Char) : List (List Char) :=
  let rec go (cs : List Char) (cur : List Char) (acc : List (List Char)) : List (List Char) :=
    match cs with
    | [] => (cur.reverse :: acc).reverse
    | c :: r => if c == sep then go r [] (cur.reverse :: acc) else go r (c :: cur) acc
  go cs [] []

def str (cs : List Char) : String := String.ofList cs

def hexNat (cs : List Char) : Nat := cs.foldl (fun a c => a * 16 + hexVal c) 0

def hexOf (n : Nat) (digits : Nat) : String :=
  String.ofList ((List.range digits).reverse.map (fun i => hexDigit ((n / 16 ^ i) % 16)))

def decBytesL (cs : List Char) : Bytes :=
  if cs == ['~'] then [] else (decBytes cs ByteArray.empty).toList

def encBytes (b : Bytes) : String :=
  if b.isEmpty then "~" else
  b.foldl (fun acc b =>
    if plainByte b then acc.push (Char.ofNat b.toNat)
    else (acc.push '%').push (hexDigit (b.toNat / 16)) |>.push (hexDigit (b.toNat % 16))) ""

/-! ## gpath codec -/

def decElem (cs : List Char) : PathElem :=
  if cs == ['!'] then {} else
  match splitChar ',' cs with
  | [] => {}
  | n :: kvs =>
    { name := decStr (str n),
      key := kvs.map (fun kv => match splitChar '=' kv with
        | [k, v] => (decStr (str k), decStr (str v))
        | _ => ("?", "?")) }

def decGPath (s : String) : Option GPath :=
  if s == "N" then none else
  match splitChar ';' s.toList with
  | [_, t, o, es, el] =>
    some { target := decStr (str t), origin := decStr (str o),
           elem := if es == ['.'] then [] else ((splitChar '/' es).drop 1).map decElem,
           element := decPath (str el) }
  | _ => some {}

def encKVs (m : List (String × String)) : String :=
  let l := m.mergeSort (fun a b => decide (a.1 ≤ b.1))
  String.join (l.map (fun kv => "," ++ encStr kv.1 ++ "=" ++ encStr kv.2))

def encGPath (p : GPath) : String :=
  "P;" ++ encStr p.target ++ ";" ++ encStr p.origin ++ ";" ++
    (if p.elem.isEmpty then "." else String.join (p.elem.map (fun e => "/" ++ encStr e.name ++ encKVs e.key))) ++
    ";" ++ encPath p.element

/-! ## float rendering (NaN canonicalised; never float text) -/

def encF32 (f : Float32) : String := if f.isNaN then "nan" else hexOf f.toBits.toNat 8
def encF64 (d : Float) : String := if d.isNaN then "nan" else hexOf d.toBits.toNat 16

/-! ## tv codec -/

/-- split a comma separated list at nesting depth 0 -/
def splitTop (cs : List Char) : List (List Char) :=
  let rec go (cs : List Char) (depth : Nat) (cur : List Char) (acc : List (List Char)) : List (List Char) :=
    match cs with
    | [] => (cur.reverse :: acc).reverse
    | c :: r =>
      if c == ',' && depth == 0 then go r depth [] (cur.reverse :: acc)
      else if c == '(' then go r (depth + 1) (c :: cur) acc
      else if c == ')' then go r (depth - 1) (c :: cur) acc
      else go r depth (c :: cur) acc
  if cs.isEmpty then [] else go cs 0 [] []

def toInt (cs : List Char) : Int := (str cs).toInt?.getD 0
def toNat (cs : List Char) : Nat := (str cs).toNat?.getD 0

partial def decTV (cs : List Char) : T :=
  match cs with
  | ['N'] => .nilMsg
  | ['U'] => .unset
  | 's' :: ':' :: r => .stringVal (decStr (str r))
  | 'i' :: ':' :: r => .intVal (toInt r)
  | 'u' :: ':' :: r => .uintVal (toNat r)
  | 'b' :: ':' :: r => .boolVal (r == ['1'])
  | 'y' :: ':' :: r => .bytesVal (decBytesL r)
  | 'f' :: ':' :: r => .floatVal (Float32.ofBits (UInt32.ofNat (hexNat r)))
  | 'd' :: ':' :: r => .doubleVal (Float.ofBits (UInt64.ofNat (hexNat r)))
  | ['m', '!'] => .decimalNil
  | 'm' :: ':' :: r =>
    match splitChar ':' r with
    | [d, p] => .decimalVal (toInt d) (toNat p)
    | _ => .unset
  | ['l', '!'] => .leaflistNil
  | 'l' :: '(' :: r => .leaflistVal ((splitTop r.dropLast).map decTV)
  | 'a' :: ':' :: r => .anyVal (decBytesL r)
  | 'j' :: ':' :: r => .jsonVal (decBytesL r)
  | 'J' :: ':' :: r => .jsonIetfVal (decBytesL r)
  | 'A' :: ':' :: r => .asciiVal (decStr (str r))
  | 'p' :: ':' :: r => .protoBytes (decBytesL r)
  | _ => .unset

partial def encTV : T → String
  | .nilMsg => "N"
  | .unset => "U"
  | .stringVal s => "s:" ++ encStr s
  | .intVal i => "i:" ++ toString i
  | .uintVal n => "u:" ++ toString n
  | .boolVal b => "b:" ++ (if b then "1" else "0")
  | .bytesVal b => "y:" ++ encBytes b
  | .floatVal f => "f:" ++ encF32 f
  | .doubleVal d => "d:" ++ encF64 d
  | .decimalVal d p => "m:" ++ toString d ++ ":" ++ toString p
  | .decimalNil => "m!"
  | .leaflistVal l => "l(" ++ ",".intercalate (l.map encTV) ++ ")"
  | .leaflistNil => "l!"
  | .anyVal b => "a:" ++ encBytes b
  | .jsonVal b => "j:" ++ encBytes b
  | .jsonIetfVal b => "J:" ++ encBytes b
  | .asciiVal s => "A:" ++ encStr s
  | .protoBytes b => "p:" ++ encBytes b

/-! ## scalar codec -/

def intKind? (k : String) : Option IntKind :=
  match k with
  | "int" => some .int | "i8" => some .i8 | "i16" => some .i16 | "i32" => some .i32 | "i64" => some .i64
  | _ => none
def uintKind? (k : String) : Option UIntKind :=
  match k with
  | "uint" => some .uint | "u8" => some .u8 | "u16" => some .u16 | "u32" => some .u32 | "u64" => some .u64
  | _ => none

def decStrOrBad (cs : List Char) : S :=
  if cs == ['~'] then .str "" else
  match String.fromUTF8? (decBytes cs ByteArray.empty) with
  | some r => .str r
  | none => .badStr

partial def decScalar (cs : List Char) : S :=
  if cs == "other".toList then .other else
  if cs.take 5 == "strs(".toList then
    .strs ((splitTop (cs.drop 5).dropLast).map (fun e => decStr (str e)))
  else if cs.take 5 == "list(".toList then
    .list ((splitTop (cs.drop 5).dropLast).map decScalar)
  else
    match splitChar ':' cs with
    | [k, v] =>
      let k := str k
      match intKind? k, uintKind? k with
      | some ik, _ => .int ik (toInt v)
      | _, some uk => .uint uk (toNat v)
      | _, _ =>
        match k with
        | "str" => decStrOrBad v
        | "f32" => .f32 (Float32.ofBits (UInt32.ofNat (hexNat v)))
        | "f64" => .f64 (Float.ofBits (UInt64.ofNat (hexNat v)))
        | "bool" => .bool (v == ['1'])
        | "bytes" => .bytes (decBytesL v)
        | _ => .other
    | _ => .other

def encIntKind : IntKind → String
  | .int => "int" | .i8 => "i8" | .i16 => "i16" | .i32 => "i32" | .i64 => "i64"
def encUIntKind : UIntKind → String
  | .uint => "uint" | .u8 => "u8" | .u16 => "u16" | .u32 => "u32" | .u64 => "u64"

partial def encScalar : S → String
  | .str s => "str:" ++ encStr s
  | .badStr => "badstr"
  | .int k v => encIntKind k ++ ":" ++ toString v
  | .uint k v => encUIntKind k ++ ":" ++ toString v
  | .f32 f => "f32:" ++ encF32 f
  | .f64 d => "f64:" ++ encF64 d
  | .bool b => "bool:" ++ (if b then "1" else "0")
  | .strs l => "strs(" ++ ",".intercalate (l.map encStr) ++ ")"
  | .bytes b => "bytes:" ++ encBytes b
  | .list l => "list(" ++ ",".intercalate (l.map encScalar) ++ ")"
  | .other => "other"
  | .json false _ => "json"
  | .json true _ => "jsonietf"

/-! ## observations -/

def obsOutcome {α : Type} (f : α → String) : Outcome α → String
  | .ok a => f a
  | .err => "err"
  | .panic => "panic"

def obsBool (b : Bool) : String := if b then "true" else "false"

/-- `pv scalar`: FromScalar, then ToScalar of the result -/
def scalarObs (s : S) : String :=
  match (fromScalar s : Outcome T) with
  | .ok tv => encTV tv ++ "=>" ++ obsOutcome encScalar (toScalar tv)
  | .err => "err"
  | .panic => "panic"

/-- what the property demands of `pv scalar`: supported scalars come back widened -/
def scalarSpec (s : S) : String :=
  if supported s then
    match (fromScalar s : Outcome T) with
    | .ok tv => encTV tv ++ "=>" ++ encScalar (widenScalar s)
    | _ => "must-succeed"
  else "err"

/-- what the property demands of `pv equal`: a Boolean in both directions (totality), the same
one (symmetry), `true` only for the same value (soundness) = `specEqual`.  Outside the input
restriction `payloadOK` the property is silent and the column repeats the model. -/
def equalSpec (a b : T) (modelObs : String) : String :=
  if payloadOK a && payloadOK b then
    obsBool (specEqual a b) ++ "," ++ obsBool (specEqual b a)
  else modelObs

def queryObs (qs : List (List String)) : String :=
  let rec go : List (List String) → Outcome (List String)
    | [] => .ok []
    | q :: r =>
      match queryToPath q with
      | .panic => .panic
      | .err => .err
      | .ok p => match go r with
        | .ok ps => .ok (encGPath p :: ps)
        | o => o
  obsOutcome (fun l => "[" ++ "|".intercalate l ++ "]") (go qs)

/-- plain queries must arrive as themselves; the property is silent about the others -/
def querySpec (qs : List (List String)) (modelObs : String) : String :=
  if qs.all (fun q => q.all plain) then "[" ++ "|".intercalate (qs.map (fun q => encGPath (specQueryPath q))) ++ "]"
  else modelObs

def step (s : St) (args : List String) : St × String × String :=
  match args with
  | ["new"] => (s, "ok", "ok")
  | ["tostr", p, b] =>
      let gp := decGPath p
      (s, bracket [encPath (toStrings gp (b == "1"))], bracket [encPath (specIndex gp (b == "1"))])
  | ["complete", a, b] =>
      let pa := decGPath a; let pb := decGPath b
      let m := match completePath pa pb with
        | .ok r => bracket [encPath r]
        | .error _ => "err"
      let sp := match specComplete pa pb with
        | some r => bracket [encPath r]
        | none => "err"
      (s, m, sp)
  | "q2req" :: qs =>
      let qs := qs.map decPath
      let m := queryObs qs
      (s, m, querySpec qs m)
  | ["scalar", x] =>
      let sc := decScalar x.toList
      (s, scalarObs sc, scalarSpec sc)
  | ["toscalar", x] =>
      let m := obsOutcome encScalar (toScalar (decTV x.toList))
      (s, m, m)
  | ["equal", a, b] =>
      let ta := decTV a.toList; let tb := decTV b.toList
      let m := obsOutcome obsBool (equal ta tb) ++ "," ++ obsOutcome obsBool (equal tb ta)
      (s, m, equalSpec ta tb m)
  | _ => (s, "bad-op", "bad-op")

end Driver.PV
