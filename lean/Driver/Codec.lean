import Gnmi.Basic
/-!
Line-protocol codec shared by all driver components (see DESIGN.md, "The line
protocol").  Strings are percent-encoded (`[A-Za-z0-9_.*-]` literal, every other byte
`%XX`); the empty string is `%`... no: the empty string is encoded as `%00`-free `~`.
A path is `.` when empty, otherwise the concatenation of `/` ++ enc(element).
-/
namespace Driver
open Gnmi

def hexDigit (n : Nat) : Char :=
  if n < 10 then Char.ofNat (48 + n) else Char.ofNat (55 + n)

def hexVal (c : Char) : Nat :=
  if '0' ≤ c ∧ c ≤ '9' then c.toNat - 48
  else if 'A' ≤ c ∧ c ≤ 'F' then c.toNat - 55
  else if 'a' ≤ c ∧ c ≤ 'f' then c.toNat - 87
  else 0

def plainByte (b : UInt8) : Bool :=
  (48 ≤ b && b ≤ 57) || (65 ≤ b && b ≤ 90) || (97 ≤ b && b ≤ 122) ||
  b == 95 || b == 46 || b == 42 || b == 45

/-- percent-encode; the empty string is `~` -/
def encStr (s : String) : String :=
  if s.isEmpty then "~" else
  s.toUTF8.foldl (fun acc b =>
    if plainByte b then acc.push (Char.ofNat b.toNat)
    else (acc.push '%').push (hexDigit (b.toNat / 16)) |>.push (hexDigit (b.toNat % 16))) ""

partial def decBytes (cs : List Char) (acc : ByteArray) : ByteArray :=
  match cs with
  | [] => acc
  | '%' :: a :: b :: r => decBytes r (acc.push (UInt8.ofNat (hexVal a * 16 + hexVal b)))
  | c :: r => decBytes r (acc.push (UInt8.ofNat c.toNat))

def decStr (s : String) : String :=
  if s == "~" then "" else
  match String.fromUTF8? (decBytes s.toList ByteArray.empty) with
  | some r => r
  | none => "�"

def encPath (p : Path) : String :=
  match p with
  | [] => "."
  | _ => String.join (p.map (fun e => "/" ++ encStr e))

def decPath (s : String) : Path :=
  if s == "." then [] else
  match s.splitOn "/" with
  | _ :: r => r.map decStr
  | [] => []

def sortStrs (l : List String) : List String := l.mergeSort (fun a b => decide (a ≤ b))

def bracket (l : List String) : String := "[" ++ ",".intercalate l ++ "]"

end Driver
