import Gnmi.Model.RecvSurfaces
import Driver.PV
/-!
`rx` component (property C12, receive surfaces other than cache ingest): one abstract decoded
message (or a short sequence) is pushed through the model of a surface; the observation is
`ok:<digest>` | `err[:<class>]` | `panic`.  Stateless; `new` only delimits sequences.

Token syntax (no spaces; strings percent-encoded with `encStr`; gpath / tv as in `Driver/PV`):
* update   `!` (nil entry) | `<gpath>|<tv>|<old>|<dup>` with old `-` | `<encoding number>:<bytes>`
* noti     `<ts>^<gpath>^<A|N>^<updates>^<deletes>`   lists `-` (empty) or joined by `+`
* resp     `X` (nil message) `Z` (oneof unset) `U!` (nil payload) `U<noti>` `S0|S1` `E0|E1`
* resps    `-` | resp(`&`resp)*
* req      `X` `Z` `P` `S!` | `S<gpath>^<mode number>^<0|1 updates_only>^<subs>` subs `-` | (`!`|gpath)(`+`…)*
* cache    `-` | target(`+`target)*  with target `<name>=` [`<path>:<int>`(`,`…)*]
* stored   `F` (foreign value) | `!` (typed nil notification) | `<noti>`

Operations → observations:
* `rx sub <cache> <nodup 0|1> <req>`  → `ok:[<sent keys, sorted, distinct>]:<synced 0|1>` | `err:<code>` | `panic`
* `rx mk <nodup> <stored> <dup>`      → `<MakeSubscribeResponse>,<isTargetDelete>,<Server.Update>`
                                         = `ok:<dup of first update|->`|`err`|`panic` , `true|false|panic` , `ok|panic`
* `rx recv <o|p|s> <resps>`           → `ok|err` `:[<leaf>=<ts>:<scalar>,…]` | `panic`   (CacheClient tree after Subscribe returned)
* `rx cli <g|s|p|sp|x> <o|p|s|u> <off|on|raw|layout> <full|count> <resps>`
                                       → `ok:<number of Display calls>:<fnv32 of their text|->` | `err` | `panic`
* `rx clitext …` same arguments        → the text itself (debugging aid)
* `rx mgr <resp>`                     → `ok:update:<#updates>:<#deletes>` | `ok:update:nil` | `ok:sync` | `err` | `panic`
* `rx fuzz <r|c|m|s> <seed> <n>`      → `ok` | `panic:<hex wire bytes>`   (search only: n mutated wire encodings of the
                                         enumerated messages, decoded with `proto.Unmarshal`, pushed through one surface)
The spec column is the model column with `panic` replaced by `must-not-panic` whenever the
input is WireValid: the property monitor is "no panic on WireValid input".
-/
namespace Driver.RX
open Gnmi Gnmi.PV Gnmi.RX Driver Driver.PV

structure St where
  dummy : Unit := ()

abbrev Upd := Update Float32 Float
abbrev Noti := Notification Float32 Float
abbrev Resp := Response Float32 Float
abbrev CV := CVal Float32 Float

/-! ## parsing -/

def splitStr (sep : Char) (s : String) : List String := (splitChar sep s.toList).map str

def parseOld (s : String) : Option OldValue :=
  if s == "-" then none else
  match splitChar ':' s.toList with
  | [t, b] => some { type := toNat t, value := decBytesL b }
  | _ => some {}

def parseUpd (s : String) : Option Upd :=
  if s == "!" then none else
  match splitStr '|' s with
  | [p, v, o, d] => some { path := decGPath p, val := decTV v.toList, value := parseOld o, dup := d.toNat?.getD 0 }
  | _ => some {}

def parseList {α : Type} (f : String → α) (s : String) : List α :=
  if s == "-" then [] else (splitStr '+' s).map f

def parseNoti (s : String) : Noti :=
  match splitStr '^' s with
  | [ts, p, a, us, ds] =>
    { ts := ts.toInt?.getD 0, pfx := decGPath p, atomic := a == "A",
      update := parseList parseUpd us, delete := parseList decGPath ds }
  | _ => {}

def parseResp (s : String) : Resp :=
  match s.toList with
  | ['X'] => .nilMsg
  | ['Z'] => .unset
  | ['U', '!'] => .update none
  | 'U' :: r => .update (some (parseNoti (str r)))
  | ['S', b] => .sync (b == '1')
  | ['E', b] => .error (b == '1')
  | _ => .unset

def parseResps (s : String) : List Resp :=
  if s == "-" then [] else (splitStr '&' s).map parseResp

def parseSub (s : String) : Option Subscription :=
  if s == "!" then none else some { path := decGPath s }

def parseReq (s : String) : Request :=
  match s.toList with
  | ['X'] => .nilMsg
  | ['Z'] => .unset
  | ['P'] => .poll
  | ['S', '!'] => .subscribe none
  | 'S' :: r =>
    match splitStr '^' (str r) with
    | [p, m, uo, subs] =>
      .subscribe (some { pfx := decGPath p, mode := m.toNat?.getD 99, updatesOnly := uo == "1",
                         subs := parseList parseSub subs })
    | _ => .unset
  | _ => .unset

/-- the notification the harness ingests for cache leaf `path = v` of `target` -/
def leafNoti (target : String) (p : Path) (v : Int) : Noti :=
  { ts := v + 1, pfx := some { target := target },
    update := [some { path := some { elem := p.map (fun e => { name := e }) }, val := .intVal v }] }

def parseCache (s : String) : CacheView Float32 Float :=
  if s == "-" then [] else
  (splitStr '+' s).map (fun t =>
    match splitStr '=' t with
    | [n, ls] =>
      let name := decStr n
      { name := name,
        leaves := if ls.isEmpty then [] else (splitStr ',' ls).map (fun l =>
          match splitStr ':' l with
          | [p, v] => (decPath p, Stored.noti (some (leafNoti name (decPath p) (v.toInt?.getD 0))))
          | _ => ([], .foreign)) }
    | _ => { name := "?" })

def parseStored (s : String) : Stored Float32 Float :=
  if s == "F" then .foreign else if s == "!" then .noti none else .noti (some (parseNoti s))

def parseQT (s : String) : QType :=
  if s == "o" then .once else if s == "p" then .poll else if s == "s" then .stream else .unknown

def parseDT (s : String) : DisplayType :=
  if s == "g" then .group else if s == "s" then .single else if s == "p" then .proto
  else if s == "sp" then .shortproto else .unknown

def parseTM (s : String) : TsMode :=
  if s == "off" then .off else if s == "on" then .on else if s == "raw" then .raw else .layout

/-! ## JSON payloads: the generator draws from this table only -/

def jsonTable : List (String × String) :=
  [("{}", "jmap"), ("{\"a\":1}", "jmap"), ("1", "f64:3FF0000000000000"), ("\"x\"", "str:x"),
   ("[1]", "list(f64:3FF0000000000000)"), ("null", "jnull"), ("true", "bool:1")]

def bytesStr (b : Bytes) : String := (String.fromUTF8? (ByteArray.mk b.toArray)).getD "�"

def jv (b : Bytes) : Bool := jsonTable.any (fun kv => kv.1 == bytesStr b)

def renderOldJson (b : Bytes) : String :=
  match jsonTable.find? (fun kv => kv.1 == bytesStr b) with
  | some kv => kv.2
  | none => "?"

/-! ## rendering -/

def renderCV : CV → String
  | .scalar s => encScalar s
  | .oldBytes b => "bytes:" ++ encBytes b
  | .oldJson b => renderOldJson b
  | .nil => "nil"

def renderLeaves (t : CTree Float32 Float) : String :=
  bracket ((Trie.walkSorted t).map (fun kv => encPath kv.1 ++ "=" ++ toString kv.2.ts ++ ":" ++ renderCV kv.2.val))

def dedup : List String → List String
  | a :: b :: r => if a == b then dedup (b :: r) else a :: dedup (b :: r)
  | l => l

def renderErrSub : ErrClass → String
  | .invalidArgument => "err:invalid"
  | .notFound => "err:notfound"
  | .permissionDenied => "err:denied"
  | .unauthenticated => "err:unauthenticated"
  | _ => "err:unknown"

/-- Go `%q` for strings of printable ASCII -/
def quote (s : String) : String :=
  "\"" ++ String.join (s.toList.map (fun c =>
    if c == '"' then "\\\"" else if c == '\\' then "\\\\" else String.singleton c)) ++ "\""

/-- `fmt %v` of a scalar (renderable classes only) -/
partial def fmtV : Scalar Float32 Float → String
  | .str s => s
  | .int _ v => toString v
  | .uint _ v => toString v
  | .bool b => if b then "true" else "false"
  | .list l => "[" ++ " ".intercalate (l.map fmtV) ++ "]"
  | _ => "?"

/-- `valStr` of a scalar -/
partial def valStrS : Scalar Float32 Float → String
  | .str s => quote s
  | .list l => "[" ++ ", ".intercalate (l.map valStrS) ++ "]"
  | s => fmtV s

def fmtCV : CV → String
  | .scalar s => fmtV s
  | .nil => "<nil>"
  | _ => "?"

def valStrDV : DV Float32 Float → String
  | .cval (.scalar s) => valStrS s
  | .cval .nil => "<nil>"
  | .cval _ => "?"
  | .tsRaw ns => toString ns
  | .tsText _ _ => quote "x"          -- the harness uses the layout "x" (no layout token)

def fmtDV : DV Float32 Float → String
  | .cval v => fmtCV v
  | .tsRaw ns => toString ns
  | .tsText _ _ => "x"

/-- `pathmap.str(prefix = "", indent = "  ", curindent)` -/
partial def pmStr (m : PMap' (DV Float32 Float)) (cur : String) : String :=
  let ind := "  "
  let keys := sortStrs (m.map (·.1))
  let vals := keys.map (fun k =>
    cur ++ ind ++ quote k ++ ": " ++
      (match pmGet m k with
       | some (.map mm) => pmStr mm (cur ++ ind)
       | some (.val v) => valStrDV v
       | none => "?"))
  "{\n" ++ ",\n".intercalate vals ++ "\n" ++ cur ++ "}"

def shownText : Shown Float32 Float → String
  | .group m => pmStr m ""
  | .line p v ts =>
    "/".intercalate p ++ ", " ++ fmtCV v ++
      (match ts with
       | some t => ", " ++ fmtDV t
       | none => "")
  | .proto _ => "proto"

def fnv32 (s : String) : Nat :=
  s.toUTF8.foldl (fun h b => ((h ^^^ b.toNat) * 16777619) % 4294967296) 2166136261

def obsCli (full : Bool) (text : Bool) (o : RX.Outcome (List (Shown Float32 Float))) : String :=
  match o with
  | .panic => "panic"
  | .err _ => "err"
  | .ok l =>
    let body := "\x1e".intercalate (l.map shownText)
    if text then "ok:" ++ toString l.length ++ ":" ++ encStr body
    else "ok:" ++ toString l.length ++ ":" ++ (if full then toString (fnv32 body) else "-")

/-- spec column: on WireValid input a panic is a violation -/
def spec (wire : Bool) (m : String) : String :=
  if wire && (m.splitOn "panic").length > 1 then "must-not-panic" else m

def step (s : St) (args : List String) : St × String × String :=
  match args with
  | ["new"] => (s, "ok", "ok")
  | ["sub", c, nd, r] =>
    let cv := parseCache c
    let req := parseReq r
    let m := match subscribe cv (nd == "1") (fun _ => 0) req with
      | .panic => "panic"
      | .err e => renderErrSub e
      | .ok o => "ok:" ++ bracket (dedup (sortStrs (o.sent.map encPath))) ++ ":" ++ (if o.synced then "1" else "0")
    (s, m, spec true m)          -- the fixed cache is WireValid; requests need no restriction
  | ["mk", nd, st, d] =>
    let stv := parseStored st
    let dup := d.toNat?.getD 0
    let a := match makeResponse (nd == "1") stv dup with
      | .panic => "panic"
      | .err _ => "err"
      | .ok none => "ok:-"
      | .ok (some n) =>
        match n.update with
        | some u :: _ => "ok:" ++ toString u.dup
        | _ => "ok:-"
    let b := match isTargetDelete stv with
      | none => "panic"
      | some true => "true"
      | some false => "false"
    let c := match offeredPaths stv with
      | none => "panic"
      | some _ => "ok"
    let m := a ++ "," ++ b ++ "," ++ c
    (s, m, spec stv.wireValid m)
  | ["recv", qt, rs] =>
    let rs := parseResps rs
    let r := cacheClientRun jv (parseQT qt) .empty rs
    let m := match r.1 with
      | .panic => "panic"
      | .err _ => "err:" ++ renderLeaves r.2
      | .ok () => "ok:" ++ renderLeaves r.2
    (s, m, spec (rs.all (·.wireValid)) m)
  | [op, dt, qt, tm, mode, rs] =>
    if op == "cli" || op == "clitext" then
      let rs := parseResps rs
      let m := obsCli (mode == "full") (op == "clitext") (queryDisplay jv (parseDT dt) (parseQT qt) (parseTM tm) rs)
      (s, m, spec (rs.all (·.wireValid)) m)
    else (s, "bad-op", "bad-op")
  | ["mgr", r] =>
    let r := parseResp r
    let m := match handleGNMIUpdate r with
      | .panic => "panic"
      | .err _ => "err"
      | .ok .sync => "ok:sync"
      | .ok (.update none) => "ok:update:nil"
      | .ok (.update (some n)) => "ok:update:" ++ toString n.update.length ++ ":" ++ toString n.delete.length
    (s, m, spec r.wireValid m)
  | ["fuzz", _, _, _] => (s, "ok", "ok")     -- wire-byte fuzzing (search): the only claim is "no panic"
  | _ => (s, "bad-op", "bad-op")

end Driver.RX
