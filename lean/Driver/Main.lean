import Driver.CT
import Driver.CA
import Driver.TG
import Driver.MA
import Driver.PV
import Driver.FQ
import Driver.CO
import Driver.LT
import Driver.SU
import Driver.MG
import Driver.CN
import Driver.RC
import Driver.CC
import Driver.RX
import Driver.E2E
import Driver.MD
import Driver.FX
import Driver.FA
import Driver.WI
import Driver.E2EW
import Driver.MH
/-!
Line-protocol driver: one operation per input line, one observation per output line:
`<model observation>\t<spec observation>`.  First token selects the component.
-/
open Driver

structure All where
  ct : CT.St := {}
  ca : CA.St := {}
  tg : TG.St := {}
  ma : MA.St := {}
  pv : PV.St := {}
  fq : FQ.St := {}
  co : CO.St := {}
  lt : LT.St := {}
  su : SU.St := {}
  mg : MG.St := {}
  cn : CN.St := {}
  rc : RC.St := {}
  cc : CC.St := {}
  rx : RX.St := {}
  e2e : E2E.St := {}
  md : MD.St := {}
  fx : FX.St := {}
  fa : FA.St := {}
  wi : WI.St := {}
  e2ew : E2EW.St := {}
  mh : MH.St := {}

def stepAll (s : All) (line : String) : All × String :=
  match (line.trimAscii.toString.splitOn " ").filter (· ≠ "") with
  | "ct" :: args =>
      let (c, a, b) := CT.step s.ct args
      ({ s with ct := c }, a ++ "\t" ++ b)
  | "ca" :: args =>
      let (c, a, b) := CA.step s.ca args
      ({ s with ca := c }, a ++ "\t" ++ b)
  | "tg" :: args =>
      let (c, a, b) := TG.step s.tg args
      ({ s with tg := c }, a ++ "\t" ++ b)
  | "ma" :: args =>
      let (c, a, b) := MA.step s.ma args
      ({ s with ma := c }, a ++ "\t" ++ b)
  | "pv" :: args =>
      let (c, a, b) := PV.step s.pv args
      ({ s with pv := c }, a ++ "\t" ++ b)
  | "fq" :: args =>
      let (c, a, b) := FQ.step s.fq args
      ({ s with fq := c }, a ++ "\t" ++ b)
  | "co" :: args =>
      let (c, a, b) := CO.step s.co args
      ({ s with co := c }, a ++ "\t" ++ b)
  | "lt" :: args =>
      let (c, a, b) := LT.step s.lt args
      ({ s with lt := c }, a ++ "\t" ++ b)
  | "su" :: args =>
      let (c, a, b) := SU.step s.su args
      ({ s with su := c }, a ++ "\t" ++ b)
  | "mg" :: args =>
      let (c, a, b) := MG.step s.mg args
      ({ s with mg := c }, a ++ "\t" ++ b)
  | "cn" :: args =>
      let (c, a, b) := CN.step s.cn args
      ({ s with cn := c }, a ++ "\t" ++ b)
  | "rc" :: args =>
      let (c, a, b) := RC.step s.rc args
      ({ s with rc := c }, a ++ "\t" ++ b)
  | "cc" :: args =>
      let (c, a, b) := CC.step s.cc args
      ({ s with cc := c }, a ++ "\t" ++ b)
  | "e2e" :: args =>
      let (c, a, b) := E2E.step s.e2e args
      ({ s with e2e := c }, a ++ "\t" ++ b)
  | "rx" :: args =>
      let (c, a, b) := RX.step s.rx args
      ({ s with rx := c }, a ++ "\t" ++ b)
  | "fx" :: args =>
      let (c, a, b) := FX.step s.fx args
      ({ s with fx := c }, a ++ "\t" ++ b)
  | "mh" :: args =>
      let (c, a, b) := MH.step s.mh args
      ({ s with mh := c }, a ++ "\t" ++ b)
  | "e2ew" :: args =>
      let (c, a, b) := E2EW.step s.e2ew args
      ({ s with e2ew := c }, a ++ "\t" ++ b)
  | "wi" :: args =>
      let (c, a, b) := WI.step s.wi args
      ({ s with wi := c }, a ++ "\t" ++ b)
  | "fa" :: args =>
      let (c, a, b) := FA.step s.fa args
      ({ s with fa := c }, a ++ "\t" ++ b)
  | "md" :: args =>
      let (c, a, b) := MD.step s.md args
      ({ s with md := c }, a ++ "\t" ++ b)
  | [] => (s, "")
  | _ => (s, "bad-component\tbad-component")

partial def loop (h : IO.FS.Stream) (out : IO.FS.Stream) (s : All) : IO Unit := do
  let line ← h.getLine
  if line.isEmpty then return ()
  let (s', o) := stepAll s line
  out.putStrLn o
  loop h out s'

def main : IO Unit := do
  let out ← IO.getStdout
  loop (← IO.getStdin) out {}
  out.flush
