import Gnmi.Model.Latency
import Gnmi.Spec.Latency
import Driver.Codec
/-!
`lt` component: `latency.Latency` (model = `Gnmi.Latency.L`, spec = `Bounded` over the digested
call history `Hist`).

Tokens (all numbers are decimal `Int` nanoseconds):

  new <sizes> <prec>   → `ok`      sizes = `-` | `n,n,…` (window sizes); prec = `nil` (opts == nil) | n
  compute <now> <ts>   → `ok` | `panic`          `Compute(ts)` with `latency.Now() = now`
  update <now>         → `[writes] mon=<ok|na>`  `UpdateReset` with `latency.Now() = now`
  last <now>           → `[writes] mon=<ok|na>`  `UpdateLast`
  stale                → `[entries]` | `na`      exported (= last written) statistics of the configured
                                                 windows covering at least one sample at the latest
                                                 update that are *not* `Bounded` by those samples
                                                 (what the code does)
  nostale              → `[]` | `na`             the same question; the answer the stronger reading
                                                 of the property demands (`Props/C15Latency.exported_bounds`)
  parse <dur> <period> → `ok` | `notmult` | `panic`   `ParseWindows([dur], period)`

A write / entry is `<stat>@<size>=<value>`, lists are sorted.  `mon` is the Go side's
model-independent monitor (every written value against the true smallest/largest of the samples
the window covers, from the harness's own log); it applies (`ok`) while the update clock readings
have been non-decreasing and the precision is positive — the hypotheses of `latency_bounds` —
and is `na` otherwise.  On this side `mon=ok` is what the theorem says; as a run-time cross-check of
the driver itself the decidable `Bounded` is evaluated on every model write (`SPEC-FAIL` if not).
-/
namespace Driver.LT
open Gnmi Gnmi.Latency Driver

structure St where
  l : L := { sf := 1 }
  h : Hist := {}
  sizes : List Int := []
  mono : Bool := true
  last : Option Int := none
  ws : List Write := []

def decInt (s : String) : Option Int := s.toInt?

def decSizes (s : String) : Option (List Int) :=
  if s == "-" then some [] else (s.splitOn ",").mapM decInt

def encStat : Stat → String
  | .avg => "avg"
  | .max => "max"
  | .min => "min"

def encEntry (size : Int) (st : Stat) (v : Int) : String :=
  encStat st ++ "@" ++ toString size ++ "=" ++ toString v

def encWrites (ws : List Write) : String :=
  bracket (sortStrs (ws.map (fun w => encEntry w.size w.stat w.val)))

/-- the hypotheses of `latency_bounds` hold for the history so far -/
def applies (s : St) : Bool := s.mono && decide (0 < s.l.sf)

def doUpdate (s : St) (now : Int) (ign : Bool) : St × String × String :=
  let r := s.l.update now ign
  let h' := s.h.step (.update now ign)
  let mono' := s.mono && (match s.last with | none => true | some t => decide (t ≤ now))
  let s' : St := { s with l := r.1, h := h', mono := mono', last := some now, ws := s.ws ++ r.2 }
  let mon :=
    if applies s' then
      (if r.2.all (fun w => decide (Bounded s.l.sf (h'.window w.size now) w.stat w.val)) then "ok" else "SPEC-FAIL")
    else "na"
  let o := encWrites r.2 ++ " mon=" ++ mon
  (s', o, o)

/-- exported entries of the configured windows that are not bounded by what the window covers -/
def staleEntries (s : St) : List String :=
  match s.last with
  | none => []
  | some now =>
    (s.sizes.eraseDups.flatMap (fun size =>
      (if (s.h.window size now).isEmpty then [] else [Stat.avg, Stat.max, Stat.min]).filterMap (fun st =>
        match exported s.ws size st with
        | none => none
        | some v =>
          if decide (Bounded s.l.sf (s.h.window size now) st v) then none
          else some (encEntry size st v))))

def encParse : ParseRes → String
  | .ok => "ok"
  | .notMultiple => "notmult"
  | .panic => "panic"

/-- returns new state, model observation, spec observation -/
def step (s : St) (args : List String) : St × String × String :=
  match args with
  | ["new", sizes, prec] =>
    match decSizes sizes, (if prec == "nil" then some none else (decInt prec).map some) with
    | some zs, some p => ({ l := L.new zs p, sizes := zs }, "ok", "ok")
    | _, _ => (s, "bad-op", "bad-op")
  | ["compute", now, ts] =>
    match decInt now, decInt ts with
    | some n, some t =>
      let l' := s.l.compute n t
      let o := if l'.panicked then "panic" else "ok"
      ({ s with l := l', h := s.h.step (.compute n (n - t)) }, o, o)
    | _, _ => (s, "bad-op", "bad-op")
  | ["update", now] =>
    match decInt now with
    | some n => doUpdate s n false
    | none => (s, "bad-op", "bad-op")
  | ["last", now] =>
    match decInt now with
    | some n => doUpdate s n true
    | none => (s, "bad-op", "bad-op")
  | ["race2"] => (s, "mon=ok", "mon=ok")  -- a clock reading just before a period boundary vs the refresh of that boundary: Go-side monitor
  | ["race"] => (s, "mon=ok", "mon=ok")   -- refresh vs update stream: judged by the Go-side monitor only
  | ["stale"] =>
    let o := if applies s then bracket (sortStrs (staleEntries s)) else "na"
    (s, o, o)
  | ["nostale"] =>
    let o := if applies s then "[]" else "na"
    (s, o, o)
  | ["parse", d, p] =>
    match decInt d, decInt p with
    | some d, some p => let o := encParse (parseWindow d p); (s, o, o)
    | _, _ => (s, "bad-op", "bad-op")
  | _ => (s, "bad-op", "bad-op")

end Driver.LT
