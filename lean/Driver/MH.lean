import Gnmi.Model.ManagerHops
import Driver.Codec
/-!
`mh` component: `createConn`'s next-hop loop, `uniqueNextHops`, `customizeRequest` and
`Config.Timeout` of `manager/manager.go` (model = `Model/ManagerHops.lean`; there is no separate
spec: both columns are the model's answer, except for the monitors, which the spec column fixes).

Grammar (shared with `go/vcorr/mh.go`):

    uniq <enc addr>*                      the key set of uniqueNextHops, sorted
    cc   T<0|1> H<n> <outs|-> [c<k>]      createConn on a target with n next hops; T1 = Config.Timeout set;
                                          outs over {o,f,s}: what the k-th Connection CALL does (ok, fail,
                                          slower than the timeout; calls beyond the string fail);
                                          c<k>: the context is cancelled while call k is in flight
    creq <enc name> Q<0..3>               customizeRequest on a request without prefix / with prefix
                                          (target, origin, one element) / prefix with origin only / a poll request
    sess|sessc T<0|1> H<n> <outs|-> Q<v>  a whole session of the real Manager on a target with n hops (first
                                          attempt: outs per call; later attempts: the first call answers);
                                          the server keeps silent for 3 x Timeout, then sends one update;
                                          sessc = the real connection.Manager underneath

Since the iteration order of the hop set is the Go map's, outcomes are scripted per call, not per
hop: the model is run on the order h0 … h(n-1) with `out h_k := outs[k]`; the observation does not
depend on the order (the theorems of `Props/C13Hops.lean` are for every order).
-/
namespace Driver.MH
open Gnmi.Manager.Hops Driver

structure St where
  dummy : Unit := ()

def parseOut : Char → Option HopOut
  | 'o' => some .ok
  | 'f' => some .fail
  | 's' => some .slow
  | _ => none

def parseOuts (s : String) : Option (List HopOut) :=
  if s = "-" then some [] else s.toList.mapM parseOut

def resChar : HopRes → Char
  | .connected => 'c'
  | .failed => 'f'
  | .timedOut => 't'
  | .cancelled => 'x'

def parseT (s : String) : Option Bool :=
  if s = "T0" then some false else if s = "T1" then some true else none

def parseNum (pfx : Char) (s : String) : Option Nat :=
  match s.toList with
  | c :: ds => if c = pfx ∧ !ds.isEmpty ∧ ds.all Char.isDigit then (String.ofList ds).toNat? else none
  | [] => none

def hopName (k : Nat) : String := "h" ++ toString k

/-- the outcome script by hop for the order `h0 … h(n-1)` -/
def outOf (outs : List HopOut) (n : Nat) : String → HopOut := fun h =>
  match (List.range n).find? (fun k => hopName k == h) with
  | some k => outs[k]?.getD .fail
  | none => .fail

def runCC (tmo : Bool) (n : Nat) (outs : List HopOut) (cancelAt : Option Nat) : Out :=
  createConn tmo ((List.range n).map hopName) (outOf outs n)
    (fun j => match cancelAt with
      | some k => decide (k < j)
      | none => false)

def callsStr (o : Out) : String :=
  if o.calls.isEmpty then "-" else String.ofList (o.calls.map fun p => resChar p.2)

def renderCC (o : Out) : String :=
  let ret := match o.ret with
    | .conn _ => "conn"
    | .noAddrs => "noaddr"
    | .ctxErr => "ctx"
    | .lastErr _ => "last"
  -- whose `done` is returned: the last call's (conn / last) or a no-op (noaddr / ctx)
  let dn := match o.ret with
    | .conn _ => toString (o.calls.length - 1)
    | .lastErr _ => toString (o.calls.length - 1)
    | _ => "-"
  "ret=" ++ ret ++ " calls=" ++ callsStr o ++ " defers=" ++ toString o.defers.length ++
    " done=" ++ dn ++ " acq=" ++ toString o.acquired ++ " dl=1 dist=1 inset=1"

/-- the configured requests of the `creq` / `sess` ops -/
def reqOf (v : Nat) : Heap × Req :=
  let paths := [["a"], ["b", "c"]]
  match v with
  | 0 => ({}, .subscribe { pfx := none, paths := paths, mode := 1 })
  | 1 => ({ paths := fun a => if a = 0 then some { target := "cfg", origin := "oc", elems := ["p"] } else none, next := 1 },
          .subscribe { pfx := some 0, paths := paths, mode := 1 })
  | 2 => ({ paths := fun a => if a = 0 then some { target := "", origin := "oc", elems := [] } else none, next := 1 },
          .subscribe { pfx := some 0, paths := paths, mode := 1 })
  | _ => ({}, .poll)

def renderPath (p : List String) : String := if p.isEmpty then "." else "".intercalate (p.map fun e => "/" ++ encStr e)

def renderWire : WireReq → String
  | .subscribe s =>
    let pf := match s.pfx with
      | some p => encStr p.target ++ ":" ++ encStr p.origin ++ ":" ++ renderPath p.elems
      | none => "nil"
    "sub " ++ pf ++ " " ++ bracket (s.paths.map renderPath)
  | .poll => "poll"
  | .unset => "unset"

/-- what is sent for target `name` when the configured request is variant `v` -/
def sentFor (name : String) (v : Nat) : String :=
  let (h, sr) := reqOf v
  let (h', cr) := customizeRequest h name sr
  renderWire (h'.wire cr)

/-- the configured request read again after the call -/
def origAfter (name : String) (v : Nat) : String :=
  let (h, sr) := reqOf v
  let (h', _) := customizeRequest h name sr
  renderWire (h'.wire sr)

def origBefore (v : Nat) : String :=
  let (h, sr) := reqOf v
  renderWire (h.wire sr)

def step (s : St) (args : List String) : St × String × String :=
  let bad := (s, "bad-op", "bad-op")
  match args with
  | ["new"] => (s, "ok", "ok")
  | "uniq" :: addrs =>
    let o := bracket ((sortStrs (uniqueNextHops (addrs.map decStr))).map encStr)
    (s, o, o)
  | "cc" :: t :: hn :: outs :: rest =>
    match parseT t, parseNum 'H' hn, parseOuts outs with
    | some tmo, some n, some os =>
      let cancelAt : Option (Option Nat) := match rest with
        | [] => some none
        | [c] => (parseNum 'c' c).map some
        | _ => none
      match cancelAt with
      | some ca =>
        if n > 6 then bad else
        let o := renderCC (runCC tmo n os ca)
        (s, o, o)
      | none => bad
    | _, _, _ => bad
  | ["creq", name, q] =>
    match parseNum 'Q' q with
    | some v =>
      if v > 3 then bad else
      let nm := decStr name
      let o := "sent=" ++ sentFor nm v ++ " orig=" ++ b (origAfter nm v == origBefore v) ++ " fresh=1"
      (s, o, o)
    | none => bad
  | [op, t, hn, outs, q] =>
    if op ≠ "sess" ∧ op ≠ "sessc" then bad else
    match parseT t, parseNum 'H' hn, parseOuts outs, parseNum 'Q' q with
    | some tmo, some n, some os, some v =>
      if n = 0 ∨ n > 6 ∨ v > 2 then bad else
      let o := runCC tmo n os none
      -- the first attempt connects, or fails as a whole and the second attempt's first call answers
      let first := o.ret.isConn
      let errs := if first then 0 else 1
      let tail := if op = "sessc" then " # cm=0 open=0" else ""
      let obs := "calls=" ++ callsStr o ++ " E=" ++ toString errs ++ " conn=1 upd=1 req=" ++ sentFor "t" v ++
        " req2=" ++ sentFor "u" v ++ " orig=" ++ b (origAfter "t" v == origBefore v) ++
        " acq=1 leak=0 twice=0 dl=1 quiet=1" ++ tail
      (s, obs, obs)
    | _, _, _, _ => bad
  | _ => bad
where
  b (x : Bool) : String := if x then "1" else "0"

end Driver.MH
