import Gnmi.Spec.Relay
import Gnmi.Model.CliGroup
import Driver.CA
import Driver.FQ
/-!
`e2e` component: the collector pipeline end to end (`Gnmi.Pipeline`, property C01).

One operation line is one scenario:

`new <client> <run> <queries> <decl|item>*`

* `<client>` = `once` (a ONCE query per target after everything was relayed) or `stream:<k>` (a
  STREAM client per target subscribing after the first `k` responses, read at quiescence);
* `<run>` only concerns the Go side (how the wiring is built);
* `<queries>` = `;`-joined index paths (`.` = the whole target);
* `T=<name>:<request>:<agent kind>` declares the next target (index 0, 1, …);
* `<i>U<notification>` / `<i>S` / `<i>E` / `<i>N`: target `i` streams an update notification
  (token as in the `ca` component) / a sync / an error response / a response without payload,
  in this global order;
* `<i>V<sync 0|1>!<seed>:<draws>!<value>!…`: target `i` is a fake agent in generator mode
  (`fake.Config.Values`, tokens of the `fq` component): its whole stream, unfolded by the C20 model;
* `<i>R` / `<i>Z`: the session of target `i` ends here — cut abruptly (`R`: `Recv` fails with an
  error status) or closed by the target itself (`Z`: the server handler returns nil, `Recv` =
  `io.EOF`) — and the manager subscribes again: `manager.handleUpdates` calls the `Reset` callback
  either way, `monitor` records the error (`Pipeline.restartSteps`).  The items of `i` that follow
  are its next session; leaves it does not send again must disappear from every client's view.

`cli <client> <run> <queries> …` (same arguments, `<client>` ignored): what `gnmi_cli -qt once` displays per
target at quiescence — the leaves of the pathmap `cli.displayWalk` builds (`Client.cliGroupSorted`) —
in the observation format of `new`.

Observation: for every target (sorted by name) `<name>=<status>[<leaf>,…]`, status `sync` |
`nosync` | `err`, leaves `path=value` sorted; leaves whose last element is `zz-end` (the
harness' end-of-stream marker) and the collector's own `meta/…` leaves other than `meta/sync`,
`meta/connected` are not shown.  Spec column: the same, computed from `Relay.expected` of the final
views of the targets' *last sessions* (`Relay.lastSession`) when every session is well formed (else
the model's answer again).
-/
namespace Driver.E2E
open Gnmi Gnmi.Cache Gnmi.Pipeline Driver

structure St where
  dummy : Unit := ()

structure Decl where
  name : String
  request : String
  kind : String

inductive ClientMode where
  | once
  | stream (k : Nat)

/-- one scenario item of a target: a response, or the end of its session (`clean`: by the target) -/
inductive Ev where
  | it (i : TItem)
  | restart (clean : Bool)

structure Scenario where
  client : ClientMode := .once
  queries : List Path := [[]]
  targets : List Decl := []
  items : List (Nat × Ev) := []      -- global order

def endMarker : String := "zz-end"

/-! ### the fake agent in generator mode (C20 model) -/

def tvToVal : FQ.TV Float → Val
  | .int v => .scalar (.int v)
  | .double v => .scalar (.double v.toBits.toNat)
  | .str v => .scalar (.str v)
  | .leaflist v => .leaflist (v.map .str)
  | .bool v => .scalar (.bool v)
  | .uint v => .scalar (.uint v)

/-- `valToResp`'s notification as the collector's cache model reads it: no prefix, the path in the
deprecated `element` encoding.  The raw renderings stand for `proto.Equal`. -/
def respToItem : FQ.Resp Float → TItem
  | .update ts p tv =>
    let v := tvToVal tv
    let rawP := "o=;t=;e=;l=" ++ ",".intercalate (p.map encStr)
    .update true { ts := ts, praw := "nil",
                   upd := [{ path := p, val := v, raw := rawP ++ "#" ++ rawVal encStr v ++ "#0" }] }
  | .delete ts p =>
    .update true { ts := ts, praw := "nil",
                   del := [{ path := p, raw := "o=;t=;e=;l=" ++ ",".intercalate (p.map encStr) }] }
  | .sync _ => .sync

/-- `processQueue` until the queue is exhausted (or fails) -/
def agentItems : Nat → FQ.UQ Float → List TItem → List TItem
  | 0, _, acc => acc.reverse
  | n + 1, u, acc =>
    match FQ.next u with
    | (.emit v, u') =>
      match FQ.valToResp v.pv with
      | .ok r => agentItems n u' (respToItem r :: acc)
      | _ => acc.reverse
    | _ => acc.reverse

def valuesItems (payload : String) : List TItem :=
  match payload.splitOn "!" with
  | sync :: gd :: vals =>
    let (_, g) := FQ.decSeedDraws gd
    match FQ.reset g (vals.map FQ.decValue) (!(FQ.decBool sync)) with
    | .ok u => agentItems 4096 u []
    | _ => []
  | _ => []

/-! ### parsing -/

def parseClient (tok : String) : ClientMode :=
  if tok.startsWith "stream:" then .stream ((tok.drop 7).toString.toNat?.getD 0) else .once

def parseQueries (tok : String) : List Path := (tok.splitOn ";").map decPath

def parseTok (sc : Scenario) (tok : String) : Scenario :=
  if tok.startsWith "T=" then
    match ((tok.drop 2).toString).splitOn ":" with
    | [n, r, k] => { sc with targets := sc.targets ++ [{ name := decStr n, request := decStr r, kind := k }] }
    | _ => sc
  else
    match tok.toList with
    | d :: k :: rest =>
      let i := d.toNat - 48
      let payload := String.ofList rest
      if k = 'U' then
        let pn := CA.parseNoti payload
        { sc with items := sc.items ++ [(i, .it (TItem.update pn.1 pn.2))] }
      else if k = 'S' then { sc with items := sc.items ++ [(i, .it TItem.sync)] }
      else if k = 'E' then { sc with items := sc.items ++ [(i, .it TItem.error)] }
      else if k = 'N' then { sc with items := sc.items ++ [(i, .it TItem.nilResponse)] }
      else if k = 'V' then { sc with items := sc.items ++ (valuesItems payload).map (fun it => (i, .it it)) }
      else if k = 'R' then { sc with items := sc.items ++ [(i, .restart false)] }
      else if k = 'Z' then { sc with items := sc.items ++ [(i, .restart true)] }
      else sc
    | _ => sc

def parseScenario (args : List String) : Scenario :=
  match args with
  | client :: _run :: queries :: rest =>
    rest.foldl parseTok { client := parseClient client, queries := parseQueries queries }
  | _ => {}

/-! ### rendering -/

def f32OfDecimal (d : Int) (p : Nat) : Nat :=
  ((Float.ofInt d / Float.pow 10.0 (Float.ofNat p)).toFloat32).toBits.toNat

def renderCScalar : CScalar → String
  | .str s => "s=" ++ encStr s
  | .int i => "i=" ++ toString i
  | .uint n => "u=" ++ toString n
  | .bool b => "b=" ++ toString b
  | .bytes h => "y=" ++ h
  | .f32 b => "f=" ++ toString b
  | .f64 b => "d=" ++ toString b
  | .dec32 d p => "f=" ++ toString (f32OfDecimal d p)

def renderCVal : CVal → String
  | .scalar s => renderCScalar s
  | .list l => "l=(" ++ "+".intercalate (l.map renderCScalar) ++ ")"

/-- is the leaf part of the observation? -/
def shown (p : Path) : Bool :=
  p.getLast? != some endMarker &&
  (match p with
   | _ :: m :: rest => m != metaRoot || rest == ["sync"] || rest == ["connected"]
   | _ => true)

def renderLeaves (l : List (Path × CVal)) : String :=
  bracket (sortStrs ((l.filter (fun kv => shown kv.1)).map (fun kv => encPath kv.1 ++ "=" ++ renderCVal kv.2)).eraseDups)

def renderClient (name : String) (c : Client) : String :=
  -- how far a failing client got depends on the order of a map iteration: no leaves shown
  if c.failed then encStr name ++ "=err[]" else
  encStr name ++ "=" ++ (if c.synced then "sync" else "nosync") ++
    renderLeaves (c.leaves.map (fun kv => (kv.1, kv.2.val)))

/-! ### running -/

def cfgOf (sc : Scenario) : TargetCfg.Cfg :=
  { revision := 0,
    request := (sc.targets.map (·.request)).eraseDups.map (fun r => (r, TargetCfg.Req.msg r)),
    target := sc.targets.map (fun d => (d.name, some { addresses := ["addr"], request := d.request })) }

def nameOf (sc : Scenario) (i : Nat) : String := (sc.targets[i]?.map (·.name)).getD ""

def isRestart : Ev → Bool
  | .restart _ => true
  | _ => false

/-- is item number `idx` the first response of its target's session (none before it since the start
or since the target's last restart)? -/
def firstOfSession (items : List (Nat × Ev)) (idx : Nat) (t : Nat) : Bool :=
  let before := (items.take idx).filter (fun y => y.1 == t)
  match before.getLast? with
  | none => true
  | some y => isRestart y.2

/-- the global step list: every item in order (flagging the first response of each session; a
session end = `Reset` then `ConnectError`), with the STREAM subscriptions after `k` items -/
def stepsOf (sc : Scenario) : List StepR :=
  let evs : List (List StepR) := sc.items.zipIdx.map (fun x =>
    match x.1.2 with
    | .it it => [StepR.step (Step.recv (nameOf sc x.1.1) (firstOfSession sc.items x.2 x.1.1) 0 it)]
    | .restart clean => restartSteps (nameOf sc x.1.1) 0 (if clean then "EOF" else "cut") 0)
  match sc.client with
  | .once => evs.flatten
  | .stream k =>
    let subs := sc.targets.map (fun d => StepR.step (Step.subscribe ("s:" ++ d.name) d.name sc.queries))
    (evs.take k).flatten ++ subs ++ (evs.drop k).flatten

def sortedTargets (sc : Scenario) : List String := sortStrs (sc.targets.map (·.name)).eraseDups

def runModel (sc : Scenario) : String :=
  let s := (Sys.start (cfgOf sc)).runR encStr (stepsOf sc)
  if s.crashed then "crashed" else
  " ".intercalate ((sortedTargets sc).map (fun name =>
    match sc.client with
    | .once => renderClient name (s.once name sc.queries)
    | .stream _ => renderClient name (s.streamView ("s:" ++ name))))

/-- `gnmi_cli`'s group display (`cli.displayWalk`, `-timestamp ""`) of a client: the leaves of the
pathmap that `pathmap.add` builds over `WalkSorted` (`Client.cliGroupSorted`, `RX.pmLeaves`),
rendered like `renderClient`; a client that failed displays nothing -/
def renderCliClient (name : String) (c : Client) : String :=
  if c.failed then encStr name ++ "=err[]" else
  match c.cliGroupSorted with
  | .ok m => encStr name ++ "=" ++ (if c.synced then "sync" else "nosync") ++ renderLeaves (RX.pmLeaves m)
  | .err _ => encStr name ++ "=display-err[]"
  | .panic => encStr name ++ "=display-panic[]"

/-- op `cli`: what `gnmi_cli -qt once` displays per target after everything was relayed -/
def runCli (sc : Scenario) : String :=
  let s := (Sys.start (cfgOf sc)).runR encStr (stepsOf { sc with client := .once })
  if s.crashed then "crashed" else
  " ".intercalate ((sortedTargets sc).map (fun name => renderCliClient name (s.once name sc.queries)))

/-- what target `name` streamed in its last session -/
def itemsOfTarget (sc : Scenario) (name : String) : List TItem := Relay.lastSession name (stepsOf sc)

def restarted (sc : Scenario) (name : String) : Bool :=
  sc.items.any (fun x => nameOf sc x.1 == name && isRestart x.2)

def isSync : TItem → Bool
  | .sync => true
  | _ => false

/-- the collector's own two boolean leaves, as the spec expects them (`items`: the last session;
`restarted`: the target's session ended at least once — `Reset` writes both leaves as `false`) -/
def metaLeaves (name : String) (items : List TItem) (restarted : Bool) (queries : List Path) : List (Path × CVal) :=
  let mk (leaf : String) (b : Bool) : List (Path × CVal) :=
    if Relay.selected queries [metaRoot, leaf] then [([name, metaRoot, leaf], .scalar (.bool b))] else []
  (if items.isEmpty then (if restarted then mk "connected" false else []) else mk "connected" true) ++
  (if items.any isSync then mk "sync" true else if restarted then mk "sync" false else [])

def wellFormedScenario (sc : Scenario) : Bool :=
  sc.queries.all Relay.queryOK &&
  (sc.targets.map (·.name)).eraseDups.length == sc.targets.length &&
  sc.targets.all (fun d => d.name != "" && d.name != "*" &&
    (Relay.sessionsOf d.name (stepsOf sc)).all (Relay.wellFormed false))

def runSpec (sc : Scenario) : String :=
  " ".intercalate ((sortedTargets sc).map (fun name =>
    let items := itemsOfTarget sc name
    encStr name ++ "=sync" ++
      renderLeaves (Relay.expected name (Relay.finalView items) sc.queries ++
        metaLeaves name items (restarted sc name) sc.queries)))

def step (s : St) (args : List String) : St × String × String :=
  match args with
  | "new" :: rest =>
    let sc := parseScenario rest
    let m := runModel sc
    (s, m, if wellFormedScenario sc then runSpec sc else m)
  | "cli" :: rest =>
    -- the displayed tree of `gnmi_cli` (group display, ONCE) through `displayWalk` / `pathmap.add`
    -- (C01.cli_group_display_faithful); spec column as for `new`
    let sc := parseScenario rest
    let m := runCli sc
    (s, m, if wellFormedScenario sc then runSpec sc else m)
  | "wf" :: rest =>
    -- is the scenario inside the hypotheses of `C01.pipeline_faithful`? (coverage statistics)
    let o := toString (wellFormedScenario (parseScenario rest))
    (s, o, o)
  | "wfwhy" :: rest =>
    -- diagnostic: per target, the index of the first response that is not admissible
    let sc := parseScenario rest
    let firstBad (items : List TItem) : String :=
      let rec go (v : Relay.View) (i : Nat) : List TItem → String
        | [] => "-"
        | it :: r => if Relay.itemOK false v it then go (Relay.applyItem v it) (i + 1) r else toString i
      go [] 0 items
    let o := " ".intercalate (sc.targets.map (fun d => encStr d.name ++ ":" ++
      ",".intercalate ((Relay.sessionsOf d.name (stepsOf sc)).map firstBad)))
    (s, o, o)
  | _ => (s, "bad-op", "bad-op")

end Driver.E2E
