import Gnmi.Model.Match
import Driver.Codec
/-!
`ma` component: the subscription matcher (`match.Match`) and the two functions of
`subscribe` that feed it.

Model column = the repository as it is; spec column = property C06 computed on the abstract registration set (`Match.Regs` + `compatible`):
every client at most once per notification, nothing after a removal.

Line formats (see `go/vcorr/ma.go`):
  gpath   `nil` | `<target>,<origin>,<path>[,<encoding hint, ignored here>]`
  entry   `u<h><path>` | `d<h><path>`   (h = one encoding-hint character, ignored here)
-/
namespace Driver.MA
open Gnmi Gnmi.Match Driver

structure St where
  t : Branch String := Branch.empty
  regs : Regs String := []
  /-- `sub` operations so far: client and list -/
  subs : List (String × SubList) := []

def decGPath (s : String) : Option GPath :=
  if s == "nil" then none else
  match s.splitOn "," with
  | t :: o :: p :: _ => some { target := decStr t, origin := decStr o, idx := decPath p }
  | _ => none

/-- `u<h><path>` / `d<h><path>` → (isDelete, path) -/
def decEntry (s : String) : Bool × Path :=
  (s.startsWith "d", decPath (s.drop 2).toString)

def insCount (c : String) : List (String × Nat) → List (String × Nat)
  | [] => [(c, 1)]
  | (c', n) :: r => if c' = c then (c', n + 1) :: r else (c', n) :: insCount c r

/-- sorted `client:count` list -/
def renderCounts (l : List String) : String :=
  let cs := l.foldl (fun acc c => insCount c acc) []
  bracket (sortStrs (cs.map (fun cn => encStr cn.1 ++ ":" ++ toString cn.2)))

def renderRegs (rs : List (String × Path)) (n : Nat) : String :=
  bracket (sortStrs (rs.map (fun r => encStr r.1 ++ "@" ++ encPath r.2))) ++ " nodes=" ++ toString n

def b2s (b : Bool) : String := if b then "true" else "false"

def renderOptPath : Option Path → String
  | some p => encPath p
  | none => "err"

def step (s : St) (args : List String) : St × String × String :=
  -- `updnotiA`: the notification is marked atomic; `UpdateNotification` offers it by its updates all the same
  let args := match args with
    | "updnotiA" :: rest => "updnoti" :: rest
    | _ => args
  match args with
  | ["new"] => ({}, "ok", "ok")
  | ["add", c, q] =>
      let c := decStr c; let q := decPath q
      ({ s with t := addQuery s.t q c, regs := s.regs.add q c }, "ok", "ok")
  | ["rm", c, q] =>
      let c := decStr c; let q := decPath q
      ({ s with t := removeQuery s.t q c, regs := s.regs.remove q c }, "ok", "ok")
  | ["upd", p] =>
      let p := decPath p
      (s, renderCounts (update s.t p none).1, renderCounts (s.regs.update p))
  | ["updrm", p, c, q] =>
      -- a fresh client `c` registered at `q`, an update in flight, `c` removed: the removal waits for the
      -- delivery, so this is `add c q`, `upd p`, `rm c q`
      let p := decPath p; let c := decStr c; let q := decPath q
      let t1 := addQuery s.t q c
      let r1 := s.regs.add q c
      ({ s with t := removeQuery t1 q c, regs := r1.remove q c },
       renderCounts (update t1 p none).1 ++ " mon=ok", renderCounts (r1.update p) ++ " mon=ok")
  | "once" :: ps =>
      let ps := ps.map decPath
      (s, renderCounts (updateMany s.t ps (some [])).1, renderCounts (s.regs.once ps))
  | "updnoti" :: pfx :: entries =>
      let es := entries.map decEntry
      let n : Noti := { pfx := decGPath pfx
                        upd := (es.filter (fun e => !e.1)).map (·.2)
                        del := (es.filter (fun e => e.1)).map (·.2) }
      let pre := toStrings n.pfx true
      (s, renderCounts (serverUpdate s.t (some n)),
          renderCounts (s.regs.once ((n.upd ++ n.del).map (fun p => pre ++ p))))
  | ["updother"] =>   -- a leaf that does not hold a *gnmi.Notification
      (s, renderCounts (serverUpdate s.t none), "[]")
  | "sub" :: c :: pfx :: paths =>
      let c := decStr c
      let sl : SubList := { pfx := decGPath pfx, subs := paths.map decGPath }
      ({ s with t := addSubscription s.t sl c
                regs := (subscriptionQueries sl).foldl (fun r q => r.add q c) s.regs
                subs := s.subs ++ [(c, sl)] }, "ok", "ok")
  | ["unsub", i] =>
      match s.subs[i.toNat!]? with
      | none => (s, "none", "none")
      | some (c, sl) =>
          ({ s with t := removeSubscription s.t sl c
                    regs := (subscriptionQueries sl).foldl (fun r q => r.remove q c) s.regs }, "ok", "ok")
  | ["dump"] =>
      (s, renderRegs (regs s.t) (nodes s.t), renderRegs s.regs s.regs.nodeCount)
  | ["qs", q, k] =>
      -- does a snapshot query for q return a leaf stored at k / is an update of k streamed to q
      let q := decPath q; let k := decPath k
      let streamed := ((update (addQuery (Branch.empty : Branch String) q "c") k none).1).length
      (s, "q:" ++ b2s (qmatches q k) ++ " s:" ++ toString streamed,
          "q:" ++ b2s (qmatches q k) ++ " s:" ++ (if compatible q k then "1" else "0"))
  | ["subq", pfx, p] =>
      let pfx := decGPath pfx
      match decGPath p with
      | none => (s, "skip", "skip")
      | some gp =>
        let reg := subscriptionQuery pfx gp
        let full := completePath pfx (some gp)
        let o := "reg=" ++ encPath reg ++ " full=" ++ renderOptPath full
        -- the property: when CompletePath accepts, stream index = target :: snapshot index
        let consistent := match full with
          | some f => b2s (reg == (if targetOf pfx ≠ "" then [targetOf pfx] else []) ++ f)
          | none => "n/a"
        (s, o ++ " consistent=" ++ consistent, o ++ " consistent=" ++ (if full.isSome then "true" else "n/a"))
  | _ => (s, "bad-op", "bad-op")

end Driver.MA
