import Gnmi.Model.ClientPollRun
/-! `rc new poll <mode> <first> <polls> <inj>`: Close (or cancellation) while Poll calls are in
flight on `client.Reconnect(…)` with a Poll-type query (syntax: go/vcorr/rc_poll.go).
Model = the Poll wrapper of `Model/ClientPoll.lean` under the deterministic schedule
`ClientPoll.runPScenario` (runs of the wrapper LTS: `Lemmas/ClientPoll.lean: runPScenario_reach`). -/
namespace Driver.Poll
open Gnmi Gnmi.ClientLTS Gnmi.ClientPoll

def natOf (t : String) : Option Nat :=
  if t.length > 1 && t.startsWith "0" then none else t.toNat?

def parsePoll (t : String) : Option PollBeh :=
  if t == "n" then some (.parked 0)
  else if t == "e" then some .sendErr
  else if t.startsWith "nb" then (natOf (t.drop 2).toString).map .parked
  else if t.startsWith "a" then (natOf (t.drop 1).toString).map .answered
  else none

def parsePolls (t : String) : Option (List PollBeh) :=
  if t == "-" then some [] else (t.splitOn ",").mapM parsePoll

def parseInj (t : String) : Option (Bool × PInj) :=
  let (cancel, body) := match t.toList with
    | 'x' :: rest => (true, String.ofList rest)
    | _ => (false, t)
  if body == "h" then some (cancel, .dial)
  else match body.toList with
    | 'd' :: rest => (natOf (String.ofList rest)).map (fun a => (cancel, .inCb a))
    | _ => none

def parse (mode first polls inj : String) : Option PScenario :=
  if mode != "rb" && mode != "rc" then none else
  match natOf first, parsePolls polls, parseInj inj with
  | some f, some ps, some (c, i) => some { first := f, polls := ps, cancel := c, inj := i }
  | _, _, _ => none

def evChar : Ev NKind → Option Char
  | .connected _ => some 'c'
  | .noti _ _ .upd => some 'u'
  | .noti _ _ .del => some 'd'
  | .noti _ _ .sync => some 's'
  | .disc _ => some '/'
  | .reset _ => some '^'
  | _ => none

def logChar : LogEv NKind → Option Char
  | .s e => evChar e
  | .p _ e => evChar e
  | .call _ => some 'p'

def pollClass : PPc NKind → Option String
  | .returned .nil => some "nil"
  | .returned .err => some "err"
  | .returned .init => some "init"
  | _ => none

/-- (answer to `new`, answer to `ret`) -/
def run (mode first polls inj : String) : Option (String × String) :=
  match parse mode first polls inj with
  | none => none
  | some sc =>
      let o := runPScenario false sc
      if !o.valid then none else
      match o.final.base.spc, o.final.base.kpc, o.final.polls.mapM pollClass with
      | .returned r, .returned _ e, some pcs =>
          let pre := (o.final.log.take o.mark).filterMap logChar
          let post := (o.final.log.drop o.mark).filterMap logChar
          let sub := match r with | .canceled => "canceled" | .nil => "nil" | .err => "err"
          let cl := if e then "init" else "nil"
          let ps := if pcs.isEmpty then "-" else ",".intercalate pcs
          some ("tr=" ++ String.ofList (pre ++ ['!'] ++ post),
                "sub=" ++ sub ++ " close=" ++ cl ++ " polls=" ++ ps)
      | _, _, _ => none

end Driver.Poll
