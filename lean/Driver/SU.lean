import Gnmi.Model.Subscribe
import Driver.CA
/-! `su` component: `subscribe.Server` over a `cache.Cache`, quiescent schedules. -/
namespace Driver.SU
open Gnmi Gnmi.Cache Gnmi.Sub Driver

structure St where
  s : Sub.State := {}

def parseAcl (tok : String) : Acl :=
  if tok == "-" then .absent
  else if tok == "fail" then .fails
  else if tok.startsWith "a=" then
    let body := (tok.drop 2).toString
    .allow (if body.isEmpty then [] else (body.splitOn ",").map decStr)
  else .absent

def parseMode (tok : String) : Mode :=
  if tok == "o" then .once else if tok == "p" then .poll else if tok == "s" then .stream else .other

def parseSubPath (tok : String) : SubPath :=
  match tok.splitOn ":" with
  | [n, o, p] => { isNil := n == "1", origin := decStr o, path := decPath p }
  | _ => {}

/-- `none` = the client closes the stream before sending a request -/
def parseReq (tok : String) : Option Req :=
  if tok == "eof" then none else
  match tok.splitOn "|" with
  | [hs, pn, tg, og, pf, md, uo, subs] =>
    some { hasSubscribe := hs == "1", prefixNil := pn == "1", target := decStr tg, origin := decStr og,
           pfx := decPath pf, mode := parseMode md, updatesOnly := uo == "1",
           subs := if subs == "-" then [] else (subs.splitOn ";").map parseSubPath }
  | _ => some {}

def renderCode : Code → String
  | .ok => "ok" | .invalidArgument => "invalid" | .notFound => "notfound"
  | .permissionDenied => "denied" | .unauthenticated => "unauthenticated" | .unknown => "unknown"

def statusOf (s : Subscriber) : String :=
  match s.status with
  | some c => "ended:" ++ renderCode c
  | none => if s.alive then "alive" else "ended:?"

/-- (key, rendering, inserts represented if its dup count is deterministic) of one response -/
def respKV : Resp × Bool → String × String × Nat
  | (.upd n d, showDup) =>
    let u := n.upd.headD {}
    let idx := subIndex n.target n.origin (n.pfx ++ (if n.atomic then [] else u.path))
    (encPath idx, (if n.atomic then "A" else "U") ++ CA.renderStored n, if showDup then d + 1 else 0)
  | (.del t o p ts _, _) => (encPath (subIndex t o p), "D@" ++ toString ts, 0)
  | (.sync, _) => ("", "sync", 0)

def isUpdResp (r : String) : Bool := r.startsWith "U" || r.startsWith "A"

/-- consecutive update responses for one key collapse into the last one (intermediate values
may or may not be seen, depending on whether the sender ran between two inserts); the number
of inserts they stand for is conserved -/
def collapse : List (String × Nat) → List (String × Nat)
  | a :: b :: r =>
    if isUpdResp a.1 && isUpdResp b.1 then collapse ((b.1, a.2 + b.2) :: r)
    else if a.1 == b.1 then collapse ((b.1, max a.2 b.2) :: r)
    else a :: collapse (b :: r)
  | l => l
termination_by l => l.length

def showCount (x : String × Nat) : String := if x.2 > 1 then x.1 ++ "~n" ++ toString x.2 else x.1

/-- for a subscriber whose stream stalled at its very first send (`pregate`): which response the
sender was holding depends on the walk order, so only kinds are rendered -/
def kindOnly (x : String × String × Nat) : String × String × Nat :=
  (x.1, (x.2.1.take 1).toString, 0)

/-- canonical form of a run of responses without sync: per key, the responses in order -/
def renderSegment (kinds : Bool) (seg : List (Resp × Bool)) : String :=
  let kvs := seg.map (fun r => if kinds && r.1 != Resp.sync then kindOnly (respKV r) else respKV r)
  let keys := sortStrs (kvs.map (·.1)).eraseDups
  bracket (keys.map (fun k => k ++ ":" ++
    ">".intercalate ((collapse ((kvs.filter (·.1 == k)).map (·.2))).map showCount)))

def splitSync : List (Resp × Bool) → List (Resp × Bool) → List (List (Resp × Bool))
  | [], cur => [cur]
  | (.sync, _) :: r, cur => cur :: splitSync r []
  | x :: r, cur => splitSync r (cur ++ [x])

def renderOut (kinds : Bool) (out : List (Resp × Bool)) : String :=
  if kinds then
    renderSegment true (out.filter (·.1 != Resp.sync)) ++ " syncs=" ++
      toString (out.filter (·.1 == Resp.sync)).length
  else " sync ".intercalate ((splitSync out []).map (renderSegment false))

def findSub (s : Sub.State) (id : String) : Option Subscriber := s.subs.find? (·.id == id)

def drainObs (s : Sub.State) (id : String) : Sub.State × String :=
  match findSub s id with
  | none => (s, "no-such-subscriber")
  | some sub =>
    let bad := match sub.status with
      | some .ok => false
      | some _ => true
      | none => false
    let obs := if bad then statusOf sub else renderOut (s.pregated.contains id) sub.out ++ " " ++ statusOf sub
    (Sub.updateSub s id (fun x => { x with out := [], gatedSinceDrain := x.gateShut }), obs)

def step (st : St) (args : List String) : St × String × String :=
  let s := st.s
  let dup (x : St × String) : St × String × String := (x.1, x.2, x.2)
  match args with
  | "new" :: rest =>
      let r := CA.exec {} ("new" :: rest)
      dup ({ s := { cache := r.1 } }, r.2.2)
  | "ca" :: rest =>
      let r := CA.exec s.cache rest
      let s' := Sub.feed { s with cache := r.1 } r.2.1
      dup ({ s := s' }, r.2.2)
  | ["subreset", id, acl, req, target, now] =>
      -- Reset with a subscription attached in the middle of it; what the subscriber received is
      -- discarded and the Go side judges its view: here, reset, then subscribe
      let r := CA.exec s.cache ["reset", target, now]
      let s1 := Sub.feed { s with cache := r.1 } r.2.1
      let s2 := Sub.subscribe s1 (decStr id) (parseAcl acl) (parseReq req)
      let s3 := Sub.updateSub s2 (decStr id) (fun x => { x with out := [], gatedSinceDrain := x.gateShut })
      dup ({ s := s3 }, (match findSub s3 (decStr id) with
        | some sub => statusOf sub
        | none => "?") ++ " mon=ok")
  | ["rwalk"] => dup (st, "mon=ok")  -- a STREAM subscription set up while the match tree is busy (a server and cache of its own): Go-side monitor
  | "churn" :: _ => dup (st, "ok")   -- all-targets ONCE subscriptions under target churn (a cache of its own): Go-side monitor
  | ["pregate", id] => dup ({ s := { s with pregated := decStr id :: s.pregated } }, "ok")
  | ["sub", id, acl, req] =>
      let s' := Sub.subscribe s (decStr id) (parseAcl acl) (parseReq req)
      dup ({ s := s' }, match findSub s' (decStr id) with
        | some sub => statusOf sub
        | none => "?")
  | "subw" :: id :: acl :: req :: phase :: caArgs =>
      -- the injected cache operation's observation is evaluated on the cache it runs against
      let run (c : Cache.State) : Cache.State × List Event := let r := CA.exec c caArgs; (r.1, r.2.1)
      let r := Sub.subscribeInject s (decStr id) (parseAcl acl) (parseReq req) (phase == "start") run
      let obs := match findSub r.1 (decStr id) with
        | some sub => statusOf sub
        | none => "?"
      dup ({ s := r.1 }, obs ++ " ran=" ++ (if r.2 then "1" else "0"))
  | ["drain", id] => let r := drainObs s (decStr id); dup ({ s := r.1 }, r.2)
  | [op, id] =>
      if (findSub s (decStr id)).isNone then dup (st, "no-such-subscriber")
      else if op == "poll" then dup ({ s := Sub.poll s (decStr id) }, "ok")
      else if op == "eof" then dup ({ s := Sub.eof s (decStr id) }, "ok")
      else if op == "expire" then dup ({ s := Sub.expire s }, "ok")
      else if op == "view" || op == "view!" then dup (st, "ok")
      else dup (st, "bad-op")
  | ["gate", id, g] =>
      if (findSub s (decStr id)).isNone then dup (st, "no-such-subscriber")
      else if g == "step" then dup ({ s := Sub.stepGate s (decStr id) }, "ok")
      else dup ({ s := Sub.setGate s (decStr id) (g == "shut") }, "ok")
  | _ => dup (st, "bad-op")

end Driver.SU
