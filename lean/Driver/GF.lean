import Gnmi.Model.ClientFirst
/-! `rc new gf <outs> <sched>`: `client.NewImpl` (= `getFirst`, client/register.go) over several
registered client types with scripted outcomes, the gates opened in the order of the schedule.
Model = the `getFirst` LTS of `Model/ClientFirst.lean` under the deterministic schedule
`ClientFirst.runGF` (proved to be runs of the LTS: `Lemmas/ClientFirst.lean: runGF_reach`).

  outs   one letter per client type: I `InitImpl` returns an Impl, E it fails, H it blocks until
         ctx is done and then fails; `-` no client types
  sched  tokens joined by `.`: r<i> open the gate of type i, x cancel ctx; `-` empty

A scenario is valid when the schedule lets every `fn` return (everything has terminated at its
end); the answer is what `NewImpl` returned, and per type how often `Close()` was called on the
Impl it made. -/
namespace Driver.GF
open Gnmi Gnmi.ClientFirst

def parseOuts (t : String) : Option (List Out) :=
  if t == "-" then some [] else
  t.toList.mapM (fun ch => if ch == 'I' then some Out.impl else if ch == 'E' then some Out.error
    else if ch == 'H' then some Out.hang else none)

def parseTok (t : String) : Option Tok :=
  if t == "x" then some .cancel else
  match t.toList with
  | 'r' :: rest => (String.ofList rest).toNat?.map Tok.rel
  | _ => none

def parseSched (t : String) : Option (List Tok) :=
  if t == "-" then some [] else (t.splitOn ".").mapM parseTok

def allDone (c : Cfg) : Bool :=
  (match c.main with | .returned _ => true | _ => false) &&
  c.g.all (fun p => match p with | .exitedErr _ | .exitedRecv | .exitedClosed => true | _ => false)

def joinNat (l : List Nat) : String := ",".intercalate (l.map toString)

/-- insertion sort (the error list is compared as a set of types) -/
def insertNat (x : Nat) : List Nat → List Nat
  | [] => [x]
  | y :: ys => if x ≤ y then x :: y :: ys else y :: insertNat x ys

def sortNat (l : List Nat) : List Nat := l.foldr insertNat []

def renderRes : Res → String
  | .noTypes => "notypes"
  | .impl i => "impl:" ++ toString i
  | .errs l => "errs:" ++ joinNat (sortNat l)

/-- (answer to `new`, answer to `ret`) -/
def run (outs sched : String) : Option (String × String) :=
  match parseOuts outs, parseSched sched with
  | some os, some ts =>
      -- at most one cancellation per scenario
      if (ts.filter (· == Tok.cancel)).length > 1 then none else
      match runGF false os ts with
      | some c =>
          if !allDone c then none else
          match c.main with
          | .returned r =>
              some ("gf=" ++ renderRes r,
                    "closed=" ++ joinNat ((List.range os.length).map (fun i => c.closedLog.count i)))
          | _ => none
      | none => none
  | _, _ => none

end Driver.GF
