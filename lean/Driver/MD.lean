import Gnmi.Model.Metadata
import Driver.Codec
/-! `md` component: the `metadata` package (registries + one `Metadata` object). -/
namespace Driver.MD
open Gnmi Gnmi.Metadata Driver

structure St where
  s : Metadata.St := {}

def parseInt64 (s : String) : Int64 :=
  match s.toInt? with
  | some i => Int64.ofInt i
  | none => 0

def renderErr : Err → String
  | .invalid => "err:invalid"
  | .unset => "err:unset"
  | .unsupported => "err:unsupported"

def renderObs : Obs → String
  | .ok => "ok"
  | .err e => renderErr e
  | .int v => "i:" ++ toString v.toInt
  | .bool v => "b:" ++ toString v
  | .str v => "s:" ++ encStr v
  | .path p => encPath p

def parseAction (s : String) : ResetAction :=
  match s.toInt? with
  | some 0 => .defaultValue
  | some 1 => .delete
  | some 2 => .keep
  | some i => .other i.natAbs
  | none => .other 0

def renderAction : ResetAction → String
  | .defaultValue => "0"
  | .delete => "1"
  | .keep => "2"
  | .other n => toString n

def renderIntValue : Option IntValue → String
  | none => "nil"
  | some v => encPath v.path ++ ":" ++ (if v.initZero then "1" else "0")

def renderStrValue : Option StrValue → String
  | none => "nil"
  | some v => renderAction v.resetAction

def renderMap {α : Type} (tag : String) (m : AMap α) (f : α → String) : String :=
  tag ++ bracket (sortStrs (m.map (fun kv => encStr kv.1 ++ "=" ++ f kv.2)))

/-- the registries and the raw value maps, every map sorted by key -/
def dump (s : Metadata.St) : String :=
  " ".intercalate
    [renderMap "B" s.reg.bools toString, renderMap "I" s.reg.ints renderIntValue,
     renderMap "S" s.reg.strs renderStrValue, renderMap "vb" s.m.bools toString,
     renderMap "vi" s.m.ints (fun v => toString v.toInt), renderMap "vs" s.m.strs encStr]

/-- `ns:label,ns:label` (the model needs the compact duration strings only) -/
def parseWindows (tok : String) : List String :=
  if tok == "-" then [] else
  (tok.splitOn ",").map (fun w => match w.splitOn ":" with
    | [_, l] => decStr l
    | _ => "")

def parseOp (args : List String) : Option Op :=
  match args with
  | ["newmd"] => some .new
  | ["addint", n, i] => some (.addInt (decStr n) (parseInt64 i))
  | ["setint", n, v] => some (.setInt (decStr n) (parseInt64 v))
  | ["getint", n] => some (.getInt (decStr n))
  | ["setbool", n, v] => some (.setBool (decStr n) (v == "true"))
  | ["getbool", n] => some (.getBool (decStr n))
  | ["setstr", n, v] => some (.setStr (decStr n) (decStr v))
  | ["getstr", n] => some (.getStr (decStr n))
  | ["reset", n] => some (.resetEntry (decStr n))
  | ["clear"] => some .clear
  | ["path", n] => some (.path (decStr n))
  | ["regint", n, "nil"] => some (.registerInt (decStr n) none)
  | ["regint", n, p, z] => some (.registerInt (decStr n) (some { path := decPath p, initZero := z == "1" }))
  | ["unregint", n] => some (.unregisterInt (decStr n))
  | ["regstr", n, "nil"] => some (.registerStr (decStr n) none)
  | ["regstr", n, a] => some (.registerStr (decStr n) (some { resetAction := parseAction a }))
  | ["unregstr", n] => some (.unregisterStr (decStr n))
  | ["reglat", ws] => some (.registerLatency (parseWindows ws))
  | ["regsn"] => some .registerServerName
  | ["unregsn"] => some .unregisterServerName
  | _ => none

def step (st : St) (args : List String) : St × String × String :=
  match args with
  | ["new"] => ({}, "ok", "ok")
  | ["dump"] => let d := dump st.s; (st, d, d)
  | _ =>
    match parseOp args with
    | none => (st, "bad-op", "bad-op")
    | some op =>
      let r := st.s.step op
      let o := renderObs r.2
      ({ s := r.1 }, o, o)

end Driver.MD
