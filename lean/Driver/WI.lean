import Gnmi.Model.WireIngest
import Gnmi.Model.ManagerOpt
import Driver.RX
import Driver.CA
/-!
`wi` component (property C12, wire → cache): decoded protobuf messages are pushed through the
REAL `manager.handleUpdates` loop wired to a REAL `cache.Cache` the way `cmd/gnmi_collector` does;
the model side computes `Wire.toNoti` (inside `Wire.mgrSession`) and then the cache model — so the
translation itself is validated differentially.  And `Server.Subscribe` over a whole request stream.
Stateless; `new` only delimits sequences.  Token syntax: `Driver/RX.lean` (`resps`, `req`, `cache`).

Operations → observations:
* `wi ingest <p|c> <name> <targets> <now> <resps>`
    `p` plain wiring (`Update` = `cache.GnmiUpdate`), `c` the collector's closure (stamps target and
    default origin); `<name>` the managed target's name; `<targets>` `-` | encStr names joined by `+`
    (registered with `cache.Add`); response `i` is handled at clock reading `now + i`, the `Reset` at
    the end of the stream at `now + len`.
    → `panic` | `<handled>;<events>;<content>;<meta>;<reset events>;<content after Reset>` with
      handled  `[U:ok|U:stale|U:future|U:err|S|L,…]` (L: `handleGNMIUpdate` returned an error: logged)
      events   the feed from Connect to the last response (delete runs grouped and sorted)
      content  every leaf of every target: `<target><path>@<ts>=<value|A<n>>#<raw prefix>|<raw updates>`
      meta     the metadata of `<name>`
* `wi opt <mask 0..15> <resps>`
    a Manager built by `NewManager` from a Config holding exactly the callbacks of the mask (1 Connect,
    2 Sync, 4 Update, 8 Reset; the others nil), its `handleUpdates` over the scripted stream
    → `panic` | `[C|S|U|R,…]` the callbacks invoked, in order (`Model/ManagerOpt.lean`)
* `wi subs <cache> <nodup 0|1> <first req> <later reqs: - | req(&req)*>`
    → `ok:<rounds: [keys]:<synced>(/[keys]:<synced>)*>:r<later requests read>` | `err:<code>` | `panic`
The spec column is the model column with `panic` replaced by `must-not-panic` when every message is
WireValid.
-/
namespace Driver.WI
open Gnmi Gnmi.PV Gnmi.RX Gnmi.Wire Gnmi.Cache Driver Driver.PV

structure St where
  dummy : Unit := ()

/-- `math.Float32bits` / `math.Float64bits` (NaN payloads are canonicalised by Lean's `toBits`;
every rendering below prints `nan` for a NaN whatever its payload) -/
instance : FloatBits Float32 Float where
  bits32 f := f.toBits.toNat
  bits64 d := d.toBits.toNat

def renderScalarW : Cache.Scalar → String
  | .double b => if isNaNBits 11 52 b then "d=nan" else "d=" ++ toString b
  | .float b => if isNaNBits 8 23 b then "f=nan" else "f=" ++ toString b
  | s => CA.renderScalar s

def renderValW : Val → String
  | .absent => "absent"
  | .scalar s => renderScalarW s
  | .leaflist l => "l=(" ++ "+".intercalate (l.map renderScalarW) ++ ")"

def renderStoredW (n : Noti) : String :=
  let u := n.upd.headD {}
  "@" ++ toString n.ts ++ "=" ++
    (if n.atomic then "A" ++ toString n.upd.length else renderValW u.val) ++ "#" ++ n.praw ++ "|" ++
    "|".intercalate (n.upd.map (·.raw))

def renderEventW : Event → String
  | .upd n =>
    let u := n.upd.headD {}
    let idx := subIndex n.target n.origin (n.pfx ++ (if n.atomic then [] else u.path))
    (if n.atomic then "A" else "U") ++ encPath idx ++ renderStoredW n
  | .del t o p ts => "D" ++ encPath (subIndex t o p) ++ "@" ++ toString ts

def renderGroupsW (evs : List Event) : String :=
  bracket ((CA.regroup evs []).map (fun grp => "+".intercalate (sortStrs (grp.map renderEventW))))

def renderContent (s : State) : String :=
  match s.query "*" [] with
  | none => "err"
  | some l => bracket (sortStrs (l.map (fun e => encStr e.1 ++ encPath e.2.1 ++ renderStoredW e.2.2)))

def renderHandled : Handled → String
  | .update r => "U:" ++ CA.renderRes r
  | .sync => "S"
  | .logged _ => "L"

def parseTargets (s : String) : List String :=
  if s == "-" then [] else (RX.splitStr '+' s).map decStr

def stamp (rs : List RX.Resp) (now : Int) : List (Int × RX.Resp) :=
  rs.zipIdx.map (fun x => (now + (x.2 : Nat), x.1))

def renderRound (o : SubOut) : String :=
  bracket (RX.dedup (sortStrs (o.sent.map encPath))) ++ ":" ++ (if o.synced then "1" else "0")

def step (s : St) (args : List String) : St × String × String :=
  match args with
  | ["new"] => (s, "ok", "ok")
  | ["ingest", w, name, targets, now, resps] =>
    let wiring := if w == "c" then Wiring.collector else Wiring.plain
    let name := decStr name
    let now : Int := now.toInt?.getD 0
    let rs := RX.parseResps resps
    let s0 : State := (parseTargets targets).foldl (fun st t => st.addWith t) {}
    let m := match mgrSession encStr wiring name s0 (stamp rs now) with
      | .panic => "panic"
      | .err _ => "err"
      | .ok o =>
        let md := match o.state.get name with
          | none => "none"
          | some tg => CA.renderMeta tg
        let r := o.state.reset encStr name (now + (rs.length : Nat))
        bracket (o.handled.map renderHandled) ++ ";" ++ renderGroupsW o.events ++ ";" ++
          renderContent o.state ++ ";" ++ md ++ ";" ++ bracket (sortStrs (r.2.map renderEventW)) ++ ";" ++
          renderContent r.1
    (s, m, RX.spec (rs.all (·.wireValid)) m)
  | ["conc", _, _] => (s, "mon=ok", "mon=ok")   -- RPCs of several peers at once on one server with statistics: Go-side monitor (+ -race step)
  | ["opt", mask, resps] =>
    let k := mask.toNat?.getD 0
    let mk : MgrOpt.Mask := ⟨k % 2 == 1, (k / 2) % 2 == 1, (k / 4) % 2 == 1, (k / 8) % 2 == 1⟩
    let rs := RX.parseResps resps
    let letter : MgrOpt.Cb → String
      | .connect => "C" | .sync => "S" | .update => "U" | .reset => "R"
    let m := match MgrOpt.optSession mk rs with
      | .ok l => bracket (l.map letter)
      | .panic => "panic"
      | .err _ => "err"
    (s, m, RX.spec (rs.all (fun r => match r with | .nilMsg => false | _ => true)) m)
  | ["subs", c, nd, first, later] =>
    let cv := RX.parseCache c
    let first := RX.parseReq first
    let later := if later == "-" then [] else (RX.splitStr '&' later).map RX.parseReq
    let m := match subscribeStream cv (nd == "1") (fun _ _ => 0) first later with
      | .panic => "panic"
      | .err e => RX.renderErrSub e
      | .ok o => "ok:" ++ "/".intercalate (o.rounds.map renderRound) ++ ":r" ++ toString o.reads
    (s, m, RX.spec true m)
  | _ => (s, "bad-op", "bad-op")

end Driver.WI
