import Gnmi.Model.FakeAgent
import Driver.FQ
/-!
`fa` component: the fake agent as a subscriber sees it (`Gnmi.FA`, property C20), executed with
`D := Float` (instance of `Driver.FQ`) and the body of fixed notifications as its canonical text.

Operations
* `new <sync 0|1> <disable_eof 0|1> <delay 0|1> <gen n|c|r|f> <seed>:<draws> <item>*` — the
  configuration.  For `gen = f` the items are fixed responses: `n|<ts>|<pfx>|<body>`
  (`<pfx>` = `-` or `<target>+<origin>+<elems>`), `E` (update wrapper with a nil notification),
  `s0` / `s1` (sync response), `e` (no response set); otherwise they are values as for `fq`.
  Observation `ok`.
* `sub <via p|g|s> <mode s|o|p> <target - | str> <limit> <polls>` — one Subscribe RPC: at most
  `limit` responses are read: `[<response>,…]/<end>` with `<end>` = `eof` | `held` | `poll` |
  `open` (limit reached) | `panic`.
* `bad <via p|g> <eof | nosub | err:<code>>` — a first request `Run` rejects: `rejected:code<N>` (numeric gRPC code).
* `clients` — the number of clients the agent has created.
-/
namespace Driver.FA
open Gnmi Gnmi.FQ Gnmi.FA Driver Driver.FQ

abbrev Cfg := Config Float String

structure St where
  cfg : Cfg := {}
  clients : Nat := 0

def decPfx (s : String) : Option Pfx :=
  if s == "-" then none
  else match s.splitOn "+" with
    | [t, o, e] => some { target := decStr t, origin := decStr o, elems := decPath e }
    | _ => none

def decFixed (s : String) : FResp String :=
  if s == "E" then .emptyUpdate
  else if s == "s1" then .sync true
  else if s == "s0" then .sync false
  else match s.splitOn "|" with
    | ["n", ts, p, b] => .noti (decInt ts) (decPfx p) b
    | _ => .unset

def renderPfx : Option Pfx → String
  | none => ""
  | some p => "^" ++ encStr p.target ++ "+" ++ encStr p.origin ++ "+" ++ encPath p.elems

def renderWire : Wire Float String → String
  | .noti ts p (.update path tv) => "u:" ++ encPath path ++ "@" ++ toString ts ++ "=" ++ renderTV tv ++ renderPfx p
  | .noti ts p (.delete path) => "d:" ++ encPath path ++ "@" ++ toString ts ++ renderPfx p
  | .noti ts p (.fixed b) => "n:" ++ b ++ "@" ++ toString ts ++ renderPfx p
  | .noti ts p .empty => "n:~@" ++ toString ts ++ renderPfx p
  | .sync b => "s:" ++ toString b
  | .unset => "e"

def renderEnd : End → String
  | .more => "open"
  | .eof => "eof"
  | .held => "held"
  | .awaitPoll => "poll"
  | .queueErr => "eof"      -- `send` logs the error and `Run` returns nil
  | .convErr => "eof"       -- the same
  | .panic => "panic"
  | .overflow => "!overflow"
  | .nodraws => "!nodraws"

def renderStatus : Status → String
  | .aborted => "code10"
  | .invalidArgument => "code3"
  | .failedPrecondition => "code9"
  | .code c => "code" ++ toString c

def decMode (s : String) : Mode :=
  if s == "o" then .once else if s == "p" then .poll else .stream

def renderOutcome (limit : Nat) : Outcome Float String → String
  | .rejected st => "rejected:" ++ renderStatus st
  | .served msgs e =>
      if msgs.length > limit then bracket ((msgs.take limit).map renderWire) ++ "/open"
      else bracket (msgs.map renderWire) ++ "/" ++ renderEnd e

def step (s : St) (args : List String) : St × String × String :=
  match args with
  | "new" :: sync :: deof :: delay :: gen :: gd :: items =>
      let (_, g) := decSeedDraws gd
      let cfg : Cfg :=
        { target := "dev", g := g, disableSync := !(decBool sync), disableEof := decBool deof,
          enableDelay := decBool delay,
          values := if gen == "f" then [] else items.map decValue,
          generator := if gen == "f" then .fixed (items.map decFixed)
                       else if gen == "c" then .custom else if gen == "r" then .random else .none }
      ({ cfg := cfg, clients := 0 }, "ok", "ok")
  | ["sub", via, mode, target, limit, polls] =>
      let sl : SubList := { prefixTarget := if target == "-" then none else some (decStr target),
                            mode := decMode mode }
      let lim := decNat limit
      let a : Agent Float String := { config := s.cfg, clients := s.clients }
      let (o, a') := a.subscribe (.subscribe sl) (lim + 1) (decNat polls)
      let r := renderOutcome lim o
      -- via `s`: a Client of its own (created for another configuration, given this one with SetConfig) runs the
      -- stream: the same generator, the same stream; the agent's client list is not involved
      ({ s with clients := if via == "s" then s.clients else a'.clients }, r, r)
  | ["bad", _via, what] =>
      let first : First :=
        if what == "eof" then .recvEOF
        else if what == "nosub" then .notSubscribe
        else .recvErr (decNat ((what.splitOn ":").getD 1 "2"))
      let a : Agent Float String := { config := s.cfg, clients := s.clients }
      let (o, a') := a.subscribe first 1 0
      let r := renderOutcome 0 o
      ({ s with clients := a'.clients }, r, r)
  | ["clients"] => (s, toString s.clients, toString s.clients)
  | _ => (s, "bad-op", "bad-op")

end Driver.FA
