import Gnmi.Model.FixedQueue
import Driver.Codec
/-!
`fx` component: `testing/fake/queue.FixedQueue` (`Gnmi.FXQ`, property C20).

Operations
* `new <delay 0|1> <resp>*` — `NewFixed(resps, delay)`.  A `<resp>` is `n` (nil entry), `u<ts>`
  (update response with notification timestamp `ts`), `U` (update wrapper holding a nil
  notification), `s` (sync response), `e` (no `Response` set).  Responses are numbered
  0, 1, … in the order they are handed to the queue (`new` arguments, then `add`s).
  Observation `ok`.
* `add <resp>` — `Add(resp)`; observation `ok`.
* `next` — one call of `Next`: `nil` | `panic/<len>/<lastTS>` |
  `<tag>/<slept>/<delay after>/<lastTS after>/<len after>` (`tag` = `nil-entry` for a nil entry).
There is no separate spec: the model observation is returned twice.
-/
namespace Driver.FX
open Gnmi Gnmi.FXQ Driver

structure St where
  q : FQ Nat := {}
  nid : Nat := 0

def decShape (s : String) : Shape :=
  if s == "n" then .nilResp
  else if s == "U" then .update none
  else if s.startsWith "u" then .update (some ((s.drop 1).toString.toInt?.getD 0))
  else .other

def mkResps (nid : Nat) : List String → List (Resp Nat) × Nat
  | [] => ([], nid)
  | t :: ts =>
    let r := mkResps (nid + 1) ts
    ({ tag := nid, shape := decShape t } :: r.1, r.2)

def renderTag (r : Resp Nat) : String :=
  match r.shape with
  | .nilResp => "nil-entry"
  | _ => toString r.tag

def step (s : St) (args : List String) : St × String × String :=
  match args with
  | "new" :: d :: toks =>
    let r := mkResps 0 toks
    ({ q := newFixed r.1 (d == "1"), nid := r.2 }, "ok", "ok")
  | ["add", t] =>
    ({ q := add s.q { tag := s.nid, shape := decShape t }, nid := s.nid + 1 }, "ok", "ok")
  | ["next"] =>
    let r := next s.q
    let o := match r.1 with
      | .nil => "nil"
      | .panic => "panic/" ++ toString r.2.resp.length ++ "/" ++ toString r.2.lastTS
      | .emit x slept =>
        renderTag x ++ "/" ++ toString slept ++ "/" ++ toString r.2.delay ++ "/" ++
          toString r.2.lastTS ++ "/" ++ toString r.2.resp.length
    ({ s with q := r.2 }, o, o)
  | _ => (s, "bad-op", "bad-op")

end Driver.FX
