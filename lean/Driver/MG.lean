import Gnmi.Model.ManagerRun
import Driver.Codec
/-!
`mg` component: the target manager (model = the sequential schedule of the manager LTS,
`Model/ManagerRun.lean`; spec = the session discipline `Spec/Session.lean` + "managed set").

Grammar of a scenario line (shared with `go/vcorr/mg.go`):

    run|runc <target> [/ <target>]    target = T<0..3> P<probe flags|-> <attempt>*
    attempt = M | D | O | S | R<msgs><end> [+<k|x><m|d|s|b|j>[A]]

`T` digit: bit 0 = receive timeout, bit 1 = two next hops (the first one tried fails in even attempts: no transition
of the model, `createConn`'s loop is inside `Pc.dial`).  `runc` = the same scenario with the real
`connection.Manager` underneath: the per-target observations are the same, followed by what must be
left in that manager once every target is removed (` # cm=0 open=0`).
-/
namespace Driver.MG
open Gnmi Gnmi.Manager Gnmi.Session Driver

structure St where
  dummy : Unit := ()

def parseMsg : Char → Option Msg
  | 'u' => some .update
  | 's' => some .sync
  | 'e' => some .errorResp
  | 'n' => some .nilResp
  | _ => none

def parseEnd : Char → Option End
  | '!' => some .err
  | '.' => some .eof
  | '~' => some .silence
  | _ => none

def parseBody (s : String) : Option Attempt :=
  match s.toList with
  | ['M'] => some .metaErr
  | ['D'] => some .dialFail
  | ['O'] => some .openFail
  | ['S'] => some .sendFail
  | 'R' :: rest =>
    match rest.reverse with
    | e :: ms => do
      let e ← parseEnd e
      let ms ← ms.reverse.mapM parseMsg
      pure (.stream ms e)
    | [] => none
  | _ => none

def parseInj (s : String) : Option Inj :=
  let cs := s.toList
  let (cs, readd) := match cs.reverse with
    | 'A' :: r => (r.reverse, true)
    | _ => (cs, false)
  match cs with
  | act :: w =>
    if act ≠ 'k' ∧ act ≠ 'x' then none else
    if readd ∧ act ≠ 'x' then none else
    let pos : Option InjAt := match w with
      | ['m'] => some .lookup
      | ['d'] => some .dial
      | ['s'] => some .dialOk
      | ['b'] => some .backoff
      | [] => none
      | 'c' :: ds =>
        -- Reconnect from inside the Update callback of message j = after j+1 messages were processed
        if act = 'k' ∧ !ds.isEmpty ∧ ds.all Char.isDigit then some (.msg ((String.ofList ds).toNat! + 1)) else none
      | ds => if ds.all Char.isDigit then some (.msg (String.ofList ds).toNat!) else none
    pos.map fun p => { remove := act = 'x', pos := p, readd := readd }
  | [] => none

def parseAttempt (tok : String) : Option SAttempt :=
  match tok.splitOn "+" with
  | [b] => (parseBody b).map fun a => { a := a, inj := none }
  | [b, i] => do
    let a ← parseBody b
    let inj ← parseInj i
    -- `s`: the dial succeeds although cancelled meanwhile: only for attempts whose dial succeeds
    if inj.pos = InjAt.dialOk ∧ (a = .metaErr ∨ a = .dialFail) then none else
    pure { a := a, inj := some inj }
  | _ => none

def parseTarget (toks : List String) : Option TargetSpec :=
  match toks with
  | t :: p :: rest =>
    match t.toList, p.toList with
    | ['T', b], 'P' :: flags => do
      let script ← rest.mapM parseAttempt
      pure { rt := b = '1' || b = '3', probes := flags.filter (· ≠ '-'), script := script }
    | _, _ => none
  | _ => none

def splitTargets (toks : List String) : List (List String) :=
  let rec go : List String → List String → List (List String)
    | [], cur => [cur.reverse]
    | "/" :: r, cur => cur.reverse :: go r []
    | t :: r, cur => go r (t :: cur)
  go toks []

def renderEv : Ev → String
  | .connect => "C"
  | .update j => "U" ++ toString j
  | .sync => "S"
  | .reset => "R"
  | .connectError => "E"
  | .monitorError => "M"

def b01 (b : Bool) : String := if b then "1" else "0"

def renderObs (o : TargetObs) (specCol : Bool) : String :=
  if o.stuck then "stuck" else
  let tr := if o.racy then "?" else
    ",".intercalate (o.pre.map renderEv) ++ "|" ++ ",".intercalate ((stripEM o.drain).map renderEv)
  let rets := if o.racy then "?" else String.ofList (o.rets.map fun b => if b then 'o' else 'e')
  -- the model's own trace is run through the discipline automaton; the spec demands acceptance
  let acc := if specCol then true else decide (Accepts (o.pre ++ o.drain))
  -- the connection ledger: the model's own counts; the spec demands that nothing is leaked / released twice
  let acq := if o.racy then "?" else toString o.acq
  let leak := if specCol then 0 else o.leak
  let tw := if specCol then 0 else o.twice
  "tr=" ++ tr ++ " ret=" ++ rets ++ " acc=" ++ b01 acc ++ " quiet=1" ++
    " acq=" ++ acq ++ " leak=" ++ toString leak ++ " twice=" ++ toString tw ++ " uad=0"

def runLine (s : St) (rest : List String) (suffix : String) : St × String × String :=
  match (splitTargets rest).mapM parseTarget with
  | some ts =>
    let obs := runScenario ts
    let sfx := if obs.any (·.stuck) then "" else suffix
    (s, " / ".intercalate (obs.map (renderObs · false)) ++ sfx, " / ".intercalate (obs.map (renderObs · true)) ++ sfx)
  | none => (s, "bad-op", "bad-op")

def step (s : St) (args : List String) : St × String × String :=
  match args with
  | ["new"] => (s, "ok", "ok")
  | ["end"] => (s, "late=0 acc=1 leak=0", "late=0 acc=1 leak=0")
  -- Remove in flight vs a concurrent Add of the same name: judged by the Go-side monitors only (the
  -- session discipline automaton over the whole callback trace of the name)
  | "readd" :: _ => (s, "acc=1 done=1 leak=0 twice=0", "acc=1 done=1 leak=0 twice=0")
  -- retries are paced by the backoff, also after a forced reconnect (the timer's duration is outside the LTS:
  -- a monitor on the code); anything but the three scenarios is a bad op on both sides
  | ["rtover"] => (s, "mon=ok", "mon=ok")   -- per-target receive_timeout overrides stay per target: Go-side monitor
  | ["pace", how] =>
      if how == "plain" || how == "reconnect" || how == "rt" then (s, "paced=1 done=1 leak=0 twice=0", "paced=1 done=1 leak=0 twice=0")
      else (s, "bad-op", "bad-op")
  -- k targets sharing one address of the real connection.Manager; the joint first dial is refused (r) or
  -- cancelled through the creator's Reconnect (k), `fails` further dials are refused, then dials succeed:
  -- every sharer is connected, exactly fails+2 dials were made (a failed shared dial is forgotten: the
  -- next request dials afresh, C16.next_request_dials_afresh; none while the connection is shared), a
  -- sharer releasing the shared connection (j) does not disturb the others (C16.never_closed_while_held),
  -- ledger clean, connection.Manager empty at the end.  The interleaving of the sharers' retries is left
  -- to the real goroutines; only this quiescent end state is compared.
  | ["shared", ks, fs, mode] =>
      match ks.toNat?, fs.toNat? with
      | some k, some f =>
        if (k == 2 || k == 3) && f ≤ 3 && (mode == "r" || mode == "k" || mode == "rj" || mode == "kj") then
          let acq := if mode == "rj" || mode == "kj" then k + 1 else k
          let o := "connected=" ++ toString k ++ "/" ++ toString k ++ " dials=" ++ toString (f + 2) ++
            " steady=1 acc=1 done=1 acq=" ++ toString acq ++ " leak=0 twice=0 uad=0 cm=0 open=0"
          (s, o, o)
        else (s, "bad-op", "bad-op")
      | _, _ => (s, "bad-op", "bad-op")
  | "shared" :: _ => (s, "bad-op", "bad-op")
  | "run" :: rest => runLine s rest ""
  | "runc" :: rest => runLine s rest " # cm=0 open=0"
  | _ => (s, "bad-op", "bad-op")

end Driver.MG
