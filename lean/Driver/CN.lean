import Gnmi.Model.ConnLTS
import Driver.Codec
/-!
`cn` component: the connection manager LTS (`Gnmi.Conn`) driven by the sequential op
protocol of `go/vcorr/cn.go`.

Every op is translated into labels of the LTS (`Conn.step`); after the op's own labels
the driver *settles*: it keeps taking enabled internal transitions (requester `r0..r3`,
dialer `d1a`, `d2`, `d3`, and `d1b` for dials whose scripted mode lets them return) in a
fixed order until none is enabled — the model counterpart of the harness waiting for
quiescence.  Dials in mode `g`/`c` stay parked in `dialing n` until `release n ok|err`
(or, mode `c`, until the creator's context is cancelled).
Ops `lts …` replay a raw schedule label by label (no settling).
-/
namespace Driver.CN
open Gnmi Gnmi.Conn Driver

structure St where
  cfg : Cfg := {}
  rids : List (Nat × Nat) := []        -- harness requester id ↦ index in cfg.reqs
  modes : List (Nat × String) := []    -- index in cfg.reqs ↦ mode of the dial it would create
  stuck : Nat := 0                     -- labels the driver issued that were not enabled (must stay 0)

def lookupNat {β : Type} (l : List (Nat × β)) (k : Nat) : Option β :=
  match l.find? (fun kv => kv.1 == k) with
  | some kv => some kv.2
  | none => none

def modeOf (s : St) (r : Nat) : String := (lookupNat s.modes r).getD "g"

/-- issue one label -/
def fire (s : St) (l : Label) : St :=
  match Conn.step s.cfg l with
  | some c => { s with cfg := c }
  | none => { s with stuck := s.stuck + 1 }

def reqLabel (c : Cfg) (r : Nat) (q : Req) : Option Label :=
  match q.pc with
  | .r0 => some (.r0 r)
  | .r1 => some (.r1 r)
  | .wait o => match c.objs[o]? with
    | some ob => if ob.ready then some (.r2 r) else none
    | none => none
  | .woken _ => some (.r3 r)
  | _ => none

def objLabel (s : St) (o : Nat) (ob : Obj) : Option Label :=
  match ob.dpc with
  | .start => some (.d1a o)
  | .dialing _ =>
    match modeOf s ob.creator with
    | "ok" => some (.d1b o .ok)
    | "err" => some (.d1b o .fail)
    | "c" => match s.cfg.reqs[ob.creator]? with
      | some q => if q.cancelled then some (.d1b o .cancelled) else none
      | none => none
    | _ => none
  | .failing _ => some (.d2 o)
  | .closing => some (.d3 o)
  | .fin => none

def firstSome {α β : Type} (f : Nat → α → Option β) : Nat → List α → Option β
  | _, [] => none
  | i, a :: r => match f i a with
    | some b => some b
    | none => firstSome f (i + 1) r

/-- the first enabled internal label: requesters before dialers, by index -/
def nextInternal (s : St) : Option Label :=
  if s.cfg.panicked then none else
  match firstSome (reqLabel s.cfg) 0 s.cfg.reqs with
  | some l => some l
  | none => firstSome (objLabel s) 0 s.cfg.objs

def settle : Nat → St → St
  | 0, s => s
  | n + 1, s => match nextInternal s with
    | some l => settle n (fire s l)
    | none => s

def settled (s : St) : St := settle 100000 s

/-! ### rendering -/

def natSort (l : List (Nat × String)) : List (Nat × String) := l.mergeSort (fun a b => decide (a.1 ≤ b.1))

def errName : Err → String
  | .ctx => "ctx" | .dial => "dial" | .noDialer => "other"

def connOf (c : Cfg) (o : Nat) : String :=
  match c.objs[o]? with
  | some ob => match ob.conn with
    | some n => toString n
    | none => "nil"
  | none => "?"

def pcName (c : Cfg) : RPc → String
  | .r0 => "s" | .r1 => "s"
  | .wait _ => "w" | .woken _ => "w"
  | .held o false => "k" ++ connOf c o
  | .held o true => "x" ++ connOf c o
  | .failed e => "e." ++ errName e

def addrsOf (c : Cfg) : List Addr := (c.objs.map (·.addr)).eraseDups

def invoked (ob : Obj) : Bool := ob.dialerOK && ob.dpc != .start

def render (s : St) : String :=
  let c := s.cfg
  let d := (addrsOf c).filterMap (fun a =>
    let n := (c.objs.filter (fun ob => ob.addr == a && invoked ob)).length
    if n == 0 then none else some (encStr a ++ "=" ++ toString n))
  let m := c.conns.map (fun kv => encStr kv.1 ++ "#" ++ (match c.objs[kv.2]? with
    | some ob => toString ob.ref
    | none => "?"))
  let r := (natSort (s.rids.map (fun kv => (kv.1, match c.reqs[kv.2]? with
    | some q => pcName c q.pc
    | none => "?")))).map (fun kv => toString kv.1 ++ ":" ++ kv.2)
  let cs := (natSort (c.objs.filterMap (fun ob => match ob.conn with
    | some n => some (n, if ob.closed == 0 then "open" else "shut")
    | none => none))).map (fun kv => toString kv.1 ++ ":" ++ kv.2)
  let p := (natSort (c.objs.filterMap (fun ob => match ob.dpc with
    | .dialing n => some (n, "")
    | _ => none))).map (fun kv => toString kv.1)
  "D" ++ bracket (sortStrs d) ++ " M" ++ bracket (sortStrs m) ++ " R" ++ bracket r ++
  " C" ++ bracket cs ++ " P" ++ bracket p ++
  (if c.panicked then " panicked" else "") ++
  (if s.stuck != 0 then " stuck=" ++ toString s.stuck else "") ++ " mon[]"

def out (s : St) (res : String) : St × String × String :=
  let o := res ++ " " ++ render s
  (s, o, o)

/-! ### ops -/

def startReq (s : St) (rid : Nat) (a : Addr) (dialer mode pre : String) : St :=
  let idx := s.cfg.reqs.length
  let s := { s with rids := s.rids ++ [(rid, idx)], modes := s.modes ++ [(idx, mode)] }
  fire s (.start a (dialer == "d") (pre == "1"))

def doneOne (s : St) (rid : Nat) : St × Bool :=
  match lookupNat s.rids rid with
  | some idx => match s.cfg.reqs[idx]? with
    | some q => match q.pc with
      | .held _ _ => (fire s (.done idx), true)
      | .failed _ => (fire s (.done idx), true)
      | _ => (s, false)
    | none => (s, false)
  | none => (s, false)

def parseLabel : List String → Option Label
  | ["start", a, dk, cn] => some (.start (decStr a) (dk == "1") (cn == "1"))
  | ["cancel", r] => some (.cancel r.toNat!)
  | ["r0", r] => some (.r0 r.toNat!)
  | ["r1", r] => some (.r1 r.toNat!)
  | ["r2", r] => some (.r2 r.toNat!)
  | ["r3", r] => some (.r3 r.toNat!)
  | ["done", r] => some (.done r.toNat!)
  | ["d1a", o] => some (.d1a o.toNat!)
  | ["d1b", o, "ok"] => some (.d1b o.toNat! .ok)
  | ["d1b", o, "fail"] => some (.d1b o.toNat! .fail)
  | ["d1b", o, "cancelled"] => some (.d1b o.toNat! .cancelled)
  | ["d2", o] => some (.d2 o.toNat!)
  | ["d3", o] => some (.d3 o.toNat!)
  | _ => none

def allNat (l : List String) : Bool := l.all (fun x => x.isNat)

/-- returns new state, model observation, spec observation -/
def step (s : St) (args : List String) : St × String × String :=
  match args with
  | ["new"] => out {} "ok"
  | ["state"] => out s "ok"
  | ["req", rid, a, dialer, mode, pre] =>
      if !rid.isNat || (lookupNat s.rids rid.toNat!).isSome then (s, "bad-op", "bad-op") else
      out (settled (startReq s rid.toNat! (decStr a) dialer mode pre)) "ok"
  | "reqs" :: a :: mode :: rids =>
      if !allNat rids || rids.any (fun r => (lookupNat s.rids r.toNat!).isSome) || rids.eraseDups.length != rids.length
      then (s, "bad-op", "bad-op") else
      out (settled (rids.foldl (fun s r => startReq s r.toNat! (decStr a) "d" mode "0") s)) "ok"
  | ["cancel", rid] =>
      if !rid.isNat then (s, "bad-op", "bad-op") else
      match lookupNat s.rids rid.toNat! with
      | some idx => out (settled (fire s (.cancel idx))) "ok"
      | none => out s "noop"
  | ["done", rid] =>
      if !rid.isNat then (s, "bad-op", "bad-op") else
      let (s', b) := doneOne s rid.toNat!
      out (settled s') (if b then "ok" else "noop")
  | "dones" :: rids =>
      if !allNat rids then (s, "bad-op", "bad-op") else
      out (settled (rids.foldl (fun s r => (doneOne s r.toNat!).1) s)) "ok"
  | ["release", k, res] =>
      if !k.isNat || (res != "ok" && res != "err") then (s, "bad-op", "bad-op") else
      match firstSome (fun o (ob : Obj) => if ob.dpc == .dialing k.toNat! then some o else none) 0 s.cfg.objs with
      | some o => out (settled (fire s (.d1b o (if res == "ok" then .ok else .fail)))) "ok"
      | none => out s "noop"
  | ["storm", a, b, c] =>
      -- unscripted stress: only the schedule-independent consequence of the theorems is
      -- observable (C16.all_released_all_closed: nothing registered, no monitor fires)
      if allNat [a, b, c] && b.toNat! ≤ 64 && c.toNat! ≤ 1000 then (s, "ok M[] mon[]", "ok M[] mon[]")
      else (s, "bad-op", "bad-op")
  | "lts" :: l =>
      match parseLabel l with
      | some lab =>
        (match Conn.step s.cfg lab with
         | some c =>
           let idx := s.cfg.reqs.length
           let rids := if c.reqs.length != idx then s.rids ++ [(idx, idx)] else s.rids
           out { s with cfg := c, rids := rids } "ok"
         | none => out s "disabled")
      | none => (s, "bad-op", "bad-op")
  | _ => (s, "bad-op", "bad-op")

end Driver.CN
