import Gnmi.Basic
/-!
# Client LTS: `ReconnectClient` over `BaseClient` over a scripted transport (`Impl`)

Go code modelled (put the files next to this one):

* `client/reconnect.go` — `ReconnectClient.Subscribe` (the retry loop), `initDone`, `Close`;
* `client/client.go`    — `BaseClient.Subscribe` (connect, install the impl, `run`), `run`
  (the `closed` check after every `Recv`), `Close`;
* `client/gnmi/client.go` — `Recv`/`defaultRecv`: the per-instance `connected` flag
  (`Connected` is handed to the handler once, before the first decoded message);
* `client/cache.go`     — `CacheClient` forwards every notification unchanged to the caller's
  handler, so on the callback trace it is the identity (checked by the `rc` correspondence).

Two goroutines: **S** calls `Subscribe` (it runs the loop, the inner `Subscribe`, `run`, `Recv`,
the notification handler and both callbacks), **K** calls `Close`.  The environment may cancel
the caller's context at any time (`parentCancel`); the backoff timer fires at any time while
armed (`wake`).  One transition = one atomic section (code under a mutex, or code touching only
goroutine-local state between two synchronising operations).

The transport is a *script*: attempt number ↦ what connecting does and which messages the stream
hands out.  The hypothesis of C18 on an `Impl` ("`Subscribe`/`Recv` return once the context is
cancelled or `Close` was called") is built into the rules: a blocked connect (`Conn.hang`) or a
blocked `Recv` (`Item.wait`) becomes enabled exactly when the context is done or the instance was
closed.  Nothing else is assumed: after cancellation / close the transport may still hand out
messages it has buffered (`recvMsg` stays enabled) or fail at once (`recvAbort`, `connAbort`).

Scope: one `Subscribe` call and one `Close` call per client; a single transport type (so
`getFirst` is a plain call); query type `Stream` or `Poll`.
-/
namespace Gnmi
namespace ClientLTS

/-- what `Impl.Recv` returns after having handed a message's notifications to the handler:
`nil`, a stop marker (`ErrStopReading`: sync of a Poll query), or an error (error response,
undecodable message) -/
inductive Ret where
  | ok | stop | err
deriving DecidableEq, Repr

/-- one received message: the notifications `defaultRecv` derives from it, and its return -/
structure Msg (N : Type) where
  notis : List N
  ret : Ret

/-- the scripted stream of one attempt: messages, and points where `Recv` blocks until the
context is done or the instance is closed -/
inductive Item (N : Type) where
  | msg (m : Msg N)
  | wait

/-- what `Recv` returns when the scripted items are exhausted -/
inductive Term where
  | err | eof
deriving DecidableEq, Repr

/-- what connecting (registered `InitImpl` + `Impl.Subscribe`) does -/
inductive Conn where
  | fail      -- InitImpl returns an error
  | subFail   -- Impl created, Impl.Subscribe fails (BaseClient closes the Impl)
  | ok
  | hang      -- blocks until the context is done, then fails
deriving DecidableEq, Repr

structure Attempt (N : Type) where
  conn : Conn
  items : List (Item N)
  term : Term

/-- the transport script: attempt number ↦ behaviour (any function: scripts are unbounded) -/
abbrev Script (N : Type) := Nat → Attempt N

/-- observable events (chronological trace); only goroutine S produces them.  `start`/`ended`
are ghost markers (the inner `Subscribe` is called / returns). -/
inductive Ev (N : Type) where
  | connected (a : Nat)               -- handler(Connected) on the stream of attempt `a`
  | noti (a : Nat) (i : Nat) (n : N)  -- handler(n), n derived from message `i` of attempt `a`
  | disc (a : Nat)                    -- disconnect callback after attempt `a`
  | reset (a : Nat)                   -- reset callback before attempt `a`
  | start (a : Nat)
  | ended (a : Nat)

/-- return class of `Subscribe` -/
inductive SubRet where
  | canceled   -- ctx.Err()
  | nil        -- plain client: stop marker / EOF / closed
  | err        -- plain client: connect or stream error
deriving DecidableEq, Repr

/-- program counter of goroutine S -/
inductive SPc (N : Type) where
  | idle                                  -- Subscribe not called yet
  | connect                               -- BaseClient.Subscribe: NewImpl + Impl.Subscribe (getFirst)
  | install                               -- c.mu.Lock(); clientImpl = impl; closed = false
  | recv                                  -- run: impl.Recv() called
  | handling (evs : List (Ev N)) (r : Ret) -- inside Recv: handler calls still to make, then return r
  | check                                 -- run: the closed check after a nil Recv
  | runErr                                -- run: Recv failed: impl.Close(); return err
  | innerRet (e : Bool)                   -- inner Subscribe returned (e: with an error)
  | ctxCheck (e : Bool)                   -- reconnect loop: select on ctx.Done()
  | sleeping                              -- time.Sleep(backoff)
  | resetCb                               -- about to call reset()
  | finishing                             -- deferred done(): close(subscribeDone)
  | returned (r : SubRet)

/-- program counter of goroutine K -/
inductive KPc where
  | idle                        -- Close not called yet
  | inner (sd : Bool)           -- past the critical section; sd: a non-nil subscribeDone was read
  | waiting (sd : Bool) (e : Bool)   -- p.Client.Close() returned (e: ErrClientInit)
  | returned (sd : Bool) (e : Bool)
deriving DecidableEq, Repr

structure Cfg (N : Type) where
  -- ReconnectClient (guarded by p.mu)
  rcClosed : Bool := false       -- p.closed
  cancelSet : Bool := false      -- p.cancel != nil
  sdSet : Bool := false          -- p.subscribeDone != nil
  sdClosed : Bool := false       -- close(p.subscribeDone) happened
  cancelled : Bool := false      -- p.cancel() was called
  cancelCalls : Nat := 0         -- ghost: how many times initDone/Close called p.cancel()
  parentC : Bool := false        -- the caller's context was cancelled
  -- BaseClient (guarded by c.mu)
  bcClosed : Bool := false       -- c.closed
  bcImpl : Option Nat := none    -- c.clientImpl (instances are named by attempt number)
  -- the attempt in progress and its Impl instance
  att : Nat := 0
  items : List (Item N) := []    -- what the stream will still hand out
  connected : Bool := false      -- gnmi Client.connected
  curClosed : Bool := false      -- Close() was called on this instance
  mi : Nat := 0                  -- messages received on this stream so far
  -- ghost
  postClose : Option Nat := none -- messages received since BaseClient.Close closed *this* instance
  spc : SPc N := .idle
  kpc : KPc := .idle
  trace : List (Ev N) := []

variable {N : Type}

/-- the context handed to the inner `Subscribe` is done -/
def Cfg.ctxDone (c : Cfg N) : Bool := c.parentC || c.cancelled

/-- the instance S is using may stop blocking (hypothesis on the `Impl`) -/
def Cfg.released (c : Cfg N) : Bool := c.ctxDone || c.curClosed

def Cfg.emit (c : Cfg N) (e : Ev N) : Cfg N := { c with trace := c.trace ++ [e] }

/-- the handler calls one message causes (`defaultRecv`): `Connected` first if not yet sent -/
def msgEvents (a i : Nat) (connected : Bool) (m : Msg N) : List (Ev N) :=
  (if connected then [] else [Ev.connected a]) ++ m.notis.map (Ev.noti a i)

inductive Label where
  | subInit | plainStart
  | connFail | connSubFail | connOk | connAbort
  | install
  | recvMsg | recvWait | recvAbort | recvTermErr | recvEof
  | handle | handled
  | check | runErr
  | plainRet | disc | ctxExit | sleepStart | wake | reset | finish
  | closeCs | closeInner | closeWait | plainClose
  | parentCancel
deriving DecidableEq, Repr

/-! ## The atomic sections (state updates) -/

/-- `initDone` (under `p.mu`): make subscribeDone, derive the context, cancel if already closed;
then the loop calls the inner Subscribe for attempt 0 -/
def Cfg.doSubInit (c : Cfg N) : Cfg N :=
  { c with sdSet := true, cancelSet := true,
           cancelled := c.cancelled || c.rcClosed,
           cancelCalls := if c.rcClosed then c.cancelCalls + 1 else c.cancelCalls,
           spc := .connect, trace := c.trace ++ [.start c.att] }

/-- plain BaseClient/CacheClient: Subscribe is the inner Subscribe -/
def Cfg.doPlainStart (c : Cfg N) : Cfg N :=
  { c with spc := .connect, trace := c.trace ++ [.start c.att] }

/-- connect failed (InitImpl error, or Impl.Subscribe error followed by impl.Close()) -/
def Cfg.doConnFail (c : Cfg N) : Cfg N :=
  { c with spc := .innerRet true, trace := c.trace ++ [.ended c.att] }

/-- connect succeeded: a fresh Impl instance for this attempt -/
def Cfg.doConnOk (c : Cfg N) (s : Script N) : Cfg N :=
  { c with items := (s c.att).items, connected := false, curClosed := false, mi := 0,
           postClose := none, spc := .install }

/-- `c.mu.Lock(); c.query = q; close the old impl; c.clientImpl = impl; c.closed = false` -/
def Cfg.doInstall (c : Cfg N) : Cfg N :=
  { c with bcImpl := some c.att, bcClosed := false, spc := .recv }

/-- `Recv` gets message `m`: `defaultRecv` will call the handler for each derived notification -/
def Cfg.doRecvMsg (c : Cfg N) (m : Msg N) (rest : List (Item N)) : Cfg N :=
  { c with items := rest, connected := true, mi := c.mi + 1,
           postClose := c.postClose.map (· + 1),
           spc := .handling (msgEvents c.att c.mi c.connected m) m.ret }

def Cfg.doRecvWait (c : Cfg N) (rest : List (Item N)) : Cfg N := { c with items := rest }

/-- one handler call -/
def Cfg.doHandle (c : Cfg N) (e : Ev N) (rest : List (Ev N)) (r : Ret) : Cfg N :=
  { c with spc := .handling rest r, trace := c.trace ++ [e] }

/-- `Recv` returns `r` to `run` -/
def Cfg.doHandled (c : Cfg N) (r : Ret) : Cfg N :=
  match r with
  | .ok => { c with spc := .check }
  | .stop => { c with spc := .innerRet false, trace := c.trace ++ [.ended c.att] }
  | .err => { c with spc := .runErr }

/-- `c.mu.RLock(); closed := c.closed` -/
def Cfg.doCheck (c : Cfg N) : Cfg N :=
  if c.bcClosed then { c with spc := .innerRet false, trace := c.trace ++ [.ended c.att] }
  else { c with spc := .recv }

/-- `impl.Close(); return err` -/
def Cfg.doRunErr (c : Cfg N) : Cfg N :=
  { c with curClosed := true, spc := .innerRet true, trace := c.trace ++ [.ended c.att] }

def Cfg.doEof (c : Cfg N) : Cfg N :=
  { c with spc := .innerRet false, trace := c.trace ++ [.ended c.att] }

def Cfg.doPlainRet (c : Cfg N) (e : Bool) : Cfg N :=
  { c with spc := .returned (if e then .err else .nil) }

def Cfg.doDisc (c : Cfg N) (e : Bool) : Cfg N :=
  { c with spc := .ctxCheck e, trace := c.trace ++ [.disc c.att] }

def Cfg.doReset (c : Cfg N) : Cfg N :=
  { c with att := c.att + 1, spc := .connect,
           trace := c.trace ++ [.reset (c.att + 1), .start (c.att + 1)] }

def Cfg.doFinish (c : Cfg N) : Cfg N := { c with sdClosed := true, spc := .returned .canceled }

/-- the critical section of `ReconnectClient.Close` (under `p.mu`) -/
def Cfg.doCloseCs (c : Cfg N) : Cfg N :=
  { c with cancelled := c.cancelled || c.cancelSet,
           cancelCalls := if c.cancelSet then c.cancelCalls + 1 else c.cancelCalls,
           rcClosed := true, kpc := .inner c.sdSet }

/-- does `BaseClient.Close` close the instance S is receiving on? (instances are named by attempt
number; S is past `install` exactly when `bcImpl = some att`) -/
def Cfg.hitsCurrent (c : Cfg N) : Bool := c.bcImpl == some c.att

/-- `BaseClient.Close` (under `c.mu`): `ErrClientInit` without an impl, else `closed = true;
clientImpl.Close()` -/
def Cfg.doBcClose (c : Cfg N) (k : Bool → KPc) : Cfg N :=
  match c.bcImpl with
  | none => { c with kpc := k true }
  | some _ =>
      { c with bcClosed := true, curClosed := c.curClosed || c.hitsCurrent,
               postClose := if c.hitsCurrent then (match c.postClose with | none => some 0 | p => p) else c.postClose,
               kpc := k false }

/-! ## The transition relation -/

/-- `Step wrap s c l c'`: `wrap` = the client is a `ReconnectClient` (else the plain
`BaseClient`/`CacheClient`), `s` = the transport script. -/
inductive Step (wrap : Bool) (s : Script N) : Cfg N → Label → Cfg N → Prop where
  -- goroutine S ------------------------------------------------------------------
  | subInit {c} : wrap = true → c.spc = .idle → Step wrap s c .subInit c.doSubInit
  | plainStart {c} : wrap = false → c.spc = .idle → Step wrap s c .plainStart c.doPlainStart
  | connFail {c} : c.spc = .connect → (s c.att).conn = .fail → Step wrap s c .connFail c.doConnFail
  | connSubFail {c} : c.spc = .connect → (s c.att).conn = .subFail → Step wrap s c .connSubFail c.doConnFail
  | connOk {c} : c.spc = .connect → (s c.att).conn = .ok → Step wrap s c .connOk (c.doConnOk s)
  /-- whatever the script says, connecting with a done context may fail; a hanging connect
  returns (failing) once the context is done -/
  | connAbort {c} : c.spc = .connect → c.ctxDone = true → Step wrap s c .connAbort c.doConnFail
  | install {c} : c.spc = .install → Step wrap s c .install c.doInstall
  | recvMsg {c m rest} : c.spc = .recv → c.items = .msg m :: rest → Step wrap s c .recvMsg (c.doRecvMsg m rest)
  | recvWait {c rest} : c.spc = .recv → c.items = .wait :: rest → c.released = true →
      Step wrap s c .recvWait (c.doRecvWait rest)
  /-- once the context is done or the instance closed, Recv may fail at any point -/
  | recvAbort {c} : c.spc = .recv → c.released = true → Step wrap s c .recvAbort { c with spc := .runErr }
  | recvTermErr {c} : c.spc = .recv → c.items = [] → (s c.att).term = .err →
      Step wrap s c .recvTermErr { c with spc := .runErr }
  | recvEof {c} : c.spc = .recv → c.items = [] → (s c.att).term = .eof → Step wrap s c .recvEof c.doEof
  | handle {c e rest r} : c.spc = .handling (e :: rest) r → Step wrap s c .handle (c.doHandle e rest r)
  | handled {c r} : c.spc = .handling [] r → Step wrap s c .handled (c.doHandled r)
  | check {c} : c.spc = .check → Step wrap s c .check c.doCheck
  | runErr {c} : c.spc = .runErr → Step wrap s c .runErr c.doRunErr
  | plainRet {c e} : wrap = false → c.spc = .innerRet e → Step wrap s c .plainRet (c.doPlainRet e)
  | disc {c e} : wrap = true → c.spc = .innerRet e → Step wrap s c .disc (c.doDisc e)
  | ctxExit {c e} : c.spc = .ctxCheck e → c.ctxDone = true → Step wrap s c .ctxExit { c with spc := .finishing }
  | sleepStart {c e} : c.spc = .ctxCheck e → c.ctxDone = false → Step wrap s c .sleepStart { c with spc := .sleeping }
  /-- the backoff timer fires (any positive delay) -/
  | wake {c} : c.spc = .sleeping → Step wrap s c .wake { c with spc := .resetCb }
  | reset {c} : c.spc = .resetCb → Step wrap s c .reset c.doReset
  | finish {c} : c.spc = .finishing → Step wrap s c .finish c.doFinish
  -- goroutine K ------------------------------------------------------------------
  | closeCs {c} : wrap = true → c.kpc = .idle → Step wrap s c .closeCs c.doCloseCs
  | closeInner {c sd} : c.kpc = .inner sd → Step wrap s c .closeInner (c.doBcClose (KPc.waiting sd))
  /-- `if subscribeDone != nil { <-subscribeDone }` -/
  | closeWait {c sd e} : c.kpc = .waiting sd e → (sd = true → c.sdClosed = true) →
      Step wrap s c .closeWait { c with kpc := .returned sd e }
  | plainClose {c} : wrap = false → c.kpc = .idle → Step wrap s c .plainClose (c.doBcClose (KPc.returned false))
  -- environment ------------------------------------------------------------------
  | parentCancel {c} : c.parentC = false → Step wrap s c .parentCancel { c with parentC := true }

/-- initial configuration -/
def init : Cfg N := {}

inductive Reach (wrap : Bool) (s : Script N) : Cfg N → Prop where
  | init : Reach wrap s init
  | step {c l c'} : Reach wrap s c → Step wrap s c l c' → Reach wrap s c'

/-- finite runs, with their labels -/
inductive Run (wrap : Bool) (s : Script N) : Cfg N → List Label → Cfg N → Prop where
  | nil {c} : Run wrap s c [] c
  | cons {c l c' ls c''} : Step wrap s c l c' → Run wrap s c' ls c'' → Run wrap s c (l :: ls) c''

/-! ## Executable deterministic semantics (what the driver runs)

`sNext` is goroutine S (and the timer) under the policy of the scripted harness transport:
the script decides; a transport whose context is done / which was closed fails at once, except
in *buffered* mode where it keeps handing out what the script holds. -/

def sNext (wrap : Bool) (s : Script N) (buffered : Bool) (c : Cfg N) : Option (Label × Cfg N) :=
  match c.spc with
  | .idle => if wrap then some (.subInit, c.doSubInit) else some (.plainStart, c.doPlainStart)
  | .connect =>
      if c.ctxDone then some (.connAbort, c.doConnFail) else
      match (s c.att).conn with
      | .fail => some (.connFail, c.doConnFail)
      | .subFail => some (.connSubFail, c.doConnFail)
      | .ok => some (.connOk, c.doConnOk s)
      | .hang => none
  | .install => some (.install, c.doInstall)
  | .recv =>
      match c.items with
      | .wait :: rest => if c.released then some (.recvWait, c.doRecvWait rest) else none
      | .msg m :: rest =>
          if c.released && !buffered then some (.recvAbort, { c with spc := .runErr })
          else some (.recvMsg, c.doRecvMsg m rest)
      | [] =>
          if c.released && !buffered then some (.recvAbort, { c with spc := .runErr }) else
          match (s c.att).term with
          | .err => some (.recvTermErr, { c with spc := .runErr })
          | .eof => some (.recvEof, c.doEof)
  | .handling (e :: rest) r => some (.handle, c.doHandle e rest r)
  | .handling [] r => some (.handled, c.doHandled r)
  | .check => some (.check, c.doCheck)
  | .runErr => some (.runErr, c.doRunErr)
  | .innerRet e => if wrap then some (.disc, c.doDisc e) else some (.plainRet, c.doPlainRet e)
  | .ctxCheck _ =>
      if c.ctxDone then some (.ctxExit, { c with spc := .finishing })
      else some (.sleepStart, { c with spc := .sleeping })
  | .sleeping => some (.wake, { c with spc := .resetCb })
  | .resetCb => some (.reset, c.doReset)
  | .finishing => some (.finish, c.doFinish)
  | .returned _ => none

/-- goroutine K -/
def kNext (wrap : Bool) (c : Cfg N) : Option (Label × Cfg N) :=
  match c.kpc with
  | .idle => if wrap then some (.closeCs, c.doCloseCs) else some (.plainClose, c.doBcClose (KPc.returned false))
  | .inner sd => some (.closeInner, c.doBcClose (KPc.waiting sd))
  | .waiting sd e =>
      if !sd || c.sdClosed then
        some (.closeWait, { c with kpc := .returned sd e })
      else none
  | .returned _ _ => none

def envCancel (c : Cfg N) : Option (Label × Cfg N) :=
  if c.parentC then none else some (.parentCancel, { c with parentC := true })

end ClientLTS
end Gnmi
