import Gnmi.Model.ClientLTS
/-!
# `getFirst` (client/register.go) as a labelled transition system

Go code modelled (put `client/register.go` next to this file):

```go
func getFirst(ctx, types, input, fn) (Impl, error) {
	if len(types) == 0 { return nil, errors.New(…) }          -- entry0
	errC := make(chan error, len(types))                        -- buffered, capacity n
	implC := make(chan Impl)                                    -- unbuffered
	done := make(chan struct{})
	defer close(done)                                           -- closeDone
	for _, t := range types {                                   -- spawn k
		go func(t string) {
			impl, err := fn(ctx, t, input)                      -- fnImpl / fnErr / fnAbort
			if err != nil { errC <- …; return }                 -- sendErr
			select {
			case implC <- impl:                                 -- recvImpl (rendez-vous with the loop)
			case <-done: impl.Close()                           -- doneArm
			}
		}(t)
	}
	errs := errlist.Error{…}
	for { select {
		case err := <-errC: errs.Add(err)                       -- recvErr
			if len(errs.Errors()) == len(types) { return nil, errs.Err() }
		case impl := <-implC: return impl, nil                  -- recvImpl
	} }
}
```

Threads: the caller (`main`), one goroutine per client type (named by its index in `types`),
the environment (cancellation of `ctx`, at any time).  One transition = one synchronising
operation (channel send/receive/close, goroutine start) together with the goroutine-local code
up to the next one.

`fn` is a *script*: type index ↦ what `fn` does (`Out`).  The hypothesis of C18 on an `Impl`
("`InitImpl`/`Impl.Subscribe` return once the context is cancelled") is built into the rules the
same way `Model/ClientLTS.lean` does it: a blocked `fn` (`Out.hang`) returns (failing) exactly
when `ctx` is done (`fnAbort`); any `fn` *may* fail once `ctx` is done; nothing else is assumed
(`fn` may still succeed after cancellation: `fnImpl` is never disabled).

`getFirst` itself never looks at `ctx`.  The parameter `mu : Bool` (mutant switch) selects the **mutant** of
seeded change `c18_seed7` (`mu = true`; clearly NOT the repository's code): the goroutine drops
its error instead of sending it when `ctx.Err() != nil`.  All positive theorems are about
`mu = false`.

Ghost state: `closedLog` (every `impl.Close()` call made by `getFirst`'s goroutines, in order).

The last section models how `NewImpl` and `BaseClient.Subscribe` use `getFirst` and how its
result is classified by the client LTS (`ClientLTS.Conn`).
-/
namespace Gnmi
namespace ClientFirst

/-- what `fn(ctx, t, input)` does for one client type -/
inductive Out where
  | impl    -- returns an Impl
  | error   -- returns an error
  | hang    -- blocks until ctx is done, then returns an error
deriving DecidableEq, Repr

/-- program counter of the goroutine of one type -/
inductive GPc where
  | unborn                 -- the `go` statement has not been executed yet
  | calling                -- inside fn
  | failed                 -- fn returned an error: about to `errC <- err`
  | offering               -- fn returned an Impl: at `select { implC <- impl; <-done }`
  | exitedErr (sent : Bool) -- returned after the error branch (sent = false: only the mutant)
  | exitedRecv             -- `implC <- impl` was received by the loop; returned
  | exitedClosed           -- `<-done` arm: `impl.Close()`; returned
deriving DecidableEq, Repr

/-- what `getFirst` returns -/
inductive Res where
  | noTypes                 -- "getFirst: no client types provided"
  | impl (i : Nat)          -- the Impl made by type i
  | errs (l : List Nat)     -- errs.Err(): the collected errors, in collection order (by type)
deriving DecidableEq, Repr

/-- program counter of the caller -/
inductive MPc where
  | entry
  | spawn (k : Nat)         -- the `for … { go … }` loop: k goroutines started
  | loop                    -- the collecting loop, at its select
  | closing (r : Res)       -- `return …` executed, deferred `close(done)` not yet
  | returned (r : Res)
deriving DecidableEq, Repr

structure Cfg where
  g : List GPc                   -- one per type
  errC : List Nat := []          -- buffer of errC (who sent), FIFO; capacity = number of types
  errs : List Nat := []          -- errs.Errors()
  doneClosed : Bool := false     -- close(done) happened
  cancelled : Bool := false      -- ctx is done
  closedLog : List Nat := []     -- ghost: impl.Close() calls, by type
  main : MPc := .entry
deriving DecidableEq, Repr

inductive Label where
  | entry0 | entry | spawn (k : Nat) | enterLoop
  | fnImpl (i : Nat) | fnErr (i : Nat) | fnAbort (i : Nat)
  | sendErr (i : Nat) | dropErr (i : Nat)
  | recvErr | recvImpl (i : Nat) | closeDone | doneArm (i : Nat)
  | cancel
deriving DecidableEq, Repr

/-- the goroutine a transition belongs to (`recvImpl` belongs to both its goroutine and main) -/
def Label.actor : Label → Option Nat
  | .fnImpl i | .fnErr i | .fnAbort i | .sendErr i | .dropErr i | .recvImpl i | .doneArm i => some i
  | _ => none

/-! ## The atomic sections -/

def Cfg.setG (c : Cfg) (i : Nat) (p : GPc) : Cfg := { c with g := c.g.set i p }

/-- `go func(t){…}(t)` for type k -/
def Cfg.doSpawn (c : Cfg) (k : Nat) : Cfg := { c with g := c.g.set k .calling, main := .spawn (k + 1) }

/-- `errC <- fmt.Errorf(…)`; return -/
def Cfg.doSendErr (c : Cfg) (i : Nat) : Cfg :=
  { c with g := c.g.set i (.exitedErr true), errC := c.errC ++ [i] }

/-- `case err := <-errC: errs.Add(err); if len(errs.Errors()) == len(types) { return nil, errs.Err() }` -/
def Cfg.doRecvErr (c : Cfg) (n e : Nat) (rest : List Nat) : Cfg :=
  { c with errC := rest, errs := c.errs ++ [e],
           main := if (c.errs ++ [e]).length = n then .closing (.errs (c.errs ++ [e])) else .loop }

/-- the rendez-vous on implC: `case implC <- impl:` / `case impl := <-implC: return impl, nil` -/
def Cfg.doRecvImpl (c : Cfg) (i : Nat) : Cfg :=
  { c with g := c.g.set i .exitedRecv, main := .closing (.impl i) }

/-- `case <-done: impl.Close()` -/
def Cfg.doDoneArm (c : Cfg) (i : Nat) : Cfg :=
  { c with g := c.g.set i .exitedClosed, closedLog := c.closedLog ++ [i] }

/-! ## The transition relation

`Step mu outs c l c'`: `outs` = the script of `fn` per type (`types` has `outs.length` entries);
`mu = false` is the repository's code, `mu = true` the mutant of seeded change c18_seed7. -/
inductive Step (mu : Bool) (outs : List Out) : Cfg → Label → Cfg → Prop where
  -- main -----------------------------------------------------------------------------
  | entry0 {c} : c.main = .entry → outs = [] → Step mu outs c .entry0 { c with main := .returned .noTypes }
  | entry {c} : c.main = .entry → outs ≠ [] → Step mu outs c .entry { c with main := .spawn 0 }
  | spawn {c k} : c.main = .spawn k → k < outs.length → Step mu outs c (.spawn k) (c.doSpawn k)
  | enterLoop {c} : c.main = .spawn outs.length → Step mu outs c .enterLoop { c with main := .loop }
  | recvErr {c e rest} : c.main = .loop → c.errC = e :: rest →
      Step mu outs c .recvErr (c.doRecvErr outs.length e rest)
  | recvImpl {c i} : c.main = .loop → c.g[i]? = some .offering → Step mu outs c (.recvImpl i) (c.doRecvImpl i)
  | closeDone {c r} : c.main = .closing r →
      Step mu outs c .closeDone { c with doneClosed := true, main := .returned r }
  -- goroutine i ----------------------------------------------------------------------
  | fnImpl {c i} : c.g[i]? = some .calling → outs[i]? = some .impl → Step mu outs c (.fnImpl i) (c.setG i .offering)
  | fnErr {c i} : c.g[i]? = some .calling → outs[i]? = some .error → Step mu outs c (.fnErr i) (c.setG i .failed)
  /-- whatever the script says, fn may fail once ctx is done; a hanging fn returns (failing)
  once ctx is done -/
  | fnAbort {c i} : c.g[i]? = some .calling → c.cancelled = true → Step mu outs c (.fnAbort i) (c.setG i .failed)
  /-- the send on the buffered errC (enabled while the buffer has room); the mutant only sends
  while `ctx.Err() == nil` -/
  | sendErr {c i} : c.g[i]? = some .failed → c.errC.length < outs.length → (mu && c.cancelled) = false →
      Step mu outs c (.sendErr i) (c.doSendErr i)
  /-- MUTANT ONLY (c18_seed7): `if ctx.Err() == nil { errC <- … }; return` -/
  | dropErr {c i} : c.g[i]? = some .failed → mu = true → c.cancelled = true →
      Step mu outs c (.dropErr i) (c.setG i (.exitedErr false))
  | doneArm {c i} : c.g[i]? = some .offering → c.doneClosed = true → Step mu outs c (.doneArm i) (c.doDoneArm i)
  -- environment ----------------------------------------------------------------------
  | cancel {c} : c.cancelled = false → Step mu outs c .cancel { c with cancelled := true }

/-- initial configuration for `n` types -/
def init (n : Nat) : Cfg := { g := List.replicate n .unborn }

inductive Reach (mu : Bool) (outs : List Out) : Cfg → Prop where
  | init : Reach mu outs (init outs.length)
  | step {c l c'} : Reach mu outs c → Step mu outs c l c' → Reach mu outs c'

inductive Run (mu : Bool) (outs : List Out) : Cfg → List Label → Cfg → Prop where
  | nil {c} : Run mu outs c [] c
  | cons {c l c' ls c''} : Step mu outs c l c' → Run mu outs c' ls c'' → Run mu outs c (l :: ls) c''

/-! ## Executable semantics (what the `rc gf` driver arm runs)

`fnRet` = the harness releases the gate of type `i`: its `fn` returns what the script says (a
hanging `fn` only once ctx is done).  `settle` = everything else that is enabled runs to
quiescence, in a fixed order (main first, then the goroutines by index); hanging `fn`s return
once ctx is done. -/

/-- the gate of type i is opened -/
def fnRet (outs : List Out) (c : Cfg) (i : Nat) : Option (Label × Cfg) :=
  if c.g[i]? = some .calling then
    match outs[i]? with
    | some .impl => some (.fnImpl i, c.setG i .offering)
    | some .error => some (.fnErr i, c.setG i .failed)
    | some .hang => if c.cancelled then some (.fnAbort i, c.setG i .failed) else none
    | none => none
  else none

/-- the first goroutine parked at its select (Go's select picks any ready case; the executable
schedule picks the lowest index) -/
def firstOffering : List GPc → Option Nat
  | [] => none
  | p :: ps => if p = .offering then some 0 else (firstOffering ps).map (· + 1)

def mainNext (outs : List Out) (c : Cfg) : Option (Label × Cfg) :=
  match c.main with
  | .entry => if outs = [] then some (.entry0, { c with main := .returned .noTypes })
              else some (.entry, { c with main := .spawn 0 })
  | .spawn k =>
      if k < outs.length then some (.spawn k, c.doSpawn k)
      else if k = outs.length then some (.enterLoop, { c with main := .loop }) else none
  | .loop =>
      match c.errC with
      | e :: rest => some (.recvErr, c.doRecvErr outs.length e rest)
      | [] =>
          match firstOffering c.g with
          | some i => some (.recvImpl i, c.doRecvImpl i)
          | none => none
  | .closing r => some (.closeDone, { c with doneClosed := true, main := .returned r })
  | .returned _ => none

/-- goroutine `i` past its `fn` (and hanging `fn`s once ctx is done) -/
def gNext (mu : Bool) (outs : List Out) (c : Cfg) (i : Nat) : Option (Label × Cfg) :=
  match c.g[i]? with
  | some .calling =>
      if outs[i]? = some .hang && c.cancelled then some (.fnAbort i, c.setG i .failed) else none
  | some .failed =>
      if mu && c.cancelled then some (.dropErr i, c.setG i (.exitedErr false))
      else if c.errC.length < outs.length then some (.sendErr i, c.doSendErr i) else none
  | some .offering => if c.doneClosed then some (.doneArm i, c.doDoneArm i) else none
  | _ => none

def firstSome {α β : Type} (f : α → Option β) : List α → Option β
  | [] => none
  | a :: as => match f a with
      | some b => some b
      | none => firstSome f as

def next (mu : Bool) (outs : List Out) (c : Cfg) : Option (Label × Cfg) :=
  match mainNext outs c with
  | some x => some x
  | none => firstSome (gNext mu outs c) (List.range outs.length)

def settle (mu : Bool) (outs : List Out) : Nat → Cfg → Cfg
  | 0, c => c
  | fuel + 1, c =>
      match next mu outs c with
      | none => c
      | some (_, c') => settle mu outs fuel c'

/-- one token of a harness schedule -/
inductive Tok where
  | rel (i : Nat)   -- open the gate of type i
  | cancel          -- cancel ctx
deriving DecidableEq, Repr

def fuelOf (outs : List Out) : Nat := 6 * outs.length + 8

/-- `none`: the schedule asks for something the harness cannot do (open the gate of a type that
is not inside `fn`, or of a hanging `fn` with a live ctx) -/
def runSched (mu : Bool) (outs : List Out) : List Tok → Cfg → Option Cfg
  | [], c => some c
  | .rel i :: ts, c =>
      match fnRet outs c i with
      | none => none
      | some (_, c') => runSched mu outs ts (settle mu outs (fuelOf outs) c')
  | .cancel :: ts, c =>
      runSched mu outs ts (settle mu outs (fuelOf outs) { c with cancelled := true })

def runGF (mu : Bool) (outs : List Out) (ts : List Tok) : Option Cfg :=
  runSched mu outs ts (settle mu outs (fuelOf outs) (init outs.length))

/-! ## `NewImpl` and `BaseClient.Subscribe` on top of `getFirst`

* `NewImpl(ctx, d, types…)` = `getFirst(ctx, types, d, fn₁)`, `fn₁` = the registered `InitImpl`
  (an unregistered name fails).  So one `Out` per type: `impl` (InitImpl succeeds), `error`,
  `hang` (a dial bounded by ctx).
* `BaseClient.Subscribe(ctx, q, types…)` = `getFirst(ctx, types, q, fn₂)`, with
  `fn₂ = NewImpl(ctx, dest, typ)` (a `getFirst` over the single type `typ`) followed by
  `impl.Subscribe(ctx, q)`; if that fails `fn₂` calls `impl.Close()` itself and returns the error.
  On `(nil, err)` Subscribe returns `err`; on `(impl, nil)` it goes on to the `install` section
  of `Model/ClientLTS.lean` (`c.clientImpl = impl; c.closed = false`) and `run`.
  `BaseClient.Close` before that section finds `clientImpl == nil` (`ErrClientInit`,
  `Cfg.doBcClose`) and closes nothing; after it, it closes the installed Impl.

`connOf` classifies the result of `getFirst` the way the client LTS's `connect` step does. -/

/-- what `fn₂` of `BaseClient.Subscribe` does for one type, in terms of `ClientLTS.Conn` -/
def outOfConn : ClientLTS.Conn → Out
  | .fail => .error      -- InitImpl fails
  | .subFail => .error   -- Impl.Subscribe fails (fn₂ has closed the Impl)
  | .ok => .impl
  | .hang => .hang

/-- does `BaseClient.Subscribe` go on to `install` (`some i`: with the Impl of type i) or
return the error? -/
def Res.installs : Res → Option Nat
  | .impl i => some i
  | _ => none

end ClientFirst
end Gnmi
