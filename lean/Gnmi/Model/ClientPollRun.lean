import Gnmi.Model.ClientPoll
/-!
# Scenario semantics of the Poll wrapper (what the `rc new poll` driver arm executes)

A scenario = a Poll-type query on `client.Reconnect(…)`: the first attempt delivers `first`
updates and a sync (for a Poll query `Recv` then returns the stop marker: the inner `Subscribe`
returns nil and the reconnect loop goes on to its disconnect callback); while goroutine S is
parked **inside that disconnect callback** (impl 0 installed and alive) the Poll calls are issued
one after the other, each running until it has returned or is parked in the transport; `Close`
(or the cancellation of the caller's context) is injected

* `inCb at`: inside the callback, before Poll call number `at` (the remaining calls are made
  after `Subscribe` and `Close` have returned), or
* `dial`: after all Poll calls, once the callback has returned, the backoff has elapsed and the
  next attempt's connect is blocked in its dial (`Conn.hang`).

Every configuration visited is reachable in the wrapper LTS (`Lemmas/ClientPoll.lean: prun_reach`).
-/
namespace Gnmi
namespace ClientPoll
open ClientLTS

/-- what the transport does for one Poll call, as the harness writes it -/
inductive PollBeh where
  | answered (k : Nat)     -- a<k>: k updates and a sync
  | parked (buf : Nat)     -- n / nb<buf>: no answer; once the instance is dead, buf buffered updates, then an error
  | sendErr                -- e: the transport's Poll (Send) fails
deriving DecidableEq, Repr

inductive PInj where
  | inCb (at_ : Nat)
  | dial
deriving DecidableEq, Repr

structure PScenario where
  first : Nat
  polls : List PollBeh
  cancel : Bool
  inj : PInj
deriving Repr

def updMsg : Msg NKind := { notis := [.upd], ret := .ok }

def specOf : PollBeh → PollSpec NKind
  | .answered k => { items := List.replicate k (.msg updMsg) ++ [.msg { notis := [.sync], ret := .stop }] }
  | .parked b => { items := .wait :: List.replicate b (.msg updMsg) }
  | .sendErr => { sendFails := true }

def specsOf (sc : PScenario) : Nat → PollSpec NKind := fun j =>
  match sc.polls[j]? with
  | some b => specOf b
  | none => {}

/-- attempt 0: `first` updates, sync; attempt 1: blocked dial (`dial`) or a silent stream -/
def pscriptOf (sc : PScenario) : Script NKind := fun a =>
  if a = 0 then attemptOf true (.stream (List.replicate sc.first (.update 1 0) ++ [.sync]) (some .err))
  else match sc.inj with
    | .dial => if a = 1 then { blockAttempt with conn := .hang } else blockAttempt
    | _ => blockAttempt

def runBS (mu : Bool) (s : Script NKind) (stop : Cfg NKind → Bool) : Nat → PCfg NKind → PCfg NKind
  | 0, c => c
  | fuel + 1, c =>
      if stop c.base then c else
      match liftBase mu c (sNext true s false c.base) with
      | none => c
      | some (_, c') => runBS mu s stop fuel c'

def runBK (mu : Bool) : Nat → PCfg NKind → PCfg NKind
  | 0, c => c
  | fuel + 1, c =>
      match liftBase mu c (kNext true c.base) with
      | none => c
      | some (_, c') => runBK mu fuel c'

def cancelB (mu : Bool) (c : PCfg NKind) : PCfg NKind :=
  match liftBase mu c (envCancel c.base) with
  | none => c
  | some (_, c') => c'

/-- Poll caller `j` runs until it has returned or is parked -/
def runP (mu : Bool) (ps : Nat → PollSpec NKind) (j : Nat) : Nat → PCfg NKind → PCfg NKind
  | 0, c => c
  | fuel + 1, c =>
      match pNext mu ps c j with
      | none => c
      | some (_, c') => runP mu ps j fuel c'

def runPs (mu : Bool) (ps : Nat → PollSpec NKind) (fuel : Nat) : List Nat → PCfg NKind → PCfg NKind
  | [], c => c
  | j :: js, c => runPs mu ps fuel js (runP mu ps j fuel c)

structure POutcome where
  valid : Bool
  mark : Nat             -- length of the log when the injection happened
  final : PCfg NKind

def pfuel (sc : PScenario) : Nat :=
  200 + 4 * sc.first + (sc.polls.map (fun b => match b with
    | .answered k => 6 * k + 20 | .parked b => 6 * b + 20 | .sendErr => 20)).sum

def inCallback (c : Cfg NKind) : Bool :=
  (match c.spc with | .ctxCheck _ => true | _ => false) && c.att == 0

/-- `dial`: the callback returns; S sleeps, calls reset, and parks in the dial of attempt 1 -/
def dialPhase (mu : Bool) (s : Script NKind) (fuel : Nat) (inj : PInj) (c : PCfg NKind) : PCfg NKind :=
  match inj with
  | .dial => runBS mu s (fun _ => false) fuel c
  | _ => c

/-- the injection: cancellation of the caller's context, or `Close` as far as it gets -/
def injectB (mu : Bool) (cancel : Bool) (c : PCfg NKind) : PCfg NKind :=
  if cancel then cancelB mu c else runBK mu 4 c

/-- the harness's final `Close` of a cancellation scenario -/
def finalClose (mu : Bool) (cancel : Bool) (c : PCfg NKind) : PCfg NKind :=
  if cancel then runBK mu 4 c else c

def runPScenario (mu : Bool) (sc : PScenario) : POutcome :=
  let s := pscriptOf sc
  let ps := specsOf sc
  let fuel := pfuel sc
  let np := sc.polls.length
  let c0 := runBS mu s inCallback fuel (pinit np)
  let ok0 := inCallback c0.base
  let at_ := match sc.inj with | .inCb a => a | .dial => np
  let before := (List.range np).filter (· < at_)
  let after := (List.range np).filter (fun j => !(j < at_))
  let c1 := runPs mu ps fuel before c0
  let c2 := dialPhase mu s fuel sc.inj c1
  let ok1 := match sc.inj with
    | .dial => (match c2.base.spc with | .connect => true | _ => false) && c2.base.att == 1 &&
               -- buffered answers would race with the last disconnect callback
               sc.polls.all (fun b => match b with | .parked (_ + 1) => false | _ => true)
    | .inCb a => a ≤ np
  let c3 := injectB mu sc.cancel c2
  let c4 := runPs mu ps fuel before c3        -- the parked callers are released
  let c5 := runBK mu 4 (runBS mu s (fun _ => false) fuel c4)
  let c6 := runPs mu ps fuel after c5         -- Poll calls made after everything has returned
  let c7 := finalClose mu sc.cancel c6
  { valid := ok0 && ok1, mark := c2.log.length, final := c7 }

end ClientPoll
end Gnmi
