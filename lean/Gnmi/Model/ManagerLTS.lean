import Gnmi.Spec.Session
/-!
# The target manager (`manager/manager.go`) as a labelled transition system  (property C13)

Put `manager.go` next to this file.  One *instance* (`Inst`) is one `*target` together with the
goroutine `retryMonitor` started for it by `Add`; its program counter `Pc` walks through
`retryMonitor → monitor → createConn → subscribe → handleUpdates` arm by arm.  One transition is
one atomic section: the code between two blocking / synchronising operations, or one invocation
of a user callback.  Conventions (DESIGN §4):

* `context` cancellation = monotone booleans: `cancelled` (the target context, `ta.cancel`) and
  `subCancelled` (the current sub-context created by `reconnectCtx`, cancelled through
  `ta.reconnect`); `ctxDone = cancelled ∨ subCancelled` enables the `ctx.Done()` arms;
* `close(ta.finished)` = the monotone boolean `finished`;
* the retry timer is armed exactly at `Pc.timer` (`time.NewTimer(0)` / `timer.Reset(delay)`), its
  expiry is the transition `timerFire`; the backoff delay is not modelled (any positive delay);
* the receive timer is armed exactly at `Pc.recv` (`recvTimer.Reset` … `recvTimer.Stop`); its
  expiry (`tmoFire`) makes the timeout goroutine call `m.Reconnect(name)`;
* the manager mutex `m.mu` is free (`lock = none`) except while a `Remove` waits for
  `finished` (`lock = some i`): `Remove` keeps `m.mu` for its whole body;
* external collaborators are a *script*: `env name k` is the behaviour of the `k`-th attempt
  made for target `name` (credentials lookup failure, dial failure, `Subscribe` failure, `Send`
  failure, or a stream delivering some messages and then an error, EOF, or nothing).
  Environment hypothesis built into `recvCancel`: `Recv` fails once its context is cancelled.
  Collaborators may (but need not) fail early when their context is cancelled.

Callbacks append to the per-target trace `Cfg.trace`.  Core Lean only.
-/
namespace Gnmi.Manager
open Gnmi.Session (Ev)

abbrev Name := String

/-- A `SubscribeResponse` as `handleGNMIUpdate` distinguishes them. -/
inductive Msg
  | update      -- `SubscribeResponse_Update`        → `Update` callback
  | sync        -- `SubscribeResponse_SyncResponse`  → `Sync` callback
  | errorResp   -- `SubscribeResponse_Error`         → error logged, no callback, stream goes on
  | nilResp     -- `Response == nil`                 → error logged, no callback, stream goes on
  deriving DecidableEq, Repr, Inhabited

/-- How a stream ends after its messages. -/
inductive End
  | err       -- `Recv` returns an error status
  | eof       -- `Recv` returns `io.EOF`
  | silence   -- `Recv` blocks (until its context is cancelled)
  deriving DecidableEq, Repr, Inhabited

/-- One connection attempt as the environment scripts it. -/
inductive Attempt
  | metaErr                                  -- `gRPCMeta` fails (credentials lookup)
  | dialFail                                 -- `ConnectionManager.Connection` fails
  | openFail                                 -- `subscribeClient` (open the stream) fails
  | sendFail                                 -- `sc.Send(request)` fails
  | stream (msgs : List Msg) (e : End)       -- the stream is up
  deriving DecidableEq, Repr, Inhabited

/-- `handleGNMIUpdate`: the callback made for message number `j` of a stream. -/
def Msg.ev (j : Nat) : Msg → Option Ev
  | .update => some (.update j)
  | .sync => some .sync
  | .errorResp => none
  | .nilResp => none

def Attempt.msgs : Attempt → List Msg
  | .stream ms _ => ms
  | _ => []

def Attempt.ending : Attempt → End
  | .stream _ e => e
  | _ => .err

/-- Program counter of the `retryMonitor` goroutine of one instance.  `j` = messages of the
current stream consumed so far, `conn` = the local `connected`; `viaReset` = the attempt got as
far as `Recv` (ghost: which of `monitor`'s return paths is being taken). -/
inductive Pc
  | start                                    -- goroutine created, before `reconnectCtx`
  | timer                                    -- `select { ctx.Done() | timer.C }`
  | gmeta                                    -- `monitor`: `gRPCMeta`
  | dial                                     -- `createConn`
  | open_                                    -- `subscribe`: ctx check, `subscribeClient`
  | send                                     -- `sc.Send`
  | recv (j : Nat) (conn : Bool)             -- `handleUpdates`: in `sc.Recv()`
  | got (j : Nat) (conn : Bool)              -- `Recv` returned message `j`
  | reset (j : Nat) (conn : Bool)            -- `Recv` returned an error: `m.reset` pending
  | connErr (j : Nat) (conn viaReset : Bool) -- `monitor`'s deferred `m.connectError` pending
  | monErr (j : Nat) (conn viaReset : Bool)  -- `retryMonitor`: `m.monitorError` pending
  | closing                                  -- deferred: `timer.Stop(); close(ta.finished)`
  | deferred                                 -- deferred: `m.Reconnect(ta.name)`
  | done
  deriving DecidableEq, Repr, Inhabited

/-- One `*target` and its goroutine. -/
structure Inst where
  name : Name
  rt : Bool                      -- `ta.receiveTimeout > 0`
  cancelled : Bool := false      -- `ta.cancel()` was called
  subCancelled : Bool := false   -- the current sub-context was cancelled through `ta.reconnect`
  reconSet : Bool := false       -- `ta.reconnect != nil`
  finished : Bool := false       -- `close(ta.finished)`
  tmoWaiting : Bool := false     -- the timeout goroutine of this `handleUpdates` still waits
  cur : Attempt := .dialFail     -- the attempt in progress
  pc : Pc := .start
  deriving DecidableEq, Repr, Inhabited

def Inst.ctxDone (I : Inst) : Bool := I.cancelled || I.subCancelled

/-- `reconnectCtx`: a new sub-context (born cancelled iff the target context is cancelled). -/
def Inst.freshSub (I : Inst) : Inst := { I with subCancelled := false, reconSet := true }

/-- What a monitor step does besides changing its own instance. -/
inductive MLabel
  | tau
  | cb (e : Ev)     -- a user callback
  | begin_          -- starts the next scripted attempt
  | spawnRecon      -- issues `m.Reconnect(name)`
  deriving DecidableEq, Repr

/-- Steps of the `retryMonitor` goroutine of one instance.  `next` is the script entry the next
attempt would get. -/
inductive MonStep (next : Attempt) : Inst → MLabel → Inst → Prop
  /-- `sCtx := m.reconnectCtx(ctx, ta)` before the loop -/
  | init {I : Inst} : I.pc = .start → MonStep next I .tau { I.freshSub with pc := .timer }
  /-- `case <-ctx.Done(): return` -/
  | exitCtx {I : Inst} : I.pc = .timer → I.cancelled = true → MonStep next I .tau { I with pc := .closing }
  /-- `case <-timer.C:` new sub-context if the old one is done; `m.monitor(sCtx, ta)` -/
  | timerFire {I : Inst} : I.pc = .timer →
      MonStep next I .begin_ { (if I.ctxDone then I.freshSub else I) with cur := next, pc := .gmeta }
  | metaFail {I : Inst} : I.pc = .gmeta → (I.cur = .metaErr ∨ I.ctxDone = true) →
      MonStep next I .tau { I with pc := .connErr 0 false false }
  | metaOk {I : Inst} : I.pc = .gmeta → I.cur ≠ .metaErr → MonStep next I .tau { I with pc := .dial }
  | dialFail {I : Inst} : I.pc = .dial → (I.cur = .dialFail ∨ I.ctxDone = true) →
      MonStep next I .tau { I with pc := .connErr 0 false false }
  | dialOk {I : Inst} : I.pc = .dial → I.cur ≠ .dialFail → MonStep next I .tau { I with pc := .open_ }
  | openFail {I : Inst} : I.pc = .open_ → (I.cur = .openFail ∨ I.ctxDone = true) →
      MonStep next I .tau { I with pc := .connErr 0 false false }
  | openOk {I : Inst} : I.pc = .open_ → I.cur ≠ .openFail → MonStep next I .tau { I with pc := .send }
  | sendFail {I : Inst} : I.pc = .send → (I.cur = .sendFail ∨ I.ctxDone = true) →
      MonStep next I .tau { I with pc := .connErr 0 false false }
  /-- request sent; `handleUpdates` starts (`connected := false`, timeout goroutine spawned) -/
  | sendOk {I : Inst} {ms : List Msg} {e : End} : I.pc = .send → I.cur = .stream ms e →
      MonStep next I .tau { I with pc := .recv 0 false, tmoWaiting := I.rt }
  | recvMsg {I : Inst} {j : Nat} {c : Bool} : I.pc = .recv j c → j < I.cur.msgs.length →
      MonStep next I .tau { I with pc := .got j c }
  | recvEnd {I : Inst} {j : Nat} {c : Bool} : I.pc = .recv j c → I.cur.msgs.length ≤ j →
      I.cur.ending ≠ .silence → MonStep next I .tau { I with pc := .reset j c }
  /-- environment hypothesis: `Recv` fails once its context is cancelled -/
  | recvCancel {I : Inst} {j : Nat} {c : Bool} : I.pc = .recv j c → I.ctxDone = true →
      MonStep next I .tau { I with pc := .reset j c }
  /-- `if !connected { m.connect(name); connected = true }` -/
  | connectCb {I : Inst} {j : Nat} : I.pc = .got j false →
      MonStep next I (.cb .connect) { I with pc := .got j true }
  /-- `handleGNMIUpdate` making a callback -/
  | handleCb {I : Inst} {j : Nat} {m : Msg} {ev : Ev} : I.pc = .got j true → I.cur.msgs[j]? = some m →
      m.ev j = some ev → MonStep next I (.cb ev) { I with pc := .recv (j + 1) true }
  /-- `handleGNMIUpdate` returning an error (logged) -/
  | handleNone {I : Inst} {j : Nat} {m : Msg} : I.pc = .got j true → I.cur.msgs[j]? = some m →
      m.ev j = none → MonStep next I .tau { I with pc := .recv (j + 1) true }
  | resetCb {I : Inst} {j : Nat} {c : Bool} : I.pc = .reset j c →
      MonStep next I (.cb .reset) { I with pc := .connErr j c true }
  | connErrCb {I : Inst} {j : Nat} {c r : Bool} : I.pc = .connErr j c r →
      MonStep next I (.cb .connectError) { I with pc := .monErr j c r }
  /-- `m.monitorError`; `timer.Reset(e.NextBackOff())` -/
  | monErrCb {I : Inst} {j : Nat} {c r : Bool} : I.pc = .monErr j c r →
      MonStep next I (.cb .monitorError) { I with pc := .timer }
  | close {I : Inst} : I.pc = .closing → MonStep next I .tau { I with finished := true, pc := .deferred }
  | deferredRecon {I : Inst} : I.pc = .deferred → MonStep next I .spawnRecon { I with pc := .done }

/-- `Reconnect` past the lookup: `if t.reconnect != nil { t.reconnect(); t.reconnect = nil }` -/
def Inst.applyRecon (I : Inst) : Inst :=
  if I.reconSet then { I with subCancelled := true, reconSet := false } else I

/-- Function update. -/
def upd {α : Type} {β : Type} [DecidableEq α] (f : α → β) (k : α) (v : β) : α → β :=
  fun x => if x = k then v else f x

@[simp] theorem upd_same {α β : Type} [DecidableEq α] (f : α → β) (k : α) (v : β) : upd f k v k = v := by
  simp [upd]

theorem upd_other {α β : Type} [DecidableEq α] (f : α → β) {k x : α} (v : β) (h : x ≠ k) :
    upd f k v x = f x := by
  simp [upd, h]

/-- An instance slot that was never used (or whose goroutine is gone). -/
def Inst.dead : Inst :=
  { name := "", rt := false, cancelled := true, subCancelled := true, finished := true, pc := .done }

/-- Global configuration: the `Manager` plus all goroutines. -/
structure Cfg where
  insts : Nat → Inst := fun _ => Inst.dead
  nInst : Nat := 0
  targets : Name → Option Nat := fun _ => none   -- `m.targets`
  lock : Option Nat := none                      -- `m.mu` held by a `Remove` waiting for instance `i`
  trace : Name → List Ev := fun _ => []
  nextAtt : Name → Nat := fun _ => 0             -- position in the environment script
  byName : List Name := []                       -- `m.Reconnect(name)` calls before their lookup
  byPtr : List Nat := []                         -- `Reconnect` calls past the lookup, holding `*target`

def Cfg.init : Cfg := {}

/-- Effect of a monitor step of instance `i` on the configuration. -/
def Cfg.applyMon (c : Cfg) (i : Nat) (l : MLabel) (I' : Inst) : Cfg :=
  let n := (c.insts i).name
  match l with
  | .tau => { c with insts := upd c.insts i I' }
  | .cb e => { c with insts := upd c.insts i I', trace := upd c.trace n (c.trace n ++ [e]) }
  | .begin_ => { c with insts := upd c.insts i I', nextAtt := upd c.nextAtt n (c.nextAtt n + 1) }
  | .spawnRecon => { c with insts := upd c.insts i I', byName := n :: c.byName }

/-- Observable labels of global steps. -/
inductive Label
  | tau
  | cb (n : Name) (e : Ev)
  | add (n : Name) (ok : Bool)          -- `Add` returned (nil / error)
  | removeCall (n : Name) (ok : Bool)   -- `Remove` looked the target up (`false`: returned an error)
  | removeRet (n : Name)                -- `Remove` returned nil
  | reconnect (n : Name) (ok : Bool)    -- `Reconnect` looked the target up
  deriving DecidableEq, Repr

def MLabel.toLabel (n : Name) : MLabel → Label
  | .cb e => .cb n e
  | _ => .tau

/-- The transition relation.  `env name k` = the `k`-th attempt scripted for `name`. -/
inductive Step (env : Name → Nat → Attempt) : Cfg → Label → Cfg → Prop
  /-- a step of the `retryMonitor` goroutine of instance `i` (never needs `m.mu`) -/
  | mon {c : Cfg} (i : Nat) {l : MLabel} {I' : Inst} :
      MonStep (env (c.insts i).name (c.nextAtt (c.insts i).name)) (c.insts i) l I' →
      Step env c (l.toLabel (c.insts i).name) (c.applyMon i l I')
  /-- `Add`: whole body under `m.mu`; registers the target, starts the goroutine -/
  | add {c : Cfg} (n : Name) (rt : Bool) : c.lock = none → c.targets n = none →
      Step env c (.add n true)
        { c with insts := upd c.insts c.nInst { name := n, rt := rt }, nInst := c.nInst + 1,
                 targets := upd c.targets n (some c.nInst) }
  /-- `Add` of a target already added -/
  | addDup {c : Cfg} (n : Name) (i : Nat) : c.lock = none → c.targets n = some i → Step env c (.add n false) c
  /-- `Add` with invalid arguments (empty name, nil request, no addresses) -/
  | addInvalid {c : Cfg} (n : Name) : Step env c (.add n false) c
  /-- `Remove`: lock, lookup, `t.cancel()`; now waits for `finished` holding `m.mu` -/
  | removeBegin {c : Cfg} (n : Name) (i : Nat) : c.lock = none → c.targets n = some i →
      Step env c (.removeCall n true)
        { c with insts := upd c.insts i { c.insts i with cancelled := true }, lock := some i }
  | removeUnknown {c : Cfg} (n : Name) : c.lock = none → c.targets n = none → Step env c (.removeCall n false) c
  /-- `<-t.finished; delete(m.targets, name)`; unlock; return -/
  | removeEnd {c : Cfg} (i : Nat) : c.lock = some i → (c.insts i).finished = true →
      Step env c (.removeRet (c.insts i).name)
        { c with targets := upd c.targets (c.insts i).name none, lock := none }
  /-- `Reconnect` (API): lookup under `m.mu` -/
  | reconnectLookup {c : Cfg} (n : Name) (i : Nat) : c.lock = none → c.targets n = some i →
      Step env c (.reconnect n true) { c with byPtr := i :: c.byPtr }
  | reconnectUnknown {c : Cfg} (n : Name) : c.lock = none → c.targets n = none →
      Step env c (.reconnect n false) c
  /-- lookup of a `m.Reconnect(name)` issued by a timeout goroutine or by `retryMonitor`'s defer -/
  | byNameLookup {c : Cfg} (l₁ l₂ : List Name) (n : Name) : c.byName = l₁ ++ n :: l₂ → c.lock = none →
      Step env c .tau
        { c with byName := l₁ ++ l₂,
                 byPtr := match c.targets n with
                          | some i => i :: c.byPtr
                          | none => c.byPtr }
  /-- `Reconnect` past the lookup: under `t.mu` -/
  | reconApply {c : Cfg} (l₁ l₂ : List Nat) (i : Nat) : c.byPtr = l₁ ++ i :: l₂ →
      Step env c .tau { c with byPtr := l₁ ++ l₂, insts := upd c.insts i (c.insts i).applyRecon }
  /-- the receive timer expires while armed: the timeout goroutine heads for `m.Reconnect` -/
  | tmoFire {c : Cfg} (i j : Nat) (cn : Bool) : (c.insts i).pc = .recv j cn → (c.insts i).tmoWaiting = true →
      Step env c .tau
        { c with insts := upd c.insts i { c.insts i with tmoWaiting := false },
                 byName := (c.insts i).name :: c.byName }

/-- Reachable configurations. -/
inductive Reach (env : Name → Nat → Attempt) : Cfg → Prop
  | init : Reach env Cfg.init
  | step {c c' : Cfg} {l : Label} : Reach env c → Step env c l c' → Reach env c'

/-- Finite executions with their labels. -/
inductive Run (env : Name → Nat → Attempt) : Cfg → List Label → Cfg → Prop
  | nil (c : Cfg) : Run env c [] c
  | cons {c c' c'' : Cfg} {l : Label} {ls : List Label} : Step env c l c' → Run env c' ls c'' → Run env c (l :: ls) c''

end Gnmi.Manager
