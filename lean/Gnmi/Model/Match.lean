import Gnmi.Basic
import Gnmi.Spec.PMap
/-!
# Model of `match/match.go` and of the two functions of `subscribe/subscribe.go`
# that feed it (`addSubscription`, `UpdateNotification` / `Server.Update`)

`match.branch` is `{clients map[Client]struct{}; children map[string]*branch}`: a nested
inductive with the client *set* as a duplicate-free list and the child map as an
association list with unique keys (`WF`, proved preserved).  Iteration order = list
order; every statement about invocations is up to order (membership / multiplicity),
the harness sorts.

Each function follows the Go function of the same name arm by arm.  `update` threads
the `updated` set exactly as the code does: `none` is the `nil` map handed in by
`Match.Update` (no tracking), `some s` an allocated map (`Match.UpdateOnce`).

Two defects found with this model have been repaired in the repository and the model
follows the repaired code: D11 (`UpdateNotification` allocated the `updated` set only for
notifications with more than one update+delete; commit 3f84c79: always) and D20 (the
remove closures of `addSubscription` retained `query` slices sharing the backing array
of `prefix`; commit 10c0b34: `prefix[:len:len]`, every query has its own array, which is
the value semantics used here).  Both witnesses are regression cases in `corpus/C06`.
-/
namespace Gnmi
namespace Match

/-- `type branch struct { clients map[Client]struct{}; children map[string]*branch }` -/
inductive Branch (C : Type) where
  | mk (clients : List C) (children : List (String × Branch C)) : Branch C

namespace Branch
variable {C : Type}

/-- `&branch{}` -/
def empty : Branch C := .mk [] []

instance : Inhabited (Branch C) := ⟨empty⟩

def clients : Branch C → List C
  | .mk cl _ => cl

def children : Branch C → List (String × Branch C)
  | .mk _ ch => ch

end Branch

section
variable {C : Type} [DecidableEq C]

/-- `b.clients[client] = struct{}{}` (a set: inserting twice is inserting once) -/
def insertClient (c : C) (cl : List C) : List C := if c ∈ cl then cl else cl ++ [c]

/-- `delete(b.clients, client)` -/
def deleteClient (c : C) (cl : List C) : List C := cl.filter (fun x => x ≠ c)

/-- `(&branch{}).addQuery(query, client)`: the chain of fresh nodes below a new child. -/
def chain : Path → C → Branch C
  | [], c => .mk [c] []
  | k :: q, c => .mk [] [(k, chain q c)]

mutual
/-- `func (b *branch) addQuery(query []string, client Client)` -/
def addQuery : Branch C → Path → C → Branch C
  | .mk cl ch, [], c => .mk (insertClient c cl) ch            -- len(query) == 0
  | .mk cl ch, k :: q, c => .mk cl (addQueryL ch k q c)
/-- `sb, ok := b.children[query[0]]; if !ok { sb = &branch{}; … }; sb.addQuery(query[1:], client)` -/
def addQueryL : List (String × Branch C) → String → Path → C → List (String × Branch C)
  | [], k, q, c => [(k, chain q c)]                           -- !ok
  | (k', b) :: r, k, q, c =>
      if k' = k then (k', addQuery b q c) :: r else (k', b) :: addQueryL r k q c
end

/-- `len(b.clients) == 0 && len(b.children) == 0` -/
def isEmptyB : Branch C → Bool
  | .mk cl ch => cl.isEmpty && ch.isEmpty

mutual
/-- `func (b *branch) removeQuery(query []string, client Client) (empty bool)`; the
`empty` result is `isEmptyB` of the returned node (the deferred assignment). -/
def removeQuery : Branch C → Path → C → Branch C
  | .mk cl ch, [], c => .mk (deleteClient c cl) ch            -- len(query) == 0
  | .mk cl ch, k :: q, c => .mk cl (removeQueryL ch k q c)
/-- `sb, ok := b.children[query[0]]; if !ok {return}; if sb.removeQuery(query[1:], client)
{ delete(b.children, query[0]) }` -/
def removeQueryL : List (String × Branch C) → String → Path → C → List (String × Branch C)
  | [], _, _, _ => []                                         -- !ok
  | (k', b) :: r, k, q, c =>
      if k' = k then
        (if isEmptyB (removeQuery b q c) then r               -- delete(b.children, query[0])
         else (k', removeQuery b q c) :: r)
      else (k', b) :: removeQueryL r k q c
end

/-- The result of a traversal: the clients whose `Update` was invoked, in order (with
repetitions), and the `updated` map afterwards (`none` = the `nil` map). -/
abbrev Res (C : Type) := List C × Option (List C)

/-- `for client := range b.clients { … }`: with a `nil` map every client is invoked; with
an allocated one only those not yet in it, which are then added. -/
def updateClients : List C → Option (List C) → Res C
  | [], u => ([], u)
  | c :: cl, none =>                                          -- updated == nil
      let r := updateClients cl none
      (c :: r.1, r.2)
  | c :: cl, some s =>
      if c ∈ s then updateClients cl (some s)                 -- already updated
      else
        let r := updateClients cl (some (c :: s))             -- client.Update(n); updated[client] = {}
        (c :: r.1, r.2)

mutual
/-- `func (b *branch) update(n interface{}, path []string, updated map[Client]struct{})` -/
def update : Branch C → Path → Option (List C) → Res C
  | .mk cl ch, path, u =>
      let r0 := updateClients cl u                            -- update all clients at this level
      if ch.isEmpty then r0                                   -- terminate recursion
      else match path with
        | [] =>                                               -- implicit recursion for intermediate deletes
            let r := updateAll ch [] r0.2
            (r0.1 ++ r.1, r.2)
        | g :: p =>
            if g = glob then                                  -- path[0] == Glob
              let r := updateAll ch p r0.2
              (r0.1 ++ r.1, r.2)
            else
              let r1 := updateOne ch glob p r0.2              -- update all glob clients
              let r2 := updateOne ch g p r1.2                 -- update all explicit clients
              (r0.1 ++ (r1.1 ++ r2.1), r2.2)
/-- `for _, c := range b.children { c.update(n, p, updated) }` -/
def updateAll : List (String × Branch C) → Path → Option (List C) → Res C
  | [], _, u => ([], u)
  | (_, b) :: r, p, u =>
      let a := update b p u
      let rest := updateAll r p a.2
      (a.1 ++ rest.1, rest.2)
/-- `if sb, ok := b.children[k]; ok { sb.update(n, p, updated) }` -/
def updateOne : List (String × Branch C) → String → Path → Option (List C) → Res C
  | [], _, _, u => ([], u)
  | (k', b) :: r, k, p, u => if k' = k then update b p u else updateOne r k p u
end

/-- Successive `m.UpdateOnce(v, path_i, updated)` calls sharing one `updated` map. -/
def updateMany (t : Branch C) : List Path → Option (List C) → Res C
  | [], u => ([], u)
  | p :: ps, u =>
      let a := update t p u
      let rest := updateMany t ps a.2
      (a.1 ++ rest.1, rest.2)

/-! ### The registered `(client, query)` pairs of a trie (its flat content) -/

/-- prepend a child name to the query of a registration found below that child -/
def push (k : String) (r : C × Path) : C × Path := (r.1, k :: r.2)

mutual
def regs : Branch C → List (C × Path)
  | .mk cl ch => cl.map (fun c => (c, [])) ++ regsL ch
def regsL : List (String × Branch C) → List (C × Path)
  | [] => []
  | (k, b) :: r => (regs b).map (push k) ++ regsL r
end

mutual
/-- number of `branch` nodes (the root included): what pruning keeps minimal -/
def nodes : Branch C → Nat
  | .mk _ ch => 1 + nodesL ch
def nodesL : List (String × Branch C) → Nat
  | [] => 0
  | (_, b) :: r => nodes b + nodesL r
end

mutual
/-- What every trie reachable through `AddQuery` / remove closures satisfies: client sets
and child maps have no duplicate keys (they are Go maps). -/
def WF : Branch C → Prop
  | .mk cl ch => cl.Nodup ∧ WFL ch
def WFL : List (String × Branch C) → Prop
  | [] => True
  | (k, b) :: r => WF b ∧ (∀ kb ∈ r, kb.1 ≠ k) ∧ WFL r
end

mutual
/-- … and no node below the root is empty (pruning). -/
def Tight : Branch C → Prop
  | .mk _ ch => TightL ch
def TightL : List (String × Branch C) → Prop
  | [] => True
  | (_, b) :: r => isEmptyB b = false ∧ Tight b ∧ TightL r
end

end

/-! ## `subscribe.go`: how registrations and update paths are built -/

/-- The fields of a `*gnmi.Path` these functions read.  `idx` is
`path.ToStrings(p, false)` (element names and key values flattened; that function is
C19's subject, here its result is an input). -/
structure GPath where
  target : String := ""
  origin : String := ""
  idx : Path := []
deriving DecidableEq, Repr, Inhabited

/-- `path.ToStrings(p, prefix)`; `none` is the nil path -/
def toStrings (p : Option GPath) (pfx : Bool) : Path :=
  match p with
  | none => []
  | some p =>
      (if pfx then (if p.target ≠ "" then [p.target] else []) ++ (if p.origin ≠ "" then [p.origin] else [])
       else []) ++ p.idx

/-- `p.GetOrigin()` on a possibly nil path -/
def originOf : Option GPath → String
  | none => ""
  | some p => p.origin

def targetOf : Option GPath → String
  | none => ""
  | some p => p.target

/-- `*gnmi.SubscriptionList`: prefix and the paths of the subscriptions (`none` = a
subscription whose `GetPath()` is nil: the prefix itself). -/
structure SubList where
  pfx : Option GPath := none
  subs : List (Option GPath) := []
deriving Repr, Inhabited

/-- `if origin := p.GetOrigin(); s.Prefix.GetOrigin() == "" && origin != "" { query = append(prefix, origin) }` -/
def originElem (pfx : Option GPath) (p : GPath) : List String :=
  if originOf pfx = "" ∧ p.origin ≠ "" then [p.origin] else []

/-- the `query` handed to `m.AddQuery` for one subscription path -/
def subscriptionQuery (pfx : Option GPath) (p : GPath) : Path :=
  toStrings pfx true ++ (originElem pfx p ++ p.idx)

/-- the query for a subscription whose path may be nil: `GetOrigin()` and `ToStrings` are
nil-safe, so a nil path registers the prefix itself (everything below it), exactly what the
initial walk completes it to -/
def subscriptionQueryOpt (pfx : Option GPath) : Option GPath → Path
  | none => toStrings pfx true
  | some p => subscriptionQuery pfx p

/-- the queries `addSubscription` registers, in order -/
def subscriptionQueries (s : SubList) : List Path :=
  s.subs.map (subscriptionQueryOpt s.pfx)

/-- `path.CompletePath(prefix, path)`; `none` = error -/
def completePath (pfx p : Option GPath) : Option Path :=
  let oPre := originOf pfx
  let oPath := originOf p
  let indexedPrefix := toStrings pfx false
  if oPre ≠ "" ∧ oPath ≠ "" then none                         -- origin set in both
  else if oPre ≠ "" then some ((oPre :: indexedPrefix) ++ toStrings p false)
  else if oPath ≠ "" then
    (if indexedPrefix.length > 0 then none                    -- elements in prefix although origin in path
     else some ([oPath] ++ toStrings p false))
  else some (indexedPrefix ++ toStrings p false)

section
variable {C : Type} [DecidableEq C]

/-- `addSubscription(m, s, c)`: the registrations -/
def addSubscription (t : Branch C) (s : SubList) (c : C) : Branch C :=
  (subscriptionQueries s).foldl (fun t q => addQuery t q c) t

/-- the `remove` closure `addSubscription` returned, run later: the remove closures of all
its `AddQuery` calls, in order (each retains its own `query`: `prefix` is clipped to its
length before the appends) -/
def removeSubscription (t : Branch C) (s : SubList) (c : C) : Branch C :=
  (subscriptionQueries s).foldl (fun t q => removeQuery t q c) t

/-- The fields of a `*gnmi.Notification` that `UpdateNotification` reads: the prefix and
`path.ToStrings(·, false)` of every update and delete path. -/
structure Noti where
  pfx : Option GPath := none
  upd : List Path := []
  del : List Path := []
deriving Repr, Inhabited

/-- `subscribe.UpdateNotification(m, v, n, prefix)`: `updated := make(map[match.Client]struct{})`,
then one `m.UpdateOnce(v, append(prefix, path…), updated)` per update and per delete.
The clients invoked, in order. -/
def updateNotification (t : Branch C) (pfx : Path) (n : Noti) : List C :=
  (updateMany t ((n.upd ++ n.del).map (fun p => pfx ++ p)) (some [])).1

/-- `(*Server).Update(leaf)` for a leaf holding a `*gnmi.Notification` (any other value
type is logged and ignored: `none`). -/
def serverUpdate (t : Branch C) (v : Option Noti) : List C :=
  match v with
  | some n => updateNotification t (toStrings n.pfx true) n
  | none => []

/-! ## Abstract specification: a set of `(client, query)` pairs and `compatible` -/

abbrev Regs (C : Type) := List (C × Path)

/-- keep the last occurrence of every element -/
def dedup {α : Type} [DecidableEq α] : List α → List α
  | [] => []
  | a :: l => if a ∈ l then dedup l else a :: dedup l

/-- all prefixes of a path, the empty one first -/
def prefixes : Path → List Path
  | [] => [[]]
  | a :: l => [] :: (prefixes l).map (a :: ·)

namespace Regs

def add (s : Regs C) (q : Path) (c : C) : Regs C := if (c, q) ∈ s then s else (c, q) :: s

def remove (s : Regs C) (q : Path) (c : C) : Regs C := s.filter (fun r => r ≠ (c, q))

/-- `Match.Update` (no tracking): one invocation per registered compatible query -/
def update (s : Regs C) (p : Path) : List C := (s.filter (fun r => compatible r.2 p)).map (·.1)

/-- the property for a notification / a group of paths sharing a tracking set: every client
with a query compatible with one of the paths, once -/
def once (s : Regs C) (ps : List Path) : List C :=
  dedup ((s.filter (fun r => ps.any (fun p => compatible r.2 p))).map (·.1))

/-- number of trie nodes a pruned trie holding `s` has: the distinct prefixes of the
registered queries (the root is the empty prefix, always there) -/
def nodeCount (s : Regs C) : Nat :=
  (dedup (([] : Path) :: (s.map (fun r => prefixes r.2)).flatten)).length

end Regs

/-! ## Histories -/

/-- the two mutating calls: `AddQuery(q, c)` and running a remove closure for `(q, c)` -/
inductive Op (C : Type) where
  | add (c : C) (q : Path)
  | remove (c : C) (q : Path)
deriving DecidableEq

def stepTrie (t : Branch C) : Op C → Branch C
  | .add c q => addQuery t q c
  | .remove c q => removeQuery t q c

def stepSpec (s : Regs C) : Op C → Regs C
  | .add c q => s.add q c
  | .remove c q => s.remove q c

/-- the trie after a history, starting from `match.New()` -/
def runTrie (ops : List (Op C)) : Branch C := ops.foldl stepTrie Branch.empty

def runSpec (ops : List (Op C)) : Regs C := ops.foldl stepSpec []

/-- `c` is currently registered with `q`: it was added and the remove closure for that pair
has not run since -/
def Registered (ops : List (Op C)) (c : C) (q : Path) : Prop :=
  ∃ pre post, ops = pre ++ Op.add c q :: post ∧ Op.remove c q ∉ post

end
end Match
end Gnmi
