import Gnmi.Model.Subscribe
import Gnmi.Model.TargetCfg
import Gnmi.Model.QueryString
/-!
# The collector pipeline, end to end (property C01)

Composition of the component models along the real wiring of `cmd/gnmi_collector`:

```
target stream ──► manager.handleGNMIUpdate ──► collector callbacks (Update closure = stampTarget,
  Sync = cache.Sync, Connect = cache.Connect) ──► Cache.State (Model/Cache.lean) ──► feed ──►
  subscribe.Server (Model/Subscribe.lean) ──► client/gnmi defaultRecv / noti ──► CacheClient tree
  (Spec/PMap.lean, refined by ctree: C09) ──► Leaves()
```

plus `collector.start/add` and the three ways `cmd/gnmi_cli` builds its `client.Query`.

Put next to this file: `cmd/gnmi_collector/gnmi_collector.go` (`runCollector`, `collector.add`,
`collector.start`), `manager/manager.go` (`handleGNMIUpdate`, `handleUpdates`, `Add`),
`client/gnmi/client.go` (`defaultRecv`, `noti`, `Subscribe`), `client/cache.go`
(`defaultHandler`, `Leaves`), `client/query.go` (`NewQuery`), `cli/cli.go`
(`ParseSubscribeProto`), `cmd/gnmi_cli/gnmi_cli.go` (`executeSubscribe`, `parseQuery`,
`protoRequestFromFlags`).

Conventions: notifications are `Cache.Noti` (index paths + canonical raw renderings standing
for `proto.Equal`); the clock is an explicit argument; `enc` is the harness' string encoder used
inside raw renderings (a parameter, as in `Model/Cache.lean`).  Core Lean only.
-/
namespace Gnmi
namespace Pipeline
open Cache

/-! ## 1. What a target streams (`gnmi.SubscribeResponse`) -/

inductive TItem where
  | update (prefixNil : Bool) (n : Noti)     -- `SubscribeResponse_Update`; `prefixNil`: `n.Prefix == nil`
  | sync                                     -- `SubscribeResponse_SyncResponse`
  | error                                    -- `SubscribeResponse_Error`
  | nilResponse                              -- `resp.Response == nil`
deriving Repr, Inhabited

/-! ## 2. `manager.handleGNMIUpdate` -/

/-- the callback `handleGNMIUpdate(name, resp)` makes (`logged`: it returns an error, which
`handleUpdates` only logs — the stream goes on) -/
inductive MCall where
  | update (name : String) (prefixNil : Bool) (n : Noti)
  | sync (name : String)
  | logged
deriving Repr, Inhabited

def handleGNMIUpdate (name : String) : TItem → MCall
  | .nilResponse => .logged                    -- "nil Response"
  | .update pn n => .update name pn n          -- m.update(name, v.Update)
  | .sync => .sync name                        -- m.sync(name)
  | .error => .logged                          -- "received error response"

/-! ## 3. The collector's callbacks -/

def defaultOrigin : String := "openconfig"

/-- the `;e=…;l=…` half of a raw prefix rendering (`o=…;t=…;e=…;l=…`, or `nil`) -/
def rawTail (praw : String) : String :=
  match praw.splitOn ";" with
  | [_, _, e, l] => ";" ++ e ++ ";" ++ l
  | _ => ";e=;l="

def rawField (enc : String → String) (s : String) : String := if s = "" then "" else enc s

/-- raw rendering of a prefix whose target and origin were overwritten -/
def stampRaw (enc : String → String) (target origin tail : String) : String :=
  "o=" ++ rawField enc origin ++ ";t=" ++ rawField enc target ++ tail

/-- The `Update` closure of `runCollector` up to the call of `cache.GnmiUpdate`:
```go
if prefix := v.GetPrefix(); prefix == nil {
    v.Prefix = &gnmipb.Path{Origin: "openconfig", Target: target}
} else {
    if prefix.Origin == "" { prefix.Origin = "openconfig" }
    prefix.Target = target
}
``` -/
def stampTarget (enc : String → String) (target : String) (prefixNil : Bool) (n : Noti) : Noti :=
  if prefixNil then
    { n with target := target, origin := defaultOrigin, pfx := [],
             praw := stampRaw enc target defaultOrigin ";e=;l=" }
  else
    let origin := if n.origin = "" then defaultOrigin else n.origin
    { n with target := target, origin := origin, praw := stampRaw enc target origin (rawTail n.praw) }

/-- `collector`: the cache, the targets handed to the manager, and whether a Go panic was
reached inside a callback (the process is gone) -/
structure Coll where
  cache : Cache.State := {}
  managed : List String := []
  crashed : Bool := false
deriving Repr, Inhabited

/-- the rest of the `Update` closure: `c.cache.GnmiUpdate(v)`; an error is logged and dropped -/
def updateClosure (enc : String → String) (now : Int) (c : Cache.State) (target : String)
    (prefixNil : Bool) (n : Noti) : Res × Cache.State × List Event :=
  let r := c.gnmiUpdate now false (stampTarget enc target prefixNil n)
  (r.1, r.2.1, flattenGroups r.2.2)

/-- one manager callback as wired by `runCollector` (`Update`: the closure; `Sync: c.cache.Sync`) -/
def callback (enc : String → String) (now : Int) (c : Cache.State) : MCall → Res × Cache.State × List Event
  | .update name pn n => updateClosure enc now c name pn n
  | .sync name => let r := c.sync enc name now; (.ok, r.1, r.2)
  | .logged => (.ok, c, [])

/-! ### `collector.add` / `collector.start` -/

open TargetCfg in
/-- `manager.Add(name, t, sr)`: does the target get a retry monitor? -/
def managerAdds (managed : List String) (name : String) (t : Tgt) (sr : Req) : Bool :=
  name ≠ "" && sr != .nil && !managed.contains name && t.addresses.length != 0

open TargetCfg in
/-- `collector.add(ctx, id, t, nil)` for a static (non-tunnel) target -/
def Coll.add (c : Coll) (cfg : TargetCfg.Cfg) (id : String) (t : TgtP) : Coll :=
  match t with
  | none => c                                         -- "cannot add nil target"
  | some t =>
    match find t.request cfg.request with
    | none => c                                       -- "no request found"
    | some sr =>
      let c := { c with cache := c.cache.add id }     -- c.cache.Add(id)   (the D16 repair)
      if managerAdds c.managed id t sr then { c with managed := c.managed ++ [id] } else c

/-- `collector.add` as it was before the D16 repair: the cache never learns the target -/
def Coll.addPreD16 (c : Coll) (cfg : TargetCfg.Cfg) (id : String) (t : TargetCfg.TgtP) : Coll :=
  match t with
  | none => c
  | some t =>
    match TargetCfg.find t.request cfg.request with
    | none => c
    | some sr => if managerAdds c.managed id t sr then { c with managed := c.managed ++ [id] } else c

/-- `collector.start`: `for id, t := range c.config.Target { c.add(ctx, id, t, nil) }` on the
cache created by `cache.New(nil)` (no targets, no future threshold, event driven) -/
def Coll.start (cfg : TargetCfg.Cfg) : Coll :=
  cfg.target.foldl (fun c kv => c.add cfg kv.1 kv.2) {}

def Coll.startPreD16 (cfg : TargetCfg.Cfg) : Coll :=
  cfg.target.foldl (fun c kv => c.addPreD16 cfg kv.1 kv.2) {}

/-! ## 4. One target session (`manager.handleUpdates`) feeding cache and subscribers

The system state is the Subscribe model's state (cache + subscribers). -/

structure Sys where
  sub : Sub.State := {}
  crashed : Bool := false
deriving Repr, Inhabited

/-- a manager callback reaches the cache; the resulting feed events reach the subscribers -/
def Sys.deliver (enc : String → String) (now : Int) (s : Sys) (call : MCall) : Sys :=
  if s.crashed then s else
  let r := callback enc now s.sub.cache call
  if r.1 = .panic then { s with crashed := true }
  else { s with sub := Sub.feed { s.sub with cache := r.2.1 } r.2.2 }

/-- `m.connect(name)` (= `cache.Connect`) before the first response of a session is handled -/
def Sys.connect (enc : String → String) (now : Int) (s : Sys) (name : String) : Sys :=
  if s.crashed then s else
  let r := s.sub.cache.connect enc name now
  { s with sub := Sub.feed { s.sub with cache := r.1 } r.2 }

/-- the body of the receive loop for one response: `connect` on the first one, then
`handleGNMIUpdate` -/
def Sys.recv (enc : String → String) (now : Int) (s : Sys) (name : String) (first : Bool) (it : TItem) : Sys :=
  let s := if first then s.connect enc now name else s
  s.deliver enc now (handleGNMIUpdate name it)

/-! ## 5. `client/gnmi`: `defaultRecv`, `noti`, `value.ToScalar` -/

/-- the Go value `value.ToScalar` returns for a scalar arm -/
inductive CScalar where
  | str (s : String) | int (i : Int) | uint (n : Nat) | bool (b : Bool) | bytes (hex : String)
  | f32 (bits : Nat) | f64 (bits : Nat)
  | dec32 (digits : Int) (prec : Nat)       -- `decimalToFloat`: float arithmetic happens in the driver only
deriving DecidableEq, Repr, Inhabited

inductive CVal where
  | scalar (s : CScalar)
  | list (l : List CScalar)                  -- `[]interface{}` of a leaf-list
deriving DecidableEq, Repr, Inhabited

/-- `value.ToScalar` on one oneof arm; `none` = error (`unset`, and the arms the scalar fragment
excludes: any / ascii / proto_bytes; the JSON arms are decoded by `encoding/json`, not modelled) -/
def toScalar1 : Scalar → Option CScalar
  | .str s => some (.str s)
  | .int i => some (.int i)
  | .uint n => some (.uint n)
  | .bool b => some (.bool b)
  | .bytes h => some (.bytes h)
  | .double b => some (.f64 b)
  | .float b => some (.f32 b)
  | .decimal d p => some (.dec32 d p)
  | .unset => none
  | .other _ _ => none

def toScalarList : List Scalar → Option (List CScalar)
  | [] => some []
  | s :: r =>
    match toScalar1 s with
    | none => none
    | some c => (toScalarList r).map (c :: ·)

inductive Dec where
  | val (v : CVal)
  | skip              -- `u.Val == nil` and no deprecated `Value`: `noti` returns `(nil, nil)`, the handler ignores it
  | err               -- `ToScalar` failed: `Recv` returns the error, the subscription ends
deriving DecidableEq, Repr, Inhabited

/-- the value half of `noti(prefix, path, ts, u)` -/
def decodeVal : Val → Dec
  | .absent => .skip
  | .scalar s => match toScalar1 s with
    | some c => .val (.scalar c)
    | none => .err
  | .leaflist l => match toScalarList l with
    | some cs => .val (.list cs)
    | none => .err

/-- `path.ToStrings(n.Prefix, true)`: target and origin (when non-empty), then the elements -/
def clientPrefix (target origin : String) (pfx : Path) : Path :=
  (if target = "" then [] else [target]) ++ (if origin = "" then [] else [origin]) ++ pfx

structure CLeaf where
  ts : Int
  val : CVal
deriving DecidableEq, Repr, Inhabited

/-- `client.CacheClient` as far as `Leaves()` shows it -/
structure Client where
  tree : PMap CLeaf := []
  synced : Bool := false
  failed : Bool := false        -- `Recv` returned an error
  stopped : Bool := false       -- `ErrStopReading` (ONCE / POLL after sync)
deriving Repr, Inhabited

/-- `c.Add(path, TreeVal{…})` of `defaultHandler` (the error of a colliding add is dropped) -/
def treeAdd (m : PMap CLeaf) (p : Path) (v : CLeaf) : PMap CLeaf :=
  match PMap.add m p v with
  | some m' => m'
  | none => m

/-- `c.Delete(path)` -/
def treeDelete (m : PMap CLeaf) (p : Path) : PMap CLeaf := (PMap.delete (fun _ => true) m p).1

/-- the `for _, u := range n.Update` loop of `defaultRecv` -/
def recvUpdates (pre : Path) (ts : Int) : List Upd → Client → Client
  | [], c => c
  | u :: us, c =>
    match decodeVal u.val with
    | .err => { c with failed := true }
    | .skip => recvUpdates pre ts us c
    | .val v => recvUpdates pre ts us { c with tree := treeAdd c.tree (pre ++ u.path) { ts := ts, val := v } }

/-- the `for _, d := range n.Delete` loop -/
def recvDeletes (pre : Path) : List Path → Client → Client
  | [], c => c
  | d :: ds, c => recvDeletes pre ds { c with tree := treeDelete c.tree (pre ++ d) }

/-- one `Recv` of the gNMI transport feeding `CacheClient.defaultHandler`; `once` = the query
type is ONCE or POLL -/
def Client.recv (once : Bool) (c : Client) (r : Sub.Resp) : Client :=
  if c.failed || c.stopped then c else
  match r with
  | .sync => { c with synced := true, stopped := once }
  | .upd n _ =>
    let pre := clientPrefix n.target n.origin n.pfx
    let c := recvUpdates pre n.ts n.upd c
    if c.failed then c else recvDeletes pre (n.del.map (·.path)) c
  | .del t o p _ _ => { c with tree := treeDelete c.tree (clientPrefix t o p) }

def Client.run (once : Bool) (c : Client) (rs : List Sub.Resp) : Client := rs.foldl (Client.recv once) c

/-- the client at the end of its RPC: a non-OK status is an error of `Subscribe` -/
def Client.finish (c : Client) (status : Option Sub.Code) : Client :=
  match status with
  | some .ok => c
  | none => c
  | some _ => if c.stopped then c else { c with failed := true }

/-- `Leaves()`: the tree's content (sorted by `WalkSorted`; order is not part of the comparison) -/
def Client.leaves (c : Client) : List (Path × CLeaf) := c.tree

/-! ## 6. Client requests -/

/-- the request `client.Query{Target, Queries, Type}` arrives as (C19: plain query elements reach
the server as themselves) -/
def clientReq (target : String) (mode : Sub.Mode) (queries : List Path) : Sub.Req :=
  { target := target, mode := mode, subs := queries.map (fun q => { path := q }) }

/-- everything subscriber `id` was sent so far -/
def sentTo (st : Sub.State) (id : String) : List Sub.Resp × Option Sub.Code :=
  match st.subs.find? (fun s => s.id = id) with
  | some s => (s.out.map (·.1), s.status)
  | none => ([], none)

/-- the view of the client behind subscriber `id` -/
def clientOf (st : Sub.State) (id : String) (once : Bool) : Client :=
  let r := sentTo st id
  (Client.run once {} r.1).finish r.2

/-! ## 7. Whole runs -/

/-- a target's session: its name and the responses it streams, each with the collector's clock
reading when it is handled -/
abbrev Stream := List (Int × TItem)

/-- one global step of a run: target `name` delivers its next response (`first`: it is the first
of its session), or a STREAM client for `target` subscribes -/
inductive Step where
  | recv (name : String) (first : Bool) (now : Int) (it : TItem)
  | subscribe (id target : String) (queries : List Path)
deriving Repr, Inhabited

def Sys.step (enc : String → String) (s : Sys) : Step → Sys
  | .recv name first now it => s.recv enc now name first it
  | .subscribe id target queries =>
    if s.crashed then s else
    { s with sub := Sub.subscribe s.sub id .absent (some (clientReq target .stream queries)) }

def Sys.run (enc : String → String) (s : Sys) (steps : List Step) : Sys := steps.foldl (Sys.step enc) s

/-- the collector right after `runCollector` started serving -/
def Sys.start (cfg : TargetCfg.Cfg) : Sys := { sub := { cache := (Coll.start cfg).cache } }

/-- everything the subscriber that joined last was sent, and how its RPC ended -/
def lastSent (st : Sub.State) : List Sub.Resp × Option Sub.Code :=
  match st.subs.getLast? with
  | some s => (s.out.map (·.1), s.status)
  | none => ([], none)

/-- a ONCE query of `target` at the current state: the client's final view -/
def Sys.once (s : Sys) (target : String) (queries : List Path) : Client :=
  -- the answer to a ONCE query depends on the cache alone
  let st := Sub.subscribe { cache := s.sub.cache } "once" .absent (some (clientReq target .once queries))
  let r := lastSent st
  (Client.run true {} r.1).finish r.2

/-- the view of STREAM client `id` at the current state -/
def Sys.streamView (s : Sys) (id : String) : Client := clientOf s.sub id false

/-- the steps of one target's session -/
def sessionSteps (name : String) (items : Stream) : List Step :=
  items.zipIdx.map (fun x => Step.recv name (x.2 == 0) x.1.1 x.1.2)

/-! ## 8. `cmd/gnmi_cli`: three ways to the same `client.Query` -/

/-- a parsed `gnmi.SubscribeRequest` text proto, as far as `client.NewQuery` and the server read
it (paths in index form, `path.ToStrings(su.Path, false)`) -/
structure PbReq where
  hasSubscribe : Bool := true            -- `sr.Request` is the `subscribe` arm and non-nil
  prefixNil : Bool := false
  target : String := ""
  mode : Sub.Mode := .stream
  updatesOnly : Bool := false
  subs : List Path := []
deriving DecidableEq, Repr, Inhabited

/-- `client.Query`, the fields the three routes set differently -/
structure Query where
  target : String := ""
  queries : List Path := []
  type : Sub.Mode := .once
  updatesOnly : Bool := false
  subReq : Option PbReq := none
deriving DecidableEq, Repr, Inhabited

/-- `client.NewQuery(sr)`; `none` = error -/
def newQuery (sr : PbReq) : Option Query :=
  if !sr.hasSubscribe then none
  else if sr.prefixNil then none
  else some { target := sr.target, queries := sr.subs, type := sr.mode, updatesOnly := sr.updatesOnly,
              subReq := some sr }

/-- `cli.QueryType(*queryType)` -/
def queryType (s : String) : Option Sub.Mode :=
  if s = "o" ∨ s = "once" ∨ s = "ONCE" then some .once
  else if s = "p" ∨ s = "polling" ∨ s = "POLLING" then some .poll
  else if s = "s" ∨ s = "streaming" ∨ s = "STREAMING" then some .stream
  else none

/-! `parseQuery(query, delim)` for a one-code-point delimiter, rune by rune -/

structure PQSt where
  buf : List (Option Char) := []       -- `none` = the NUL separator written for a delimiter outside a key
  inKey : Bool := false
deriving Repr

/-- loop body; `none` = malformed query -/
def pqStep (d : Char) (s : PQSt) (r : Char) : Option PQSt :=
  if r = '[' then (if s.inKey then none else some { buf := s.buf ++ [some r], inKey := true })
  else if r = ']' then (if !s.inKey then none else some { buf := s.buf ++ [some r], inKey := false })
  else if r = d ∧ !s.inKey then some { s with buf := s.buf ++ [none] }
  else some { s with buf := s.buf ++ [some r] }

def pqLoop (d : Char) : List Char → PQSt → Option PQSt
  | [], s => some s
  | r :: rs, s => match pqStep d s r with
    | none => none
    | some s' => pqLoop d rs s'

/-- `strings.Split(string(buf), "\x00")` -/
def pqSplit : List (Option Char) → List Char → List (List Char)
  | [], cur => [cur]
  | none :: r, cur => cur :: pqSplit r []
  | some c :: r, cur => pqSplit r (cur ++ [c])

/-- `strings.Trim(query, delim)` -/
def trimChar (d : Char) (l : List Char) : List Char :=
  ((l.dropWhile (· = d)).reverse.dropWhile (· = d)).reverse

/-- `parseQuery`; `none` = error.  (A literal NUL in the query would also split: outside the
plain fragment.) -/
def parseQuery (query : String) (d : Char) : Option Path :=
  match pqLoop d (trimChar d query.toList) {} with
  | none => none
  | some s => if s.inKey then none else some ((pqSplit s.buf []).map String.ofList)

/-- the command line of one `gnmi_cli` Subscribe invocation -/
structure CliArgs where
  target : String := ""            -- -t
  queries : List String := []      -- -q
  queryType : String := "once"     -- -qt
  updatesOnly : Bool := false      -- -u
  proto : String := ""             -- -proto
  protoFile : String := ""         -- -proto_file
deriving Repr, Inhabited

/-- what the invocation does before any RPC -/
inductive CliOut where
  | display (q : Query)     -- `cli.QueryDisplay(ctx, q, &cfg)`
  | error                   -- returns an error / `log.Exit`
deriving DecidableEq, Repr, Inhabited

/-- `protoRequestFromFlags`; `fs` = the file system (`os.ReadFile`) -/
def protoRequestFromFlags (fs : String → Option String) (a : CliArgs) : Option String :=
  if a.protoFile ≠ "" then
    if a.proto ≠ "" then none else fs a.protoFile
  else some a.proto

def parseQueries (d : Char) : List String → Option (List Path)
  | [] => some []
  | q :: r => match parseQuery q d with
    | none => none
    | some p => (parseQueries d r).map (p :: ·)

/-- the flag route of `executeSubscribe` (no request proto) -/
def flagQuery (a : CliArgs) : CliOut :=
  match queryType a.queryType with
  | none => .error
  | some ty =>
    if a.queries.length = 0 then .error
    else match parseQueries '/' a.queries with
      | none => .error
      | some qs => .display { target := a.target, queries := qs, type := ty, updatesOnly := a.updatesOnly }

/-- `executeSubscribe`.  `parse` = `prototext.Unmarshal` into a `SubscribeRequest` (trusted:
"the text `t` parses to request `R`" is `parse t = some R`). -/
def executeSubscribe (parse : String → Option PbReq) (fs : String → Option String) (a : CliArgs) : CliOut :=
  match protoRequestFromFlags fs a with
  | none => .error
  | some s =>
    if s ≠ "" then
      match parse s with                      -- cli.ParseSubscribeProto(s)
      | none => .error
      | some sr => match newQuery sr with
        | none => .error
        | some q => .display q
    else flagQuery a

/-- `executeSubscribe` before the D17 repair: the text handed to the parser is `*reqProto`, not
what `protoRequestFromFlags` returned -/
def executeSubscribePreD17 (parse : String → Option PbReq) (fs : String → Option String) (a : CliArgs) : CliOut :=
  match protoRequestFromFlags fs a with
  | none => .error
  | some s =>
    if s ≠ "" then
      match parse a.proto with
      | none => .error
      | some sr => match newQuery sr with
        | none => .error
        | some q => .display q
    else flagQuery a

/-- the `SubscribeRequest` the gNMI transport sends for a query (`client/gnmi.Subscribe`): the
stored `SubReq` verbatim, else `ToSubscribeRequest(q)` — whose paths are `ygot.StringToPath` of
the joined query (`PV.queryToPath`, C19); `none` = conversion error -/
def requestSent (q : Query) : Option PbReq :=
  match q.subReq with
  | some sr => some sr
  | none =>
    let conv := q.queries.map (fun p => PV.queryToPath p)
    if conv.all (fun o => match o with | .ok _ => true | _ => false) then
      some { target := q.target, mode := q.type, updatesOnly := q.updatesOnly,
             subs := conv.map (fun o => match o with
               | .ok g => PV.toStrings (some g) false
               | _ => []) }
    else none

/-- the request as the Subscribe server reads it -/
def PbReq.toReq (r : PbReq) : Sub.Req :=
  { hasSubscribe := r.hasSubscribe, prefixNil := r.prefixNil, target := r.target, mode := r.mode,
    updatesOnly := r.updatesOnly, subs := r.subs.map (fun q => { path := q }) }

/-! ## 9. Session ends and restarts (`manager.handleUpdates` returning, `manager.monitor`)

A target's session ends whenever `sc.Recv()` fails — a transport error, the target closing the
stream itself (`io.EOF`), the receive timeout or a forced reconnect cancelling the context:
```go
resp, err := sc.Recv()
...
if err != nil {
    if m.reset != nil { m.reset(ta.name) }      // = cache.Reset(name) in the collector
    return err
}
```
`monitor` then records the error (`defer … m.connectError(ta.name, err)` = `cache.ConnectError`, also
after a failed dial, where no session ever started) and `retryMonitor` subscribes again: the
target streams its — possibly smaller — state anew, `m.connect(name)` before its first response
(the `first` flag of `Step.recv`).

Added beside `Step` / `Sys.run` (which stay as they are: `Sys.runR_lift`). -/

/-- `m.reset(name)` = `cache.Reset(name)` at clock reading `now`; its events (metadata refresh,
one `name/<root>/*` delete per top-level subtree) reach the subscribers -/
def Sys.reset (enc : String → String) (now : Int) (s : Sys) (name : String) : Sys :=
  if s.crashed then s else
  let r := s.sub.cache.reset enc name now
  { s with sub := Sub.feed { s.sub with cache := r.1 } r.2 }

/-- `m.connectError(name, err)` = `cache.ConnectError(name, err)`; `msg` = `err.Error()` -/
def Sys.connectError (enc : String → String) (now : Int) (s : Sys) (name msg : String) : Sys :=
  if s.crashed then s else
  let r := s.sub.cache.connectError enc name msg now
  { s with sub := Sub.feed { s.sub with cache := r.1 } r.2 }

/-- one global step of a run with session restarts -/
inductive StepR where
  | step (st : Step)
  /-- the session of target `name` ends (`handleUpdates`: `Recv` failed, for whatever reason) -/
  | reset (name : String) (now : Int)
  /-- `monitor` records why the attempt ended (any time: also after a failed dial) -/
  | connectError (name msg : String) (now : Int)
deriving Repr, Inhabited

def Sys.stepR (enc : String → String) (s : Sys) : StepR → Sys
  | .step st => s.step enc st
  | .reset name now => s.reset enc now name
  | .connectError name msg now => s.connectError enc now name msg

def Sys.runR (enc : String → String) (s : Sys) (steps : List StepR) : Sys := steps.foldl (Sys.stepR enc) s

/-- target `name`'s session is over and the manager starts the next one: what `handleUpdates` and
`monitor` do between the last response of one session and the first of the next -/
def restartSteps (name : String) (now : Int) (msg : String) (now' : Int) : List StepR :=
  [.reset name now, .connectError name msg now']

/-- a run without restarts is a run of `Sys.run` -/
theorem Sys.runR_lift (enc : String → String) (s : Sys) (steps : List Step) :
    s.runR enc (steps.map StepR.step) = s.run enc steps := by
  unfold Sys.runR Sys.run
  rw [List.foldl_map]
  rfl


end Pipeline
end Gnmi
