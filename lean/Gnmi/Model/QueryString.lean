import Gnmi.Model.PathConv
import Gnmi.Model.Value
/-!
# Model of the client query → SubscribeRequest path conversion (property C19)

`client/gnmi/client.go`: `subscribe` (= `ToSubscribeRequest`) turns every `client.Path`
(`[]string`) of a query into a `*gnmi.Path` by `pathToString` (escape `/` inside elements, join
with `/`) followed by `ygot.StringToPath(s, StructuredPath, StringSlicePath)`.

The second half is third-party code (github.com/openconfig/ygot v0.29.20, `ygot/pathstrings.go`
and `util/path.go`), transcribed here loop by loop over `List Char` (a Go `for _, ch := range s`
over a *valid UTF-8* string yields exactly its code points; invalid UTF-8 is outside the model and
outside the generators): `SplitPath`, `PathStringToElements`, `extractKV`, `addKey`,
`elemToString`, `StringToStructuredPath`, `StringToStringSlicePath`, `StringToPath`.

Loop state is an explicit structure, one `…Step` function per loop body, `foldl`/`foldlM` for
the loop.  `path[len(path)-1]` in `PathStringToElements` is a checked operation.

Core Lean only (compiled into the driver).
-/
namespace Gnmi.PV

abbrev Str := List Char

/-! ## client.go: pathToString -/

/-- `strings.Replace(e, "/", "\\/", -1)` -/
def escapeSlash : Str → Str
  | [] => []
  | c :: r => if c = '/' then '\\' :: '/' :: escapeSlash r else c :: escapeSlash r

/-- `strings.Join(qq, "/")` -/
def joinSlash : List Str → Str
  | [] => []
  | [e] => e
  | e :: r => e ++ '/' :: joinSlash r

/-- `pathToString` (client.go:319) -/
def pathToString (q : List Str) : Str := joinSlash (q.map escapeSlash)

/-! ## ygot util.SplitPath / util.PathStringToElements -/

structure SplitSt where
  parts : List Str := []
  buf : Str := []
  inKey : Bool := false
  inEscape : Bool := false
deriving DecidableEq, Repr

/-- body of `for _, ch = range path` in `SplitPath` (util/path.go:398–415) -/
def splitStep (s : SplitSt) (ch : Char) : SplitSt :=
  -- the two first cases fall out of the switch to `buf.WriteRune(ch); inEscape = false`
  if ch = '[' ∧ s.inEscape = false then
    { s with inKey := true, buf := s.buf ++ [ch], inEscape := false }
  else if ch = ']' ∧ s.inEscape = false then
    { s with inKey := false, buf := s.buf ++ [ch], inEscape := false }
  else if ch = '\\' ∧ s.inEscape = false ∧ s.inKey = false then
    { s with inEscape := true }                                  -- continue
  else if ch = '/' ∧ s.inEscape = false ∧ s.inKey = false then
    { s with parts := s.parts ++ [s.buf], buf := [] }            -- continue
  else
    { s with buf := s.buf ++ [ch], inEscape := false }

/-- byte length of the UTF-8 encoding (`len(path)`) -/
def byteLen (s : Str) : Nat := (s.map Char.utf8Size).sum

/-- `util.SplitPath`.  After the loop the variable `ch` holds the last rune of `path` (zero
value for the empty string). -/
def splitPath (path : Str) : List Str :=
  let s := path.foldl splitStep {}
  let ch := path.getLast?.getD (Char.ofNat 0)
  if s.buf.length != 0 || (byteLen path != 1 && ch == '/') then s.parts ++ [s.buf] else s.parts

/-- `util.PathStringToElements` (util/path.go:376).  `path[len(path)-1]` is evaluated only when
`len(parts) > 0`; it is a checked index (`panic` on the empty string).  The last *byte* of a
valid UTF-8 string is `/` iff its last code point is. -/
def pathStringToElements (path : Str) : Outcome (List Str) :=
  let parts := splitPath path
  -- Remove leading empty element
  let parts := match parts with
    | p :: r => if p = [] then r else parts
    | [] => parts
  -- Remove trailing empty element
  if parts.length > 0 then
    match path.getLast? with
    | none => .panic
    | some c => if c = '/' then .ok parts.dropLast else .ok parts
  else .ok parts

/-! ## ygot extractKV / addKey / elemToString -/

abbrev KeyMap := List (Str × Str)

/-- `keys[k] = v` on a Go map -/
def mapSet (m : KeyMap) (k v : Str) : KeyMap :=
  match m with
  | [] => [(k, v)]
  | (k', v') :: r => if k' = k then (k, v) :: r else (k', v') :: mapSet r k v

/-- `addKey` (pathstrings.go:318) -/
def addKey (keys : KeyMap) (e k v : Str) : Except Unit KeyMap :=
  if k.contains ' ' then .error ()
  else if e = [] then .error ()
  else if k = [] then .error ()
  else if v = [] then .error ()
  else .ok (mapSet keys k v)

structure KVSt where
  inEscape : Bool := false
  inKey : Bool := false
  inValue : Bool := false
  name : Str := []
  currentKey : Str := []
  buf : Str := []
  keys : KeyMap := []
deriving DecidableEq, Repr

/-- body of `for _, ch := range in` in `extractKV` (pathstrings.go:262–297) -/
def kvStep (s : KVSt) (ch : Char) : Except Unit KVSt :=
  if ch = '[' ∧ s.inEscape = false ∧ s.inValue = false ∧ s.inKey = true then
    .error ()                                   -- unescaped [ in key
  else if ch = '[' ∧ s.inEscape = false ∧ s.inKey = false then
    if s.keys.length == 0 then
      if s.buf.length == 0 then .error ()       -- value when the element name was null
      else .ok { s with inKey := true, name := s.buf, buf := [] }
    else .ok { s with inKey := true }
  else if ch = ']' ∧ s.inEscape = false ∧ s.inKey = false then
    .error ()                                   -- unescaped ] when not in a key
  else if ch = ']' ∧ s.inEscape = false then
    match addKey s.keys s.name s.currentKey s.buf with
    | .error e => .error e
    | .ok keys => .ok { s with inKey := false, inValue := false, keys := keys, buf := [], currentKey := [] }
  else if ch = '\\' ∧ s.inEscape = false then
    .ok { s with inEscape := true }
  else if ch = '=' ∧ s.inKey = true ∧ s.inEscape = false ∧ s.inValue = false then
    .ok { s with currentKey := s.buf, buf := [], inValue := true }
  else
    .ok { s with buf := s.buf ++ [ch], inEscape := false }

/-- `extractKV` (pathstrings.go:256) -/
def extractKV (inp : Str) : Except Unit (Str × KeyMap) :=
  match inp.foldlM kvStep ({} : KVSt) with
  | .error e => .error e
  | .ok s =>
    let name := if s.keys.length == 0 then s.buf else s.name
    if s.keys.length != 0 && s.buf.length != 0 then .error ()     -- trailing garbage
    else if name.contains ' ' then .error ()
    else .ok (name, s.keys)

/-- `strings.Replace(v, old, "\\"+old, -1)` for a single character `old` -/
def escapeChar (old : Char) : Str → Str
  | [] => []
  | c :: r => if c = old then '\\' :: c :: escapeChar old r else c :: escapeChar old r

/-- sort key names as `sort.Strings` does -/
def sortStrs (l : List Str) : List Str :=
  l.mergeSort (fun a b => decide (String.ofList a ≤ String.ofList b))

def kmGet (m : KeyMap) (k : Str) : Str :=
  match m.find? (fun kv => kv.1 = k) with
  | some kv => kv.2
  | none => []

/-- `elemToString` (pathstrings.go:131) -/
def elemToString (name : Str) (kv : KeyMap) : Except Unit Str :=
  if name = [] then .error ()
  else if kv.length == 0 then .ok name
  else if kv.any (fun p => p.1 = []) then .error ()        -- empty key name (any iteration order)
  else
    let keys := sortStrs (kv.map (·.1))
    .ok (keys.foldl (fun name k =>
      let v := escapeChar ']' (escapeChar '=' (kmGet kv k))
      name ++ ['['] ++ k ++ ['='] ++ v ++ [']']) name)

/-! ## ygot StringToStructuredPath / StringToStringSlicePath / StringToPath -/

/-- path in `List Char` form: `elem` = (name, key map) list, `element` = deprecated list -/
structure CPath where
  elem : List (Str × KeyMap) := []
  element : List Str := []
deriving DecidableEq, Repr

/-- the `for _, p := range parts` loop of `StringToStructuredPath` -/
def structuredElems : List Str → Except Unit (List (Str × KeyMap))
  | [] => .ok []
  | p :: r =>
    match extractKV p with
    | .error e => .error e
    | .ok nk =>
      match structuredElems r with
      | .error e => .error e
      | .ok es => .ok (nk :: es)

/-- the `for _, p := range parts` loop of `StringToStringSlicePath` -/
def sliceElems : List Str → Except Unit (List Str)
  | [] => .ok []
  | p :: r =>
    match extractKV p with
    | .error e => .error e
    | .ok (name, kv) =>
      match elemToString name kv with
      | .error e => .error e
      | .ok f =>
        match sliceElems r with
        | .error e => .error e
        | .ok es => .ok (f :: es)

/-- `ygot.StringToPath(path, StructuredPath, StringSlicePath)`: both conversions are attempted,
an error of either makes the call fail -/
def stringToPath (path : Str) : Outcome CPath :=
  match pathStringToElements path with          -- StringToStructuredPath
  | .panic => .panic
  | .err => .err
  | .ok parts =>
    let st := structuredElems parts
    match pathStringToElements path with        -- StringToStringSlicePath
    | .panic => .panic
    | .err => .err
    | .ok parts' =>
      let sl := sliceElems parts'
      match st, sl with
      | .ok es, .ok el => .ok { elem := es, element := el }
      | _, _ => .err

/-- one query of `subscribe` (client.go:267–272) -/
def queryToCPath (q : List Str) : Outcome CPath := stringToPath (pathToString q)

/-- the loop over `q.Queries` in `subscribe`: first failing query aborts -/
def subscribeC : List (List Str) → Outcome (List CPath)
  | [] => .ok []
  | q :: r =>
    match queryToCPath q with
    | .panic => .panic
    | .err => .err
    | .ok p =>
      match subscribeC r with
      | .panic => .panic
      | .err => .err
      | .ok ps => .ok (p :: ps)

/-! ## String-level wrappers (what `path.ToStrings` sees on the server) -/

def CPath.toGPath (p : CPath) : GPath :=
  { elem := p.elem.map (fun nk => { name := String.ofList nk.1,
                                    key := nk.2.map (fun kv => (String.ofList kv.1, String.ofList kv.2)) }),
    element := p.element.map String.ofList }

/-- `subscribe` for one query path, as a `gnmi.Path` -/
def queryToPath (q : List String) : Outcome GPath :=
  match queryToCPath (q.map String.toList) with
  | .ok p => .ok p.toGPath
  | .err => .err
  | .panic => .panic

end Gnmi.PV
