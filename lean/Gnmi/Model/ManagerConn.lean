import Gnmi.Model.ManagerLTS
/-!
# The target manager's use of shared connections  (property C16, `manager/manager.go` side)

`connection.Manager` (`Model/ConnLTS.lean`, `Props/C16.lean`) counts references correctly *provided
its callers release what they acquire*.  The caller in this repository is `Manager.monitor`:

    conn, done, err := m.createConn(sCtx, ta.name, ta.t)   -- ConnectionManager.Connection per next hop
    if err != nil { return }                               -- nothing acquired (done has no effect)
    defer done()                                           -- released on EVERY way out of monitor
    return m.subscribe(sCtx, ta, conn)

This file adds the acquisition bookkeeping to the manager LTS of `Model/ManagerLTS.lean` as a
*history variable*: for every instance (one `*target` + its `retryMonitor` goroutine) the list of
handles it acquired so far, newest first, each with the number of times the manager called its
`done`.  The bookkeeping is a function of the program counter pairs of the monitor goroutine, so it
constrains nothing (`Reach.ghost`: every reachable configuration has its ledger) and the existing
relation, invariants and theorems are untouched:

* **acquire** — `Pc.dial → Pc.open_` (`MonStep.dialOk`): `Connection` returned `err == nil`.  The
  step has no guard on the context: it is also the path on which `Connection` returns `err == nil`
  *although `ctx.Err() != nil`* (Remove / Reconnect arrived while the dial was in flight and the dial
  succeeded — `connection.Manager.Connection` does not look at its context once it waits for the
  dial).  `subscribe` then fails on the cancelled context (`MonStep.openFail`) and the deferred
  `done()` releases;
* **release** — every step that leaves `monitor` after the `defer done()` was registered: `Pc.open_ →
  Pc.connErr` (`openFail`: `subscribe`'s context check or `subscribeClient` failed), `Pc.send →
  Pc.connErr` (`sendFail`), `Pc.reset → Pc.connErr` (`resetCb`: `handleUpdates` returned).  Deferred
  calls run last-in first-out: `done()` runs before the deferred `m.connectError`, so at
  `Pc.connErr` the handle is released already;
* `Pc.dial → Pc.connErr` (`dialFail`): `createConn` returned an error, `monitor` returns before the
  `defer done()`; nothing was acquired.

Core Lean only (linked into the driver executable through `Model/ManagerRun.lean`).
-/
namespace Gnmi.Manager

/-- What a monitor step does to the connection ledger of its instance. -/
inductive ConnEff
  | none
  | acquire    -- `Connection` returned `err == nil`
  | release    -- `monitor`'s deferred `done()`
  deriving DecidableEq, Repr

/-- The effect of moving from one program counter to another (see the header). -/
def connEff : Pc → Pc → ConnEff
  | .dial, .open_ => .acquire
  | .open_, .connErr _ _ _ => .release
  | .send, .connErr _ _ _ => .release
  | .reset _ _, .connErr _ _ _ => .release
  | _, _ => .none

/-- The handles acquired by one instance, newest first: per handle the number of `done` calls the
manager made on it. -/
abbrev Handles := List Nat

/-- `done` in `monitor`'s frame is the done of the acquisition of this attempt: the newest one. -/
def Handles.release : Handles → Handles
  | [] => []
  | k :: r => (k + 1) :: r

def ConnEff.apply : ConnEff → Handles → Handles
  | .none, h => h
  | .acquire, h => 0 :: h
  | .release, h => h.release

/-- handles not released (yet) -/
def held (h : Handles) : Nat := (h.filter (· = 0)).length

/-- successful acquisitions -/
def acquired (h : Handles) : Nat := h.length

/-- `done` calls made -/
def released (h : Handles) : Nat := h.foldl (· + ·) 0

/-- handles released more than once -/
def twice (h : Handles) : Nat := (h.filter (1 < ·)).length

/-- The ledger of a configuration: per instance slot. -/
abbrev Ghost := Nat → Handles

def Ghost.init : Ghost := fun _ => []

/-- The ledger after a step from `c` to `c'`. -/
def ghostNext (c c' : Cfg) (g : Ghost) : Ghost :=
  fun i => (connEff (c.insts i).pc (c'.insts i).pc).apply (g i)

/-- Reachable configurations with their ledger. -/
inductive GReach (env : Name → Nat → Attempt) : Cfg → Ghost → Prop
  | init : GReach env Cfg.init Ghost.init
  | step {c c' : Cfg} {g : Ghost} {l : Label} : GReach env c g → Step env c l c' →
      GReach env c' (ghostNext c c' g)

theorem GReach.reach {env : Name → Nat → Attempt} {c : Cfg} {g : Ghost} (h : GReach env c g) :
    Reach env c := by
  induction h with
  | init => exact .init
  | step _ hs ih => exact .step ih hs

/-- The ledger is a history variable: it exists for every reachable configuration. -/
theorem Reach.ghost {env : Name → Nat → Attempt} {c : Cfg} (h : Reach env c) : ∃ g, GReach env c g := by
  induction h with
  | init => exact ⟨_, .init⟩
  | step _ hs ih =>
    obtain ⟨g, hg⟩ := ih
    exact ⟨_, .step hg hs⟩

/-- Executions from a configuration with its ledger onwards. -/
inductive GRun (env : Name → Nat → Attempt) : Cfg → Ghost → Cfg → Ghost → Prop
  | nil (c : Cfg) (g : Ghost) : GRun env c g c g
  | cons {c c' c'' : Cfg} {g g'' : Ghost} {l : Label} : Step env c l c' →
      GRun env c' (ghostNext c c' g) c'' g'' → GRun env c g c'' g''

theorem GReach.run {env : Name → Nat → Attempt} {c c' : Cfg} {g g' : Ghost} (h : GReach env c g)
    (hr : GRun env c g c' g') : GReach env c' g' := by
  induction hr with
  | nil => exact h
  | cons hs _ ih => exact ih (.step h hs)

/-- Acquisitions / releases / unreleased handles of all instances that ever ran for name `n`. -/
def Cfg.sumFor (c : Cfg) (g : Ghost) (f : Handles → Nat) (n : Name) : Nat :=
  (List.range c.nInst).foldl (fun s i => if (c.insts i).name = n then s + f (g i) else s) 0

end Gnmi.Manager
