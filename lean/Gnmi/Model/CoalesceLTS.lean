import Gnmi.Model.Coalesce
/-!
# The coalescing queue as a labelled transition system (any number of goroutines)

One transition = one atomic section of `coalesce.go` (DESIGN §4): code that runs under
`q.Lock()` or performs a single channel operation.

```
Insert(i):   P1  select { case <-q.closed: return false, errClosedQueue; default: }      (no lock!)
             P2  ok := q.insert(i)                                                       (locked)
                 if !ok { return false, nil }
             P3  select { case q.inserted <- struct{}{}: default: }; return true, nil    (no lock)

Next(ctx):   C1  i, n, valid := q.next(); if valid { return i, n, nil }                  (locked)
             C2  select { case <-ctx.Done(): return ctx.Err()                            (blocking)
                          case <-q.inserted: goto C1
                          case <-q.closed:   goto C3 }
             C3  if q.Len() == 0 { return errClosedQueue } else goto C1                  (locked)

Close():     lock; close(q.closed) unless already closed                                 (locked)
cancel:      the consumer's context is cancelled (by anybody, at any time)
```

The windows that matter are therefore *in the model*: a producer that passed `P1` may insert
after `Close`; between a failed `C1` and the `select` of `C2` anything may happen; the token
is posted (`P3`) strictly after the item became visible (`P2`).

**Producers are anonymous**, so the in-flight `Insert` calls are kept by a counting
abstraction, exact for symmetric threads: `atP2` = the items of the calls that passed `P1` and
have not yet run `P2` (a multiset, kept as a list); `atP3` = the number of calls that appended
a new item in `P2` and have not yet posted the token.  Any number of producers, each calling
`Insert` any number of times, is covered.  There is **one consumer** (the way
`subscribe.go` uses the queue: `processSubscription`/`sendStreamingResults`); it may call
`Next` any number of times, also after an error return.

Ghost fields (never read by a transition guard) record the history the property speaks about.
-/
namespace Gnmi
namespace CoLTS
open Coalesce

/-- why the consumer's `Next` returned an error -/
inductive Ret where
  | closed      -- errClosedQueue
  | cancelled   -- ctx.Err()
deriving DecidableEq, Repr

/-- program counter of the consumer -/
inductive CPc where
  | idle            -- not inside `Next` (initially / processing a delivered item)
  | c1              -- about to run `q.next()`
  | c2              -- `q.next()` failed; about to execute / blocked in the `select`
  | c3              -- took `case <-q.closed`; about to run `q.Len()`
  | done (r : Ret)  -- `Next` returned an error
deriving DecidableEq, Repr

structure Cfg (Item : Type) where
  /-- the shared queue object -/
  q : Q Item := {}
  /-- the consumer's context has been cancelled -/
  cancelled : Bool := false
  /-- items of the `Insert` calls between `P1` and `P2` -/
  atP2 : List Item := []
  /-- number of `Insert` calls between `P2` (new item) and `P3` -/
  atP3 : Nat := 0
  cons : CPc := .idle
  -- ghost state
  /-- ghost: every executed `P2`, in lock order -/
  insLog : List Item := []
  /-- ghost: the `P2`s that appended a new pending item, in lock order -/
  freshLog : List Item := []
  /-- ghost: what the consumer received, in order -/
  delivered : List (Item × Nat) := []
  /-- ghost: number of `Insert` calls that returned `nil` error -/
  completed : Nat := 0
  /-- ghost: `insLog` at the first `Close` -/
  insLogAtClose : List Item := []
  /-- ghost: `completed` at the first `Close` -/
  completedAtClose : Nat := 0
deriving DecidableEq, Repr

/-- transition labels -/
inductive Label (Item : Type) where
  | pRefused (i : Item)          -- P1 on a closed queue: Insert returns errClosedQueue
  | pCheck (i : Item)            -- P1 on an open queue
  | pInsert (i : Item)           -- P2
  | pPost                        -- P3
  | cCall (newCtx : Bool)        -- the consumer calls Next (with a new, or with the same context)
  | cNext                        -- C1 (hit or miss)
  | cSelCtx                      -- C2, case <-ctx.Done()
  | cSelToken                    -- C2, case <-q.inserted
  | cSelClosed                   -- C2, case <-q.closed
  | cLen                         -- C3
  | close                        -- Close()
  | cancel                       -- the consumer's context is cancelled
deriving DecidableEq, Repr

variable {Item : Type} [DecidableEq Item]

/-- ghost bookkeeping of `Close` (snapshots are taken by the first close only) -/
def closeCfg (c : Cfg Item) : Cfg Item :=
  if c.q.closed then c
  else { c with q := Coalesce.close c.q, insLogAtClose := c.insLog, completedAtClose := c.completed }

/-- `P2` for an in-flight insert of `i` -/
def insertCfg (c : Cfg Item) (i : Item) : Cfg Item :=
  let r := insertLocked c.q i
  if r.2 then
    { c with q := r.1, atP2 := c.atP2.erase i, atP3 := c.atP3 + 1,
             insLog := c.insLog ++ [i], freshLog := c.freshLog ++ [i] }
  else
    { c with q := r.1, atP2 := c.atP2.erase i, insLog := c.insLog ++ [i],
             completed := c.completed + 1 }          -- `return false, nil`

/-- `C1` -/
def nextCfg (c : Cfg Item) : Cfg Item :=
  match nextLocked c.q with
  | (q1, some (i, d)) => { c with q := q1, cons := .idle, delivered := c.delivered ++ [(i, d)] }
  | (q1, none) => { c with q := q1, cons := .c2 }

/-- `C3` -/
def lenCfg (c : Cfg Item) : Cfg Item :=
  if len c.q = 0 then { c with cons := .done .closed } else { c with cons := .c1 }

/-- the transition relation -/
inductive Step : Cfg Item → Label Item → Cfg Item → Prop where
  | pRefused (c : Cfg Item) (i : Item) : c.q.closed = true → Step c (.pRefused i) c
  | pCheck (c : Cfg Item) (i : Item) : c.q.closed = false →
      Step c (.pCheck i) { c with atP2 := i :: c.atP2 }
  | pInsert (c : Cfg Item) (i : Item) : i ∈ c.atP2 → Step c (.pInsert i) (insertCfg c i)
  | pPost (c : Cfg Item) : 0 < c.atP3 →
      Step c .pPost { c with q := postToken c.q, atP3 := c.atP3 - 1, completed := c.completed + 1 }
  | cCall (c : Cfg Item) (newCtx : Bool) : (c.cons = .idle ∨ ∃ r, c.cons = .done r) →
      Step c (.cCall newCtx) { c with cons := .c1, cancelled := c.cancelled && !newCtx }
  | cNext (c : Cfg Item) : c.cons = .c1 → Step c .cNext (nextCfg c)
  | cSelCtx (c : Cfg Item) : c.cons = .c2 → c.cancelled = true →
      Step c .cSelCtx { c with cons := .done .cancelled }
  | cSelToken (c : Cfg Item) : c.cons = .c2 → c.q.token = true →
      Step c .cSelToken { c with q := { c.q with token := false }, cons := .c1 }
  | cSelClosed (c : Cfg Item) : c.cons = .c2 → c.q.closed = true →
      Step c .cSelClosed { c with cons := .c3 }
  | cLen (c : Cfg Item) : c.cons = .c3 → Step c .cLen (lenCfg c)
  | close (c : Cfg Item) : Step c .close (closeCfg c)
  | cancel (c : Cfg Item) : Step c .cancel { c with cancelled := true }

/-- initial configuration: `NewQueue()`, nobody inside a call -/
def Cfg.init : Cfg Item := {}

/-- reachable configurations (every schedule, every number of producers and closers) -/
inductive Reach : Cfg Item → Prop where
  | init : Reach Cfg.init
  | step {c c' : Cfg Item} {l : Label Item} : Reach c → Step c l c' → Reach c'

/-- executable version of `Step` (used by the driver to replay schedules on the real code;
`fire_sound` / `fire_complete` in `Lemmas/CoalesceLTS.lean`) -/
def fire (c : Cfg Item) : Label Item → Option (Cfg Item)
  | .pRefused _ => if c.q.closed then some c else none
  | .pCheck i => if c.q.closed then none else some { c with atP2 := i :: c.atP2 }
  | .pInsert i => if i ∈ c.atP2 then some (insertCfg c i) else none
  | .pPost => if 0 < c.atP3 then
      some { c with q := postToken c.q, atP3 := c.atP3 - 1, completed := c.completed + 1 } else none
  | .cCall newCtx => match c.cons with
      | .idle => some { c with cons := .c1, cancelled := c.cancelled && !newCtx }
      | .done _ => some { c with cons := .c1, cancelled := c.cancelled && !newCtx }
      | _ => none
  | .cNext => if c.cons = .c1 then some (nextCfg c) else none
  | .cSelCtx => if c.cons = .c2 ∧ c.cancelled = true then some { c with cons := .done .cancelled } else none
  | .cSelToken => if c.cons = .c2 ∧ c.q.token = true then
      some { c with q := { c.q with token := false }, cons := .c1 } else none
  | .cSelClosed => if c.cons = .c2 ∧ c.q.closed = true then some { c with cons := .c3 } else none
  | .cLen => if c.cons = .c3 then some (lenCfg c) else none
  | .close => some (closeCfg c)
  | .cancel => some { c with cancelled := true }

/-- fire a schedule; `none` when some label is not enabled -/
def fireAll (c : Cfg Item) : List (Label Item) → Option (Cfg Item)
  | [] => some c
  | l :: ls => match fire c l with
    | some c' => fireAll c' ls
    | none => none

/-- the label of the `select` case `a` -/
def armLabel : Arm → Label Item
  | .ctx => .cSelCtx
  | .token => .cSelToken
  | .closed => .cSelClosed

/-- the `select` cases of the consumer that are ready (empty = the consumer is blocked) -/
def readyArms (c : Cfg Item) : List Arm := ready c.q c.cancelled

end CoLTS
end Gnmi
