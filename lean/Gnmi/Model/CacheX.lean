import Gnmi.Model.Cache
import Gnmi.Model.Latency
/-!
# The cache with its latency object and `UpdateSize` wired in (`cache/cache.go`)

`Model/Cache.lean` models `Target` without two of its collaborators:

* `Target.lat` (`*latency.Latency`): `gnmiUpdate` calls `t.lat.Compute(T(n.GetTimestamp()))` at
  two sites (updated leaf, new leaf), `updateMeta` calls `t.lat.UpdateReset(t.meta)`, and the
  latency statistics the latter writes into the metadata object are exported by
  `generateMetaUpdates` as leaves under `meta/latency/window/<w>/<avg|max|min>`;
* `Cache.UpdateSize` / `Target.updateSize`.

This file adds both **without touching the existing definitions**: the latency side of a target is
a separate record `LatSt` (the `Latency` object of `Model/Latency.lean` plus the latency entries
of the metadata object's `valuesInt` map), threaded beside the `Target` of `Model/Cache.lean`
through `…X` versions of the functions that touch it.  The `…X` functions follow the Go code arm
by arm, *including* the arms of `Model/Cache.lean` they repeat; `Lemmas/CacheX.lean` proves that
their `Target` component is exactly what the existing function computes (`updateCoreX_base`, …,
`gnmiUpdateX_base`), so every theorem about the existing model applies to the `Target` component
of the wired one.  A cache created without latency windows behaves as the existing model says
(`runX_lift`).

Clocks: `cache.Now` and `latency.Now` are two package variables; the model (and the harness)
reads both from the one scripted clock `now` of the API call.

Go's iteration order over `metadata.TargetIntValues` is unspecified.  `Model/Cache.lean` fixes the
order `intNames` for the ten built-in counters; the latency entries (registered by
`metadata.RegisterLatencyMetadata` in the same map) are visited here *after* the string values and
the server name, i.e. `generateMetaUpdatesX = latency loop ∘ generateMetaUpdates`.  Every step of
these loops writes its own leaf (`meta/<name>` resp. `meta/latency/window/<w>/<stat>`) and adds to
counters, so the final state does not depend on the order; the feed events of a refresh are
compared as a set (the harness sorts them).

`UpdateSize`: `updateSize` sums `len(json.Marshal(v))` over **all** leaves `t.t.Query(["*"])`
visits — metadata leaves included — and stores the sum with `SetInt(targetSize)`.  The size of a
stored notification is the parameter `Env.sizeOf` (instantiated by the driver with the length of
the `encoding/json` rendering, see `Driver/CA.lean`).
-/
namespace Gnmi
namespace Cache

/-! ## The latency side of a target -/

/-- options of `cache.New` the existing `Cfg` does not carry -/
structure CfgX where
  /-- `WithLatencyWindows`: the parsed window sizes (ns), in order -/
  windows : List Int := []
  /-- `WithAvgLatencyPrecision` (`none` = not given) -/
  prec : Option Int := none
  /-- `latency.CompactDurationString` (`Model/LatencyNames.lean`; a parameter here: the cache only
  uses it to build names and paths) -/
  winStr : Int → String := fun _ => ""

structure LatSt where
  /-- `Target.lat` -/
  lat : Latency.L := { sf := 1 }
  /-- the latency entries of `Target.meta.valuesInt`, as the list of `SetInt` calls since the
  last `Clear` (an entry's value is the last write: `Latency.exported`) -/
  vals : List Latency.Write := []
deriving DecidableEq, Repr

/-- `latency.New(c.opts.latencyWindows, latOpts)` in `Cache.Add`; the metadata object is new:
no latency entry is set (`InitZero` is false for them) -/
def LatSt.new (x : CfgX) : LatSt := { lat := Latency.L.new x.windows x.prec, vals := [] }

/-- `t.lat.Compute(T(n.GetTimestamp()))` with `latency.Now() = now` -/
def LatSt.compute (l : LatSt) (now ts : Int) : LatSt := { l with lat := l.lat.compute now ts }

/-! ## `gnmiUpdate` with the two `Compute` sites -/

/-- `gnmiUpdate` after the path checks (`Cache.updateCore` plus the latency calls):
```
oldval.Update(n)
if !n.Atomic && !old.GetAtomic() && value.Equal(...) && t.eventDriven { suppressed++; return nil, nil }
if realData && t.synced() { t.lat.Compute(T(n.GetTimestamp())) }          -- site 1
return oldval, nil
...
if realData { leaves++; added++; if t.synced() { t.lat.Compute(T(n.GetTimestamp())) } }   -- site 2
``` -/
def updateCoreX (cfg : Cfg) (now : Int) (t : Target) (l : LatSt) (realData : Bool) (path : Path) (n : Noti)
    (u : Upd) : (Res × Target × Option Noti) × LatSt :=
  match lookup t.tree path with
  | some old =>
    match verdict cfg now t.latest old n with
    | .stale => ((.stale, { t with md := { t.md with stale := t.md.stale + 1 } }, none), l)
    | .future => ((.future, { t with md := { t.md with future := t.md.future + 1 } }, none), l)
    | .accept =>
      let t := { t with tree := setLeaf t.tree path n }
      if n.atomic || old.atomic then
        ((.ok, t, some n), if realData && t.sync then l.compute now n.ts else l)
      else
        match old.upd with
        | [] => ((.panic, t, none), l)                                -- old.Update[0]
        | ou :: _ =>
          if valueEqual ou.val u.val && cfg.eventDriven then
            ((.ok, { t with md := { t.md with suppressed := t.md.suppressed + 1 } }, none), l)
          else ((.ok, t, some n), if realData && t.sync then l.compute now n.ts else l)
  | none =>
    match PMap.add t.tree path n with
    | none => ((.err, t, none), l)
    | some tree' =>
      let t := { t with tree := tree' }
      if realData then
        ((.ok, { t with md := { t.md with leaves := t.md.leaves + 1, added := t.md.added + 1 } }, some n),
         if t.sync then l.compute now n.ts else l)
      else ((.ok, t, some n), l)

/-- `Target.gnmiUpdate(n)` (`Cache.Target.gnmiUpdate1` plus the latency calls) -/
def Target.gnmiUpdate1X (cfg : Cfg) (now : Int) (t : Target) (l : LatSt) (n : Noti) :
    (Res × Target × Option Noti) × LatSt :=
  match n.upd with
  | [] => ((.panic, t, none), l)
  | u :: _ =>
  match updKey? n u with
  | none => ((.panic, t, none), l)
  | some [] => ((.err, t, none), l)
  | some (h :: rest) =>
    match metaPre t h rest u.val with
    | none => ((.err, t, none), l)
    | some (t', realData) => updateCoreX cfg now t' l realData (h :: rest) n u

/-- the loop over the updates of a multi-update notification (`Cache.multiUpdates`) -/
def multiUpdatesX (cfg : Cfg) (now : Int) (hdr : Noti) : List Upd → MultiAcc × LatSt → MultiAcc × LatSt
  | [], acc => acc
  | u :: us, acc =>
    if acc.1.panicked then acc else
    let r := Target.gnmiUpdate1X cfg now acc.1.t acc.2 { hdr with upd := [u], del := [] }
    if r.1.1 = .panic then ({ acc.1 with panicked := true, t := r.1.2.1 }, r.2)
    else if r.1.1.isErr then multiUpdatesX cfg now hdr us ({ acc.1 with anyErr := true, t := r.1.2.1 }, r.2)
    else
      match r.1.2.2 with
      | some nd =>
        let t := { r.1.2.1 with md := { r.1.2.1.md with updated := r.1.2.1.md.updated + 1 } }
        multiUpdatesX cfg now hdr us
          ({ acc.1 with anyOk := true, t := t, evs := acc.1.evs ++ [[Event.upd nd]] }, r.2)
      | none => multiUpdatesX cfg now hdr us ({ acc.1 with anyOk := true, t := r.1.2.1 }, r.2)

/-- the `switch` of `Target.GnmiUpdate` (`Cache.Target.dispatch`); `gnmiRemove` does not touch the
latency object -/
def Target.dispatchX (cfg : Cfg) (now : Int) (t : Target) (l : LatSt) (n : Noti) :
    (Res × Target × List (List Event) × Bool) × LatSt :=
  if n.atomic then
    if !n.del.isEmpty then ((.err, t, [], false), l)
    else if n.upd.isEmpty then ((.ok, { t with md := { t.md with empty := t.md.empty + 1 } }, [], false), l)
    else
      let r := Target.gnmiUpdate1X cfg now t l n
      (singleArm r.1 (n.upd.length : Nat), r.2)
  else if n.upd.length + n.del.length > 1 then
    let hdr := { n with upd := [], del := [] }
    let a := multiUpdatesX cfg now hdr n.upd ({ t := t }, l)
    let b := multiDeletes hdr n.del a.1
    if b.panicked then ((.panic, b.t, b.evs, false), a.2)
    else (((if b.anyErr then .err else .ok), b.t, b.evs, b.anyOk), a.2)
  else if n.upd.length = 1 then
    let r := Target.gnmiUpdate1X cfg now t l n
    (singleArm r.1 1, r.2)
  else if n.del.length = 1 then
    let t := { t with md := { t.md with updated := t.md.updated + 1 } }
    let r := Target.gnmiRemove1 t n
    ((if r.2.2 then (.panic, r.1, [], false) else (.ok, r.1, (if r.2.1.isEmpty then [] else [r.2.1]), false)), l)
  else ((.ok, { t with md := { t.md with empty := t.md.empty + 1 } }, [], false), l)

/-- `Target.GnmiUpdate(n)` -/
def Target.gnmiUpdateX (cfg : Cfg) (now : Int) (t : Target) (l : LatSt) (n : Noti) :
    (Res × Target × List (List Event)) × LatSt :=
  match tracksTimestamp? n with
  | none => ((.panic, t, []), l)
  | some tracks =>
    let r := t.dispatchX cfg now l n
    ((r.1.1, (if r.1.2.2.2 && tracks then r.1.2.1.checkTimestamp n.ts else r.1.2.1), r.1.2.2.1), r.2)

/-! ## The refresh: `UpdateReset`, then the latency leaves -/

def statStr : Latency.Stat → String
  | .avg => "avg" | .max => "max" | .min => "min"

/-- `latency.MetadataName(w, typ)`: `fmt.Sprintf("%s%s%s", typ, "LatencyWindow", CompactDurationString(w))` -/
def latName (x : CfgX) (w : Int) (st : Latency.Stat) : String := statStr st ++ "LatencyWindow" ++ x.winStr w

/-- `metadata.LatencyPath(w, typ)` = `latency.Path(w, typ, []string{"meta"})` -/
def latPath (x : CfgX) (w : Int) (st : Latency.Stat) : Path :=
  [metaRoot, "latency", "window", x.winStr w, statStr st]

/-- `metaNoti(target, name, v)` for a metadata value whose `metadata.Path` is `path`
(`metaNoti` of `Model/Cache.lean` is the case `path = [meta, name]`, `metaNotiAt_two`) -/
def metaNotiAt (enc : String → String) (target : String) (path : Path) (v : Scalar) (now : Int) : Noti :=
  { ts := now, target := target, origin := "", pfx := [], praw := rawPrefixOfTarget target enc,
    atomic := false,
    upd := [{ origin := "", path := path, val := .scalar v,
              raw := "o=;t=;e=" ++ ",".intercalate (path.map enc) ++ ";l=#" ++ rawScalar enc v ++ "#0" }],
    del := [] }

/-- `metaLeafValue(path)` compared with the current value (`Cache.metaIsCurrent` for any path) -/
def leafIsCurrent (t : Target) (path : Path) (isCur : Val → Bool) : Bool :=
  match (lookup t.tree path).bind (fun n => n.upd.head?.map (·.val)) with
  | some sv => isCur sv
  | none => false

/-- `prev, ok := ….(*pb.TypedValue_IntVal); ok && prev.IntVal == v` -/
def curInt (v : Int) (sv : Val) : Bool :=
  match sv with
  | .scalar (.int i) => i == v
  | _ => false

/-- the (window, statistic) pairs `RegisterLatencyMetadata` registers, each name once (the
registry is a map: a window given twice registers the same three names again) -/
def latKeys (x : CfgX) : List (Int × Latency.Stat) :=
  (x.windows.flatMap (fun w => [(w, Latency.Stat.avg), (w, Latency.Stat.max), (w, Latency.Stat.min)])).eraseDups

/-- one step of the `TargetIntValues` loop of `generateMetaUpdates` for a latency entry:
```
if t.excludedMeta.Contains(value) { continue }
v, err := t.meta.GetInt(value); if err != nil { continue }          -- unset: never written since Clear
if prev, ok := t.metaLeafValue(path)...(*pb.TypedValue_IntVal); !ok || prev.IntVal != v {
    if n, _ := t.gnmiUpdate(metaNotiInt(t.name, value, v)); n != nil { clients(n) } }
```
The notification is addressed under `meta`: `gnmiUpdate` has `realData = false` and reaches no
`Compute` (`Lemmas/CacheX.gnmiUpdate1X_meta`), so the existing `gnmiUpdate1` is what runs. -/
def genLatOne (cfg : Cfg) (x : CfgX) (enc : String → String) (now : Int) (emit : Bool)
    (vals : List Latency.Write) (acc : Target × List Event) (k : Int × Latency.Stat) : Target × List Event :=
  if cfg.excluded.contains (latName x k.1 k.2) then acc
  else
    match Latency.exported vals k.1 k.2 with
    | none => acc
    | some v =>
      if leafIsCurrent acc.1 (latPath x k.1 k.2) (curInt v) then acc
      else
        let r := Target.gnmiUpdate1 cfg now acc.1 (metaNotiAt enc acc.1.name (latPath x k.1 k.2) (.int v) now)
        match r.2.2 with
        | some nd => (r.2.1, if emit then acc.2 ++ [Event.upd nd] else acc.2)
        | none => (r.2.1, acc.2)

/-- `generateMetaUpdates` of a cache with latency windows (see the header for the order) -/
def Target.generateMetaUpdatesX (cfg : Cfg) (x : CfgX) (enc : String → String) (now : Int) (emit : Bool)
    (t : Target) (vals : List Latency.Write) : Target × List Event :=
  (latKeys x).foldl (genLatOne cfg x enc now emit vals) (t.generateMetaUpdates cfg enc now emit)

/-- `Target.updateMeta(clients)`:
```
t.meta.SetInt(metadata.LatestTimestamp, latest.UnixNano())
t.lat.UpdateReset(t.meta)          -- every write is a SetInt on the metadata object
t.generateMetaUpdates(clients)
``` -/
def Target.updateMetaX (cfg : Cfg) (x : CfgX) (enc : String → String) (now : Int) (emit : Bool)
    (t : Target) (l : LatSt) : (Target × List Event) × LatSt :=
  let lt := match t.latest with
    | some v => v
    | none => zeroUnixNano
  let u := l.lat.update now false
  let l' : LatSt := { lat := u.1, vals := l.vals ++ u.2 }
  (Target.generateMetaUpdatesX cfg x enc now emit { t with md := { t.md with latest := lt } } l'.vals, l')

/-- `Target.Reset()`: `t.meta.Clear()` also deletes the latency entries (`InitZero` false); the
`Latency` object itself is left alone (its windows keep their slots) -/
def Target.resetX (cfg : Cfg) (x : CfgX) (enc : String → String) (now : Int) (t : Target) (l : LatSt) :
    (Target × List Event) × LatSt :=
  let t := { t with latest := none, md := Meta.clear }
  let r := Target.updateMetaX cfg x enc now true t { l with vals := [] }
  let roots := (rootChildren r.1.1.tree).filter (· != metaRoot)
  (roots.foldl (fun acc root =>
    ({ acc.1 with tree := (PMap.delete (fun _ => true) acc.1.tree [root]).1 },
     acc.2 ++ [Event.del acc.1.name root [glob] now])) r.1, r.2)

/-! ## `updateSize` -/

/-- `Target.updateSize`: `t.t.Query([]string{"*"}, …)` visits every leaf of the target's tree
(metadata leaves included); the sum of their sizes is stored with `SetInt(targetSize)` -/
def Target.updateSize (sizeOf : Noti → Int) (t : Target) : Target :=
  { t with md := { t.md with size := ((PMap.query t.tree [glob]).map (fun kv => sizeOf kv.2)).foldl (· + ·) 0 } }

/-! ## The cache -/

structure Env where
  enc : String → String
  sizeOf : Noti → Int

structure StateX where
  s : State := {}
  x : CfgX := {}
  lats : List (String × LatSt) := []

def setLat (l : List (String × LatSt)) (name : String) (v : LatSt) : List (String × LatSt) :=
  l.filter (fun kv => kv.1 != name) ++ [(name, v)]

/-- the latency side of target `name` (a target registered through `Add` always has one) -/
def StateX.latOf (sx : StateX) (name : String) : LatSt :=
  match sx.lats.find? (fun kv => kv.1 == name) with
  | some kv => kv.2
  | none => LatSt.new sx.x

/-- `Cache.Add` (of a cache without server name, as `State.add`) -/
def StateX.add (sx : StateX) (name : String) : StateX :=
  { sx with s := sx.s.add name, lats := setLat sx.lats name (LatSt.new sx.x) }

/-- `Cache.Add` in general (as `State.addWith`) -/
def StateX.addWith (sx : StateX) (name : String) : StateX :=
  { sx with s := sx.s.addWith name, lats := setLat sx.lats name (LatSt.new sx.x) }

def StateX.remove (sx : StateX) (name : String) (now : Int) : StateX × List Event :=
  let r := sx.s.remove name now
  ({ sx with s := r.1, lats := sx.lats.filter (fun kv => kv.1 != name) }, r.2)

def StateX.onTarget (sx : StateX) (name : String) (f : Target → LatSt → (Target × List Event) × LatSt) :
    StateX × List Event :=
  match sx.s.get name with
  | none => (sx, [])
  | some t =>
    let r := f t (sx.latOf name)
    ({ sx with s := sx.s.set name r.1.1, lats := setLat sx.lats name r.2 }, r.1.2)

/-- `Cache.GnmiUpdate` -/
def StateX.gnmiUpdate (sx : StateX) (now : Int) (prefixNil : Bool) (n : Noti) :
    Res × StateX × List (List Event) :=
  if prefixNil then (.err, sx, [])
  else
    match sx.s.get n.target with
    | none => (.err, sx, [])
    | some t =>
      let r := t.gnmiUpdateX sx.s.cfg now (sx.latOf n.target) n
      (r.1.1, { sx with s := sx.s.set n.target r.1.2.1, lats := setLat sx.lats n.target r.2 }, r.1.2.2)

/-- `Cache.Sync(name)` -/
def StateX.sync (sx : StateX) (enc : String → String) (name : String) (now : Int) : StateX × List Event :=
  sx.onTarget name (fun t l =>
    let r := t.gnmiUpdateX sx.s.cfg now l (metaNoti enc name "sync" (.bool true) now)
    ((r.1.2.1, flattenGroups r.1.2.2), r.2))

/-- `Cache.Connect(name)` -/
def StateX.connect (sx : StateX) (enc : String → String) (name : String) (now : Int) : StateX × List Event :=
  sx.onTarget name (fun t l =>
    let r := t.gnmiUpdateX sx.s.cfg now l (metaNoti enc name "connected" (.bool true) now)
    let r2 := r.1.2.1.gnmiUpdateX sx.s.cfg now r.2 (deleteNotiOf enc name [metaRoot, "connectError"] now)
    ((r2.1.2.1, flattenGroups r.1.2.2 ++ flattenGroups r2.1.2.2), r2.2))

/-- `Cache.ConnectError(name, err)` -/
def StateX.connectError (sx : StateX) (enc : String → String) (name msg : String) (now : Int) :
    StateX × List Event :=
  sx.onTarget name (fun t l =>
    let r := t.gnmiUpdateX sx.s.cfg now l (metaNoti enc name "connectError" (.str msg) now)
    ((r.1.2.1, flattenGroups r.1.2.2), r.2))

/-- `Cache.Reset(name)` -/
def StateX.reset (sx : StateX) (enc : String → String) (name : String) (now : Int) : StateX × List Event :=
  sx.onTarget name (fun t l => t.resetX sx.s.cfg sx.x enc now l)

/-- `Cache.UpdateMetadata()` -/
def StateX.updateMetadata (sx : StateX) (enc : String → String) (now : Int) : StateX × List Event :=
  sx.s.targets.foldl (fun acc kv =>
    match acc.1.s.get kv.1 with
    | none => acc
    | some t =>
      let r := t.updateMetaX sx.s.cfg sx.x enc now true (acc.1.latOf kv.1)
      ({ acc.1 with s := acc.1.s.set kv.1 r.1.1, lats := setLat acc.1.lats kv.1 r.2 }, acc.2 ++ r.1.2)) (sx, [])

/-- `Cache.UpdateSize()`: `updateSize` on every target -/
def StateX.updateSize (sx : StateX) (sizeOf : Noti → Int) : StateX :=
  { sx with s := { sx.s with targets := sx.s.targets.map (fun kv => (kv.1, kv.2.updateSize sizeOf)) } }

/-! ## Histories -/

/-- the API calls of `Model/Cache.lean` plus `UpdateSize` -/
inductive OpX where
  | base (op : Op)
  | updateSize

def StateX.step (env : Env) (sx : StateX) : OpX → StateX × Res × List Event
  | .base (.add name) => (sx.add name, .ok, [])
  | .base (.remove name now) => let r := sx.remove name now; (r.1, .ok, r.2)
  | .base (.reset name now) => let r := sx.reset env.enc name now; (r.1, .ok, r.2)
  | .base (.sync name now) => let r := sx.sync env.enc name now; (r.1, .ok, r.2)
  | .base (.connect name now) => let r := sx.connect env.enc name now; (r.1, .ok, r.2)
  | .base (.connectError name msg now) => let r := sx.connectError env.enc name msg now; (r.1, .ok, r.2)
  | .base (.update now pn n) => let r := sx.gnmiUpdate now pn n; (r.2.1, r.1, flattenGroups r.2.2)
  | .base (.updateMetadata now) => let r := sx.updateMetadata env.enc now; (r.1, .ok, r.2)
  | .updateSize => (sx.updateSize env.sizeOf, .ok, [])

def StateX.run (env : Env) (sx : StateX) : List OpX → StateX
  | [] => sx
  | op :: ops => StateX.run env (sx.step env op).1 ops

end Cache
end Gnmi
