import Gnmi.Model.FakeQueue
import Gnmi.Model.FixedQueue
/-!
# Model of the synthetic target as a subscriber sees it (property C20; run mode `agent` of C01)

Go sources modelled (put them next to this file):
* `testing/fake/gnmi/client.go` — `Client.Run` (request validation), `reset` (queue selection:
  `queue.New` + sync marker at `Latest()` vs `queue.NewFixed` + `syncResp`; `disable_sync`),
  `nextInQueue`, `processQueue` (conversion with `valToResp`, `proto.Clone` of fixed responses,
  stamping of `prefix.target`, end of stream: "end of updates" vs `disable_eof` vs POLL), `send`,
  and the part of `recv` that serves a `Poll` (`reset` + `polled`);
* `testing/fake/gnmi/agent.go` — `New` (nil configuration) and `Subscribe` (a fresh `Client` on
  the agent's configuration for every subscriber).

The queues are the existing models: `FQ.reset` / `FQ.next` / `FQ.valToResp`
(`Model/FakeQueue.lean`, `UpdateQueue`) and `FXQ.newFixed` / `FXQ.add` / `FXQ.next`
(`Model/FixedQueue.lean`, `FixedQueue`).

What the code does *not* do, and the model therefore does not either: `Agent.Subscribe` never
looks at `prefix.target` to choose or to reject a target — the only use of the requested target
is to stamp it on every update sent (`processQueue`).  Every error of `processQueue` (a queue
error, a `valToResp` error, "end of updates") is logged by `send`, after which `Run` returns
nil: the subscriber sees a clean end of stream (`io.EOF`, status OK) in all three cases.

Conventions.
* The stream is produced by a loop that may never end (unbounded repeats): `processQueue` takes
  a *fuel* `n` = the number of `nextInQueue` calls made; the end `more` says the fuel ran out.
* `disable_eof` / POLL block the sending goroutine (`<-c.canceledCh`, `<-c.polled`): the ends
  `held` and `awaitPoll`.  `Close` during a stream is not modelled (no cancellation), nor are the
  mutexes (one subscriber's send loop is a single goroutine; `recv` only matters for `Poll`, and a
  `Poll` is assumed to arrive while the sender waits for it).
* `enable_delay` only matters for what `FixedQueue.Next` dereferences (`checkDelay`); the
  real-time sleeps are not executed.
* Input restriction: the entries of `fixed.responses` are non-nil (true of every configuration
  read from text or wire format); an `Update` wrapper holding a nil notification is modelled
  (`emptyUpdate`: `FixedQueue.Next` dereferences it with `checkDelay`; `proto.Clone` sends it as
  an empty notification).  The body of a fixed notification (its update and delete lists) is opaque
  (`β`): the agent never reads it.
* Seeds: `rand.NewSource(seed)` is a function `src : Int → Draws` of the seed (a parameter: the
  additive lagged Fibonacci generator is not transcribed); `instantiate` is what `queue.New` /
  `newValue` do with the seeds of a configuration.
-/
namespace Gnmi
namespace FA
open FQ

/-! ## Messages -/

/-- the `prefix` of a notification (`gpb.Path`), as far as the fake agent touches it -/
structure Pfx where
  target : String := ""
  origin : String := ""
  elems : List String := []
  deriving DecidableEq, Repr

/-- a non-nil entry of `config.fixed.responses` (`*gpb.SubscribeResponse`) -/
inductive FResp (β : Type) where
  | noti (ts : Int) (pfx : Option Pfx) (body : β)   -- `Update` holding a notification
  | emptyUpdate                                     -- `Update` wrapper holding a nil notification
  | sync (b : Bool)                                 -- `SyncResponse`
  | unset                                           -- no `Response` (or the deprecated `Error`)
  deriving DecidableEq, Repr

/-- the update and delete lists of a notification sent -/
inductive Body (D β : Type) where
  | update (path : List String) (tv : TV D)         -- `Update: [{Path: {Element: path}, Val: tv}]`
  | delete (path : List String)                     -- `Delete: [{Element: path}]`
  | fixed (b : β)                                   -- the lists of a fixed response, verbatim
  | empty                                           -- no update, no delete

/-- a `SubscribeResponse` as the subscriber receives it -/
inductive Wire (D β : Type) where
  | noti (ts : Int) (pfx : Option Pfx) (body : Body D β)
  | sync (b : Bool)
  | unset

variable {D β : Type}

/-- the message `valToResp` builds (no prefix) -/
def ofResp : Resp D → Wire D β
  | .update ts p tv => .noti ts none (.update p tv)
  | .delete ts p => .noti ts none (.delete p)
  | .sync b => .sync b

/-- `proto.Clone(v).(*gpb.SubscribeResponse)` of a fixed response.  `proto.Clone` materialises the
nil notification of an `Update` wrapper as an empty notification (timestamp 0, no prefix, no
updates, no deletes): `resp.GetUpdate()` is then non-nil and the target is stamped on it. -/
def ofFixed : FResp β → Wire D β
  | .noti ts p b => .noti ts p (.fixed b)
  | .emptyUpdate => .noti 0 none .empty
  | .sync b => .sync b
  | .unset => .unset

/-! ## The subscription request -/

inductive Mode where
  | stream | once | poll
  deriving DecidableEq, Repr

/-- the `SubscriptionList` of the first request: `prefixTarget = none` when it has no prefix -/
structure SubList where
  prefixTarget : Option String := none
  mode : Mode := .stream
  deriving DecidableEq, Repr

/-- what the first `stream.Recv()` of `Run` yields -/
inductive First where
  | recvEOF                      -- `io.EOF`: the client closed the stream without a request
  | recvErr (code : Nat)         -- any other error, `grpc.Code(err) = code`
  | notSubscribe                 -- a request whose `GetSubscribe()` is nil (`Poll`, empty, …)
  | subscribe (s : SubList)
  deriving DecidableEq, Repr

/-- gRPC status of the RPC -/
inductive Status where
  | aborted                      -- `codes.Aborted`
  | invalidArgument              -- `codes.InvalidArgument`
  | failedPrecondition           -- `codes.FailedPrecondition`
  | code (c : Nat)               -- the code of the transport error
  deriving DecidableEq, Repr

/-- the target to stamp: `sp := c.subscribe.GetPrefix(); sp != nil && sp.Target != ""` -/
def SubList.stampTarget (s : SubList) : Option String :=
  match s.prefixTarget with
  | some t => if t = "" then none else some t
  | none => none

/-- ```
if update := resp.GetUpdate(); update != nil {
  if update.Prefix == nil { update.Prefix = &gpb.Path{} }
  update.Prefix.Target = target }
``` -/
def stamp (s : SubList) (w : Wire D β) : Wire D β :=
  match s.stampTarget with
  | none => w
  | some t =>
      match w with
      | .noti ts p b => .noti ts (some { (p.getD {}) with target := t }) b
      | w => w

/-! ## The configuration -/

/-- the `oneof generator` of `fake.Config`; only `fixed` is ever looked at (`GetFixed() != nil`) -/
inductive Generator (β : Type) where
  | none
  | custom
  | random
  | fixed (resps : List (FResp β))

/-- `fake.Config` with the PRNGs of its seeds already drawn (see `instantiate`) -/
structure Config (D β : Type) where
  target : String := ""
  g : Draws := []
  values : List (PVal D × Option Draws) := []
  disableSync : Bool := false
  disableEof : Bool := false
  enableDelay : Bool := false
  generator : Generator β := .none

/-! ## `Client.reset`: the queue -/

/-- `c.q` -/
inductive Q (D β : Type) where
  | gen (u : UQ D)
  | fixed (q : FXQ.FQ (FResp β))

/-- what `FixedQueue.Next` reads of a response -/
def shapeOf : FResp β → FXQ.Shape
  | .noti ts _ _ => .update (some ts)
  | .emptyUpdate => .update none
  | .sync _ => .other
  | .unset => .other

/-- a fixed response as an entry of the `FixedQueue` model: the payload is the response itself -/
def fx (r : FResp β) : FXQ.Resp (FResp β) := { tag := r, shape := shapeOf r }

/-- `var syncResp = &gpb.SubscribeResponse{Response: &gpb.SubscribeResponse_SyncResponse{true}}` -/
def syncResp : FResp β := .sync true

/-- `func (c *Client) reset() error` (it always returns nil; `panic`, `overflow` are those of
`queue.New` / `Add`) -/
def reset (c : Config D β) : Out (Q D β) :=
  match c.generator with
  | .fixed resps =>
      let q := FXQ.newFixed (resps.map fx) c.enableDelay
      .ok (.fixed (if c.disableSync then q else FXQ.add q (fx syncResp)))
  | _ =>
      match FQ.reset c.g c.values c.disableSync with
      | .ok u => .ok (.gen u)
      | .err => .err | .panic => .panic | .overflow => .overflow | .nodraws => .nodraws

/-! ## `nextInQueue`, `processQueue`, `send` -/

/-- what `nextInQueue` returns -/
inductive Ev (D β : Type) where
  | nil                          -- `(nil, nil)`: the queue is exhausted
  | val (pv : PVal D)            -- a `*fpb.Value`
  | resp (r : FResp β)           -- a `*gpb.SubscribeResponse`
  | err                          -- "unexpected queue Next(): …"
  | panic
  | overflow
  | nodraws

/-- `func (c *Client) nextInQueue() (any, error)` (queue set, client not cancelled) -/
def nextInQueue [DOps D] : Q D β → Ev D β × Q D β
  | .gen u =>
      match FQ.next u with
      | (.nil, u') => (.nil, .gen u')
      | (.emit v, u') => (.val v.pv, .gen u')
      | (.err, u') => (.err, .gen u')
      | (.panic, u') => (.panic, .gen u')
      | (.overflow, u') => (.overflow, .gen u')
      | (.nodraws, u') => (.nodraws, .gen u')
  | .fixed q =>
      match FXQ.next q with
      | (.nil, q') => (.nil, .fixed q')
      | (.emit r _, q') => (.resp r.tag, .fixed q')
      | (.panic, q') => (.panic, .fixed q')

/-- how one pass of `processQueue` ends -/
inductive End where
  | more          -- the fuel ran out: the loop is still running
  | eof           -- "end of updates": `send` returns, `Run` returns nil: clean end of stream
  | held          -- `disable_eof`: `processQueue` returned nil, `send` waits on `canceledCh`
  | awaitPoll     -- POLL: blocked on `<-c.polled`
  | queueErr      -- `Next` failed: `send` returns, `Run` returns nil: clean end of stream, too
  | convErr       -- `valToResp` failed: the same
  | panic
  | overflow
  | nodraws
  deriving DecidableEq, Repr

/-- the `if event == nil { switch { … } }` of `processQueue` -/
def exhaustedEnd (c : Config D β) (s : SubList) : End :=
  if s.mode = .poll then .awaitPoll
  else if c.disableEof then .held
  else .eof

/-- `func (c *Client) processQueue(stream) error`: at most `n` calls of `nextInQueue`; the
responses sent (`stream.Send` succeeds), how the pass ends, the queue left behind -/
def processQueue [DOps D] (c : Config D β) (s : SubList) : Nat → Q D β → List (Wire D β) × End × Q D β
  | 0, q => ([], .more, q)
  | n + 1, q =>
      match nextInQueue q with
      | (.nil, q') => ([], exhaustedEnd c s, q')
      | (.val pv, q') =>
          match valToResp pv with
          | .ok r =>
              let t := processQueue c s n q'
              (stamp s (ofResp r) :: t.1, t.2)
          | .err => ([], .convErr, q')
          | .panic => ([], .panic, q')
          | .overflow => ([], .overflow, q')
          | .nodraws => ([], .nodraws, q')
      | (.resp r, q') =>
          let t := processQueue c s n q'
          (stamp s (ofFixed r) :: t.1, t.2)
      | (.err, q') => ([], .queueErr, q')
      | (.panic, q') => ([], .panic, q')
      | (.overflow, q') => ([], .overflow, q')
      | (.nodraws, q') => ([], .nodraws, q')

/-- the end of `reset` seen as the end of the stream -/
def endOfOut {α : Type} : Out α → End
  | .ok _ => .more
  | .err => .queueErr
  | .panic => .panic
  | .overflow => .overflow
  | .nodraws => .nodraws

/-- `func (c *Client) send(stream)` with `polls` further `Poll` requests, each arriving while
the sender waits for it (`recv`: `c.reset()`, then `c.polled <- struct{}{}`); every pass has
fuel `n`.  After a served poll `send` loops — unless `disable_eof`, which holds the stream. -/
def send [DOps D] (c : Config D β) (s : SubList) (n : Nat) : Nat → Q D β → List (Wire D β) × End
  | 0, q => let t := processQueue c s n q; (t.1, t.2.1)
  | polls + 1, q =>
      let t := processQueue c s n q
      match t.2.1 with
      | .awaitPoll =>
          if c.disableEof then (t.1, .held)
          else
            match reset c with
            | .ok q' => let r := send c s n polls q'; (t.1 ++ r.1, r.2)
            | o => (t.1, endOfOut o)
      | e => (t.1, e)

/-! ## `Client.Run`, `Agent.New`, `Agent.Subscribe` -/

/-- how the RPC ends for the subscriber -/
inductive Outcome (D β : Type) where
  | rejected (st : Status)                        -- no response, error status
  | served (msgs : List (Wire D β)) (e : End)     -- the responses received and how the stream goes on

/-- `func (c *Client) Run(stream) error` on a non-nil configuration and stream -/
def run [DOps D] (c : Config D β) (first : First) (n polls : Nat) : Outcome D β :=
  match first with
  | .recvEOF => .rejected .aborted                 -- "stream EOF received before init"
  | .recvErr code => .rejected (.code code)        -- "received error from client"
  | .notSubscribe => .rejected .invalidArgument    -- "first message must be SubscriptionList"
  | .subscribe s =>
      match reset c with
      | .ok q => let r := send c s n polls q; .served r.1 r.2
      | o => .served [] (endOfOut o)

/-- `type Agent struct`: the configuration and the clients created so far -/
structure Agent (D β : Type) where
  config : Config D β
  clients : Nat := 0

/-- `func New(config *fpb.Config, opts) (*Agent, error)`: "config not provided" -/
def Agent.new (config : Option (Config D β)) : Option (Agent D β) :=
  config.map (fun c => { config := c })

/-- `func (a *Agent) Subscribe(stream) error`: `c := NewClient(a.config)`, registered, `c.Run` -/
def Agent.subscribe [DOps D] (a : Agent D β) (first : First) (n polls : Nat) : Outcome D β × Agent D β :=
  (run a.config first n polls, { a with clients := a.clients + 1 })

/-! ## Seeds -/

/-- `fpb.Value` with its `seed` field -/
structure SeededValue (D : Type) where
  pv : PVal D
  seed : Int := 0

/-- `fake.Config` as written: seeds instead of PRNG states -/
structure ProtoConfig (D β : Type) where
  target : String := ""
  seed : Int := 0
  values : List (SeededValue D) := []
  disableSync : Bool := false
  disableEof : Bool := false
  enableDelay : Bool := false
  generator : Generator β := .none

/-- what `queue.New(delay, seed, values)` and `newValue` make of the seeds (`seed ≠ 0`: a zero
global seed means wall-clock seeding): `u.r = rand.New(rand.NewSource(seed))`, and a value with
`Seed != 0` gets `rand.New(rand.NewSource(v.Seed))` of its own -/
def ProtoConfig.instantiate (src : Int → Draws) (p : ProtoConfig D β) : Config D β :=
  { target := p.target
    g := src p.seed
    values := p.values.map (fun v => (v.pv, if v.seed = 0 then none else some (src v.seed)))
    disableSync := p.disableSync
    disableEof := p.disableEof
    enableDelay := p.enableDelay
    generator := p.generator }

end FA
end Gnmi
