import Gnmi.Model.Latency
/-!
# Model of the naming / flag-parsing half of `latency/latency.go` (C15, latency naming)

`Model/Latency.lean` models the arithmetic of `latency/latency.go`.  This file models the rest:

| Go                                                      | here                                   |
|---------------------------------------------------------|----------------------------------------|
| `time.Duration.String` / `format` (`time/time.go`)      | `durationString`, `formatU`            |
| `fmtFrac`, `fmtInt` (`time/time.go`)                    | `fmtFrac` (`fmtFracLoop`), `fmtInt` (`fmtIntLoop`) |
| `time.ParseDuration` (`time/format.go`)                 | `parseDuration`, `parseLoop`, `parseComp` |
| `leadingInt`, `leadingFraction`, `unitMap`              | `leadingInt`, `leadingFraction`, `unitOf` |
| `float64` arithmetic of `ParseDuration`                 | `F64` (`roundRNE`, `F64.mul`, `F64.div`, `F64.toU64`) |
| `CompactDurationString`                                 | `compactDurationString`                |
| `StatType.String`                                       | `statTypeString`                       |
| `stat.metaName` / `MetadataName`                        | `metaName`                             |
| `stat.metaPath` / `Path`                                | `metaPath`                             |
| `ParseWindows`                                          | `parseWindows` (`parseWindowsLoop`)    |

Conventions.

* A Go `string` is a sequence of **bytes** (`GoString = List Byte`, `Byte = Nat`); `len(s)` is `List.length`,
  `s[i:]` is `List.drop i`, `s[:i]` is `List.take i`.  Go strings need not be valid UTF-8 and
  `ParseDuration` works byte by byte, so nothing here is `String`/`Char`.  A byte is a `Nat`
  (no definition depends on a byte being `< 256`; the only byte arithmetic in the code,
  `uint64(c) - '0'`, happens under `'0' ≤ c ≤ '9'`).  String constants are written as byte lists
  with the text next to them; `ofString` (UTF-8 bytes of a Lean string) is used by the driver and
  by the `#guard`s at the end of the file that tie every constant to its text.
* `time.Duration` is `int64` nanoseconds: an `Int` with the range hypothesis `InInt64` stated
  wherever it is needed.  `uint64` arithmetic is `Nat` arithmetic reduced `% 2^64` exactly where
  the Go code can wrap (`wrapU64`), `int64` conversion/negation is `wrapI64`.
* Go loops whose trip count is bounded by construction are structurally recursive here:
  `fmtIntLoop` has fuel 20 (a `uint64` has at most 20 decimal digits; `fmtIntLoop_fuel`),
  `parseLoop` has fuel `len(s)` (every iteration consumes at least one byte; the fuel never runs
  out: `Props/C15LatNames.parseDuration_fuel`).
* `Duration.format` writes into a `[32]byte` from the end; the model builds the same bytes by
  prepending to a list; that the 32 bytes suffice (no index panic) is
  `Props/C15LatNames.durationString_fits_buffer`.
* `float64`: `ParseDuration` computes the contribution of a fraction as
  `uint64(float64(f) * (float64(unit) / scale))`, `scale` a `float64` built by repeated `*= 10`.
  `F64` is IEEE-754 binary64 restricted to what can occur (non-negative values, `+Inf`, `NaN`):
  a finite value is `m * 2^e`; every operation is the exact rational result rounded to nearest,
  ties to even, with 53 significant bits, gradual underflow (`e ≥ -1074`) and overflow to `+Inf`
  (`roundRNE`).  Conversion of a float outside `uint64` to `uint64` is implementation-defined in
  Go: the model reports it as its own outcome (`PErr.implDefined`).
-/
namespace Gnmi.LatNames

abbrev Byte := Nat
abbrev GoString := List Nat

/-- UTF-8 bytes of a Lean string (driver, `#eval`, `#guard` only) -/
def ofString (s : String) : GoString := s.toUTF8.toList.map (·.toNat)

/-- display (driver, `#eval` only; invalid UTF-8 shows as `?`) -/
def toStr (b : GoString) : String :=
  match String.fromUTF8? ⟨(b.map (·.toUInt8)).toArray⟩ with
  | some s => s
  | none => "?"

/-! ## `int64` / `uint64` -/

def two63 : Nat := 9223372036854775808
def two64 : Nat := 18446744073709551616

/-- `d` is an `int64` -/
def InInt64 (d : Int) : Prop := -(two63 : Int) ≤ d ∧ d < (two63 : Int)

instance (d : Int) : Decidable (InInt64 d) := by unfold InInt64; exact inferInstance

/-- `uint64(x)` of a mathematical integer -/
def wrapU64 (x : Int) : Nat := (x % (two64 : Int)).toNat

/-- `int64(x)` of a mathematical integer -/
def wrapI64 (x : Int) : Int := (x + (two63 : Int)) % (two64 : Int) - (two63 : Int)

/-! ## `Duration.String` -/

/-- the loop of `fmtInt`: `for v > 0 { w--; buf[w] = byte(v%10) + '0'; v /= 10 }` -/
def fmtIntLoop : Nat → Nat → GoString → GoString
  | 0, _, buf => buf
  | fuel + 1, v, buf =>
    if v > 0 then fmtIntLoop fuel (v / 10) ((v % 10 + 48) :: buf) else buf

/-- `fmtInt(buf[:w], v)`: `buf` is the tail already written -/
def fmtInt (buf : GoString) (v : Nat) : GoString :=
  if v = 0 then 48 :: buf else fmtIntLoop 20 v buf

/-- the loop of `fmtFrac`, `prec` iterations: state `(buf, v, print)`
```
digit := v % 10 ; print = print || digit != 0
if print { w--; buf[w] = byte(digit) + '0' } ; v /= 10
``` -/
def fmtFracLoop : Nat → Nat → Bool → GoString → GoString × Nat × Bool
  | 0, v, pr, buf => (buf, v, pr)
  | i + 1, v, pr, buf =>
    let digit := v % 10
    let pr' := pr || decide (digit ≠ 0)
    fmtFracLoop i (v / 10) pr' (if pr' then (digit + 48) :: buf else buf)

/-- `fmtFrac(buf[:w], v, prec)`: the new tail and `v / 10^prec` -/
def fmtFrac (buf : GoString) (v : Nat) (prec : Nat) : GoString × Nat :=
  let r := fmtFracLoop prec v false buf
  (if r.2.2 then 46 :: r.1 else r.1, r.2.1)

/-- `Duration.format` after `u := uint64(d); if neg { u = -u }`, without the sign -/
def formatU (u : Nat) : GoString :=
  if u < 1000000000 then
    -- smaller than a second: buf = "s", then the unit letter
    if u = 0 then [48, 115]                                          -- "0s"
    else if u < 1000 then
      let r := fmtFrac [110, 115] u 0                                -- "ns", prec 0
      fmtInt r.1 r.2
    else if u < 1000000 then
      let r := fmtFrac [194, 181, 115] u 3                           -- "µs" (C2 B5), prec 3
      fmtInt r.1 r.2
    else
      let r := fmtFrac [109, 115] u 6                                -- "ms", prec 6
      fmtInt r.1 r.2
  else
    let r := fmtFrac [115] u 9                                       -- "s"
    let u := r.2                                                     -- integer seconds
    let buf := fmtInt r.1 (u % 60)
    let u := u / 60                                                  -- integer minutes
    if u > 0 then
      let buf := fmtInt (109 :: buf) (u % 60)                        -- 'm'
      let u := u / 60                                                -- integer hours
      if u > 0 then fmtInt (104 :: buf) u                            -- 'h'
      else buf
    else buf

/-- `func (d Duration) String() string`.  `u := uint64(d); neg := d < 0; if neg { u = -u }`
(for `d = minInt64` this leaves `u = 2^63`), the body, then the sign. -/
def durationString (d : Int) : GoString :=
  let u0 := wrapU64 d
  let u := if d < 0 then wrapU64 (-(u0 : Int)) else u0
  if d < 0 then 45 :: formatU u else formatU u

/-! ## `float64` as far as `ParseDuration` uses it -/

/-- non-negative binary64 values: `fin m e` is `m * 2^e` -/
inductive F64
  | fin (m : Nat) (e : Int)
  | inf
  | nan
deriving DecidableEq, Repr

/-- `2^k` for `k ≥ 0`, `1` otherwise -/
def pow2 (k : Int) : Nat := 2 ^ k.toNat

/-- `⌊log₂ (n/d)⌋` for `n, d > 0` -/
def floorLog2 (n d : Nat) : Int :=
  if d ≤ n then (Nat.log2 (n / d) : Int)
  else
    -- n/d < 1: minus the least c with n * 2^c ≥ d, i.e. with 2^c ≥ ⌈d/n⌉ (≥ 2)
    let t := (d + n - 1) / n
    Int.neg ((Nat.log2 (t - 1) : Int) + 1)

/-- the rational `n/d` rounded to binary64: nearest, ties to even; 53 significant bits,
exponent of the last place at least `-1074` (subnormals), `+Inf` from `2^1024` on -/
def roundRNE (n d : Nat) : F64 :=
  if n = 0 then .fin 0 0 else
  if d = 0 then .inf else
  let e : Int := max (floorLog2 n d - 52) (-1074)
  -- n/d / 2^e = N/D
  let N := n * pow2 (-e)
  let D := d * pow2 e
  let m0 := N / D
  let r := N % D
  let m := if 2 * r < D then m0 else if 2 * r > D then m0 + 1 else if m0 % 2 = 0 then m0 else m0 + 1
  if (Nat.log2 m : Int) + e ≥ 1024 then .inf else .fin m e

/-- `float64(n)` of an unsigned integer -/
def F64.ofNat (n : Nat) : F64 := roundRNE n 1

def F64.mul : F64 → F64 → F64
  | .fin m1 e1, .fin m2 e2 => roundRNE (m1 * m2 * pow2 (e1 + e2)) (pow2 (-(e1 + e2)))
  | .fin m _, .inf => if m = 0 then .nan else .inf
  | .inf, .fin m _ => if m = 0 then .nan else .inf
  | .inf, .inf => .inf
  | _, _ => .nan

def F64.div : F64 → F64 → F64
  | .fin m1 e1, .fin m2 e2 =>
    if m2 = 0 then (if m1 = 0 then .nan else .inf)
    else roundRNE (m1 * pow2 (e1 - e2)) (m2 * pow2 (-(e1 - e2)))
  | .fin _ _, .inf => .fin 0 0
  | .inf, .fin _ _ => .inf
  | _, _ => .nan

/-- `uint64(x)` of a float: truncation; `none` outside `[0, 2^64)` (implementation-defined) -/
def F64.toU64 : F64 → Option Nat
  | .fin m e =>
    let v := if e ≥ 0 then m * pow2 e else m / pow2 (-e)
    if v < two64 then some v else none
  | _ => none

/-! ## `time.ParseDuration` -/

/-- the error texts of `ParseDuration`: `"time: invalid duration "`, `"time: missing unit in
duration "`, `"time: unknown unit "`; plus the two outcomes of the model that are not Go errors:
`implDefined` (float to `uint64` conversion out of range) and `outOfFuel` (never returned) -/
inductive PErr | invalid | missingUnit | unknownUnit | implDefined | outOfFuel
deriving DecidableEq, Repr

/-- `leadingInt`, accumulator `x`; `none` is `errLeadingInt`
```
c := s[i]; if c < '0' || c > '9' { break }
if x > 1<<63/10 { return 0, rem, errLeadingInt }
x = x*10 + uint64(c) - '0'
if x > 1<<63 { return 0, rem, errLeadingInt }
``` -/
def leadingInt : Nat → GoString → Option (Nat × GoString)
  | x, [] => some (x, [])
  | x, c :: r =>
    if c < 48 ∨ c > 57 then some (x, c :: r)
    else if x > two63 / 10 then none
    else if x * 10 + c - 48 > two63 then none
    else leadingInt (x * 10 + c - 48) r

/-- `leadingFraction`, state `(x, scale, overflow)`; returns `(x, scale, rem)`
```
if c < '0' || c > '9' { break }
if overflow { continue }
if x > (1<<63-1)/10 { overflow = true; continue }
y := x*10 + uint64(c) - '0'
if y > 1<<63 { overflow = true; continue }
x = y; scale *= 10
``` -/
def leadingFraction : Nat → F64 → Bool → GoString → Nat × F64 × GoString
  | x, sc, _, [] => (x, sc, [])
  | x, sc, ov, c :: r =>
    if c < 48 ∨ c > 57 then (x, sc, c :: r)
    else if ov then leadingFraction x sc true r
    else if x > (two63 - 1) / 10 then leadingFraction x sc true r
    else if x * 10 + c - 48 > two63 then leadingFraction x sc true r
    else leadingFraction (x * 10 + c - 48) (sc.mul (F64.ofNat 10)) false r

/-- `unitMap` (keys are byte strings: `"µs"` is `C2 B5 73`, `"μs"` is `CE BC 73`) -/
def unitOf (u : GoString) : Option Nat :=
  if u = [110, 115] then some 1                          -- "ns"
  else if u = [117, 115] then some 1000                  -- "us"
  else if u = [194, 181, 115] then some 1000             -- "µs" U+00B5
  else if u = [206, 188, 115] then some 1000             -- "μs" U+03BC
  else if u = [109, 115] then some 1000000               -- "ms"
  else if u = [115] then some 1000000000                 -- "s"
  else if u = [109] then some 60000000000                -- "m"
  else if u = [104] then some 3600000000000              -- "h"
  else none

/-- `c == '.' || '0' <= c && c <= '9'` -/
def isNumByte (c : Nat) : Bool := c == 46 || (decide (48 ≤ c) && decide (c ≤ 57))

/-- the unit scan `for ; i < len(s); i++ { if c == '.' || '0' <= c && c <= '9' { break } }`:
`(s[:i], s[i:])` -/
def spanUnit : GoString → GoString × GoString
  | [] => ([], [])
  | c :: r => if isNumByte c then ([], c :: r) else ((c :: (spanUnit r).1), (spanUnit r).2)

/-- the optional fraction `(\.[0-9]*)?`: `(f, scale, rem, post)` -/
def fracPart (s : GoString) : Nat × F64 × GoString × Bool :=
  match s with
  | 46 :: t =>
    let r := leadingFraction 0 (F64.ofNat 1) false t
    (r.1, r.2.1, r.2.2, t.length != r.2.2.length)
  | _ => (0, F64.ofNat 1, s, false)

/-- result of one iteration of the `for s != ""` loop: the value of the component and the rest -/
inductive CRes
  | ok (v : Nat) (rest : GoString)
  | err (e : PErr)
deriving DecidableEq, Repr

/-- the arithmetic of one component: `v` integer part, `f/scale` fraction, `unit`
```
if v > 1<<63/unit { overflow } ; v *= unit
if f > 0 { v += uint64(float64(f) * (float64(unit) / scale)); if v > 1<<63 { overflow } }
``` -/
def compValue (v f : Nat) (scale : F64) (unit : Nat) : Except PErr Nat :=
  if v > two63 / unit then .error .invalid
  else if f > 0 then
    match ((F64.ofNat f).mul ((F64.ofNat unit).div scale)).toU64 with
    | none => .error .implDefined
    | some a => if (v * unit + a) % two64 > two63 then .error .invalid else .ok ((v * unit + a) % two64)
  else .ok (v * unit)

/-- one iteration of the loop body of `ParseDuration` after `v, s, err = leadingInt(s)`:
the optional fraction, the unit, the value (`pre` = "consumed a digit before the period") -/
def compTail (v : Nat) (pre : Bool) (s1 : GoString) : CRes :=
  let fp := fracPart s1
  if !pre && !fp.2.2.2 then .err .invalid else         -- no digits (".s")
  let us := spanUnit fp.2.2.1
  if us.1 = [] then .err .missingUnit else
  match unitOf us.1 with
  | none => .err .unknownUnit
  | some unit =>
    match compValue v fp.1 fp.2.1 unit with
    | .error e => .err e
    | .ok v' => .ok v' us.2

/-- one iteration of the loop body of `ParseDuration` up to (not including) `d += v` -/
def parseComp (s : GoString) : CRes :=
  match s with
  | [] => .err .invalid                               -- not reached (`for s != ""`)
  | c0 :: _ =>
    -- The next character must be [0-9.]
    if !isNumByte c0 then .err .invalid else
    match leadingInt 0 s with
    | none => .err .invalid
    | some (v, s1) => compTail v (s.length != s1.length) s1

/-- `for s != "" { …; d += v; if d > 1<<63 { invalid } }` (`d += v` is `uint64` addition) -/
def parseLoop : Nat → GoString → Nat → Except PErr Nat
  | _, [], d => .ok d
  | 0, _ :: _, _ => .error .outOfFuel
  | fuel + 1, c :: r, d =>
    match parseComp (c :: r) with
    | .err e => .error e
    | .ok v rest =>
      if (d + v) % two64 > two63 then .error .invalid else parseLoop fuel rest ((d + v) % two64)

inductive PRes
  | ok (d : Int)
  | err (e : PErr)
deriving DecidableEq, Repr

/-- `[-+]?`: `(neg, rest)` -/
def stripSign : GoString → Bool × GoString
  | 45 :: r => (true, r)
  | 43 :: r => (false, r)
  | s => (false, s)

/-- `time.ParseDuration` -/
def parseDuration (s : GoString) : PRes :=
  let ns := stripSign s
  if ns.2 = [48] then .ok 0                            -- "0"
  else if ns.2 = [] then .err .invalid
  else
    match parseLoop ns.2.length ns.2 0 with
    | .error e => .err e
    | .ok d =>
      if ns.1 then .ok (wrapI64 (-(wrapI64 d)))        -- `-Duration(d)`
      else if d > two63 - 1 then .err .invalid
      else .ok d

/-! ## `latency.go` -/

def sufH0M0S : GoString := [104, 48, 109, 48, 115]     -- "h0m0s"
def sufM0S : GoString := [109, 48, 115]                -- "m0s"

/-- `CompactDurationString`
```
s := fmt.Sprint(d)
switch n := len(s); {
case n >= 6 && s[n-5:] == "h0m0s": return s[:n-4]
case n >= 4 && s[n-3:] == "m0s":   return s[:n-2]
}
return s
``` -/
def compactString (s : GoString) : GoString :=
  let n := s.length
  if n ≥ 6 ∧ s.drop (n - 5) = sufH0M0S then s.take (n - 4)
  else if n ≥ 4 ∧ s.drop (n - 3) = sufM0S then s.take (n - 2)
  else s

def compactDurationString (d : Int) : GoString := compactString (durationString d)

def elemLatency : GoString := [108, 97, 116, 101, 110, 99, 121]                       -- "latency"
def elemWindow : GoString := [119, 105, 110, 100, 111, 119]                           -- "window"
def elemAvg : GoString := [97, 118, 103]                                              -- "avg"
def elemMax : GoString := [109, 97, 120]                                              -- "max"
def elemMin : GoString := [109, 105, 110]                                             -- "min"
def strUnknown : GoString := [117, 110, 107, 110, 111, 119, 110]                      -- "unknown"
def metaNameConst : GoString := [76, 97, 116, 101, 110, 99, 121, 87, 105, 110, 100, 111, 119]  -- "LatencyWindow"

/-- `StatType` is an `int`: `Avg = 0`, `Max = 1`, `Min = 2` -/
def statAvg : Int := 0
def statMax : Int := 1
def statMin : Int := 2

/-- the `StatType` of the arithmetic model's `Stat` -/
def statTypeOf : Latency.Stat → Int
  | .avg => statAvg
  | .max => statMax
  | .min => statMin

/-- `func (st StatType) String() string` -/
def statTypeString (st : Int) : GoString :=
  if st = statAvg then elemAvg
  else if st = statMax then elemMax
  else if st = statMin then elemMin
  else strUnknown

/-- `stat.metaName` / `MetadataName(w, typ)`:
`fmt.Sprintf("%s%s%s", s.typ, metaName, CompactDurationString(s.window))` -/
def metaName (w : Int) (typ : Int) : GoString :=
  statTypeString typ ++ metaNameConst ++ compactDurationString w

/-- `stat.metaPath(prefix)` / `Path(w, typ, prefix)`:
`append(prefix, ElemLatency, ElemWindow, CompactDurationString(s.window), s.typ.String())`
(the value returned; that the result may share `prefix`'s backing array is not modelled) -/
def metaPath (w : Int) (typ : Int) (pfx : List GoString) : List GoString :=
  pfx ++ [elemLatency, elemWindow, compactDurationString w, statTypeString typ]

/-- outcome of `ParseWindows`; the two errors carry the offending `td` (it is in the message) -/
inductive WRes
  | ok (durs : List Int)
  | parseErr (td : GoString) (e : PErr)
  | notMultiple (td : GoString)
  | panic
deriving DecidableEq, Repr

/-- the loop of `ParseWindows`, `durs` accumulated so far
```
dur, err := time.ParseDuration(td)
if err != nil { return nil, fmt.Errorf("parsing %s: %v", td, err) }
if dur.Nanoseconds()%metaUpdatePeriod.Nanoseconds() != 0 { return nil, fmt.Errorf(…) }
durs = append(durs, dur)
```
`%` on `int64`: run-time panic (integer divide by zero) when the period is `0`; otherwise the
truncated remainder `Int.tmod` (sign of the dividend; `minInt64 % -1 = 0` without panic). -/
def parseWindowsLoop (period : Int) : List GoString → List Int → WRes
  | [], durs => .ok durs
  | td :: r, durs =>
    match parseDuration td with
    | .err e => .parseErr td e
    | .ok dur =>
      if period = 0 then .panic
      else if Int.tmod dur period ≠ 0 then .notMultiple td
      else parseWindowsLoop period r (durs ++ [dur])

/-- `ParseWindows(tds, metaUpdatePeriod)` (a `nil` and an empty result slice are not told apart) -/
def parseWindows (tds : List GoString) (period : Int) : WRes := parseWindowsLoop period tds []

/-! ## the byte constants are the texts they stand for -/

#guard ofString "h0m0s" == sufH0M0S
#guard ofString "m0s" == sufM0S
#guard ofString "latency" == elemLatency
#guard ofString "window" == elemWindow
#guard ofString "avg" == elemAvg
#guard ofString "max" == elemMax
#guard ofString "min" == elemMin
#guard ofString "unknown" == strUnknown
#guard ofString "LatencyWindow" == metaNameConst
#guard (ofString "0s", ofString "ns", ofString "µs", ofString "ms", ofString "s", ofString "m", ofString "h")
  == ([48, 115], [110, 115], [194, 181, 115], [109, 115], [115], [109], [104])
#guard (ofString "us", ofString "μs", ofString ".", ofString "-", ofString "+", ofString "09")
  == ([117, 115], [206, 188, 115], [46], [45], [43], [48, 57])

end Gnmi.LatNames
