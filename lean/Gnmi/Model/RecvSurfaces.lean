import Gnmi.Model.PathConv
import Gnmi.Model.Value
import Gnmi.Model.CTree
import Gnmi.Spec.PMap
/-!
# The receive surfaces of property C12 other than cache ingest

Models, arm for arm, of the code a *remote peer's message* passes through

* (2) `subscribe/subscribe.go`: `Server.Subscribe` (request validation, mode switch),
  `addSubscription`, `processSubscription` (+ `path.CompletePath`, `cache.Query`),
  `sendStreamingResults` → `sendSubscribeResponse` → `MakeSubscribeResponse`, `isTargetDelete`,
  `Server.Update` → `UpdateNotification`;
* (3) `client/gnmi/client.go`: `Recv`/`defaultRecv`/`noti` (+ `value.ToScalar`),
  `client/client.go: BaseClient.run`, `client/cache.go: CacheClient.defaultHandler`;
* (4) `cli/cli.go`: `sendQueryAndDisplay`, `genHandler`, `displayProtoResults`,
  `displayOnceResults`, `displayPollingResults`, `displayStreamingResults`, `displayWalk`,
  `pathmap.add`, `formatTime`;
* (5) `manager/manager.go: handleGNMIUpdate`.

Messages are the *decoded* protobuf objects: a pointer is an `Option` (or a dedicated `nil…`
constructor), an entry of a repeated message field is an `Option` (a `nil` entry can only be
built in-process), a oneof is an inductive with an arm for "not set" and, for message-typed
arms, an optional payload.  **Every partial Go operation** (index expression, unchecked type
assertion, field access through a possibly-nil pointer) is a *checked* operation returning
`Outcome.panic` exactly when Go panics; nil-safe generated getters are total matches.
`WireValid` (the `wireValid` Boolean functions) is what `proto.Unmarshal` can produce: no nil
entries in repeated fields, a set message-typed oneof arm has a payload, the received message
pointer itself is non-nil.  Everything else is allowed: nil prefix, nil / empty paths, absent
values, both path encodings, any names, unset oneofs, empty updates, unknown enum numbers.

Third-party code reached from here is a parameter or trusted: `encoding/json` (`jv : Bytes →
Bool` says whether `json.Unmarshal` accepts a payload), `prototext` / `txtpbfmt` / `fmt`
(proto display: a response is shown opaquely), `time.Format`.

Core Lean only (compiled into the driver).
-/
namespace Gnmi.RX
open Gnmi.PV (GPath PathElem TV Scalar FloatOps Bytes toStrings completePath getOrigin)

/-- error classes (message text is not behaviour) -/
inductive ErrClass where
  | invalidArgument | notFound | permissionDenied | unauthenticated
  | unknown            -- a non-status error of the Subscribe handler (CompletePath, MakeSubscribeResponse)
  | internal           -- "invalid cache node" / "invalid notification type"
  | nilPath            -- client: "invalid nil path in update"
  | decode             -- client: value.ToScalar / json.Unmarshal failed
  | unsupported        -- client: "Unsupported value type"
  | remoteError        -- an error response
  | unknownResponse    -- unset / unknown response oneof
  | nilResponse        -- manager: "nil Response"
  | config             -- local configuration rejected (unknown display / query type)
deriving DecidableEq, Repr, Inhabited

/-- result of a Go call that may return an error or panic -/
inductive Outcome (α : Type) where
  | ok (a : α)
  | err (e : ErrClass)
  | panic
deriving DecidableEq, Repr

namespace Outcome
def isPanic {α : Type} : Outcome α → Bool
  | .panic => true
  | _ => false
end Outcome

/-! ## Messages -/

/-- deprecated `gnmi.Value{type, value}` -/
structure OldValue where
  /-- `gnmi.Encoding` number: 0 JSON, 1 BYTES, 2 PROTO, 3 ASCII, 4 JSON_IETF, others unknown -/
  type : Nat := 0
  value : Bytes := []
deriving DecidableEq, Repr, Inhabited

/-- `gnmi.Update` -/
structure Update (F D : Type) where
  path : Option GPath := none
  /-- `Val *TypedValue`; `TV.nilMsg` = nil pointer -/
  val : TV F D := .nilMsg
  /-- deprecated `Value *Value` -/
  value : Option OldValue := none
  dup : Nat := 0
deriving Repr

/-- `gnmi.Notification`; entries of the repeated fields are pointers (`none` = nil entry) -/
structure Notification (F D : Type) where
  ts : Int := 0
  pfx : Option GPath := none
  atomic : Bool := false
  update : List (Option (Update F D)) := []
  delete : List (Option GPath) := []
deriving Repr

/-- `*gnmi.SubscribeResponse` -/
inductive Response (F D : Type) where
  | nilMsg                                        -- (*SubscribeResponse)(nil): gRPC never delivers it
  | unset                                         -- oneof not set (also: an arm unknown to this binary)
  | update (n : Option (Notification F D))        -- `none`: SubscribeResponse_Update{Update: nil}
  | sync (b : Bool)
  | error (present : Bool)                        -- SubscribeResponse_Error{Error}
deriving Repr

/-- `gnmi.Subscription` (only the path is read) -/
structure Subscription where
  path : Option GPath := none
deriving DecidableEq, Repr, Inhabited

/-- `gnmi.SubscriptionList` -/
structure SubscriptionList where
  pfx : Option GPath := none
  /-- `SubscriptionList_Mode` number: 0 STREAM, 1 ONCE, 2 POLL, others unknown -/
  mode : Nat := 0
  updatesOnly : Bool := false
  subs : List (Option Subscription) := []
deriving DecidableEq, Repr, Inhabited

/-- `*gnmi.SubscribeRequest` -/
inductive Request where
  | nilMsg                                        -- (*SubscribeRequest)(nil)
  | unset
  | poll
  | subscribe (s : Option SubscriptionList)       -- `none`: SubscribeRequest_Subscribe{Subscribe: nil}
deriving DecidableEq, Repr, Inhabited

/-! ## WireValid: what protobuf decoding can produce -/

mutual
/-- no nil payload message and no nil element anywhere inside a value -/
def tvWire {F D : Type} : TV F D → Bool
  | .decimalNil => false
  | .leaflistNil => false
  | .leaflistVal l => tvWireElems l
  | _ => true
/-- elements of a `ScalarArray` are non-nil messages -/
def tvWireElems {F D : Type} : List (TV F D) → Bool
  | [] => true
  | .nilMsg :: _ => false
  | a :: r => tvWire a && tvWireElems r
end

def Update.wireValid {F D : Type} (u : Update F D) : Bool := tvWire u.val

def Notification.wireValid {F D : Type} (n : Notification F D) : Bool :=
  n.update.all (fun u => match u with
    | none => false
    | some u => u.wireValid) &&
  n.delete.all (fun d => d.isSome)

def Response.wireValid {F D : Type} : Response F D → Bool
  | .nilMsg => false
  | .unset => true
  | .update none => false
  | .update (some n) => n.wireValid
  | .sync _ => true
  | .error p => p

def SubscriptionList.wireValid (s : SubscriptionList) : Bool := s.subs.all (·.isSome)

def Request.wireValid : Request → Bool
  | .nilMsg => false
  | .unset => true
  | .poll => true
  | .subscribe none => false
  | .subscribe (some s) => s.wireValid

/-! ## (3) The client receive path -/

variable {F D : Type} [FloatOps F D]

mutual
/-- `value.ToScalar` (value.go:100–155) with the JSON arms decided by `jv` -/
def toScalarJ (jv : Bytes → Bool) : TV F D → Outcome (Scalar F D)
  | .decimalVal d p => .ok (.f32 (FloatOps.decToF (D := D) d p))
  | .decimalNil => .panic                      -- decimalToFloat(nil): `d.Digits`
  | .stringVal s => .ok (.str s)
  | .intVal i => .ok (.int .i64 i)
  | .uintVal n => .ok (.uint .u64 n)
  | .boolVal b => .ok (.bool b)
  | .floatVal f => .ok (.f32 f)
  | .doubleVal d => .ok (.f64 d)
  | .leaflistVal l =>
      match toScalarJList jv l with
      | .ok ss => .ok (.list ss)
      | .err e => .err e
      | .panic => .panic
  | .leaflistNil => .ok (.list [])             -- GetLeaflistVal().GetElement() is nil-safe
  | .bytesVal b => .ok (.bytes b)
  | .jsonVal b => if jv b then .ok (.json false b) else .err .decode
  | .jsonIetfVal b => if jv b then .ok (.json true b) else .err .decode
  | .nilMsg => .panic                          -- default arm formats `tv.Value` of the nil message
  | .unset => .err .decode
  | .anyVal _ => .err .decode
  | .asciiVal _ => .err .decode
  | .protoBytes _ => .err .decode
/-- the `for x, e := range elems` loop -/
def toScalarJList (jv : Bytes → Bool) : List (TV F D) → Outcome (List (Scalar F D))
  | [] => .ok []
  | e :: r =>
      match toScalarJ jv e with
      | .ok v =>
          match toScalarJList jv r with
          | .ok vs => .ok (v :: vs)
          | .err e => .err e
          | .panic => .panic
      | .err e => .err e
      | .panic => .panic
end

/-- the `interface{}` a client leaf holds -/
inductive CVal (F D : Type) where
  | scalar (s : Scalar F D)          -- what `value.ToScalar` returned
  | oldBytes (b : Bytes)             -- deprecated `Value` with BYTES encoding
  | oldJson (b : Bytes)              -- deprecated `Value`, JSON decoded with `json.Unmarshal`
  | nil                              -- `Delete.Val` (never set)
deriving Repr

/-- `client.Notification` (an interface value; `nilN` is the nil interface) -/
inductive CNoti (F D : Type) where
  | nilN
  | connected
  | sync
  | update (path : Path) (ts : Int) (val : CVal F D) (dups : Nat)
  | delete (path : Path) (ts : Int)
  | error
deriving Repr

/-- `noti(prefix, pp, ts, u)` (client.go:278–313); `u = none` is the delete call -/
def noti (jv : Bytes → Bool) (pfx : Path) (pp : Option GPath) (ts : Int) (u : Option (Update F D)) :
    Outcome (CNoti F D) :=
  let p := pfx ++ toStrings pp false
  match u with
  | none => .ok (.delete p ts)
  | some u =>
    match u.val with
    | .nilMsg =>                              -- `u.Val == nil`
      match u.value with
      | none => .ok .nilN                     -- "Empty path update ignore the value": (nil, nil)
      | some v =>
        if v.type = 1 then .ok (.update p ts (.oldBytes v.value) u.dup)
        else if v.type = 0 ∨ v.type = 4 then
          (if jv v.value then .ok (.update p ts (.oldJson v.value) u.dup) else .err .decode)
        else .err .unsupported
    | tv =>
      match toScalarJ jv tv with
      | .ok s => .ok (.update p ts (.scalar s) u.dup)
      | .err _ => .err .decode
      | .panic => .panic

/-- query types (`client.Type`) -/
inductive QType where
  | unknown | once | poll | stream
deriving DecidableEq, Repr, Inhabited

/-- what `Recv` tells the read loop: go on, or `ErrStopReading` -/
inductive Ctl where
  | cont | stop
deriving DecidableEq, Repr

section recv
variable {σ : Type}

/-- the `for _, u := range n.Update` loop of `defaultRecv`; the handler `h` is a state
transformer (`none` = it panicked); its returned error is ignored by the code -/
def recvUpdates (jv : Bytes → Bool) (h : σ → CNoti F D → Option σ) (pfx : Path) (ts : Int) :
    List (Option (Update F D)) → σ → Outcome Unit × σ
  | [], s => (.ok (), s)
  | none :: _, s => (.panic, s)                         -- `u.Path` on a nil entry
  | some u :: rest, s =>
    match u.path with
    | none => (.err .nilPath, s)
    | some pp =>
      match noti jv pfx (some pp) ts (some u) with
      | .ok n =>
        match h s n with
        | some s' => recvUpdates jv h pfx ts rest s'
        | none => (.panic, s)
      | .err e => (.err e, s)
      | .panic => (.panic, s)

/-- the `for _, d := range n.Delete` loop (`path.ToStrings` is nil-safe) -/
def recvDeletes (h : σ → CNoti F D → Option σ) (pfx : Path) (ts : Int) :
    List (Option GPath) → σ → Outcome Unit × σ
  | [], s => (.ok (), s)
  | d :: rest, s =>
    match h s (.delete (pfx ++ toStrings d false) ts) with
    | some s' => recvDeletes h pfx ts rest s'
    | none => (.panic, s)

/-- `Client.defaultRecv` after the `Connected` preamble -/
def recvBody (jv : Bytes → Bool) (qt : QType) (h : σ → CNoti F D → Option σ) (s : σ) :
    Response F D → Outcome Ctl × σ
  | .nilMsg => (.panic, s)                               -- `resp.Response` on the nil message
  | .unset => (.err .unknownResponse, s)
  | .error _ => (.err .remoteError, s)
  | .sync _ =>
    match h s .sync with
    | none => (.panic, s)
    | some s' => (.ok (if qt = .poll ∨ qt = .once then .stop else .cont), s')
  | .update none => (.panic, s)                          -- `n.Prefix` on the nil notification
  | .update (some n) =>
    let p := toStrings n.pfx true
    match recvUpdates jv h p n.ts n.update s with
    | (.ok (), s') =>
      (match recvDeletes h p n.ts n.delete s' with
       | (.ok (), s'') => (.ok .cont, s'')
       | (.err e, s'') => (.err e, s'')
       | (.panic, s'') => (.panic, s''))
    | (.err e, s') => (.err e, s')
    | (.panic, s') => (.panic, s')

/-- state of the transport client: `connected` flag + the handler's state -/
structure RecvSt (σ : Type) where
  connected : Bool := false
  h : σ

/-- `Client.defaultRecv` (client.go:184–229) -/
def defaultRecv (jv : Bytes → Bool) (qt : QType) (h : σ → CNoti F D → Option σ) (s : RecvSt σ)
    (r : Response F D) : Outcome Ctl × RecvSt σ :=
  match (if s.connected then some s.h else h s.h .connected) with
  | none => (.panic, s)
  | some hs =>
    let res := recvBody jv qt h hs r
    (res.1, { connected := true, h := res.2 })

/-- `BaseClient.run` over a scripted stream: the listed responses, then `io.EOF`.
Returns the status, the state and the unread rest of the script. -/
def run (jv : Bytes → Bool) (qt : QType) (h : σ → CNoti F D → Option σ) :
    List (Response F D) → RecvSt σ → Outcome Unit × RecvSt σ × List (Response F D)
  | [], s => (.ok (), s, [])                              -- io.EOF
  | r :: rest, s =>
    match defaultRecv jv qt h s r with
    | (.ok .cont, s') => run jv qt h rest s'
    | (.ok .stop, s') => (.ok (), s', rest)               -- ErrStopReading
    | (.err e, s') => (.err e, s', rest)
    | (.panic, s') => (.panic, s', rest)

end recv

/-- what a `CacheClient` leaf holds -/
structure TreeVal (F D : Type) where
  ts : Int
  val : CVal F D
deriving Repr

abbrev CTree (F D : Type) := Trie (TreeVal F D)

/-- `CacheClient.defaultHandler` (cache.go:62–86) in front of the caller's handler `ch`
(which sees the tree as updated).  `ctree.Add`'s error is dropped by the code. -/
def cacheHandler {σ : Type} (ch : CTree F D → σ → CNoti F D → Option σ) (s : CTree F D × σ)
    (n : CNoti F D) : Option (CTree F D × σ) :=
  match n with
  | .nilN => some s                  -- default arm: error, caller's handler not invoked
  | .error => some s                 -- returns the error, caller's handler not invoked
  | .connected => (ch s.1 s.2 n).map (fun x => (s.1, x))
  | .update p ts v _ =>
    let t := (s.1.add p { ts := ts, val := v }).getD s.1
    (ch t s.2 n).map (fun x => (t, x))
  | .delete p _ =>
    let t := (Trie.del (fun _ => true) s.1 p).1
    (ch t s.2 n).map (fun x => (t, x))
  | .sync => (ch s.1 s.2 n).map (fun x => (s.1, x))

/-- no caller handler (`clientHandler == nil`) -/
def noHandler (_ : CTree F D) (s : Unit) (_ : CNoti F D) : Option Unit := some s

/-- a `CacheClient` on the gNMI transport reading a scripted stream: `Subscribe` until it
returns; result = status and the tree (`Leaves()`) -/
def cacheClientRun (jv : Bytes → Bool) (qt : QType) (t : CTree F D) (rs : List (Response F D)) :
    Outcome Unit × CTree F D :=
  if qt = .unknown then (.err .config, t) else               -- `Query.Validate`
  let r := run jv qt (cacheHandler noHandler) rs { h := (t, ()) }
  (r.1, r.2.1.h.1)

/-! ## (4) CLI display -/

inductive DisplayType where
  | group | single | proto | shortproto | unknown
deriving DecidableEq, Repr, Inhabited

/-- `Config.Timestamp`: `""`, `"on"`, `"raw"`, any other string (a layout) -/
inductive TsMode where
  | off | on | raw | layout
deriving DecidableEq, Repr, Inhabited

/-- a value placed in a `pathmap` -/
inductive DV (F D : Type) where
  | cval (v : CVal F D)
  | tsRaw (ns : Int)                 -- `ts.UnixNano()`
  | tsText (ns : Int) (m : TsMode)   -- `ts.Format(...)`
deriving Repr

/-- `formatTime` -/
def formatTime (m : TsMode) (ts : Int) : Option (DV F D) :=
  match m with
  | .off => none
  | .raw => some (.tsRaw ts)
  | m => some (.tsText ts m)

/-- `pathmap` = `map[string]interface{}` whose values are pathmaps or anything else -/
inductive PM (V : Type) where
  | val (v : V)
  | map (cs : List (String × PM V))
deriving Repr

abbrev PMap' (V : Type) := List (String × PM V)

section pathmap
variable {V : Type}

/-- `m[k]` -/
def pmGet : PMap' V → String → Option (PM V)
  | [], _ => none
  | (k', x) :: r, k => if k' = k then some x else pmGet r k

/-- `m[k] = x` -/
def pmSet : PMap' V → String → PM V → PMap' V
  | [], k, x => [(k, x)]
  | (k', y) :: r, k, x => if k' = k then (k', x) :: r else (k', y) :: pmSet r k x

/-- `pathmap.add` on a non-empty path (cli.go:395–410):
`len(path)==1 → m[path[0]] = v`; else `mm, ok := m[path[0]]; if !ok {mm = make(pathmap)};
mm.(pathmap).add(path[1:], v); m[path[0]] = mm` — the **unchecked assertion** `mm.(pathmap)`
panics when the entry holds a value. -/
def pmAddNE : PMap' V → Path → PM V → Outcome (PMap' V)
  | m, [], _ => .ok m                                  -- not reached (callers pass non-empty paths)
  | m, [k], v => .ok (pmSet m k v)
  | m, k :: k2 :: rest, v =>
    match pmGet m k with
    | none =>
      (match pmAddNE [] (k2 :: rest) v with
       | .ok mm => .ok (pmSet m k (.map mm))
       | .err e => .err e
       | .panic => .panic)
    | some (.map mm) =>
      (match pmAddNE mm (k2 :: rest) v with
       | .ok mm' => .ok (pmSet m k (.map mm'))
       | .err e => .err e
       | .panic => .panic)
    | some (.val _) => .panic                          -- `mm.(pathmap)`: interface holds a value

/-- the guard added for defect D9: a value at the root is shown under the empty name -/
def normKey (p : Path) : Path := if p = [] then [""] else p

/-- `pathmap.add` -/
def pmAdd (m : PMap' V) (p : Path) (v : PM V) : Outcome (PMap' V) := pmAddNE m (normKey p) v

/-- `pathmap.add` as it was before the repository's fix for D9: `path[0]` on an empty path -/
def pmAddPreD9 (m : PMap' V) (p : Path) (v : PM V) : Outcome (PMap' V) :=
  if p = [] then .panic else pmAddNE m p v

/-- a sequence of adds -/
def pmAddAll : PMap' V → List (Path × PM V) → Outcome (PMap' V)
  | m, [] => .ok m
  | m, (p, v) :: r =>
    match pmAdd m p v with
    | .ok m' => pmAddAll m' r
    | .err e => .err e
    | .panic => .panic

end pathmap

/-- one call of `Config.Display` -/
inductive Shown (F D : Type) where
  | group (m : PMap' (DV F D))                               -- `pathmap.display`
  | line (path : Path) (v : CVal F D) (ts : Option (DV F D)) -- single display
  | proto (r : Response F D)                                 -- formatted response proto
deriving Repr

/-- the entry `displayWalk` makes for one leaf -/
def walkEntry (tm : TsMode) (kv : Path × TreeVal F D) : Path × PM (DV F D) :=
  match formatTime (F := F) (D := D) tm kv.2.ts with
  | some t => (kv.1, .map [("value", .val (.cval kv.2.val)), ("timestamp", .val t)])
  | none => (kv.1, .val (.cval kv.2.val))

/-- `displayWalk` (cli.go:345–365): the leaf type switch is discharged by typing (the client
tree only holds `TreeVal`); `b.add` may panic -/
def displayWalk (tm : TsMode) (t : CTree F D) : Outcome (Shown F D) :=
  match pmAddAll [] ((Trie.walkSorted t).map (walkEntry tm)) with
  | .ok m => .ok (.group m)
  | .err e => .err e
  | .panic => .panic

/-- state of the CLI's notification handlers -/
structure CliSt (F D : Type) where
  complete : Bool := false
  out : List (Shown F D) := []

/-- `genHandler` (single display; no filters, no latency) -/
def singleHandler (tm : TsMode) (s : CliSt F D) (n : CNoti F D) : Option (CliSt F D) :=
  match n with
  | .update p ts v _ => some { s with out := s.out ++ [.line p v (formatTime tm ts)] }
  | .delete p ts => some { s with out := s.out ++ [.line p .nil (formatTime tm ts)] }
  | _ => some s                      -- Sync, Connected: nothing; nil / Error: an (ignored) error

/-- the `display` closure of `displayStreamingResults` -/
def streamDisplay (tm : TsMode) (s : CliSt F D) (p : Path) (ts : Int) (v : CVal F D) : Option (CliSt F D) :=
  if !s.complete then some s
  else
    let adds : List (Path × PM (DV F D)) :=
      match formatTime (F := F) (D := D) tm ts with
      | some t => [(p ++ ["timestamp"], .val t), (p ++ ["value"], .val (.cval v))]
      | none => [(p, .val (.cval v))]
    match pmAddAll [] adds with
    | .ok m => some { s with out := s.out ++ [.group m] }
    | _ => none

/-- the handler of `displayStreamingResults` (`Count == 0`), behind `CacheClient.defaultHandler` -/
def streamHandler (tm : TsMode) (t : CTree F D) (s : CliSt F D) (n : CNoti F D) : Option (CliSt F D) :=
  match n with
  | .update p ts v _ => streamDisplay tm s p ts v
  | .delete p ts => streamDisplay tm s p ts .nil
  | .sync =>
    match displayWalk tm t with
    | .ok sh => some { complete := true, out := s.out ++ [sh] }
    | _ => none
  | _ => some s

/-- the `ProtoHandler` path: `Client.Recv` hands every message to the handler, which shows
it and returns nil; the loop ends at `io.EOF` -/
def protoRun (rs : List (Response F D)) : List (Shown F D) := rs.map .proto

/-- `cli.QueryDisplay` → `sendQueryAndDisplay` over a scripted stream (`Count = 1` for polling:
one `Poll` cycle).  Result: the `Display` calls. -/
def queryDisplay (jv : Bytes → Bool) (dt : DisplayType) (qt : QType) (tm : TsMode)
    (rs : List (Response F D)) : Outcome (List (Shown F D)) :=
  match dt with
  | .unknown => .err .config
  | .single =>
    if qt = .unknown then .err .config else                      -- Query.Validate
    let r := run jv qt (singleHandler tm) rs { h := ({} : CliSt F D) }
    (match r.1 with
     | .ok () => .ok r.2.1.h.out
     | .err e => .err e
     | .panic => .panic)
  | .proto => if qt = .unknown then .err .config else .ok (protoRun rs)
  | .shortproto => if qt = .unknown then .err .config else .ok (protoRun rs)
  | .group =>
    match qt with
    | .unknown => .err .config
    | .once =>
      let r := run jv qt (cacheHandler noHandler) rs { h := ((.empty : CTree F D), ()) }
      (match r.1 with
       | .ok () =>
         (match displayWalk tm r.2.1.h.1 with
          | .ok sh => .ok [sh]
          | .err e => .err e
          | .panic => .panic)
       | .err e => .err e
       | .panic => .panic)
    | .poll =>
      let r := run jv qt (cacheHandler noHandler) rs { h := ((.empty : CTree F D), ()) }
      (match r.1 with
       | .ok () =>
         -- `c.Poll()`: send the poll request, read on
         let r2 := run jv qt (cacheHandler noHandler) r.2.2 r.2.1
         (match r2.1 with
          | .ok () =>
            (match displayWalk tm r2.2.1.h.1 with
             | .ok sh => .ok [sh]
             | .err e => .err e
             | .panic => .panic)
          | .err e => .err e
          | .panic => .panic)
       | .err e => .err e
       | .panic => .panic)
    | .stream =>
      let r := run jv qt (cacheHandler (streamHandler tm)) rs { h := ((.empty : CTree F D), ({} : CliSt F D)) }
      (match r.1 with
       | .ok () => .ok r.2.1.h.2.out
       | .err e => .err e
       | .panic => .panic)

/-! ## (5) Target manager -/

inductive MgrEvent (F D : Type) where
  | update (n : Option (Notification F D))     -- `m.update(name, v.Update)`
  | sync
deriving Repr

/-- `Manager.handleGNMIUpdate` (manager.go:146–168) -/
def handleGNMIUpdate : Response F D → Outcome (MgrEvent F D)
  | .nilMsg => .panic                          -- `resp.Response` on the nil message
  | .unset => .err .nilResponse
  | .update n => .ok (.update n)
  | .sync _ => .ok .sync
  | .error _ => .err .remoteError

/-! ## (2) The Subscribe handler -/

/-- the `interface{}` a cache leaf holds: a `*gnmi.Notification` (possibly the typed nil
pointer) or anything else -/
inductive Stored (F D : Type) where
  | noti (n : Option (Notification F D))
  | foreign
deriving Repr

def Stored.wireValid : Stored F D → Bool
  | .noti none => false
  | .noti (some n) => n.wireValid
  | .foreign => true

/-- one target of the cache: its leaves by index path -/
structure TargetView (F D : Type) where
  name : String
  leaves : List (Path × Stored F D) := []

abbrev CacheView (F D : Type) := List (TargetView F D)

def CacheView.wireValid (c : CacheView F D) : Bool :=
  c.all (fun t => t.leaves.all (fun kv => kv.2.wireValid))

/-- `Cache.HasTarget` -/
def hasTarget (c : CacheView F D) (t : String) : Bool :=
  if t = "" then false else if t = "*" then true else c.any (fun x => x.name == t)

/-- `Cache.Query(target, query, fn)`: `none` = error (ignored by the caller) -/
def cacheQuery (c : CacheView F D) (target : String) (q : Path) : Option (List (Path × Stored F D)) :=
  if target = "" then none
  else if target = "*" then
    some (c.flatMap (fun t => (t.leaves.filter (fun kv => qmatches q kv.1)).map (fun kv => (t.name :: kv.1, kv.2))))
  else
    match c.find? (fun x => x.name == target) with
    | none => none
    | some t => some ((t.leaves.filter (fun kv => qmatches q kv.1)).map (fun kv => (t.name :: kv.1, kv.2)))

/-- `proto.Clone` of a notification: a nil entry of a repeated message field comes back as an
empty message (protobuf-go merges every element into a freshly allocated one) -/
def cloneNoti (n : Notification F D) : Notification F D :=
  { n with
    update := n.update.map (fun u => match u with
      | none => some {}
      | some u => some u),
    delete := n.delete.map (fun d => match d with
      | none => some {}
      | some d => some d) }

/-- `MakeSubscribeResponse(n, dup)` (subscribe.go:559–585); `noDup` = `WithoutDupReport`.
The result is the notification placed in the response. -/
def makeResponse (noDup : Bool) (st : Stored F D) (dup : Nat) : Outcome (Option (Notification F D)) :=
  match st with
  | .foreign => .err .internal                               -- checked assertion failed
  | .noti none =>
    if !noDup && decide (dup > 0) then .panic                -- `notification.Update` on the nil pointer
    else .ok none
  | .noti (some n) =>
    if !noDup && decide (dup > 0) && decide (n.update.length > 0) then
      let c := cloneNoti n
      match c.update with
      | [] => .panic                                         -- `Update[0]`: excluded by the length check
      | none :: _ => .panic                                  -- `.Duplicates =` on a nil entry: none after Clone
      | some u :: r => .ok (some { c with update := some { u with dup := dup } :: r })
    else .ok (some n)

/-- `MakeSubscribeResponse` without the `len(notification.Update) > 0` guard (seeded mutant) -/
def makeResponseNoLenCheck (noDup : Bool) (st : Stored F D) (dup : Nat) : Outcome (Option (Notification F D)) :=
  match st with
  | .foreign => .err .internal
  | .noti none => if !noDup && decide (dup > 0) then .panic else .ok none
  | .noti (some n) =>
    if !noDup && decide (dup > 0) then
      let c := cloneNoti n
      match c.update with
      | [] => .panic
      | none :: _ => .panic
      | some u :: r => .ok (some { c with update := some { u with dup := dup } :: r })
    else .ok (some n)

/-- `isTargetDelete` (subscribe.go:587–603); `none` = panic -/
def isTargetDelete : Stored F D → Option Bool
  | .foreign => some false
  | .noti none => none                                       -- `len(v.Delete)` on the nil pointer
  | .noti (some v) =>
    match v.delete with
    | [d] =>
      let orig := getOrigin v.pfx                            -- guarded by `v.Prefix != nil`
      let p := toStrings v.pfx false ++ toStrings d false
      some (orig == "" && p == ["*"])                        -- `len(p) == 1 && p[0] == "*"`
    | _ => some false

/-- the `for _, u := range n.Update` loop of `UpdateNotification`; `none` = panic -/
def offerUpdates (pre : Path) : List (Option (Update F D)) → Option (List Path)
  | [] => some []
  | none :: _ => none                                        -- `u.Path` on a nil entry
  | some u :: r => (offerUpdates pre r).map (fun l => (pre ++ toStrings u.path false) :: l)

/-- `Server.Update` → `UpdateNotification`: the index paths offered to the matcher; `none` = panic -/
def offeredPaths : Stored F D → Option (List Path)
  | .foreign => some []
  | .noti none => none                                       -- `v.Prefix` on the nil pointer
  | .noti (some n) =>
    let pre := toStrings n.pfx true
    (offerUpdates pre n.update).map (fun l => l ++ n.delete.map (fun d => pre ++ toStrings d false))

/-- `sendStreamingResults` for one queue item holding a leaf: `sendSubscribeResponse`
(ACL stub allows everything) then the target-delete check.  `ok true` = stop streaming. -/
def sendItem (noDup : Bool) (target : String) (st : Stored F D) (dup : Nat) : Outcome Bool :=
  match makeResponse noDup st dup with
  | .err _ => .err .unknown
  | .panic => .panic
  | .ok _ =>
    match isTargetDelete st with
    | none => .panic
    | some b => .ok (b && target != "*")

/-- what the RPC produced -/
structure SubOut where
  sent : List Path := []      -- index paths (target first) of the leaves sent, in order
  synced : Bool := false
  regs : List Path := []      -- queries registered with the matcher (STREAM)
deriving DecidableEq, Repr, Inhabited

/-- the sender loop over the queued leaves; `dup i` is the coalesce count of the i-th item
(decided by the schedule) -/
def sendAll (noDup : Bool) (target : String) (dup : Nat → Nat) :
    Nat → List (Path × Stored F D) → List Path → Outcome (List Path × Bool)
  | _, [], acc => .ok (acc, false)
  | i, (k, st) :: rest, acc =>
    match sendItem noDup target st (dup i) with
    | .ok true => .ok (acc ++ [k], true)
    | .ok false => sendAll noDup target dup (i + 1) rest (acc ++ [k])
    | .err e => .err e
    | .panic => .panic

/-- `Subscription.GetPath()` on a possibly-nil entry -/
def subPath : Option Subscription → Option GPath
  | none => none
  | some s => s.path

/-- the walk of `processSubscription`: `err` = `CompletePath` failed -/
def walkItems (c : CacheView F D) (target : String) (s : SubscriptionList) :
    Outcome (List (Path × Stored F D)) :=
  if s.updatesOnly then .ok []
  else
    s.subs.foldl (fun acc sub =>
      match acc with
      | .ok items =>
        (match completePath s.pfx (subPath sub) with
         | .error _ => .err .unknown
         | .ok full =>
           match cacheQuery c target full with
           | none => .ok items
           | some found => .ok (items ++ found))
      | o => o) (.ok [])

/-- `addSubscription`: the registered queries (no partial operation: the three-index slice
`prefix[:len(prefix):len(prefix)]` is always in range) -/
def regQueries (s : SubscriptionList) : List Path :=
  let pre := toStrings s.pfx true
  s.subs.map (fun sub =>
    let p := subPath sub
    let o := getOrigin p
    (if getOrigin s.pfx = "" ∧ o ≠ "" then pre ++ [o] else pre) ++ toStrings p false)

/-- `Server.Subscribe` for one received request, on the quiescent schedule of the harness
(no concurrent cache writes; the stream ends after the sync response) -/
def subscribe (c : CacheView F D) (noDup : Bool) (dup : Nat → Nat) (req : Request) : Outcome SubOut :=
  match req with
  | .nilMsg => .err .invalidArgument          -- every access goes through nil-safe getters
  | .unset => .err .invalidArgument
  | .poll => .err .invalidArgument
  | .subscribe none => .err .invalidArgument
  | .subscribe (some s) =>
    match s.pfx with
    | none => .err .invalidArgument
    | some pfx =>
      if pfx.target = "" then .err .invalidArgument
      else if !hasTarget c pfx.target then .err .notFound
      else if s.mode > 2 then .err .invalidArgument
      else
        let regs := if s.mode = 0 then regQueries s else []
        match walkItems c pfx.target s with
        | .err e => .err e
        | .panic => .panic
        | .ok items =>
          match sendAll noDup pfx.target dup 0 items [] with
          | .err e => .err e
          | .panic => .panic
          | .ok (sent, stopped) => .ok { sent := sent, synced := !stopped, regs := regs }

end Gnmi.RX
