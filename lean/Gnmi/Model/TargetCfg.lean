import Gnmi.Basic
/-!
# Model of `target/target.go` (`target.Config`: `Load`, `Validate`, `checkRevision`,
`handleDiffs`, `Current`, `NewConfig`, `NewConfigWithBase`)

Put `target/target.go` next to this file: every `def` names the Go function it mirrors and
keeps its case structure.

Conventions (DESIGN §4):
* a Go `map[string]T` is an association list `List (String × T)` whose keys are pairwise
  distinct (`Cfg.WF`); Go's (random) iteration order is the list order, and every theorem
  about results of an iteration is stated up to permutation (`Props/C17.lean`);
* protobuf messages are abstracted to exactly what `target.go` reads and what `proto.Equal`
  compares: a `*gpb.SubscribeRequest` is `nil` or a content digest (`Req`), a `*pb.Target` is
  `nil` or `{addresses, request, other}` where `other` is an injective digest of the
  remaining fields (credentials, meta, dialer);  `proto.Equal` = `DecidableEq`;
* `int64` revision = `Int`;
* errors are classes (`LoadRes`), never text;
* the handler callbacks are collaborators: the model returns the list of calls made.
-/
namespace Gnmi
namespace TargetCfg

/-! ## Messages -/

/-- `*gpb.SubscribeRequest` as far as `proto.Equal` and the handlers see it -/
inductive Req where
  | nil                       -- nil pointer (a map value may be nil; a missing key reads as nil)
  | msg (digest : String)     -- content
deriving DecidableEq, Repr, Inhabited

/-- `pb.Target` -/
structure Tgt where
  addresses : List String
  request : String
  other : String := ""        -- credentials, meta, dialer
deriving DecidableEq, Repr, Inhabited

/-- `*pb.Target`; `none` = nil pointer -/
abbrev TgtP := Option Tgt

/-- `(*pb.Target).GetRequest()` (nil-safe getter) -/
def TgtP.getRequest : TgtP → String
  | none => ""
  | some t => t.request

/-- `pb.Configuration` (`other` = instance_id / meta, never read by `target.go`) -/
structure Cfg where
  revision : Int
  request : List (String × Req) := []
  target : List (String × TgtP) := []
  other : String := ""
deriving DecidableEq, Repr, Inhabited

/-! ## Go maps as association lists -/

/-- `v, ok := m[k]` -/
def find {α : Type} (k : String) : List (String × α) → Option α
  | [] => none
  | (k', v) :: r => if k' = k then some v else find k r

/-- `delete(m, k)` -/
def erase {α : Type} (k : String) : List (String × α) → List (String × α)
  | [] => []
  | (k', v) :: r => if k' = k then erase k r else (k', v) :: erase k r

def keys {α : Type} (m : List (String × α)) : List String := m.map Prod.fst

/-- the representation invariant of a Go map: no key twice -/
def Cfg.WF (c : Cfg) : Prop := (keys c.request).Nodup ∧ (keys c.target).Nodup

/-- `config.GetRequest()[name]`: the zero value (nil) when the key is missing -/
def reqAt (reqs : List (String × Req)) (name : String) : Req :=
  match find name reqs with
  | some r => r
  | none => .nil

/-- `newTargets[k]`: nil when the key is missing (or maps to nil) -/
def tgtAt (ts : List (String × TgtP)) (name : String) : TgtP :=
  match find name ts with
  | some t => t
  | none => none

/-- `(*pb.Configuration).GetRequest()` / `GetTarget()` on a possibly nil configuration -/
def getRequestMap : Option Cfg → List (String × Req)
  | none => []
  | some c => c.request

def getTargetMap : Option Cfg → List (String × TgtP)
  | none => []
  | some c => c.target

/-! ## `Validate` (target.go:172–191) -/

inductive VErr where
  | emptyName        -- :174  name == ""
  | nilTarget        -- :177  target == nil
  | noAddress        -- :180  len(target.Addresses) == 0
  | noRequest        -- :183  target.Request == ""
  | missingRequest   -- :186  config.Request[target.Request] missing
deriving DecidableEq, Repr

/-- the loop body of `Validate` for one map entry -/
def validateTarget (reqs : List (String × Req)) (name : String) (t : TgtP) : Except VErr Unit :=
  if name = "" then .error .emptyName else
  match t with
  | none => .error .nilTarget
  | some t =>
    if t.addresses.length = 0 then .error .noAddress
    else if t.request = "" then .error .noRequest
    else match find t.request reqs with
      | none => .error .missingRequest
      | some _ => .ok ()

/-- `for name, target := range config.Target { … }`: first failing entry in iteration order -/
def validateList (reqs : List (String × Req)) : List (String × TgtP) → Except VErr Unit
  | [] => .ok ()
  | (k, t) :: r =>
    match validateTarget reqs k t with
    | .error e => .error e
    | .ok _ => validateList reqs r

/-- `Validate(config)` -/
def validate (c : Cfg) : Except VErr Unit := validateList c.request c.target

/-- outcome of calling the exported `Validate` directly -/
inductive VOut where
  | panic                        -- `config.Target` on a nil `*pb.Configuration` (:173)
  | done (r : Except VErr Unit)
deriving Repr

/-- `Validate(config)` for a possibly nil pointer (`Load` and `NewConfigWithBase` test for
nil first; a direct caller does not have to) -/
def validateP : Option Cfg → VOut
  | none => .panic
  | some c => .done (validate c)

/-! ## Handlers -/

/-- `target.Update` -/
structure Update where
  name : String
  request : Req
  target : TgtP
deriving DecidableEq, Repr

/-- one handler invocation -/
inductive Call where
  | add (u : Update)
  | update (u : Update)
  | delete (name : String)
deriving DecidableEq, Repr

/-- `target.Handler`: which callbacks are non-nil -/
structure Handlers where
  add : Bool := true
  update : Bool := true
  delete : Bool := true
deriving DecidableEq, Repr

/-- `if c.h.X != nil { c.h.X(…) }` -/
def emitIf (present : Bool) (c : Call) : List Call := if present then [c] else []

/-! ## `checkRevision` (target.go:108–116) -/

/-- `true` = `nil` error -/
def checkRevision (cur : Option Cfg) (cf : Cfg) : Bool :=
  match cur with
  | none => true                                              -- :110
  | some c => if cf.revision ≤ c.revision then false else true  -- :112

/-! ## `handleDiffs` (target.go:120–169) -/

/-- first loop (:121–128): names of requests present in both configurations with different
content -/
def requestChanged (old new : List (String × Req)) : List String :=
  new.filterMap (fun kn =>
    match find kn.1 old with
    | some o => if o ≠ kn.2 then some kn.1 else none
    | none => none)

/-- second loop (:136–156) over the old targets; `nts` is the mutable copy `newTargets`.
Returns the calls made and what is left in `newTargets`. -/
def diffOld (h : Handlers) (newReqs : List (String × Req)) (changed : List String) :
    List (String × TgtP) → List (String × TgtP) → List Call × List (String × TgtP)
  | [], nts => ([], nts)
  | (k, t) :: r, nts =>
    match tgtAt nts k with
    | none =>                                                         -- :139 nt == nil
      let d := diffOld h newReqs changed r nts
      (emitIf h.delete (.delete k) ++ d.1, d.2)
    | some nt =>
      if !changed.contains t.getRequest && decide (t = some nt) then    -- :143
        diffOld h newReqs changed r (erase k nts)
      else                                                            -- :145 default
        let d := diffOld h newReqs changed r (erase k nts)
        (emitIf h.update (.update ⟨k, reqAt newReqs nt.request, some nt⟩) ++ d.1, d.2)

/-- third loop (:159–168): whatever is left in `newTargets` is new -/
def addLeft (h : Handlers) (newReqs : List (String × Req)) : List (String × TgtP) → List Call
  | [] => []
  | (k, t) :: r => emitIf h.add (.add ⟨k, reqAt newReqs t.getRequest, t⟩) ++ addLeft h newReqs r

/-- `c.handleDiffs(config)` with `c.configuration = old`: the handler calls, in order -/
def handleDiffs (h : Handlers) (old : Option Cfg) (new : Cfg) : List Call :=
  let changed := requestChanged (getRequestMap old) new.request
  let d := diffOld h new.request changed (getTargetMap old) new.target
  d.1 ++ addLeft h new.request d.2

/-! ## `Config` -/

/-- `target.Config` (the mutex is irrelevant for the sequential property) -/
structure St where
  cur : Option Cfg := none
  h : Handlers := {}
deriving DecidableEq, Repr

inductive LoadRes where
  | ok
  | nilConfig            -- :89
  | invalid (e : VErr)   -- :92
  | revision             -- :98
deriving DecidableEq, Repr

/-- `NewConfig(h)` -/
def newConfig (h : Handlers) : St := { cur := none, h := h }

/-- `NewConfigWithBase(h, config)`: no handler is called for the base -/
def newConfigWithBase (h : Handlers) (base : Option Cfg) : Except VErr St :=
  match base with
  | none => .ok { cur := none, h := h }
  | some c =>
    match validate c with
    | .error e => .error e
    | .ok _ => .ok { cur := some c, h := h }

/-- `(*Config).Load(config)`: new state, result class, handler calls in order -/
def load (s : St) (config : Option Cfg) : St × LoadRes × List Call :=
  match config with
  | none => (s, .nilConfig, [])                               -- :89
  | some cfg =>
    match validate cfg with
    | .error e => (s, .invalid e, [])                         -- :92
    | .ok _ =>
      if checkRevision s.cur cfg then                         -- :98
        ({ s with cur := some cfg }, .ok, handleDiffs s.h s.cur cfg)   -- :102–103
      else (s, .revision, [])

/-- `(*Config).Current()` (`proto.Clone` = identity on values) -/
def current (s : St) : Option Cfg := s.cur

end TargetCfg
end Gnmi
