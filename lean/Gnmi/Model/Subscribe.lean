import Gnmi.Model.Cache
/-!
# Sequential model of the Subscribe server (`subscribe/subscribe.go`) over the cache model

The schedule modelled here is the *quiescent* one the correspondence harness enforces: after
every cache operation and every client action the server goroutines of every subscriber run
until they block (sender in `Queue.Next` on an empty queue, in a gated `Send`, or in
`stream.Recv` for POLL).  All interleavings are the subject of the LTS model
(`Model/SubscribeLTS.lean`); this file is what ties the protocol to the code's actual
request validation, path construction, ACL checks, sync placement and response building.

A queued leaf handle is modelled by the leaf's key together with the last notification written
to that leaf object (`last`): the sender reads the handle when it sends, and a leaf object is
only written through cache updates, each of which is offered to the subscriber.  A leaf
re-created after a delete is a new object: it is never coalesced with an entry queued before
the delete item.
-/
namespace Gnmi
namespace Sub
open Cache

inductive Mode where
  | once | poll | stream | other
deriving DecidableEq, Repr, Inhabited

/-- final status of the RPC -/
inductive Code where
  | ok | invalidArgument | notFound | permissionDenied | unauthenticated
  | unknown        -- a non-status error returned by the handler (CompletePath error, send timeout)
deriving DecidableEq, Repr, Inhabited

structure SubPath where
  isNil : Bool := false      -- `subscription.GetPath() == nil`
  origin : String := ""
  path : Path := []          -- `ToStrings(path, false)`
deriving DecidableEq, Repr, Inhabited

structure Req where
  hasSubscribe : Bool := true
  prefixNil : Bool := false
  target : String := ""
  origin : String := ""       -- prefix origin
  pfx : Path := []            -- `ToStrings(prefix, false)`
  mode : Mode := .stream
  updatesOnly : Bool := false
  subs : List SubPath := []
deriving Repr, Inhabited

/-- the server's ACL as seen by one RPC -/
inductive Acl where
  | absent                          -- no ACL installed (`aclStub`: everything allowed)
  | fails                           -- `NewRPCACL` returns an error
  | allow (targets : List String)   -- the targets this caller may see
deriving Repr, Inhabited

def Acl.check : Acl → String → Bool
  | .absent, _ => true
  | .fails, _ => false
  | .allow ts, t => ts.contains t

/-- `path.CompletePath(prefix, sub.path)` on index paths; `none` = error -/
def completePath (r : Req) (s : SubPath) : Option Path :=
  if r.origin ≠ "" ∧ s.origin ≠ "" then none
  else if r.origin ≠ "" then some ((r.origin :: r.pfx) ++ s.path)
  else if s.origin ≠ "" then (if r.pfx.length > 0 then none else some (s.origin :: s.path))
  else some (r.pfx ++ s.path)

/-- the registration queries built by `addSubscription` -/
def regQueries (r : Req) : List Path :=
  let pre := r.target :: ((if r.origin = "" then [] else [r.origin]) ++ r.pfx)
  -- a subscription without a path (`isNil`) has empty `origin` and `path`: the query is the prefix
  r.subs.map (fun s =>
    pre ++ (if r.origin = "" ∧ s.origin ≠ "" then [s.origin] else []) ++ s.path)

/-! ### queue items and responses -/

inductive Item where
  | handle (target : String) (key : Path) (last : Noti)   -- a `*ctree.Leaf` of the cache
  | detached (target : String) (key : Path) (last : Noti) -- a queued cache leaf that has since been deleted:
                                                           -- it keeps its last value and coalesces with nothing
  | note (e : Event)                                       -- a detached leaf (delete notification)
  | sync
deriving DecidableEq, Repr, Inhabited

inductive Resp where
  | upd (n : Noti) (dup : Nat)
  | del (target origin : String) (path : Path) (ts : Int) (dup : Nat)
  | sync
deriving DecidableEq, Repr, Inhabited

structure Subscriber where
  id : String
  req : Req
  acl : Acl
  regs : List Path := []          -- registered queries (STREAM only)
  alive : Bool := true
  status : Option Code := none
  gateShut : Bool := false
  gatedSinceDrain : Bool := false -- dup counts are deterministic only for entries queued under a shut gate
  blocked : Option Resp := none   -- the response inside a gated `Send`
  queue : List (Item × Nat) := []
  closed : Bool := false          -- queue closed (ONCE after the walk)
  out : List (Resp × Bool) := []  -- responses delivered since the last drain (flag: sent while a gate
                                  -- had been shut since the last drain — its dup count is deterministic)
deriving Repr, Inhabited

structure State where
  cache : Cache.State := {}
  subs : List Subscriber := []
  pregated : List String := []   -- ids whose stream starts with flow control already shut
deriving Repr, Inhabited

/-! ### what a notification is offered to (`Server.Update` → `UpdateNotification` → `match`) -/

/-- the index paths `UpdateNotification` matches for an event -/
def eventPaths : Event → List Path
  | .upd n => n.upd.map (fun u => subIndex n.target n.origin (n.pfx ++ u.path))
  | .del t o p _ => [subIndex t o p]

def offered (s : Subscriber) (e : Event) : Bool :=
  s.regs.any (fun q => (eventPaths e).any (fun p => compatible q p))

def coversKey (e : Event) (target : String) (key : Path) : Bool :=
  match e with
  | .del t o p _ => qmatches (subIndex t o p) (target :: key)
  | .upd _ => false

def eventKey (n : Noti) : Path :=
  match n.upd with
  | u :: _ => updKey n u
  | [] => joinKey n []

def isHandleFor (target : String) (key : Path) : Item → Bool
  | .handle t k _ => t == target && k == key
  | _ => false

/-- number of leading queue entries up to and including the last delete item covering the key -/
def lastCover (q : List (Item × Nat)) (target : String) (key : Path) : Nat :=
  (q.zipIdx.foldl (fun acc x =>
    match x.1.1 with
    | .note e => if coversKey e target key then x.2 + 1 else acc
    | _ => acc) 0)

/-- `Queue.Insert(leaf)` for the leaf at `target/key` currently holding `n`: coalesce with a
pending entry for the same leaf object (one queued after the last delete item covering the
key), else append -/
def insertHandle (q : List (Item × Nat)) (target : String) (key : Path) (n : Noti) : List (Item × Nat) :=
  let cut := lastCover q target key
  let pre := q.take cut
  let suf := q.drop cut
  if suf.any (fun x => isHandleFor target key x.1) then
    pre ++ suf.map (fun x => if isHandleFor target key x.1 then (Item.handle target key n, x.2 + 1) else x)
  else q ++ [(Item.handle target key n, 0)]

def insertSync (q : List (Item × Nat)) : List (Item × Nat) :=
  if q.any (fun x => x.1 == Item.sync) then
    q.map (fun x => if x.1 == Item.sync then (x.1, x.2 + 1) else x)
  else q ++ [(Item.sync, 0)]

def enqueueEvent (s : Subscriber) (e : Event) : Subscriber :=
  if !s.alive || s.closed || !offered s e then s
  else
    match e with
    | .upd n => { s with queue := insertHandle s.queue n.target (eventKey n) n }
    | .del .. => { s with queue := s.queue ++ [(Item.note e, 0)] }

/-- `isTargetDelete` -/
def isTargetDelete : Resp → Bool
  | .del _ o p _ _ => o == "" && p == [glob]
  | _ => false

def respTarget : Resp → Option String
  | .upd n _ => some n.target
  | .del t .. => some t
  | .sync => none

def toResp : Item × Nat → Resp
  | (.handle _ _ n, d) => .upd n d
  | (.detached _ _ n, d) => .upd n d
  | (.note (.del t o p ts), d) => .del t o p ts d
  | (.note (.upd n), d) => .upd n d
  | (.sync, _) => .sync

/-- the per-response ACL check of `sendSubscribeResponse`: a response whose prefix target the
caller may not see is dropped silently -/
def denied (a : Acl) (r : Resp) : Bool :=
  match respTarget r with
  | some t => !a.check t
  | none => false

/-- the sender loop until it blocks: empty queue, gated send, or the RPC ended -/
def pump : Nat → Subscriber → Subscriber
  | 0, s => s
  | fuel + 1, s =>
    if !s.alive || s.blocked.isSome then s
    else
      match s.queue with
      | [] => if s.closed then { s with alive := false, status := some .ok } else s
      | it :: rest =>
        let s := { s with queue := rest }
        let r := toResp it
        if denied s.acl r then pump fuel s
        else if s.gateShut then { s with blocked := some r }
        else
          let s := { s with out := s.out ++ [(r, s.gatedSinceDrain)] }
          if isTargetDelete r && s.req.target != "*" then { s with alive := false, status := some .ok }
          else pump fuel s

def pumpAll (s : Subscriber) : Subscriber := pump (s.queue.length + 2) s

/-- the walk of `processSubscription`: `none` = `CompletePath` failed (the RPC ends) -/
def walkItems (c : Cache.State) (r : Req) : Option (List (String × Path × Noti)) :=
  if r.updatesOnly then some []
  else
    r.subs.foldl (fun acc s =>
      match acc with
      | none => none
      | some items =>
        match completePath r s with
        | none => none
        | some full =>
          match c.query r.target full with
          | none => some items                   -- the Query error is ignored
          | some found => some (items ++ found)) (some [])

def doWalk (c : Cache.State) (s : Subscriber) : Subscriber :=
  match walkItems c s.req with
  | none => { s with alive := false, status := some .unknown }
  | some items =>
    let q := items.foldl (fun q it => insertHandle q it.1 it.2.1 it.2.2) s.queue
    { s with queue := insertSync q }

/-- the state of a freshly accepted subscription (`gated`: its stream starts with flow control shut) -/
def newSubscriber (gated : Bool) (id : String) (r : Req) (acl : Acl) : Subscriber :=
  { id := id, req := r, acl := acl, gateShut := gated, gatedSinceDrain := gated }

/-- `Server.Subscribe` up to the point where the goroutines run -/
def subscribe (st : State) (id : String) (acl : Acl) (firstRecv : Option Req) : State :=
  let ended (c : Code) : State :=
    { st with subs := st.subs ++ [{ id := id, req := {}, acl := acl, alive := false, status := some c }] }
  match acl with
  | .fails => ended .unauthenticated
  | _ =>
    match firstRecv with
    | none => ended .ok                                            -- EOF before a request
    | some r =>
      if !r.hasSubscribe then ended .invalidArgument
      else if r.prefixNil then ended .invalidArgument
      else if r.target = "" then ended .invalidArgument
      else if !st.cache.hasTarget r.target then ended .notFound
      else if r.target ≠ "*" ∧ !acl.check r.target then ended .permissionDenied
      else
        let s : Subscriber := newSubscriber (st.pregated.contains id) id r acl
        match r.mode with
        | .once =>
          let s := doWalk st.cache s
          let s := if s.alive then { s with closed := true } else s
          { st with subs := st.subs ++ [pumpAll s] }
        | .poll => { st with subs := st.subs ++ [pumpAll (doWalk st.cache s)] }
        | .stream =>
          let s := if r.updatesOnly then { s with queue := insertSync s.queue } else s
          let s := { s with regs := regQueries r }
          let s := if r.updatesOnly then s else doWalk st.cache s
          { st with subs := st.subs ++ [pumpAll s] }
        | .other => ended .invalidArgument

def updateSub (st : State) (id : String) (f : Subscriber → Subscriber) : State :=
  { st with subs := st.subs.map (fun s => if s.id = id then f s else s) }

/-- A queued handle is read when it is sent: it shows the last notification written to its leaf
object, including writes that produced no event (suppressed updates).  Handles whose leaf is
still attached (no delete item covering the key is queued behind them) are refreshed from the
cache after each operation. -/
def refreshQueue (c : Cache.State) : List (Item × Nat) → List (Item × Nat)
  | [] => []
  | (it, d) :: rest =>
    let it' := match it with
      | .handle t k last =>
        if rest.any (fun x => match x.1 with
            | .note e => coversKey e t k
            | _ => false) then it
        else
          match (c.get t).bind (fun tg => lookup tg.tree k) with
          | some n => Item.handle t k n
          | none => Item.handle t k last
      | _ => it
    (it', d) :: refreshQueue c rest

/-- a delete detaches the leaf objects it removes: handles to them that are still queued — in any
subscriber's queue, whether or not the delete is offered to it — keep their last value -/
def freezeCovered (e : Event) (q : List (Item × Nat)) : List (Item × Nat) :=
  q.map (fun x => match x.1 with
    | .handle t k last => if coversKey e t k then (Item.detached t k last, x.2) else x
    | _ => x)

/-- a cache operation produced `events`: offer them to every live STREAM subscriber, then let
the senders run -/
def feed (st : State) (events : List Event) : State :=
  { st with subs := st.subs.map (fun s =>
      let s := events.foldl (fun s e => enqueueEvent { s with queue := freezeCovered e s.queue } e) s
      pumpAll { s with queue := refreshQueue st.cache s.queue }) }

/-- `Server.Subscribe` with a cache operation placed by the harness (schedule hooks) at the
start of `processSubscription` (`atStart`: after the registration, before the walk) or at its
end (after the sync marker was queued).  The flag tells whether the point was reached. -/
def subscribeInject (st : State) (id : String) (acl : Acl) (firstRecv : Option Req) (atStart : Bool)
    (inject : Cache.State → Cache.State × List Event) : State × Bool :=
  let plain := subscribe st id acl firstRecv
  match acl, firstRecv with
  | .fails, _ => (plain, false)
  | _, none => (plain, false)
  | _, some r =>
    let accepted := r.hasSubscribe && !r.prefixNil && r.target != "" && st.cache.hasTarget r.target &&
      (r.target == "*" || acl.check r.target)
    let walks := match r.mode with
      | .once => true
      | .poll => true
      | .stream => !r.updatesOnly
      | .other => false
    if !(accepted && walks) then (plain, false)
    else
      let s : Subscriber := newSubscriber (st.pregated.contains id) id r acl
      let s := if r.mode = .stream then { s with regs := regQueries r } else s
      if atStart then
        let c := inject st.cache
        let st := feed { st with cache := c.1 } c.2
        let s := c.2.foldl enqueueEvent s
        let s := doWalk st.cache s
        let s := if r.mode = .once ∧ s.alive then { s with closed := true } else s
        ({ st with subs := st.subs ++ [pumpAll s] }, true)
      else
        -- the harness lets the sender drain before it runs the operation: the plain call, then
        -- the operation fed to everybody (the new subscriber included, if it registered)
        let walked := doWalk st.cache s
        if !walked.alive then (plain, false)          -- CompletePath failed: the point is not reached
        else
          let c := inject plain.cache
          (feed { plain with cache := c.1 } c.2, true)

/-- a poll trigger received by the handler of subscriber `id` -/
def poll (st : State) (id : String) : State :=
  updateSub st id (fun s =>
    if s.alive ∧ s.req.mode = .poll then pumpAll (doWalk st.cache s) else s)

/-- the client half-closes (`Recv` returns EOF): POLL ends OK.  The handler returns and the stream is
gone: a response the sender holds inside a gated `Send` is never delivered (as for the send timeout) -/
def eof (st : State) (id : String) : State :=
  updateSub st id (fun s =>
    if s.alive ∧ s.req.mode = .poll then { s with alive := false, status := some .ok, blocked := none } else s)

def setGate (st : State) (id : String) (shut : Bool) : State :=
  updateSub st id (fun s =>
    if shut then { s with gateShut := true, gatedSinceDrain := true }
    else
      let s := { s with gateShut := false }
      let s := match s.blocked with
        | some r =>
          let s := { s with blocked := none, out := s.out ++ [(r, s.gatedSinceDrain)] }
          if isTargetDelete r && s.req.target != "*" then { s with alive := false, status := some .ok } else s
        | none => s
      pumpAll s)

/-- flow control lets exactly one held response through; the gate stays shut, so the sender
blocks again on the next response it dequeues -/
def stepGate (st : State) (id : String) : State :=
  updateSub st id (fun s =>
    if s.gateShut then
      match s.blocked with
      | some r =>
        let s := { s with blocked := none, out := s.out ++ [(r, s.gatedSinceDrain)] }
        if isTargetDelete r && s.req.target != "*" then { s with alive := false, status := some .ok }
        else pumpAll s
      | none => s
    else s)

/-- the send timeout elapses: every subscriber with a blocked send ends with an error -/
def expire (st : State) : State :=
  { st with subs := st.subs.map (fun s =>
      if s.alive ∧ s.blocked.isSome then { s with alive := false, status := some .unknown, blocked := none }
      else s) }

end Sub
end Gnmi
