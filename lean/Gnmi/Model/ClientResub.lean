/-!
# One `BaseClient`, several transports: Subscribe again while a Poll is in flight, then Close
(client/client.go:112-222)

`Model/ClientLTS.lean` / `Model/ClientPoll.lean` have ONE installed `Impl` per Poll caller.  This LTS
is about what they cannot say: `BaseClient.Subscribe` may be called again (by `client.Reconnect` after
every ended attempt, or by the application) while a `Poll()` caller is still inside `c.run(impl)` on
the `Impl` of the EARLIER Subscribe.  `run` reads `c.closed` after every delivered message whatever
`Impl` it reads from, so the Poll caller must stop after at most one further message once `Close` has
been called — although its transport is no longer the installed one.

State of one `BaseClient` (client.go:102-108): `closed`, `clientImpl` (`installed`), and the
transports (`Impl`s) ever dialled: per transport the messages received and not yet handed out, and
whether `Impl.Close` was called.  Threads: any number of callers of `Subscribe` (thread `subStart t`:
`getFirst` has produced `Impl` number `t`), `Poll` and `Close`, each at any time.

Atomicity.  Every access to `closed` / `clientImpl` is inside a `c.mu` region (Lock in Subscribe
140-147, Close 169-175, Impl 180-185; RLock in run 208-210), so the regions are serialised; they are
single transitions here.  Inside the regions of Subscribe and Close the only effect visible to a thread
outside `mu` is `Impl.Close()` of a transport (read by a concurrent `Recv`); a `Recv` that falls
between the two assignments of a region does not read `closed`/`clientImpl`, so it commutes to before
the region.  `Close` returns to its caller after the deferred Unlock: two transitions (`closeCrit`,
`closeRet`), other threads may run in between.

Query type: Poll (the only one `BaseClient.Poll` accepts, client.go:158): the transport's `Recv` hands
the sync marker to the handler and then returns `ErrStopReading`, which ends `run` with nil.

Hypothesis on the `Impl` (as a gRPC stream, and as `pxrImpl` of go/vcorr/rc_pxr.go): a message received
before `Impl.Close` is still handed out by `Recv` afterwards; `Recv` on a closed transport with nothing
buffered fails; nothing is received on a closed transport; `Recv` on an open transport with nothing
buffered blocks.  The handler returns nil (a handler error ends `run` like a transport failure).
-/
namespace Gnmi
namespace ClientResub

/-- a message of the transport: an update, or the sync marker that ends a Poll answer -/
inductive Msg where
  | upd (n : Nat)
  | sync
  deriving DecidableEq, Repr

structure Transport where
  /-- received, not yet handed out by `Recv` -/
  buf : List Msg := []
  /-- `Impl.Close` was called -/
  closed : Bool := false
  deriving DecidableEq, Repr

/-- what a call returned -/
inductive Res where
  | nil       -- nil
  | err       -- the transport's error
  | errInit   -- ErrClientInit
  deriving DecidableEq, Repr

/-- where a caller is -/
inductive Pc where
  /-- `Subscribe` called, lines 113-139 done: `getFirst` has produced `Impl` number `t`; before `c.mu.Lock()` (140) -/
  | subStart (t : Nat)
  /-- `Poll` called; before `c.Impl()` (154) -/
  | pollStart
  /-- `Poll`: `impl` captured (154-160); before `impl.Poll()` (161) -/
  | pollSend (t : Nat)
  /-- `Close` called; before `c.mu.Lock()` (169) -/
  | closeStart
  /-- `Close`: region 169-175 done (deferred Unlock ran); not yet back in the caller -/
  | closeMid
  /-- `run(impl)`: before `impl.Recv()` (190) -/
  | recv (t : Nat)
  /-- `run(impl)`: inside `impl.Recv()`: message `m` taken, the application's handler is running -/
  | handling (t : Nat) (m : Msg)
  /-- `run(impl)`: `Recv` returned nil (199); before `c.mu.RLock()` (208) -/
  | check (t : Nat)
  /-- the call has returned -/
  | done (r : Res)
  deriving DecidableEq, Repr

/-- the caller has not yet reached `run` (nor returned) -/
def Pc.early : Pc → Bool
  | .subStart _ | .pollStart | .pollSend _ | .closeStart | .closeMid => true
  | _ => false

/-- the transport whose `run` loop the caller is in -/
def Pc.loopOn : Pc → Option Nat
  | .recv t | .handling t _ | .check t => some t
  | _ => none

/-- a call not yet begun (initial configurations) -/
def Pc.isStart : Pc → Bool
  | .subStart _ | .pollStart | .closeStart | .done _ => true
  | _ => false

inductive Ev where
  /-- Subscribe's region 140-147 ran: `t` installed, the previous `Impl` closed, `closed := false` -/
  | install (tid t : Nat)
  /-- the handler is entered with message `m` of transport `t`, by caller `tid` -/
  | deliver (tid t : Nat) (m : Msg)
  /-- Close's region 169-175 ran (with an `Impl` installed) -/
  | closeCrit (tid : Nat)
  /-- that `Close` is back in its caller -/
  | closeRet (tid : Nat)
  /-- any other return -/
  | ret (tid : Nat) (r : Res)
  deriving DecidableEq, Repr

def Ev.isCrit : Ev → Bool | .closeCrit _ => true | _ => false
def Ev.isCloseRet : Ev → Bool | .closeRet _ => true | _ => false
def Ev.isInstall : Ev → Bool | .install _ _ => true | _ => false
def Ev.isDeliverBy (tid : Nat) : Ev → Bool | .deliver i _ _ => i == tid | _ => false
def Ev.isUpdBy (tid : Nat) : Ev → Bool | .deliver i _ (.upd _) => i == tid | _ => false

/-- pointwise update -/
def upd {α : Type} (f : Nat → α) (i : Nat) (a : α) : Nat → α := fun j => if j = i then a else f j

@[simp] theorem upd_same {α : Type} (f : Nat → α) (i : Nat) (a : α) : upd f i a i = a := by simp [upd]
theorem upd_other {α : Type} (f : Nat → α) {i j : Nat} (a : α) (h : j ≠ i) : upd f i a j = f j := by
  simp [upd, h]
theorem upd_apply {α : Type} (f : Nat → α) (i j : Nat) (a : α) : upd f i a j = if j = i then a else f j := rfl

structure Cfg where
  transports : Nat → Transport
  /-- `c.clientImpl` -/
  installed : Option Nat
  /-- `c.closed` -/
  closed : Bool
  threads : Nat → Pc
  /-- newest first -/
  trace : List Ev

/-- `Impl.Close()` of transport `t` (idempotent) -/
def closeT (ts : Nat → Transport) (t : Nat) : Nat → Transport := upd ts t { ts t with closed := true }

/-- `if c.clientImpl != nil { c.clientImpl.Close() }` (142-144) -/
def closeOpt (ts : Nat → Transport) : Option Nat → Nat → Transport
  | none => ts
  | some t => closeT ts t

/-- The test of line 211 on the value read in 208-210.  `mt = false`: the repository (`closed :=
c.closed`).  `mt = true`: seeded change c18_seed10 (`closed := c.closed && c.clientImpl == impl`). -/
def stop (mt : Bool) (c : Cfg) (t : Nat) : Bool :=
  if mt then c.closed && c.installed == some t else c.closed

inductive Label where
  /-- caller `tid` takes its next transition -/
  | t (tid : Nat)
  /-- caller `tid`: `impl.Poll()` fails (the transport is closed) -/
  | failSend (tid : Nat)
  /-- environment: transport `t` receives `m` -/
  | arrive (t : Nat) (m : Msg)
  deriving DecidableEq, Repr

def Label.by : Label → Option Nat
  | .t i | .failSend i => some i
  | .arrive _ _ => none

def Cfg.go (c : Cfg) (tid : Nat) (pc : Pc) : Cfg := { c with threads := upd c.threads tid pc }
def Cfg.ev (c : Cfg) (e : Ev) : Cfg := { c with trace := e :: c.trace }

inductive Step (mt : Bool) : Cfg → Label → Cfg → Prop where
  /-- Subscribe 140-147: `c.mu.Lock(); if c.clientImpl != nil { c.clientImpl.Close() }; c.clientImpl = impl;
  c.closed = false; c.mu.Unlock()`, then `return c.run(impl)` (149) -/
  | subInstall {c tid t} (h : c.threads tid = .subStart t) :
      Step mt c (.t tid)
        { transports := closeOpt c.transports c.installed, installed := some t, closed := false,
          threads := upd c.threads tid (.recv t), trace := .install tid t :: c.trace }
  /-- Poll 154-157: `c.Impl()` finds no Impl: ErrClientInit -/
  | pollNoImpl {c tid} (h : c.threads tid = .pollStart) (hi : c.installed = none) :
      Step mt c (.t tid) ((c.go tid (.done .errInit)).ev (.ret tid .errInit))
  /-- Poll 154: `impl, err := c.Impl()` (region 180-185): the CURRENTLY installed Impl is captured -/
  | pollGet {c tid t} (h : c.threads tid = .pollStart) (hi : c.installed = some t) :
      Step mt c (.t tid) (c.go tid (.pollSend t))
  /-- Poll 161-164: `impl.Poll()` succeeds; `return c.run(impl)` -/
  | pollSendOk {c tid t} (h : c.threads tid = .pollSend t) :
      Step mt c (.t tid) (c.go tid (.recv t))
  /-- Poll 161-163: `impl.Poll()` fails (only on a closed transport) -/
  | pollSendFail {c tid t} (h : c.threads tid = .pollSend t) (hc : (c.transports t).closed = true) :
      Step mt c (.failSend tid) ((c.go tid (.done .err)).ev (.ret tid .err))
  /-- Close 169-173: no Impl: ErrClientInit (`closed` is NOT set) -/
  | closeNoImpl {c tid} (h : c.threads tid = .closeStart) (hi : c.installed = none) :
      Step mt c (.t tid) ((c.go tid (.done .errInit)).ev (.ret tid .errInit))
  /-- Close 169-175: `c.closed = true; c.clientImpl.Close()` under `mu` -/
  | closeCrit {c tid t} (h : c.threads tid = .closeStart) (hi : c.installed = some t) :
      Step mt c (.t tid)
        { c with transports := closeT c.transports t, closed := true,
                 threads := upd c.threads tid .closeMid, trace := .closeCrit tid :: c.trace }
  /-- Close is back in its caller -/
  | closeRet {c tid} (h : c.threads tid = .closeMid) :
      Step mt c (.t tid) ((c.go tid (.done .nil)).ev (.closeRet tid))
  /-- run 190: `impl.Recv()` takes the next buffered message — also after the transport was closed —
  and calls the handler with it -/
  | recvMsg {c tid t m rest} (h : c.threads tid = .recv t) (hb : (c.transports t).buf = m :: rest) :
      Step mt c (.t tid)
        { c with transports := upd c.transports t { c.transports t with buf := rest },
                 threads := upd c.threads tid (.handling t m), trace := .deliver tid t m :: c.trace }
  /-- run 190-195: `impl.Recv()` fails: closed and nothing buffered; `impl.Close(); return err` -/
  | recvFail {c tid t} (h : c.threads tid = .recv t) (hb : (c.transports t).buf = [])
      (hc : (c.transports t).closed = true) :
      Step mt c (.t tid) ((c.go tid (.done .err)).ev (.ret tid .err))
  /-- run 196-198: the handler is back from the sync marker, `Recv` returns ErrStopReading: `return nil` -/
  | handledSync {c tid t} (h : c.threads tid = .handling t .sync) :
      Step mt c (.t tid) ((c.go tid (.done .nil)).ev (.ret tid .nil))
  /-- run 199: the handler is back from an update, `Recv` returns nil -/
  | handledUpd {c tid t n} (h : c.threads tid = .handling t (.upd n)) :
      Step mt c (.t tid) (c.go tid (.check t))
  /-- run 208-213: `closed` read under RLock is set: `return nil` -/
  | checkStop {c tid t} (h : c.threads tid = .check t) (hs : stop mt c t = true) :
      Step mt c (.t tid) ((c.go tid (.done .nil)).ev (.ret tid .nil))
  /-- run 208-214: not set: next iteration -/
  | checkGo {c tid t} (h : c.threads tid = .check t) (hs : stop mt c t = false) :
      Step mt c (.t tid) (c.go tid (.recv t))
  /-- environment: an open transport receives a message -/
  | arrive {c t m} (hc : (c.transports t).closed = false) :
      Step mt c (.arrive t m)
        { c with transports := upd c.transports t { c.transports t with buf := (c.transports t).buf ++ [m] } }

/-- initial configuration: no Impl, `closed = false` (zero value of BaseClient), open transports with
any buffered content, every caller before its call -/
def init (bufs : Nat → List Msg) (prog : Nat → Pc) : Cfg :=
  { transports := fun t => { buf := bufs t }, installed := none, closed := false, threads := prog, trace := [] }

inductive Run (mt : Bool) : Cfg → List Label → Cfg → Prop where
  | nil {c} : Run mt c [] c
  | cons {c l c1 ls c'} : Step mt c l c1 → Run mt c1 ls c' → Run mt c (l :: ls) c'

/-- reachable from an initial configuration whose callers are all before their call -/
inductive Reach (mt : Bool) (bufs : Nat → List Msg) (prog : Nat → Pc) : Cfg → Prop where
  | init : (∀ i, (prog i).isStart = true) → Reach mt bufs prog (init bufs prog)
  | step {c l c'} : Reach mt bufs prog c → Step mt c l c' → Reach mt bufs prog c'

theorem Reach.run {mt bufs prog c ls c'} (h : Reach mt bufs prog c) (hr : Run mt c ls c') :
    Reach mt bufs prog c' := by
  induction hr with
  | nil => exact h
  | cons hs _ ih => exact ih (h.step hs)

theorem Run.append {mt c ls c1 ls' c'} (h1 : Run mt c ls c1) (h2 : Run mt c1 ls' c') :
    Run mt c (ls ++ ls') c' := by
  induction h1 with
  | nil => exact h2
  | cons hs _ ih => exact .cons hs (ih h2)

/-! ## Counting on traces (newest first) -/

/-- handler entries by caller `tid` AFTER the first event satisfying `mk` -/
def afterMk (mk : Ev → Bool) (tid : Nat) : List Ev → Nat
  | [] => 0
  | e :: tr => afterMk mk tid tr + (if tr.any mk && e.isDeliverBy tid then 1 else 0)

/-- handler entries by `tid` after the first `Close` returned -/
def afterCloseReturned (tid : Nat) (tr : List Ev) : Nat := afterMk Ev.isCloseRet tid tr

/-- some Subscribe installed an Impl after the critical section of the first effective `Close` -/
def installAfterClose : List Ev → Bool
  | [] => false
  | e :: tr => installAfterClose tr || (tr.any Ev.isCrit && e.isInstall)

/-! ## Executable transition function (for decided witnesses and the driver) -/

def stepFn (mt : Bool) (c : Cfg) : Label → Option Cfg
  | .t tid =>
      match c.threads tid with
      | .subStart t =>
          some { transports := closeOpt c.transports c.installed, installed := some t, closed := false,
                 threads := upd c.threads tid (.recv t), trace := .install tid t :: c.trace }
      | .pollStart =>
          match c.installed with
          | none => some ((c.go tid (.done .errInit)).ev (.ret tid .errInit))
          | some t => some (c.go tid (.pollSend t))
      | .pollSend t => some (c.go tid (.recv t))
      | .closeStart =>
          match c.installed with
          | none => some ((c.go tid (.done .errInit)).ev (.ret tid .errInit))
          | some t =>
              some { c with transports := closeT c.transports t, closed := true,
                            threads := upd c.threads tid .closeMid, trace := .closeCrit tid :: c.trace }
      | .closeMid => some ((c.go tid (.done .nil)).ev (.closeRet tid))
      | .recv t =>
          match (c.transports t).buf with
          | m :: rest =>
              some { c with transports := upd c.transports t { c.transports t with buf := rest },
                            threads := upd c.threads tid (.handling t m), trace := .deliver tid t m :: c.trace }
          | [] => if (c.transports t).closed then some ((c.go tid (.done .err)).ev (.ret tid .err)) else none
      | .handling _ .sync => some ((c.go tid (.done .nil)).ev (.ret tid .nil))
      | .handling t (.upd _) => some (c.go tid (.check t))
      | .check t =>
          if stop mt c t then some ((c.go tid (.done .nil)).ev (.ret tid .nil)) else some (c.go tid (.recv t))
      | .done _ => none
  | .failSend tid =>
      match c.threads tid with
      | .pollSend t =>
          if (c.transports t).closed then some ((c.go tid (.done .err)).ev (.ret tid .err)) else none
      | _ => none
  | .arrive t m =>
      if (c.transports t).closed then none
      else some { c with transports := upd c.transports t { c.transports t with buf := (c.transports t).buf ++ [m] } }

theorem stepFn_sound {mt : Bool} {c : Cfg} {l : Label} {c' : Cfg} (h : stepFn mt c l = some c') :
    Step mt c l c' := by
  cases l with
  | t tid =>
      simp only [stepFn] at h
      split at h
      · cases h; exact .subInstall (by assumption)
      · split at h
        · cases h; exact .pollNoImpl (by assumption) (by assumption)
        · cases h; exact .pollGet (by assumption) (by assumption)
      · cases h; exact .pollSendOk (by assumption)
      · split at h
        · cases h; exact .closeNoImpl (by assumption) (by assumption)
        · cases h; exact .closeCrit (by assumption) (by assumption)
      · cases h; exact .closeRet (by assumption)
      · split at h
        · cases h; exact .recvMsg (by assumption) (by assumption)
        · split at h
          · cases h; exact .recvFail (by assumption) (by assumption) (by assumption)
          · cases h
      · cases h; exact .handledSync (by assumption)
      · cases h; exact .handledUpd (by assumption)
      · split at h
        · cases h; exact .checkStop (by assumption) (by assumption)
        · cases h; exact .checkGo (by assumption) (Bool.eq_false_iff.mpr ‹¬ _›)
      · cases h
  | failSend tid =>
      simp only [stepFn] at h
      split at h
      · split at h
        · cases h; exact .pollSendFail (by assumption) (by assumption)
        · cases h
      · cases h
  | arrive t m =>
      simp only [stepFn] at h
      split at h
      · cases h
      · cases h; exact .arrive (Bool.eq_false_iff.mpr ‹¬ _›)

/-- run a schedule; `none` if some transition is not enabled -/
def runFn (mt : Bool) : Cfg → List Label → Option Cfg
  | c, [] => some c
  | c, l :: ls => match stepFn mt c l with
      | some c1 => runFn mt c1 ls
      | none => none

theorem runFn_sound {mt : Bool} : ∀ {ls : List Label} {c c' : Cfg}, runFn mt c ls = some c' → Run mt c ls c'
  | [], c, c', h => by simp [runFn] at h; cases h; exact .nil
  | l :: ls, c, c', h => by
      simp only [runFn] at h
      split at h
      · exact .cons (stepFn_sound (by assumption)) (runFn_sound h)
      · cases h

/-! ## The schedule of go/vcorr/rc_pxr.go

Callers: 0 = Subscribe #1 (transport 0), 1 = Poll, 2 = Subscribe #2 (transport 1), 3 = Close.
Transport 0 has received the sync marker of Subscribe #1, then the `k` updates and the sync marker of the
poll answer; transport 1 the sync marker of Subscribe #2. -/

/-- when `Close` is called relative to the second Subscribe -/
inductive Where where
  | mid     -- Subscribe #2, then Close (steps 3, 4 of rc_pxr.go)
  | before  -- Close first; the second Subscribe is then not made
  | none    -- no second Subscribe
  | after   -- Close (returned) first, THEN Subscribe #2: outside the hypothesis of `after_close_at_most_one`
  deriving DecidableEq, Repr

def pxrBufs (k : Nat) : Nat → List Msg
  | 0 => .sync :: ((List.range k).map .upd ++ [.sync])
  | 1 => [.sync]
  | _ => []

def pxrProg : Nat → Pc
  | 0 => .subStart 0
  | 1 => .pollStart
  | 2 => .subStart 1
  | 3 => .closeStart
  | _ => .done .nil

/-- let caller `tid` run until it has returned or is not enabled (fuel: more than it can need) -/
def drain (mt : Bool) (tid : Nat) : Nat → Cfg → List Label → Cfg × List Label
  | 0, c, acc => (c, acc)
  | fuel + 1, c, acc =>
      match c.threads tid with
      | .done _ => (c, acc)
      | _ => match stepFn mt c (.t tid) with
          | some c1 => drain mt tid fuel c1 (acc ++ [.t tid])
          | none => (c, acc)

/-- steps 1-5 of rc_pxr.go as a schedule (list of labels), computed along the model -/
def pxrSchedule (mt : Bool) (k : Nat) (w : Where) : List Label :=
  let c0 := init (pxrBufs k) pxrProg
  -- 1. Subscribe #1: install, Recv sync, handler, return nil
  let (c1, l1) := drain mt 0 8 c0 []
  -- 2. Poll: c.Impl(), impl.Poll(), Recv of the first update: the handler is entered and held
  let l2 := [Label.t 1, .t 1, .t 1]
  let c2 := (runFn mt c1 l2).getD c1
  -- 3. Subscribe #2 (mid only): install transport 1 (closing transport 0), Recv sync, handler, return nil
  let (c3, l3) := match w with
    | .mid => drain mt 2 8 c2 []
    | _ => (c2, [])
  -- 4. Close is called and returns
  let (c4, l4) := drain mt 3 4 c3 []
  -- 4'. (after only) Subscribe #2 now: `closed := false` again
  let (c4, l4) := match w with
    | .after => let (c', l') := drain mt 2 8 c4 []; (c', l4 ++ l')
    | _ => (c4, l4)
  -- 5. the handler is let go: the Poll caller runs until it returns
  let (_, l5) := drain mt 1 (3 * k + 8) c4 []
  l1 ++ l2 ++ l3 ++ l4 ++ l5

/-- final configuration of the scenario -/
def pxrFinal (mt : Bool) (k : Nat) (w : Where) : Option Cfg :=
  runFn mt (init (pxrBufs k) pxrProg) (pxrSchedule mt k w)

/-- updates that reached the handler from caller `tid` after the first Close returned -/
def updAfterClose (tid : Nat) : List Ev → Nat
  | [] => 0
  | e :: tr => updAfterClose tid tr + (if tr.any Ev.isCloseRet && e.isUpdBy tid then 1 else 0)

/-- all updates that reached the handler from caller `tid` -/
def updTotal (tid : Nat) (tr : List Ev) : Nat := (tr.filter (Ev.isUpdBy tid)).length

def allDone (c : Cfg) (n : Nat) : Bool := (List.range n).all fun i => match c.threads i with | .done _ => true | _ => false

/-- the observation of `rc new pxr <k> <where>`: (every call made has returned, updates of the Poll caller
that entered the handler after Close returned, all its updates);
`none`: not a run of the LTS -/
def pxrObs (mt : Bool) (k : Nat) (w : Where) : Option (Bool × Nat × Nat) :=
  match pxrFinal mt k w with
  | none => none
  | some c =>
      let a := updAfterClose 1 c.trace
      let callers := match w with | .mid | .after => [0, 1, 2, 3] | _ => [0, 1, 3]
      let returned := callers.all fun i => match c.threads i with | .done _ => true | _ => false
      some (returned, a, updTotal 1 c.trace)

end ClientResub
end Gnmi
