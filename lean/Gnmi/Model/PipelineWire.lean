import Gnmi.Model.WireIngest
import Gnmi.Spec.Relay
/-!
# The collector pipeline on protobuf-shaped messages (property C01): definitions

`Model/Pipeline.lean` runs on notifications in *index form* (`Cache.Noti`); what a target really
streams are decoded protobuf messages (`RX.Response`: `Elem` vs deprecated `Element`, key maps in any
iteration order, origin in prefix or path, every `TypedValue` arm).  This file assembles the run of
the same pipeline **at wire level** out of the existing models —

* `Wire.mgrRecv … .collector` (`Model/WireIngest.lean`): `manager.handleGNMIUpdate` and the
  collector's callbacks on a decoded response: the `Update` closure stamps the protobuf prefix
  (`Wire.stampWire`) and calls `Cache.GnmiUpdate` on the message (`Wire.wireGnmiUpdate`, nil checks
  included), `Sync = cache.Sync`;
* `Pipeline.Sys.connect`, `Sub.feed`, `Sub.subscribe`, `Sys.reset`, `Sys.connectError` as they are

— and the wire-level reading of a target's state (`wfinalView`: key = `origin-or-"openconfig" ::
ToStrings(prefix) ++ ToStrings(path)` ↦ (timestamp, `TypedValue`)).  Executed by the `e2ew` driver
component (`Driver/E2EW.lean`); theorems in `Lemmas/PipelineWire.lean`, `Props/C01Wire.lean`
(`wire_run_is_index_run`: this run *is* `Pipeline.Sys.run` on the `Wire.toNoti`-translated responses).

Core Lean only (compiled into the driver).
-/
namespace Gnmi
namespace PW
open Gnmi.PV (GPath PathElem TV FloatOps Bytes toStrings getOrigin)
open Gnmi.RX (Notification Update Response Outcome)
open Gnmi.Cache (Noti Upd Del Val State Res Event)
open Gnmi.Wire
open Gnmi.Pipeline
open Gnmi.Relay (View)

variable {F D : Type} [FloatBits F D]

/-! ## 1. the translation of a response, and the wire-level run -/

/-- a decoded `SubscribeResponse` as `Model/Pipeline.lean` reads it (`manager.handleGNMIUpdate`:
unset oneof = "nil Response"; the two shapes `proto.Unmarshal` cannot produce are mapped to the
logged arm too — the theorems exclude them) -/
def toItem (enc : String → String) : Response F D → TItem
  | .update (some n) => .update (toNoti enc n).1 (toNoti enc n).2
  | .update none => .nilResponse
  | .sync _ => .sync
  | .error _ => .error
  | .unset => .nilResponse
  | .nilMsg => .nilResponse

/-- `handleUpdates` for one decoded response with the collector's callbacks; the feed events reach
the subscribers (`Pipeline.Sys.deliver` at wire level) -/
def wdeliver (enc : String → String) (now : Int) (s : Sys) (name : String) (r : Response F D) : Sys :=
  if s.crashed then s else
  match mgrRecv enc .collector now name s.sub.cache r with
  | .panic => { s with crashed := true }
  | .err _ => s
  | .ok (_, c, evs) => { s with sub := Sub.feed { s.sub with cache := c } evs }

/-- `Pipeline.Sys.recv` at wire level -/
def wrecv (enc : String → String) (now : Int) (s : Sys) (name : String) (first : Bool) (r : Response F D) : Sys :=
  wdeliver enc now (if first then s.connect enc now name else s) name r

/-- one global step of a wire-level run (`Pipeline.Step` with a decoded response) -/
inductive WStep (F D : Type) where
  | recv (name : String) (first : Bool) (now : Int) (r : Response F D)
  | subscribe (id target : String) (queries : List Path)

/-- … with session restarts (`Pipeline.StepR`) -/
inductive WStepR (F D : Type) where
  | step (st : WStep F D)
  | reset (name : String) (now : Int)
  | connectError (name msg : String) (now : Int)

def WStep.toStep (enc : String → String) : WStep F D → Step
  | .recv name first now r => .recv name first now (toItem enc r)
  | .subscribe id target queries => .subscribe id target queries

def WStepR.toStepR (enc : String → String) : WStepR F D → StepR
  | .step st => .step (st.toStep enc)
  | .reset name now => .reset name now
  | .connectError name msg now => .connectError name msg now

def wstep (enc : String → String) (s : Sys) : WStep F D → Sys
  | .recv name first now r => wrecv enc now s name first r
  | .subscribe id target queries => s.step enc (.subscribe id target queries)

def wstepR (enc : String → String) (s : Sys) : WStepR F D → Sys
  | .step st => wstep enc s st
  | .reset name now => s.reset enc now name
  | .connectError name msg now => s.connectError enc now name msg

/-- a run of the collector on decoded messages -/
def wrun (enc : String → String) (s : Sys) (steps : List (WStep F D)) : Sys := steps.foldl (wstep enc) s

def wrunR (enc : String → String) (s : Sys) (steps : List (WStepR F D)) : Sys := steps.foldl (wstepR enc) s

/-- the steps of one target's wire-level session (`Pipeline.sessionSteps`) -/
def wsessionSteps (name : String) (items : List (Int × Response F D)) : List (WStep F D) :=
  items.zipIdx.map (fun x => WStep.recv name (x.2 == 0) x.1.1 x.1.2)

/-- the rendering of the `e=…;l=…` half of a prefix -/
def tailOf (enc : String → String) (p : GPath) : String :=
  ";e=" ++ ",".intercalate (p.elem.map (rawElem enc)) ++ ";l=" ++ ",".intercalate (p.element.map enc)

/-- does `Pipeline.rawTail` (a `String.splitOn ";"`) find the element half of the rendering of this
prefix?  (The hypothesis `PW.TailOK` of `C01W.wire_run_is_index_run`, as a Boolean: true whenever
`enc` emits no `;`.) -/
def tailOKb (enc : String → String) : Option GPath → Bool
  | none => true
  | some p => Pipeline.rawTail (rawPath enc (some p)) == tailOf enc p

/-- `Sys.deliver` of an update on an already stamped index-form notification -/
def deliverStamped (now : Int) (s : Sys) (N : Noti) : Sys :=
  if s.crashed then s else
  if (s.sub.cache.gnmiUpdate now false N).1 = .panic then { s with crashed := true }
  else { s with sub := Sub.feed { s.sub with cache := (s.sub.cache.gnmiUpdate now false N).2.1 }
                         (Cache.flattenGroups (s.sub.cache.gnmiUpdate now false N).2.2) }

/-! ## the target's state in wire terms


A target's **wire-level view**: key ↦ (timestamp, `TypedValue`), the key being
`origin-or-"openconfig" :: ToStrings(prefix, false) ++ ToStrings(path, false)` computed with the model
of `path.ToStrings` that C19 is about.  Its image under `Wire.toVal` is `Relay.finalView` of the
translated stream (`absView_wfinalView`). -/

abbrev WView (F D : Type) := List (Path × (Int × TV F D))

def originOr (o : String) : String := if o = "" then Pipeline.defaultOrigin else o

/-- the key of path `p` under prefix `pfx`, from the protobuf messages -/
def wkey (pfx p : Option GPath) : Path := originOr (getOrigin pfx) :: (toStrings pfx false ++ toStrings p false)

def WView.set (v : WView F D) (k : Path) (ts : Int) (tv : TV F D) : WView F D :=
  (k, (ts, tv)) :: v.filter (fun kv => kv.1 != k)

def WView.remove (v : WView F D) (q : Path) : WView F D := v.filter (fun kv => !qmatches q kv.1)

/-- path and value of an entry of `Notification.Update` (a nil entry — not WireValid — reads as the
empty path without value, as `Wire.toUpd` has it) -/
def updPath : Option (Update F D) → Option GPath
  | none => none
  | some u => u.path

def updTV : Option (Update F D) → TV F D
  | none => .nilMsg
  | some u => u.val

def wapplyUpdates (n : Notification F D) : List (Option (Update F D)) → WView F D → WView F D
  | [], v => v
  | u :: us, v => wapplyUpdates n us (v.set (wkey n.pfx (updPath u)) n.ts (updTV u))

def wapplyDeletes (n : Notification F D) : List (Option GPath) → WView F D → WView F D
  | [], v => v
  | d :: ds, v => wapplyDeletes n ds (v.remove (wkey n.pfx d))

def wapplyItem (v : WView F D) : Response F D → WView F D
  | .update (some n) => wapplyDeletes n n.delete (wapplyUpdates n n.update v)
  | _ => v

/-- the view a wire-level stream describes -/
def wfinalView (rs : List (Response F D)) : WView F D := rs.foldl wapplyItem []

/-- what the cache model reads of a wire-level view -/
def absView (enc : String → String) (v : WView F D) : View := v.map (fun kv => (kv.1, (kv.2.1, toVal enc kv.2.2)))

/-- the responses target `name` streamed during a wire-level run -/
def witemsOf (name : String) : List (WStep F D) → List (Response F D)
  | [] => []
  | .recv n _ _ r :: rest => if n = name then r :: witemsOf name rest else witemsOf name rest
  | .subscribe _ _ _ :: rest => witemsOf name rest

def wsenders : List (WStep F D) → List String
  | [] => []
  | .recv n _ _ _ :: r => n :: wsenders r
  | .subscribe _ _ _ :: r => wsenders r

end PW
end Gnmi
