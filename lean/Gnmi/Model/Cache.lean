import Gnmi.Spec.PMap
/-!
# Model of `cache/cache.go` (per-target cache, metadata counters, change feed)

The per-target tree is modelled by its abstract specification `PMap` (prefix-free map,
`Spec/PMap.lean`), which `Props/C09.history_refinement` proves `ctree` refines.
A notification is reduced to what the cache reads: timestamp, prefix (target, origin,
index elements), atomic flag, updates (path index, value) and deletes, plus *raw*
renderings of the prefix / update / delete messages which stand for `proto.Equal`
(two messages are `proto.Equal` iff their raw renderings are equal: the harness renders
every field canonically).  Clock readings are explicit arguments (`now`).

Each function follows the Go function of the same name arm by arm, including side
effects that happen *before* a rejection (metadata writes for `md/...` updates).
-/
namespace Gnmi
namespace Cache

/-! ## Values (`gnmi.TypedValue`) and `value.Equal` -/

inductive Scalar where
  | unset                                -- TypedValue with no oneof arm set
  | str (s : String) | int (i : Int) | uint (n : Nat) | bool (b : Bool)
  | bytes (hex : String)
  | double (bits : Nat) | float (bits : Nat)
  | decimal (digits : Int) (prec : Nat)
  | other (tag : String) (digest : String)    -- json, json_ietf, ascii, any, proto_bytes, nested lists
deriving DecidableEq, Repr, Inhabited

inductive Val where
  | absent                               -- `Update.Val == nil`
  | scalar (s : Scalar)
  | leaflist (l : List Scalar)
deriving DecidableEq, Repr, Inhabited

def isNaNBits (expBits manBits x : Nat) : Bool :=
  (x &&& ((2 ^ expBits - 1) * 2 ^ manBits)) == ((2 ^ expBits - 1) * 2 ^ manBits) &&
  (x &&& (2 ^ manBits - 1)) != 0

def isZeroBits (expBits manBits x : Nat) : Bool :=
  (x &&& ((2 ^ expBits - 1) * 2 ^ manBits + (2 ^ manBits - 1))) == 0

/-- IEEE equality on bit patterns: NaN is unequal to everything, `+0 = -0`. -/
def floatBitsEq (expBits manBits : Nat) (a b : Nat) : Bool :=
  if isNaNBits expBits manBits a || isNaNBits expBits manBits b then false
  else if isZeroBits expBits manBits a && isZeroBits expBits manBits b then true
  else a == b

/-- `value.Equal` on two set oneofs -/
def scalarEqual : Scalar → Scalar → Bool
  | .str a, .str b => a == b
  | .int a, .int b => a == b
  | .uint a, .uint b => a == b
  | .bool a, .bool b => a == b
  | .bytes a, .bytes b => a == b
  | .double a, .double b => floatBitsEq 11 52 a b
  | .float a, .float b => floatBitsEq 8 23 a b
  | .decimal d p, .decimal d' p' => d == d' && p == p'
  | _, _ => false          -- unset / other arms "are not considered"; arm mismatch

def scalarsEqual : List Scalar → List Scalar → Bool
  | [], [] => true
  | a :: as, b :: bs => scalarEqual a b && scalarsEqual as bs
  | _, _ => false

/-- `value.Equal(a, b)` -/
def valueEqual : Val → Val → Bool
  | .scalar a, .scalar b => scalarEqual a b
  | .leaflist a, .leaflist b => scalarsEqual a b
  | _, _ => false

/-! ## Notifications -/

structure Upd where
  origin : String := ""     -- origin of the update path (not part of the index)
  path : Path := []         -- `ToStrings(path, false)`
  val : Val := .absent
  raw : String := ""        -- canonical rendering of the whole `Update` message
deriving DecidableEq, Repr, Inhabited

structure Del where
  origin : String := ""
  path : Path := []
  raw : String := ""
deriving DecidableEq, Repr, Inhabited

structure Noti where
  ts : Int := 0
  target : String := ""     -- prefix target
  origin : String := ""     -- prefix origin
  pfx : Path := []          -- index of the prefix elements
  praw : String := ""       -- canonical rendering of the prefix message
  atomic : Bool := false
  upd : List Upd := []
  del : List Del := []
deriving DecidableEq, Repr, Inhabited

/-- `proto.Equal(a, b)` on notifications -/
def Noti.same (a b : Noti) : Bool :=
  a.ts == b.ts && a.praw == b.praw && a.atomic == b.atomic &&
  a.upd.map (·.raw) == b.upd.map (·.raw) && a.del.map (·.raw) == b.del.map (·.raw)

def metaRoot : String := "meta"

/-- `joinPrefixAndPath(n.Prefix, suffix)`: `ToStrings(prefix, true) ++ ToStrings(suffix, false)`
without its first element (`p[1:]`, the target).  `none` = the slice expression panics
(nothing to drop: no target, no origin, no element). -/
def joinKey? (n : Noti) (suffix : Path) : Option Path :=
  match (if n.target = "" then [] else [n.target]) ++ (if n.origin = "" then [] else [n.origin]) ++
      n.pfx ++ suffix with
  | [] => none
  | _ :: r => some r

/-- the joined index when the prefix names a target (the only way through `Cache.GnmiUpdate`) -/
def joinKey (n : Noti) (suffix : Path) : Path :=
  (if n.origin = "" then [] else [n.origin]) ++ n.pfx ++ suffix

theorem joinKey?_eq (n : Noti) (suffix : Path) (h : n.target ≠ "") :
    joinKey? n suffix = some (joinKey n suffix) := by
  simp [joinKey?, joinKey, h]

/-- index path of the leaf an update of `n` is stored under -/
def updKey (n : Noti) (u : Upd) : Path := joinKey n (if n.atomic then [] else u.path)
def updKey? (n : Noti) (u : Upd) : Option Path := joinKey? n (if n.atomic then [] else u.path)

/-! ## Feed events -/

inductive Event where
  | upd (n : Noti)                                            -- the leaf's notification
  | del (target origin : String) (path : Path) (ts : Int)     -- a delete notification
deriving DecidableEq, Repr, Inhabited

/-- the subscriber-side index of an event (what `subscribe`/`client` key it by) -/
def subIndex (target origin : String) (p : Path) : Path :=
  target :: ((if origin = "" then [] else [origin]) ++ p)

/-- `toDeleteNotification(d, ts)` for a removed leaf holding `d`; `none` = `d.Update[0]` panics -/
def toDeleteEvent? (d : Noti) (ts : Int) : Option Event :=
  match d.upd with
  | [] => none
  | u :: _ =>
    let origin := if d.origin = "" && u.origin != "" then u.origin else d.origin
    some (.del d.target origin (d.pfx ++ (if d.atomic then [] else u.path)) ts)

/-! ## Metadata -/

structure Meta where
  sync : Bool := false
  connected : Bool := false
  added : Int := 0
  deleted : Int := 0
  empty : Int := 0
  leaves : Int := 0
  updated : Int := 0
  stale : Int := 0
  future : Int := 0
  suppressed : Int := 0
  size : Int := 0
  latest : Int := 0
  connectedAddr : String := ""
  connectError : Option String := none
deriving DecidableEq, Repr, Inhabited

def boolNames : List String := ["sync", "connected"]
def intNames : List String :=
  ["targetLeavesAdded", "targetLeavesDeleted", "targetLeavesEmpty", "targetLeaves",
   "targetLeavesUpdated", "targetLeavesStale", "targetLeavesFuture", "targetLeavesSuppressed",
   "targetSize", "latestTimestamp"]
def strNames : List String := ["connectedAddress", "connectError"]

def Meta.getBool (m : Meta) (name : String) : Option Bool :=
  if name = "sync" then some m.sync else if name = "connected" then some m.connected else none

def Meta.getInt (m : Meta) (name : String) : Option Int :=
  if name = "targetLeavesAdded" then some m.added
  else if name = "targetLeavesDeleted" then some m.deleted
  else if name = "targetLeavesEmpty" then some m.empty
  else if name = "targetLeaves" then some m.leaves
  else if name = "targetLeavesUpdated" then some m.updated
  else if name = "targetLeavesStale" then some m.stale
  else if name = "targetLeavesFuture" then some m.future
  else if name = "targetLeavesSuppressed" then some m.suppressed
  else if name = "targetSize" then some m.size
  else if name = "latestTimestamp" then some m.latest
  else none

def Meta.getStr (m : Meta) (name : String) : Option String :=
  if name = "connectedAddress" then some m.connectedAddr
  else if name = "connectError" then m.connectError
  else none

/-- `Metadata.ResetEntry` -/
def Meta.resetEntry (m : Meta) (name : String) : Meta :=
  if name = "sync" then { m with sync := false }
  else if name = "connected" then { m with connected := false }
  else if name = "targetLeavesAdded" then { m with added := 0 }
  else if name = "targetLeavesDeleted" then { m with deleted := 0 }
  else if name = "targetLeavesEmpty" then { m with empty := 0 }
  else if name = "targetLeaves" then { m with leaves := 0 }
  else if name = "targetLeavesUpdated" then { m with updated := 0 }
  else if name = "targetLeavesStale" then { m with stale := 0 }
  else if name = "targetLeavesFuture" then { m with future := 0 }
  else if name = "targetLeavesSuppressed" then { m with suppressed := 0 }
  else if name = "targetSize" then { m with size := 0 }
  else if name = "latestTimestamp" then { m with latest := 0 }
  else if name = "connectedAddress" then { m with connectedAddr := "" }
  else if name = "connectError" then { m with connectError := none }
  else m

/-- `Metadata.Clear` (= `metadata.New()`'s initial state) -/
def Meta.clear : Meta := {}

/-! ## Targets -/

structure Cfg where
  futureThr : Int := 0
  eventDriven : Bool := true
  excluded : List String := []
  /-- `cache.WithServerName`: when non-empty, `cache.New` registers the `serverName` string
  metadata (`ResetAction: Keep`) and `Cache.Add` sets it on every new target -/
  serverName : String := ""
deriving Repr, Inhabited

structure Target where
  name : String
  tree : PMap Noti := []
  sync : Bool := false            -- `Target.sync`
  latest : Option Int := none     -- `Target.ts`; `none` = the zero `time.Time`
  md : Meta := {}
  /-- `meta.valuesStr["serverName"]`: the one string of the metadata object that is registered with
  `ResetAction: Keep`.  It is held beside `md` because `Metadata.Clear` (`md := Meta.clear`) leaves it
  alone (`Props/C14Meta.clear_abs`, `keep_survives`); `none` = not registered / never set (the cache
  was created without `WithServerName`). -/
  serverName : Option String := none
deriving Repr, Inhabited

inductive Res where
  | ok | stale | future | err
  | panic          -- a Go run-time panic (index out of range, nil dereference, failed assertion)
deriving DecidableEq, Repr, Inhabited

/-- a non-nil `error` was returned (or the call did not return at all) -/
def Res.isErr : Res → Bool
  | .ok => false
  | _ => true

/-- `time.Time{}.UnixNano()` as Go computes it (the value exported while nothing was accepted) -/
def zeroUnixNano : Int := -6795364578871345152

def lookup (m : PMap Noti) (p : Path) : Option Noti :=
  (m.find? (fun kv => kv.1 == p)).map (·.2)

/-- `Leaf.Update(n)` on the existing leaf at `p` -/
def setLeaf (m : PMap Noti) (p : Path) (n : Noti) : PMap Noti :=
  m.map (fun kv => if kv.1 == p then (kv.1, n) else kv)

/-- the metadata side effects of an update under `meta/` (before the leaf is looked up);
`none` = the update is rejected with an error -/
def metaSideEffect (t : Target) (name : String) (v : Val) : Option Target :=
  if name = "sync" then
    match v with
    | .scalar (.bool b) => some { t with sync := b, md := { t.md with sync := b } }
    | _ => none
  else if name = "connected" then
    match v with
    | .scalar (.bool b) => some { t with md := { t.md with connected := b } }
    | _ => none
  else if name = "connectedAddress" then
    match v with
    | .scalar (.str s) => some { t with md := { t.md with connectedAddr := s } }
    | _ => none
  else if name = "connectError" then
    match v with
    | .scalar (.str s) => some { t with md := { t.md with connectError := some s } }
    | _ => none
  else some t

/-- The timestamp discipline for an update to an *existing* leaf (the `switch` in
`gnmiUpdate`). -/
inductive Verdict where
  | stale | future | accept
deriving DecidableEq, Repr

def verdict (cfg : Cfg) (now : Int) (latest : Option Int) (old n : Noti) : Verdict :=
  if n.ts < old.ts then .stale
  else if n.ts = old.ts then (if old.same n then .stale else .accept)
  else if cfg.futureThr > 0 ∧ n.ts - now > cfg.futureThr then
    match latest with
    | none => .accept                                  -- first accepted update
    | some l =>
      if l ≤ 0 then .accept
      else if n.ts - l ≤ cfg.futureThr then .accept
      else .future
  else .accept

/-- `gnmiUpdate` after the path checks and metadata side effects: update the existing leaf at
`path` or add a new one.  `u` is `n.Update[0]`. -/
def updateCore (cfg : Cfg) (now : Int) (t : Target) (realData : Bool) (path : Path) (n : Noti) (u : Upd) :
    Res × Target × Option Noti :=
  match lookup t.tree path with
  | some old =>
    match verdict cfg now t.latest old n with
    | .stale => (.stale, { t with md := { t.md with stale := t.md.stale + 1 } }, none)
    | .future => (.future, { t with md := { t.md with future := t.md.future + 1 } }, none)
    | .accept =>
      let t := { t with tree := setLeaf t.tree path n }
      if n.atomic || old.atomic then (.ok, t, some n)
      else
        match old.upd with
        | [] => (.panic, t, none)                                -- old.Update[0]
        | ou :: _ =>
          if valueEqual ou.val u.val && cfg.eventDriven then
            (.ok, { t with md := { t.md with suppressed := t.md.suppressed + 1 } }, none)
          else (.ok, t, some n)
  | none =>
    match PMap.add t.tree path n with
    | none => (.err, t, none)                                    -- collision with a leaf / branch
    | some tree' =>
      let t := { t with tree := tree' }
      let t := if realData then
        { t with md := { t.md with leaves := t.md.leaves + 1, added := t.md.added + 1 } }
        else t
      (.ok, t, some n)

/-- the checks on a non-empty joined path `h :: rest`: metadata paths need a second element and
apply their side effect first; `none` = rejected with an error.  The flag is `realData`. -/
def metaPre (t : Target) (h : String) (rest : Path) (v : Val) : Option (Target × Bool) :=
  if h = metaRoot then
    match rest with
    | [] => none                                                 -- "meta" alone
    | name :: _ => (metaSideEffect t name v).map (fun t' => (t', false))
  else some (t, true)

/-- `Target.gnmiUpdate(n)`: `n` carries the update to apply as its first update
(`n.Update[0]`: a notification without updates makes the index expression panic).
Returns the result, the new target and the leaf handed to the feed (if any). -/
def Target.gnmiUpdate1 (cfg : Cfg) (now : Int) (t : Target) (n : Noti) : Res × Target × Option Noti :=
  match n.upd with
  | [] => (.panic, t, none)                                          -- n.Update[0]
  | u :: _ =>
  match updKey? n u with
  | none => (.panic, t, none)                                        -- p[1:] on an empty slice
  | some [] => (.err, t, none)                                       -- empty path
  | some (h :: rest) =>
    match metaPre t h rest u.val with
    | none => (.err, t, none)
    | some (t', realData) => updateCore cfg now t' realData (h :: rest) n u

def isMetaKey (p : Path) : Bool :=
  match p with
  | h :: _ => h == metaRoot
  | [] => false

def allSome {α : Type} : List (Option α) → Option (List α)
  | [] => some []
  | none :: _ => none
  | some a :: r => (allSome r).map (a :: ·)

/-- the delete condition of `gnmiRemove`: stored timestamp strictly older -/
def olderThan (ts : Int) (v : Noti) : Bool := decide (v.ts < ts)

/-- a delete addressed below `meta/<name>` resets that metadata entry first, unless it is one of
the counters the cache maintains itself (`metadata.TargetIntValues`) -/
def resetMetaFor (t : Target) (path : Path) : Target :=
  match path with
  | h :: name :: _ =>
    if h = metaRoot ∧ ¬ intNames.contains name then { t with md := t.md.resetEntry name } else t
  | _ => t

/-- `WalkDeleted(path, older, f)` and the bookkeeping after it.  The last component is `true`
when a Go panic is reached (`d.Update[0]` in the callback). -/
def removeCore (t : Target) (ts : Int) (path : Path) : Target × List Event × Bool :=
  let r := PMap.delete (olderThan ts) t.tree path
  match r.2 with
  | [] => (t, [], false)
  | x :: xs =>
    match allSome ((x :: xs).map (fun kv => toDeleteEvent? kv.2 ts)) with
    | none => ({ t with tree := r.1 }, [], true)
    | some evs =>
      let cnt : Int := (((x :: xs).filter (fun kv => !isMetaKey kv.1)).length : Nat)
      ({ t with tree := r.1,
                md := { t.md with leaves := t.md.leaves - cnt, deleted := t.md.deleted + cnt } },
       evs, false)

/-- `Target.gnmiRemove(n)`: `n` carries the delete to apply as its first delete
(`n.Delete[0]`).  The last component is `true` when a Go panic is reached. -/
def Target.gnmiRemove1 (t : Target) (n : Noti) : Target × List Event × Bool :=
  match n.del with
  | [] => (t, [], true)                                              -- n.Delete[0]
  | d :: _ =>
  match joinKey? n d.path with
  | none => (t, [], true)                                            -- p[1:] on an empty slice
  | some path => removeCore (resetMetaFor t path) n.ts path

/-- `checkTimestamp` -/
def Target.checkTimestamp (t : Target) (ts : Int) : Target :=
  match t.latest with
  | none => { t with latest := some ts }
  | some l => if ts > l then { t with latest := some ts } else t

/-- does the deferred `checkTimestamp` apply to `n` (first update not under `meta`)?
`none` = evaluating the condition panics (`p[1:]`). -/
def tracksTimestamp? (n : Noti) : Option Bool :=
  match n.upd with
  | u :: _ =>
    match updKey? n u with
    | none => none
    | some (h :: _) => some (h != metaRoot)
    | some [] => some false
  | [] => some false

structure MultiAcc where
  anyErr : Bool := false
  anyOk : Bool := false
  panicked : Bool := false
  t : Target
  evs : List (List Event) := []

/-- the loop over the updates of a multi-update notification -/
def multiUpdates (cfg : Cfg) (now : Int) (hdr : Noti) : List Upd → MultiAcc → MultiAcc
  | [], acc => acc
  | u :: us, acc =>
    if acc.panicked then acc else
    let r := Target.gnmiUpdate1 cfg now acc.t { hdr with upd := [u], del := [] }
    if r.1 = .panic then { acc with panicked := true, t := r.2.1 }
    else if r.1.isErr then multiUpdates cfg now hdr us { acc with anyErr := true, t := r.2.1 }
    else
      match r.2.2 with
      | some nd =>
        let t := { r.2.1 with md := { r.2.1.md with updated := r.2.1.md.updated + 1 } }
        multiUpdates cfg now hdr us { acc with anyOk := true, t := t, evs := acc.evs ++ [[Event.upd nd]] }
      | none => multiUpdates cfg now hdr us { acc with anyOk := true, t := r.2.1 }

def multiDeletes (hdr : Noti) : List Del → MultiAcc → MultiAcc
  | [], acc => acc
  | d :: ds, acc =>
    if acc.panicked then acc else
    let t := { acc.t with md := { acc.t.md with updated := acc.t.md.updated + 1 } }
    let r := Target.gnmiRemove1 t { hdr with upd := [], del := [d] }
    if r.2.2 then { acc with panicked := true, t := r.1 }
    else multiDeletes hdr ds { acc with t := r.1, evs := if r.2.1.isEmpty then acc.evs else acc.evs ++ [r.2.1] }

/-- one accepted-or-rejected update of the atomic / single-update arms: bump `targetLeavesUpdated`
by `cnt` and emit the leaf when one was returned; the last component is the `updateTS` flag -/
def singleArm (r : Res × Target × Option Noti) (cnt : Int) : Res × Target × List (List Event) × Bool :=
  if r.1.isErr then (r.1, r.2.1, [], false)
  else
    match r.2.2 with
    | some nd =>
      (.ok, { r.2.1 with md := { r.2.1.md with updated := r.2.1.md.updated + cnt } }, [[Event.upd nd]], true)
    | none => (.ok, r.2.1, [], true)

/-- the `switch` of `Target.GnmiUpdate` (everything but the deferred timestamp tracking):
result, new target, feed events in callback order (grouped: the events of one delete come out
of a map iteration, their mutual order is unspecified), and the `updateTS` flag. -/
def Target.dispatch (cfg : Cfg) (now : Int) (t : Target) (n : Noti) : Res × Target × List (List Event) × Bool :=
  if n.atomic then
    if !n.del.isEmpty then (.err, t, [], false)
    else if n.upd.isEmpty then (.ok, { t with md := { t.md with empty := t.md.empty + 1 } }, [], false)
    else singleArm (Target.gnmiUpdate1 cfg now t n) (n.upd.length : Nat)
  else if n.upd.length + n.del.length > 1 then
    let hdr := { n with upd := [], del := [] }
    let a := multiUpdates cfg now hdr n.upd { t := t }
    let b := multiDeletes hdr n.del a
    if b.panicked then (.panic, b.t, b.evs, false)
    else ((if b.anyErr then .err else .ok), b.t, b.evs, b.anyOk)
  else if n.upd.length = 1 then singleArm (Target.gnmiUpdate1 cfg now t n) 1
  else if n.del.length = 1 then
    let t := { t with md := { t.md with updated := t.md.updated + 1 } }
    let r := Target.gnmiRemove1 t n
    if r.2.2 then (.panic, r.1, [], false) else (.ok, r.1, (if r.2.1.isEmpty then [] else [r.2.1]), false)
  else (.ok, { t with md := { t.md with empty := t.md.empty + 1 } }, [], false)

/-- `Target.GnmiUpdate(n)`: the switch, then the deferred `checkTimestamp` when an update was
accepted and the notification's first update is not under `meta`. -/
def Target.gnmiUpdate (cfg : Cfg) (now : Int) (t : Target) (n : Noti) : Res × Target × List (List Event) :=
  match tracksTimestamp? n with
  | none => (.panic, t, [])
  | some tracks =>
    let r := t.dispatch cfg now n
    (r.1, (if r.2.2.2 && tracks then r.2.1.checkTimestamp n.ts else r.2.1), r.2.2.1)

/-! ### internally generated notifications (`metaNoti*`, `deleteNoti`) -/

def rawPrefixOfTarget (target : String) (enc : String → String) : String :=
  "o=;t=" ++ enc target ++ ";e=;l="

def rawMetaUpdate (name : String) (rawVal : String) (enc : String → String) : String :=
  "o=;t=;e=" ++ enc metaRoot ++ "," ++ enc name ++ ";l=#" ++ rawVal ++ "#0"

/-- canonical rendering of a scalar value (must agree with the harness) -/
def rawScalar (enc : String → String) : Scalar → String
  | .unset => "unset"
  | .str s => "s:" ++ enc s
  | .int i => "i:" ++ toString i
  | .uint n => "u:" ++ toString n
  | .bool b => "b:" ++ toString b
  | .bytes h => "y:" ++ h
  | .double b => "d:" ++ toString b
  | .float b => "f:" ++ toString b
  | .decimal d p => "m:" ++ toString d ++ ":" ++ toString p
  | .other tag dg => "x:" ++ tag ++ ":" ++ dg

def rawVal (enc : String → String) : Val → String
  | .absent => "absent"
  | .scalar s => rawScalar enc s
  | .leaflist l => "l:(" ++ ",".intercalate (l.map (rawScalar enc)) ++ ")"

/-- `metaNoti(target, name, v)` with `Now() = now` -/
def metaNoti (enc : String → String) (target name : String) (v : Scalar) (now : Int) : Noti :=
  { ts := now, target := target, origin := "", pfx := [], praw := rawPrefixOfTarget target enc,
    atomic := false,
    upd := [{ origin := "", path := [metaRoot, name], val := .scalar v,
              raw := rawMetaUpdate name (rawScalar enc v) enc }],
    del := [] }

/-- does the leaf at `meta/<name>` already show the current value?  (`metaLeafValue`: nil when
there is no leaf or it holds no update; a stored value of the wrong type is "different") -/
def metaIsCurrent (t : Target) (name : String) (isCur : Val → Bool) : Bool :=
  match (lookup t.tree [metaRoot, name]).bind (fun n => n.upd.head?.map (·.val)) with
  | some sv => isCur sv
  | none => false

/-- one step of `generateMetaUpdates` for metadata value `name` whose current value is `v`;
`isCur` tells whether a stored value shows `v` -/
def genMetaOne (cfg : Cfg) (enc : String → String) (now : Int) (emit : Bool)
    (acc : Target × List Event) (name : String) (v : Scalar) (isCur : Val → Bool) : Target × List Event :=
  if cfg.excluded.contains name then acc
  else if metaIsCurrent acc.1 name isCur then acc
  else
    let r := Target.gnmiUpdate1 cfg now acc.1 (metaNoti enc acc.1.name name v now)
    match r.2.2 with
    | some nd => (r.2.1, if emit then acc.2 ++ [Event.upd nd] else acc.2)
    | none => (r.2.1, acc.2)

/-- the step of the third loop of `generateMetaUpdates` for the optional `serverName` string
(present in `metadata.TargetStrValues` only for a cache created `WithServerName`) -/
def genServerName (cfg : Cfg) (enc : String → String) (now : Int) (emit : Bool)
    (acc : Target × List Event) : Target × List Event :=
  match acc.1.serverName with
  | some v => genMetaOne cfg enc now emit acc "serverName" (.str v)
      (fun sv => match sv with | .scalar (.str s) => s == v | _ => false)
  | none => acc

/-- `generateMetaUpdates` -/
def Target.generateMetaUpdates (cfg : Cfg) (enc : String → String) (now : Int) (emit : Bool)
    (t : Target) : Target × List Event :=
  let a := boolNames.foldl (fun acc name =>
    match acc.1.md.getBool name with
    | some v => genMetaOne cfg enc now emit acc name (.bool v)
        (fun sv => match sv with | .scalar (.bool b) => b == v | _ => false)
    | none => acc) (t, [])
  let b := intNames.foldl (fun acc name =>
    match acc.1.md.getInt name with
    | some v => genMetaOne cfg enc now emit acc name (.int v)
        (fun sv => match sv with | .scalar (.int i) => i == v | _ => false)
    | none => acc) a
  let c := strNames.foldl (fun acc name =>
    match acc.1.md.getStr name with
    | some v => genMetaOne cfg enc now emit acc name (.str v)
        (fun sv => match sv with | .scalar (.str s) => s == v | _ => false)
    | none => acc) b
  genServerName cfg enc now emit c

/-- `Target.updateMeta(clients)` -/
def Target.updateMeta (cfg : Cfg) (enc : String → String) (now : Int) (emit : Bool) (t : Target) :
    Target × List Event :=
  let l := match t.latest with
    | some x => x
    | none => zeroUnixNano
  Target.generateMetaUpdates cfg enc now emit { t with md := { t.md with latest := l } }

/-- names of the top-level children of the tree -/
def rootChildren (m : PMap Noti) : List String :=
  (m.filterMap (fun kv => kv.1.head?)).eraseDups

/-- `Target.Reset()` -/
def Target.reset (cfg : Cfg) (enc : String → String) (now : Int) (t : Target) : Target × List Event :=
  let t := { t with latest := none, md := Meta.clear }
  let r := Target.updateMeta cfg enc now true t
  let roots := (rootChildren r.1.tree).filter (· != metaRoot)
  roots.foldl (fun acc root =>
    ({ acc.1 with tree := (PMap.delete (fun _ => true) acc.1.tree [root]).1 },
     acc.2 ++ [Event.del acc.1.name root [glob] now])) r

/-! ## The cache (several targets) -/

structure State where
  cfg : Cfg := {}
  targets : List (String × Target) := []
deriving Repr, Inhabited

def State.get (s : State) (name : String) : Option Target :=
  (s.targets.find? (fun kv => kv.1 == name)).map (·.2)

def State.set (s : State) (name : String) (t : Target) : State :=
  if s.targets.any (fun kv => kv.1 == name) then
    { s with targets := s.targets.map (fun kv => if kv.1 == name then (name, t) else kv) }
  else { s with targets := s.targets ++ [(name, t)] }

/-- `Cache.Add` (replaces an existing target by a fresh one) of a cache created without
`WithServerName`: `t.meta.SetStr(ServerName, "")` fails (the name is not registered) -/
def State.add (s : State) (name : String) : State := s.set name { name := name }

/-- `Cache.Add` in general: `t.meta.SetStr(ServerName, c.opts.serverName)` succeeds exactly when
`cache.New` registered the name, i.e. when the cache has a server name.  (`State.add` is the
special case `cfg.serverName = ""`, `addWith_plain`; it is kept as it was so that the history
theorems stated over `State.step` are untouched.) -/
def State.addWith (s : State) (name : String) : State :=
  s.set name { name := name,
               serverName := if s.cfg.serverName = "" then none else some s.cfg.serverName }

theorem State.addWith_plain (s : State) (name : String) (h : s.cfg.serverName = "") :
    s.addWith name = s.add name := by
  simp [State.addWith, State.add, h]

/-- `Cache.Remove`: always announces the whole-target delete -/
def State.remove (s : State) (name : String) (now : Int) : State × List Event :=
  ({ s with targets := s.targets.filter (fun kv => kv.1 != name) }, [Event.del name "" [glob] now])

def State.hasTarget (s : State) (name : String) : Bool :=
  if name = "" then false else if name = "*" then true else (s.get name).isSome

/-- `Cache.GnmiUpdate`; `prefixNil` = the notification has no prefix -/
def State.gnmiUpdate (s : State) (now : Int) (prefixNil : Bool) (n : Noti) : Res × State × List (List Event) :=
  if prefixNil then (.err, s, [])
  else
    match s.get n.target with
    | none => (.err, s, [])
    | some t =>
      let r := t.gnmiUpdate s.cfg now n
      (r.1, s.set n.target r.2.1, r.2.2)

/-- `Cache.Query`: `none` = error -/
def State.query (s : State) (target : String) (q : Path) : Option (List (String × Path × Noti)) :=
  if target = "" then none
  else if target = "*" then
    some (s.targets.flatMap (fun kv => (PMap.query kv.2.tree q).map (fun e => (kv.1, e.1, e.2))))
  else
    match s.get target with
    | none => none
    | some t => some ((PMap.query t.tree q).map (fun e => (target, e.1, e.2)))

def State.onTarget (s : State) (name : String) (f : Target → Target × List Event) : State × List Event :=
  match s.get name with
  | none => (s, [])
  | some t => let r := f t; (s.set name r.1, r.2)

def flattenGroups (g : List (List Event)) : List Event := g.flatten

/-- `Cache.Sync(name)` -/
def State.sync (s : State) (enc : String → String) (name : String) (now : Int) : State × List Event :=
  s.onTarget name (fun t =>
    let r := t.gnmiUpdate s.cfg now (metaNoti enc name "sync" (.bool true) now)
    (r.2.1, flattenGroups r.2.2))

/-- `deleteNoti(target, "", path)` as a notification the cache processes itself -/
def deleteNotiOf (enc : String → String) (target : String) (p : Path) (now : Int) : Noti :=
  { ts := now, target := target, origin := "", pfx := [], praw := "o=;t=" ++ enc target ++ ";e=;l=",
    atomic := false, upd := [], del := [{ origin := "", path := p, raw := "internal" }] }

/-- `Cache.Connect(name)` -/
def State.connect (s : State) (enc : String → String) (name : String) (now : Int) : State × List Event :=
  s.onTarget name (fun t =>
    let r := t.gnmiUpdate s.cfg now (metaNoti enc name "connected" (.bool true) now)
    let r2 := r.2.1.gnmiUpdate s.cfg now (deleteNotiOf enc name [metaRoot, "connectError"] now)
    (r2.2.1, flattenGroups r.2.2 ++ flattenGroups r2.2.2))

/-- `Cache.ConnectError(name, err)` -/
def State.connectError (s : State) (enc : String → String) (name msg : String) (now : Int) : State × List Event :=
  s.onTarget name (fun t =>
    let r := t.gnmiUpdate s.cfg now (metaNoti enc name "connectError" (.str msg) now)
    (r.2.1, flattenGroups r.2.2))

/-- `Cache.Reset(name)` -/
def State.reset (s : State) (enc : String → String) (name : String) (now : Int) : State × List Event :=
  s.onTarget name (fun t => t.reset s.cfg enc now)

/-- `Cache.UpdateMetadata()`: every target, events per target -/
def State.updateMetadata (s : State) (enc : String → String) (now : Int) : State × List Event :=
  s.targets.foldl (fun acc kv =>
    match acc.1.get kv.1 with
    | none => acc
    | some t =>
      let r := t.updateMeta s.cfg enc now true
      (acc.1.set kv.1 r.1, acc.2 ++ r.2)) (s, [])

/-! ## Histories of cache API calls -/

inductive Op where
  | add (name : String)
  | remove (name : String) (now : Int)
  | reset (name : String) (now : Int)
  | sync (name : String) (now : Int)
  | connect (name : String) (now : Int)
  | connectError (name msg : String) (now : Int)
  | update (now : Int) (prefixNil : Bool) (n : Noti)
  | updateMetadata (now : Int)

/-- one API call: new state, result class (of `GnmiUpdate`; `ok` for the others) and the feed
events in callback order -/
def State.step (enc : String → String) (s : State) : Op → State × Res × List Event
  | .add name => (s.add name, .ok, [])
  | .remove name now => let r := s.remove name now; (r.1, .ok, r.2)
  | .reset name now => let r := s.reset enc name now; (r.1, .ok, r.2)
  | .sync name now => let r := s.sync enc name now; (r.1, .ok, r.2)
  | .connect name now => let r := s.connect enc name now; (r.1, .ok, r.2)
  | .connectError name msg now => let r := s.connectError enc name msg now; (r.1, .ok, r.2)
  | .update now pn n => let r := s.gnmiUpdate now pn n; (r.2.1, r.1, flattenGroups r.2.2)
  | .updateMetadata now => let r := s.updateMetadata enc now; (r.1, .ok, r.2)

/-- the target an API call is addressed to (`none`: every target) -/
def Op.target : Op → Option String
  | .add name => some name
  | .remove name _ => some name
  | .reset name _ => some name
  | .sync name _ => some name
  | .connect name _ => some name
  | .connectError name _ _ => some name
  | .update _ _ n => some n.target
  | .updateMetadata _ => none

def State.run (enc : String → String) (s : State) : List Op → State
  | [] => s
  | op :: ops => State.run enc (s.step enc op).1 ops

end Cache
end Gnmi
