import Gnmi.Model.CTree
import Gnmi.Model.CTreeRun
/-!
# Model of `ctree/tree.go` under concurrent use: the locking protocol as an LTS

The shared state is the sequential `Trie` of `Model/CTree.lean`.  A configuration holds the
shared trie, `n` threads (any `n`), and ghost state.  One transition = one atomic section of the
code (the code between two blocking lock operations, atomic because it runs under the lock it
has just taken or touches only thread-local state).

## What a thread is

`Thread.stack` is the list of locks the goroutine holds, deepest first: one `Frame` per
`RLock`/`Lock` whose deferred `RUnlock`/`Unlock` has not run yet.  `Get`, `intermediateAdd`,
`queryInternal`, `walkInternal` keep every ancestor locked while they recurse, so the stack is
always the chain of prefixes of one concrete path (invariant `Chain`, proved).  A lock is
identified by the *path* of its node; this is node identity as long as the node stays attached,
which is what `frozen_ancestors` proves for every held node.

## Transitions (labels) and the code they stand for

* `invoke τ c`      – goroutine `τ` calls `Add`/`Get`(`GetLeaf`)/`Query`(`Walk` = `Query(nil)`)/
                      `Delete`(`DeleteConditional`, `WalkDeleted`); the environment picks the call.
* `rlockRoot`       – `t.mu.RLock()` on the root (`intermediateAdd`, `Get`, `queryInternal`).
* `rlockChild`      – `br := b[k]` under the parent's lock, then `br.mu.RLock()` (descend one level);
                      for a query the callback `f` on a matching leaf runs in the same step (the
                      value handed to `f` is read under the lock just taken; `f` touches no tree state).
* `termRoot`, `termWrite` – `terminalAdd`: `Lock`, branch check, `leafBranch = value`, `Unlock`.
* `upgRelease`      – `t.mu.RUnlock()` in `intermediateAdd` when `b[path[0]]` is missing
                      (the goroutine now holds the ancestors only).
* `upgAcquire`      – `t.mu.Lock()`.
* `insert`          – `slowAdd` after the **re-check** found `b[path[0]]` still missing:
                      `b[path[0]] = newBranch(path[1:], value)` (the redundant `br.Add` that follows
                      only touches the fresh chain, unreachable for others while `t` is write locked;
                      it is folded into this step).  If the re-check finds the child present the
                      thread simply continues with `rlockChild`/`termWrite` below, still holding the
                      write lock on `t` (no separate transition needed).
* `clobber`         – exists only in the mutant LTS (`rc = false`: re-check dropped): overwrite the child.
* `addErr`          – the `default:` arms of `intermediateAdd`/`slowAdd` (node is a leaf).
* `getHit`, `getMiss` – `Get` returning the node / `nil`.
* `unlock`          – one deferred `RUnlock`/`Unlock` (deepest lock first).
* `delete`          – `DeleteConditional`/`WalkDeleted`: root write lock, then the whole sequential
                      `internalDelete` as ONE step, unlock.
* `hval`, `hupd`    – `Leaf.Value()` / `Leaf.Update(v)` through a retained handle: the node's own
                      lock only, one step each (lock, access, unlock).
* `ret`             – the call returns.

Lock semantics: a write lock on node `x` is grantable iff no other thread holds `x`; a read lock
iff no other thread holds `x` in write mode.

## Handles

A handle is a node path plus the *generation* of that path when the handle was taken
(`Cfg.gens`).  The only step that detaches nodes is `delete`; it increments the generation of
every leaf path it removes and moves the removed value to `Cfg.dead` (the detached node keeps
living for its handle holders).  A handle is attached iff its generation is current.  Handles
are retained for non-root leaf nodes only (`GetLeaf` on a leaf, the `*Leaf` given to a visit
callback); `Value()/IsBranch()/Children()` on retained *branch* nodes are outside the model.

## Ghost state
`log` (linearisation log), `qmust`/`qmay` (for `query_stability`: keys present in every /
key-value pairs present in some configuration since the query was invoked).
-/
namespace Gnmi
namespace CC
open Trie

inductive Mode where
  | R | W
deriving DecidableEq, Repr

/-- one held lock; `todo` = child names a query still has to visit below this node -/
structure Frame where
  node : Path
  mode : Mode
  todo : List String := []
deriving DecidableEq, Repr

structure Handle where
  path : Path
  gen : Nat
deriving DecidableEq, Repr

/-- tree-rooted API calls (values are naturals; `del q (some m)` deletes where `v < m`) -/
inductive Call where
  | add (p : Path) (v : Nat)
  | get (p : Path)
  | query (q : Path)
  | del (q : Path) (m : Option Nat)
deriving DecidableEq, Repr

inductive PC where
  | idle | start | run | window | unwind
deriving DecidableEq, Repr

structure Thread where
  pc : PC := .idle
  call : Call := .get []
  stack : List Frame := []
  /-- in `window`: the node whose read lock was given up and whose write lock is awaited -/
  cur : Path := []
  res : C09.Obs := .status true
  /-- leaves reported to the query callback so far -/
  out : List (Path × Nat) := []
  hs : List Handle := []
  seq : Nat := 0

structure Entry where
  tid : Nat
  seq : Nat
  op : C09.Op
  obs : C09.Obs

structure Cfg (n : Nat) where
  trie : Trie Nat := .empty
  thr : Fin n → Thread := fun _ => {}
  gens : Path → Nat := fun _ => 0
  dead : Handle → Nat := fun _ => 0
  log : List Entry := []
  qmust : Fin n → List Path := fun _ => []
  qmay : Fin n → List (Path × Nat) := fun _ => []

def init (n : Nat) : Cfg n := {}

inductive Label (n : Nat) where
  | invoke (τ : Fin n) (c : Call)
  | rlockRoot (τ : Fin n)
  | rlockChild (τ : Fin n)
  | termRoot (τ : Fin n)
  | termWrite (τ : Fin n)
  | upgRelease (τ : Fin n)
  | upgAcquire (τ : Fin n)
  | insert (τ : Fin n)
  | clobber (τ : Fin n)
  | addErr (τ : Fin n)
  | getHit (τ : Fin n)
  | getMiss (τ : Fin n)
  | unlock (τ : Fin n)
  | delete (τ : Fin n)
  | hval (τ : Fin n) (h : Handle)
  | hupd (τ : Fin n) (h : Handle) (v : Nat)
  | ret (τ : Fin n)
deriving Repr

def Label.tid {n : Nat} : Label n → Fin n
  | .invoke τ _ | .rlockRoot τ | .rlockChild τ | .termRoot τ | .termWrite τ | .upgRelease τ
  | .upgAcquire τ | .insert τ | .clobber τ | .addErr τ | .getHit τ | .getMiss τ | .unlock τ
  | .delete τ | .hval τ _ | .hupd τ _ _ | .ret τ => τ

/-! ### local actions on the shared trie -/

section
variable {V : Type}

mutual
/-- replace the node at a path (the identity when there is no such node) -/
def put : Trie V → Path → Trie V → Trie V
  | _, [], n' => n'
  | .branch cs, k :: p, n' => .branch (putL cs k p n')
  | .empty, _ :: _, _ => .empty
  | .leaf v, _ :: _, _ => .leaf v
def putL : List (String × Trie V) → String → Path → Trie V → List (String × Trie V)
  | [], _, _, _ => []
  | (k', t) :: cs, k, p, n' =>
      if k' = k then (k', put t p n') :: cs else (k', t) :: putL cs k p n'
end

/-- `b[k] = c` for a `k` not in `b` (`nil` becomes `branch{}` first: `slowAdd`) -/
def attach : Trie V → String → Trie V → Trie V
  | .branch cs, k, c => .branch (cs ++ [(k, c)])
  | .empty, k, c => .branch [(k, c)]
  | .leaf v, _, _ => .leaf v

def hasChild : Trie V → String → Bool
  | .branch cs, k => (getL cs k []).isSome
  | _, _ => false

def isLeaf : Trie V → Bool
  | .leaf _ => true
  | _ => false

def isBranch : Trie V → Bool
  | .branch _ => true
  | _ => false
end

/-- a node's own field `leafBranch`, without what hangs below it -/
inductive Shallow where
  | none | nil | leaf (v : Nat) | branch (keys : List String)
deriving DecidableEq, Repr

def shallow : Option (Trie Nat) → Shallow
  | .none => .none
  | some .empty => .nil
  | some (.leaf v) => .leaf v
  | some (.branch cs) => .branch (cs.map (·.1))

/-- children a query with remaining path `qr` visits below node `nd` (`queryInternal` /
`enumerateChildren`) -/
def todoFor : Trie Nat → Path → List String
  | .branch cs, [] => cs.map (·.1)
  | .branch cs, g :: _ =>
      if g = glob then cs.map (·.1) else if (getL cs g []).isSome then [g] else []
  | _, _ => []

/-- is the callback invoked on node `nd` with remaining query `qr`? -/
def visitFor : Trie Nat → Path → Option Nat
  | .leaf v, [] => some v
  | .leaf v, [g] => if g = glob then some v else none
  | _, _ => none

/-! ### locks -/

variable {n : Nat}

def Cfg.holds (s : Cfg n) (σ : Fin n) (x : Path) : Prop := ∃ f ∈ (s.thr σ).stack, f.node = x
def Cfg.holdsW (s : Cfg n) (σ : Fin n) (x : Path) : Prop :=
  ∃ f ∈ (s.thr σ).stack, f.node = x ∧ f.mode = .W

/-- `Lock()` on `x` can be granted to `τ` -/
def wOK (s : Cfg n) (τ : Fin n) (x : Path) : Bool :=
  decide (∀ σ : Fin n, σ ≠ τ → ∀ f ∈ (s.thr σ).stack, f.node ≠ x)
/-- `RLock()` on `x` can be granted to `τ` -/
def rOK (s : Cfg n) (τ : Fin n) (x : Path) : Bool :=
  decide (∀ σ : Fin n, σ ≠ τ → ∀ f ∈ (s.thr σ).stack, ¬ (f.node = x ∧ f.mode = .W))

def setThr (s : Cfg n) (τ : Fin n) (th : Thread) : Cfg n :=
  { s with thr := fun σ => if σ = τ then th else s.thr σ }

def addLog (s : Cfg n) (τ : Fin n) (op : C09.Op) (obs : C09.Obs) : Cfg n :=
  { s with log := s.log ++ [⟨τ.val, (s.thr τ).seq, op, obs⟩] }

def hasKey (t : Trie Nat) (k : Path) : Bool := (walk t).any (fun kv => kv.1 == k)

/-- ghost bookkeeping for `query_stability`, applied after every transition -/
def track (s : Cfg n) : Cfg n :=
  { s with qmust := fun σ => (s.qmust σ).filter (hasKey s.trie)
           qmay := fun σ => s.qmay σ ++ walk s.trie }

def issued (s : Cfg n) (h : Handle) : Bool := decide (∃ σ : Fin n, h ∈ (s.thr σ).hs)

def attached (s : Cfg n) (h : Handle) : Bool := s.gens h.path == h.gen

/-! ### per-call views of the current position -/

def Thread.top (th : Thread) : Option Frame := th.stack.head?

/-- the target path of an `add`/`get`, the query of a `query` -/
def Call.path : Call → Path
  | .add p _ | .get p | .query p | .del p _ => p

/-- what is left of the call's path below node `x` -/
def restAt (c : Call) (x : Path) : Path := c.path.drop x.length

def delCond : Option Nat → Nat → Bool
  | none => fun _ => true
  | some m => fun v => decide (v < m)

def delOp (q : Path) : Option Nat → C09.Op
  | none => .del q
  | some m => .delIf q m

/-- frame pushed when a query read-locks node `x` -/
def queryFrame (t : Trie Nat) (q x : Path) : Frame :=
  { node := x, mode := .R, todo := (match get t x with
                                     | some nd => todoFor nd (q.drop x.length)
                                     | none => []) }

def queryVisit (t : Trie Nat) (q x : Path) : Option Nat :=
  match get t x with
  | some nd => visitFor nd (q.drop x.length)
  | none => none

def newHandles (s : Cfg n) (x : Path) : List Handle :=
  if x = [] then [] else [⟨x, s.gens x⟩]

/-- thread after read-locking node `x` (push a frame; a query also runs its callback) -/
def pushR (s : Cfg n) (th : Thread) (x : Path) : Thread :=
  match th.call with
  | .query q =>
      match queryVisit s.trie q x with
      | some v => { th with pc := .run, stack := queryFrame s.trie q x :: th.stack,
                            out := th.out ++ [(x, v)], hs := th.hs ++ newHandles s x }
      | none => { th with pc := .run, stack := queryFrame s.trie q x :: th.stack }
  | _ => { th with pc := .run, stack := ⟨x, .R, []⟩ :: th.stack }

/-- the child the thread descends to from its top frame: for add/get the next path element,
for a query the first child still to visit -/
def nextChild (th : Thread) (f : Frame) : Option String :=
  match th.call with
  | .query _ => f.todo.head?
  | c => (restAt c f.node).head?

/-- the top frame with the child about to be visited removed from `todo` (queries) -/
def popTodo (th : Thread) : List Frame :=
  match th.call, th.stack with
  | .query _, f :: r => { f with todo := f.todo.tail } :: r
  | _, st => st

/-! ### guards and effects

`rc` = the re-check after the lock upgrade is present (`true` = the code as it is). -/

def guard (rc : Bool) (s : Cfg n) : Label n → Bool
  | .invoke τ _ => (s.thr τ).pc == .idle
  | .rlockRoot τ =>
      (s.thr τ).pc == .start && rOK s τ [] &&
      (match (s.thr τ).call with
       | .add p _ => p != []
       | .get _ => true
       | .query _ => true
       | .del _ _ => false)
  | .rlockChild τ =>
      let th := s.thr τ
      th.pc == .run &&
      (match th.top with
       | none => false
       | some f =>
         (rc || f.mode == .R) &&
         (match nextChild th f, get s.trie f.node with
          | some k, some nd =>
              hasChild nd k && rOK s τ (f.node ++ [k]) &&
              (match th.call with
               | .add _ _ => (restAt th.call f.node).length != 1
               | .get _ => true
               | .query _ => true
               | .del _ _ => false)
          | _, _ => false))
  | .termRoot τ =>
      let th := s.thr τ
      th.pc == .start && wOK s τ [] &&
      (match th.call with
       | .add p _ => p == []
       | _ => false)
  | .termWrite τ =>
      let th := s.thr τ
      th.pc == .run &&
      (match th.call, th.top with
       | .add _ _, some f =>
         (rc || f.mode == .R) &&
         (match restAt th.call f.node, get s.trie f.node with
          | [k], some nd => hasChild nd k && wOK s τ (f.node ++ [k])
          | _, _ => false)
       | _, _ => false)
  | .upgRelease τ =>
      let th := s.thr τ
      th.pc == .run &&
      (match th.call, th.top with
       | .add _ _, some f =>
         f.mode == .R &&
         (match restAt th.call f.node, get s.trie f.node with
          | k :: _, some nd => !isLeaf nd && !hasChild nd k
          | _, _ => false)
       | _, _ => false)
  | .upgAcquire τ => (s.thr τ).pc == .window && wOK s τ (s.thr τ).cur
  | .insert τ =>
      let th := s.thr τ
      th.pc == .run &&
      (match th.call, th.top with
       | .add _ _, some f =>
         f.mode == .W &&
         (match restAt th.call f.node, get s.trie f.node with
          | k :: _, some nd => !isLeaf nd && !hasChild nd k
          | _, _ => false)
       | _, _ => false)
  | .clobber τ =>
      let th := s.thr τ
      !rc && th.pc == .run &&
      (match th.call, th.top with
       | .add _ _, some f =>
         f.mode == .W &&
         (match restAt th.call f.node, get s.trie f.node with
          | k :: _, some nd => hasChild nd k
          | _, _ => false)
       | _, _ => false)
  | .addErr τ =>
      let th := s.thr τ
      th.pc == .run &&
      (match th.call, th.top with
       | .add _ _, some f =>
         (match restAt th.call f.node, get s.trie f.node with
          | _ :: _, some nd => isLeaf nd
          | _, _ => false)
       | _, _ => false)
  | .getHit τ =>
      let th := s.thr τ
      th.pc == .run &&
      (match th.call, th.top with
       | .get _, some f => restAt th.call f.node == []
       | _, _ => false)
  | .getMiss τ =>
      let th := s.thr τ
      th.pc == .run &&
      (match th.call, th.top with
       | .get _, some f =>
         (match restAt th.call f.node, get s.trie f.node with
          | k :: _, some nd => !hasChild nd k
          | _, _ => false)
       | _, _ => false)
  | .unlock τ =>
      let th := s.thr τ
      (match th.top with
       | none => false
       | some f =>
         th.pc == .unwind ||
         (th.pc == .run && f.todo == [] &&
          (match th.call with
           | .query _ => true
           | _ => false)))
  | .delete τ =>
      let th := s.thr τ
      th.pc == .start && wOK s τ [] &&
      (match th.call with
       | .del _ _ => true
       | _ => false)
  | .hval τ h =>
      (s.thr τ).pc == .idle && issued s h && (!attached s h || rOK s τ h.path)
  | .hupd τ h _ =>
      (s.thr τ).pc == .idle && issued s h && (!attached s h || wOK s τ h.path)
  | .ret τ =>
      let th := s.thr τ
      th.stack == [] &&
      (th.pc == .unwind ||
       (th.pc == .run &&
        (match th.call with
         | .query _ => true
         | _ => false)))

/-- finish an add with its status: log it, start unwinding -/
def addDone (s : Cfg n) (τ : Fin n) (t' : Trie Nat) (ok : Bool) : Cfg n :=
  let th := s.thr τ
  match th.call with
  | .add p v =>
      setThr { addLog s τ (.add p v) (.status ok) with trie := t' } τ
        { th with pc := .unwind, res := .status ok }
  | _ => s

/-- terminal write on the node at `y` (`terminalAdd`) -/
def termAt (s : Cfg n) (τ : Fin n) (y : Path) : Cfg n :=
  match (s.thr τ).call, get s.trie y with
  | .add _ v, some nd =>
      if isBranch nd then addDone s τ s.trie false
      else addDone s τ (put s.trie y (.leaf v)) true
  | _, _ => s

def bumpGens (gens : Path → Nat) (removed : List (Path × Nat)) : Path → Nat :=
  fun x => if removed.any (fun kv => kv.1 == x) then gens x + 1 else gens x

def bury (gens : Path → Nat) (dead : Handle → Nat) (removed : List (Path × Nat)) : Handle → Nat :=
  fun h => match removed.find? (fun kv => kv.1 == h.path) with
    | some kv => if gens h.path = h.gen then kv.2 else dead h
    | none => dead h

/-- effect of a transition, before the ghost bookkeeping -/
def eff0 (s : Cfg n) : Label n → Cfg n
  | .invoke τ c =>
      let s1 := setThr s τ { s.thr τ with pc := .start, call := c, stack := [], cur := [], out := [] }
      match c with
      | .query q =>
          { s1 with qmust := fun σ => if σ = τ then ((walk s.trie).map (·.1)).filter (qmatches q) else s.qmust σ
                    qmay := fun σ => if σ = τ then [] else s.qmay σ }
      | _ => s1
  | .rlockRoot τ => setThr s τ (pushR s (s.thr τ) [])
  | .rlockChild τ =>
      let th := s.thr τ
      match th.top with
      | some f =>
          match nextChild th f with
          | some k => setThr s τ (pushR s { th with stack := popTodo th } (f.node ++ [k]))
          | none => s
      | none => s
  | .termRoot τ => termAt s τ []
  | .termWrite τ =>
      let th := s.thr τ
      match th.top with
      | some f =>
          match restAt th.call f.node with
          | k :: _ => termAt s τ (f.node ++ [k])
          | [] => s
      | none => s
  | .upgRelease τ =>
      let th := s.thr τ
      match th.stack with
      | f :: r => setThr s τ { th with pc := .window, stack := r, cur := f.node }
      | [] => s
  | .upgAcquire τ =>
      let th := s.thr τ
      setThr s τ { th with pc := .run, stack := ⟨th.cur, .W, []⟩ :: th.stack }
  | .insert τ =>
      let th := s.thr τ
      match th.call, th.top with
      | .add _ v, some f =>
          match restAt th.call f.node, get s.trie f.node with
          | k :: r, some nd => addDone s τ (put s.trie f.node (attach nd k (chain r v))) true
          | _, _ => s
      | _, _ => s
  | .clobber τ =>
      let th := s.thr τ
      match th.call, th.top with
      | .add _ v, some f =>
          match restAt th.call f.node with
          | k :: r => addDone s τ (put s.trie (f.node ++ [k]) (chain r v)) true
          | [] => s
      | _, _ => s
  | .addErr τ => addDone s τ s.trie false
  | .getHit τ =>
      let th := s.thr τ
      match th.call, th.top with
      | .get p, some f =>
          let nd := get s.trie f.node
          let o : C09.Obs := .node (C09.kindOfTrie nd)
          let hs := match nd with
            | some (.leaf _) => th.hs ++ newHandles s f.node
            | _ => th.hs
          setThr (addLog s τ (.get p) o) τ { th with pc := .unwind, res := o, hs := hs }
      | _, _ => s
  | .getMiss τ =>
      let th := s.thr τ
      match th.call with
      | .get p =>
          setThr (addLog s τ (.get p) (.node .none)) τ { th with pc := .unwind, res := .node .none }
      | _ => s
  | .unlock τ =>
      let th := s.thr τ
      setThr s τ { th with stack := th.stack.tail }
  | .delete τ =>
      let th := s.thr τ
      match th.call with
      | .del q m =>
          let r := del (delCond m) s.trie q
          let o : C09.Obs := .set r.2
          setThr { addLog s τ (delOp q m) o with
                     trie := r.1, gens := bumpGens s.gens r.2, dead := bury s.gens s.dead r.2 } τ
            { th with pc := .unwind, res := o }
      | _ => s
  | .hval τ h =>
      let th := s.thr τ
      if attached s h then
        let o : C09.Obs := .node (C09.kindOfTrie (get s.trie h.path))
        setThr (addLog s τ (.get h.path) o) τ { th with res := o, seq := th.seq + 1 }
      else
        setThr s τ { th with res := .node (.leaf (s.dead h)), seq := th.seq + 1 }
  | .hupd τ h v =>
      let th := s.thr τ
      if attached s h then
        setThr { addLog s τ (.upd h.path v) (.status true) with trie := put s.trie h.path (.leaf v) } τ
          { th with res := .status true, seq := th.seq + 1 }
      else
        setThr { s with dead := fun h' => if h' = h then v else s.dead h' } τ
          { th with res := .status true, seq := th.seq + 1 }
  | .ret τ =>
      let th := s.thr τ
      let res := match th.call with
        | .query _ => C09.Obs.set th.out
        | _ => th.res
      setThr s τ { th with pc := .idle, res := res, seq := th.seq + 1 }

def eff (s : Cfg n) (l : Label n) : Cfg n := track (eff0 s l)

/-- one transition of thread `l.tid` -/
def Step (rc : Bool) (s : Cfg n) (l : Label n) (s' : Cfg n) : Prop :=
  guard rc s l = true ∧ s' = eff s l

/-- executable form -/
def next (rc : Bool) (s : Cfg n) (l : Label n) : Option (Cfg n) :=
  if guard rc s l then some (eff s l) else none

def exec (rc : Bool) : Cfg n → List (Label n) → Option (Cfg n)
  | s, [] => some s
  | s, l :: ls => match next rc s l with
      | some s' => exec rc s' ls
      | none => none

inductive Reach (rc : Bool) : Cfg n → Prop where
  | init : Reach rc (init n)
  | step {s s' : Cfg n} {l : Label n} : Reach rc s → Step rc s l s' → Reach rc s'

/-! ### accesses to `leafBranch` with the locks held (for the race clause)

Every transition performs its reads and writes of a node's `leafBranch` while holding the
locks listed; node identity is path + generation.  Nodes freshly allocated by `newBranch`
are not shared before they are linked and are not listed. -/

inductive AccKind where
  | tree | del | hval | hupd
deriving DecidableEq, Repr

structure Access where
  tid : Nat
  node : Path
  gen : Nat
  write : Bool
  locks : List (Path × Mode)
  kind : AccKind
deriving DecidableEq, Repr

def locksOf (th : Thread) : List (Path × Mode) := th.stack.map (fun f => (f.node, f.mode))

mutual
/-- the nodes `internalDelete` reads (relative paths) -/
def touched : Trie Nat → Path → List Path
  | .empty, _ => [[]]
  | .leaf _, _ => [[]]
  | .branch cs, [] => [] :: touchedAll cs []
  | .branch cs, g :: q => if g = glob then [] :: touchedAll cs q else [] :: touchedOne cs g q
def touchedAll : List (String × Trie Nat) → Path → List Path
  | [], _ => []
  | (k, t) :: cs, q => (touched t q).map (k :: ·) ++ touchedAll cs q
def touchedOne : List (String × Trie Nat) → String → Path → List Path
  | [], _, _ => []
  | (k, t) :: cs, g, q => if k = g then (touched t q).map (k :: ·) else touchedOne cs g q
end

def leafAt (t : Trie Nat) (x : Path) : Bool :=
  match get t x with
  | some (.leaf _) => true
  | _ => false

/-- locks under which `internalDelete` reads node `x`: the root write lock taken by
`DeleteConditional`/`WalkDeleted`, and — `nl = true`, the code as it is — the node's own read
lock for every non-root node (`t.mu.RLock(); lb = t.leafBranch; t.mu.RUnlock()`).
`nl = false` is the code before that repair (kept for the regression witness D15). -/
def delReadLocks (nl : Bool) (x : Path) : List (Path × Mode) :=
  if nl && x != [] then [([], .W), (x, .R)] else [([], .W)]

/-- `internalDelete` on node `x`: one read of `leafBranch` (under `delReadLocks`), and for a
branch node (and the root) the later writes `delete(b, k)` / `t.leafBranch = nil`, which run
under the root write lock only -/
def delAccesses (nl : Bool) (s : Cfg n) (τ : Fin n) (x : Path) : List Access :=
  ⟨τ.val, x, s.gens x, false, delReadLocks nl x, .del⟩ ::
    (if leafAt s.trie x then [] else [⟨τ.val, x, s.gens x, true, [([], .W)], .del⟩])

def accesses (nl : Bool) (s : Cfg n) : Label n → List Access
  | .rlockRoot τ => [⟨τ.val, [], s.gens [], false, [([], .R)], .tree⟩]
  | .rlockChild τ =>
      let th := s.thr τ
      match th.top with
      | some f =>
          match nextChild th f with
          | some k =>
              [⟨τ.val, f.node, s.gens f.node, false, locksOf th, .tree⟩,
               ⟨τ.val, f.node ++ [k], s.gens (f.node ++ [k]), false, (f.node ++ [k], .R) :: locksOf th, .tree⟩]
          | none => []
      | none => []
  | .termRoot τ => [⟨τ.val, [], s.gens [], true, [([], .W)], .tree⟩]
  | .termWrite τ =>
      let th := s.thr τ
      match th.top with
      | some f =>
          match restAt th.call f.node with
          | k :: _ =>
              [⟨τ.val, f.node, s.gens f.node, false, locksOf th, .tree⟩,
               ⟨τ.val, f.node ++ [k], s.gens (f.node ++ [k]), true, (f.node ++ [k], .W) :: locksOf th, .tree⟩]
          | [] => []
      | none => []
  | .upgRelease τ | .addErr τ | .getMiss τ =>
      let th := s.thr τ
      match th.top with
      | some f => [⟨τ.val, f.node, s.gens f.node, false, locksOf th, .tree⟩]
      | none => []
  | .insert τ | .clobber τ =>
      let th := s.thr τ
      match th.top with
      | some f => [⟨τ.val, f.node, s.gens f.node, true, locksOf th, .tree⟩]
      | none => []
  | .delete τ =>
      match (s.thr τ).call with
      | .del q _ =>
          ((touched s.trie q).map (delAccesses nl s τ)).flatten
      | _ => []
  | .hval τ h => [⟨τ.val, h.path, h.gen, false, [(h.path, .R)], .hval⟩]
  | .hupd τ h _ => [⟨τ.val, h.path, h.gen, true, [(h.path, .W)], .hupd⟩]
  | _ => []

/-- two accesses that race unless ordered by a lock -/
def Conflict (a b : Access) : Prop :=
  a.tid ≠ b.tid ∧ a.node = b.node ∧ a.gen = b.gen ∧ (a.write = true ∨ b.write = true)

/-- a lock held by both, in write mode by at least one -/
def CommonLock (a b : Access) : Prop :=
  ∃ x m1 m2, (x, m1) ∈ a.locks ∧ (x, m2) ∈ b.locks ∧ (m1 = .W ∨ m2 = .W)

end CC
end Gnmi
