import Gnmi.Basic
/-!
# Model of the synthetic target's update generator (property C20)

Go sources modelled (put them next to this file):
* `testing/fake/queue/queue.go` — `UpdateQueue` (`New`, `Add`, `Latest`, `Next`, `addValue`),
  `value` (`newValue`, `nextValue`, `updateTimestamp`, the six per-kind updaters);
* `testing/fake/gnmi/client.go` — `reset` (sync injection) and `valToResp`;
* `math/rand` (Go 1.23) — `Int63n`, `Int31n`, `int31n`, `Intn`, `Float64`, `Shuffle`,
  transcribed on top of a stream of *raw draws* (`Source.Int63()` results).

Conventions (DESIGN §4).
* A PRNG is the list of raw 63-bit draws it is still going to deliver (`Draws`).  Every Go
  loop that redraws (`for v > max { v = r.Int63() }`) is a structural recursion on that list;
  an exhausted list is the outcome `nodraws` ("the finite prefix of the stream handed to the
  model was too short"), never a made-up value.
* `int64`/`uint64` are `Int`/`Nat`.  Every place where the Go arithmetic could leave `int64`
  is *checked* and yields the outcome `overflow`: the model declines to predict (this is the
  `NoOverflow` hypothesis of C20 made executable; theorems speak about runs, and a run that
  meets `overflow` simply emits nothing further).
* `float64` is a type parameter `D` with the operations of `DOps`; theorems assume the order is
  a lawful strict total order (`LawfulDOps`: no NaN); the driver instantiates `D := Float`.
* Partial Go operations (`u.q[0][0]`, `options[i]`, `Int63n(n ≤ 0)`, nil `Timestamp`) are checked
  and yield `panic`.
* Input restriction: oneof wrappers hold non-nil messages (always true for configurations read
  from text or wire format), so the `val == nil` arms of the updaters are not modelled.
* `*value` pointer identity is the ghost field `Val.id` (allocation counter `UQ.nid`).
-/
namespace Gnmi
namespace FQ

/-! ## Outcomes -/

/-- Result of a modelled Go operation. -/
inductive Out (α : Type) where
  | ok (a : α)
  | err        -- the Go function returned a non-nil `error`
  | panic      -- the Go code would panic
  | overflow   -- the arithmetic left `int64`: outside the modelled domain (`NoOverflow`)
  | nodraws    -- the supplied prefix of the raw draw stream is exhausted
  deriving Repr

@[inline] def Out.bind {α β : Type} (x : Out α) (f : α → Out β) : Out β :=
  match x with
  | .ok a => f a
  | .err => .err
  | .panic => .panic
  | .overflow => .overflow
  | .nodraws => .nodraws

instance : Monad Out where
  pure := .ok
  bind := Out.bind

/-! ## `math/rand` over a raw draw stream -/

/-- The raw draws a `*rand.Rand` will deliver: successive results of `Source.Int63()`. -/
abbrev Draws := List Nat

def two63 : Nat := 9223372036854775808
def two31 : Nat := 2147483648
def two32 : Nat := 4294967296

/-- `int64` range check (`NoOverflow`). -/
def inI64 (x : Int) : Bool := decide (-9223372036854775808 ≤ x) && decide (x < 9223372036854775808)

def chk64 (x : Int) : Out Int := if inI64 x then .ok x else .overflow

/-- `v := f(r.Int63()); for v > max { v = f(r.Int63()) }` (`f = id` for `Int63`, `· >>> 32`
for `Int31`). -/
def rejectAbove (f : Nat → Nat) (max : Nat) : Draws → Out (Nat × Draws)
  | [] => .nodraws
  | d :: ds => if f d > max then rejectAbove f max ds else .ok (f d, ds)

/-- `func (r *Rand) Int63n(n int64) int64` -/
def int63n (n : Int) (ds : Draws) : Out (Int × Draws) :=
  if n ≤ 0 then .panic
  else
    let m := n.toNat
    if m &&& (m - 1) == 0 then
      match ds with
      | [] => .nodraws
      | d :: ds => .ok (Int.ofNat (d &&& (m - 1)), ds)
    else
      let max := two63 - 1 - two63 % m
      match rejectAbove id max ds with
      | .ok (v, ds) => .ok (Int.ofNat (v % m), ds)
      | .err => .err | .panic => .panic | .overflow => .overflow | .nodraws => .nodraws

/-- `func (r *Rand) Int31n(n int32) int32`; `Int31() = int32(Int63() >> 32)` (the `% two31` is
the conversion to `int32`: the identity on real draws, which are below `2^63`) -/
def int31n (n : Int) (ds : Draws) : Out (Int × Draws) :=
  if n ≤ 0 then .panic
  else
    let m := n.toNat
    if m &&& (m - 1) == 0 then
      match ds with
      | [] => .nodraws
      | d :: ds => .ok (Int.ofNat (((d >>> 32) % two31) &&& (m - 1)), ds)
    else
      let max := two31 - 1 - two31 % m
      match rejectAbove (fun d => (d >>> 32) % two31) max ds with
      | .ok (v, ds) => .ok (Int.ofNat (v % m), ds)
      | .err => .err | .panic => .panic | .overflow => .overflow | .nodraws => .nodraws

/-- `func (r *Rand) Intn(n int) int` -/
def intn (n : Int) (ds : Draws) : Out (Int × Draws) :=
  if n ≤ 0 then .panic
  else if n ≤ 2147483647 then int31n n ds
  else int63n n ds

/-- the `for low < thresh { v = r.Uint32(); prod = uint64(v) * uint64(n); low = uint32(prod) }`
loop of `int31n`; `Uint32() = uint32(Int63() >> 31)` (`% two32` = the conversion to `uint32`) -/
def lemireLoop (n thresh : Nat) (prod : Nat) (ds : Draws) : Out (Nat × Draws) :=
  match ds with
  | [] => if prod % two32 < thresh then .nodraws else .ok (prod, [])
  | d :: ds' =>
      if prod % two32 < thresh then lemireLoop n thresh (((d >>> 31) % two32) * n) ds'
      else .ok (prod, d :: ds')

/-- `func (r *Rand) int31n(n int32) int32` (Lemire's multiply-shift, used by `Shuffle`);
`n > 0` at its only call site -/
def lemire (n : Nat) (ds : Draws) : Out (Nat × Draws) :=
  match ds with
  | [] => .nodraws
  | d :: ds =>
      let prod := ((d >>> 31) % two32) * n
      if prod % two32 < n then
        let thresh := (two32 - n) % n
        match lemireLoop n thresh prod ds with
        | .ok (prod, ds) => .ok (prod >>> 32, ds)
        | .err => .err | .panic => .panic | .overflow => .overflow | .nodraws => .nodraws
      else .ok (prod >>> 32, ds)

/-- `options[i], options[j] = options[j], options[i]` (checked) -/
def swapIdx {α : Type} (l : List α) (i j : Nat) : Out (List α) :=
  match l[i]?, l[j]? with
  | some a, some b => .ok ((l.set i b).set j a)
  | _, _ => .panic

/-- the second loop of `Shuffle`: `for ; i > 0; i-- { j := int(r.int31n(int32(i+1))); swap(i, j) }`
(the first loop, for `i > 1<<31-2`, uses `Int63n`) -/
def shuffleLoop {α : Type} : Nat → List α → Draws → Out (List α × Draws)
  | 0, l, ds => .ok (l, ds)
  | i + 1, l, ds =>
      if i + 1 > 2147483646 then
        match int63n (Int.ofNat (i + 2)) ds with
        | .ok (j, ds) =>
            match swapIdx l (i + 1) j.toNat with
            | .ok l => shuffleLoop i l ds
            | _ => .panic
        | .err => .err | .panic => .panic | .overflow => .overflow | .nodraws => .nodraws
      else
        match lemire (i + 2) ds with
        | .ok (j, ds) =>
            match swapIdx l (i + 1) j with
            | .ok l => shuffleLoop i l ds
            | _ => .panic
        | .err => .err | .panic => .panic | .overflow => .overflow | .nodraws => .nodraws

/-- `r.Shuffle(len(options), swap)` -/
def shuffle {α : Type} (l : List α) (ds : Draws) : Out (List α × Draws) :=
  shuffleLoop (l.length - 1) l ds

/-! ## Doubles -/

/-- The `float64` operations the updaters use. -/
class DOps (D : Type) where
  zero : D
  /-- `a < b` -/
  lt : D → D → Bool
  /-- `x != 0` -/
  ne0 : D → Bool
  /-- `float64(v) / (1 << 63)` for a raw draw `v` -/
  unit : Nat → D
  /-- `f == 1` -/
  isOne : D → Bool
  add : D → D → D
  sub : D → D → D
  mul : D → D → D

/-- The order is a strict total order (this excludes NaN). -/
class LawfulDOps (D : Type) [DOps D] : Prop where
  irrefl : ∀ a : D, DOps.lt a a = false
  trans : ∀ a b c : D, DOps.lt a b = true → DOps.lt b c = true → DOps.lt a c = true
  total : ∀ a b : D, DOps.lt a b = true ∨ a = b ∨ DOps.lt b a = true

/-- `func (r *Rand) Float64() float64`: `again: f := float64(r.Int63()) / (1<<63); if f == 1 { goto again }` -/
def float64 {D : Type} [DOps D] : Draws → Out (D × Draws)
  | [] => .nodraws
  | d :: ds => if DOps.isOne (DOps.unit d : D) then float64 ds else .ok (DOps.unit d, ds)

/-! ## The configuration protos (`fake.proto`) -/

/-- `message Timestamp` -/
structure TS where
  ts : Int := 0
  dmin : Int := 0
  dmax : Int := 0
  deriving DecidableEq, Repr

/-- `message IntRange` -/
structure IntRange where
  min : Int
  max : Int
  dmin : Int
  dmax : Int
  deriving DecidableEq, Repr

inductive IntDist where
  | const
  | range (r : IntRange)
  | list (opts : List Int) (random : Bool)
  deriving DecidableEq, Repr

/-- `message UintRange` (`uint64` bounds, `int64` deltas) -/
structure UintRange where
  min : Nat
  max : Nat
  dmin : Int
  dmax : Int
  deriving DecidableEq, Repr

inductive UintDist where
  | const
  | range (r : UintRange)
  | list (opts : List Nat) (random : Bool)
  deriving DecidableEq, Repr

/-- `message DoubleRange` -/
structure DblRange (D : Type) where
  min : D
  max : D
  dmin : D
  dmax : D

inductive DblDist (D : Type) where
  | const
  | range (r : DblRange D)
  | list (opts : List D) (random : Bool)

/-- `StringList` / `BoolList` (and the list arms above): options + `random` flag -/
inductive ListDist (α : Type) where
  | const
  | list (opts : List α) (random : Bool)

/-- the `oneof value` of `message Value` -/
inductive Kind (D : Type) where
  | int (v : Int) (d : IntDist)
  | double (v : D) (d : DblDist D)
  | str (v : String) (d : ListDist String)
  | strList (v : List String) (d : ListDist String)
  | bool (v : Bool) (d : ListDist Bool)
  | uint (v : Nat) (d : UintDist)
  | sync (n : Nat)
  | delete
  | unset

/-- `message Value` (the `seed` field is consumed by `newValue`, see `Val.own`) -/
structure PVal (D : Type) where
  path : List String
  ts : Option TS
  repeat_ : Int
  kind : Kind D

/-- `type value struct { v *fpb.Value; r *rand.Rand }`: `own = none` when the value shares the
queue's global PRNG (`Seed == 0`); `id` stands for the pointer identity of the struct. -/
structure Val (D : Type) where
  pv : PVal D
  own : Option Draws
  id : Nat

/-! ## The per-kind updaters -/

variable {D : Type}

/-- The list arm shared by `updateIntValue`, `updateDoubleValue`, `updateStringValue`,
`updateBoolValue`, `updateUintValue`:
```
if len(options) == 0 { return error }
if list.Random { newval = options[v.r.Intn(len(options))] }
else { newval = options[0]; list.Options = append(options[1:], options[0]) }
``` -/
def listUpdate {α : Type} (opts : List α) (random : Bool) (ds : Draws) : Out ((α × List α) × Draws) :=
  match opts with
  | [] => .err
  | o :: rest =>
      if random then
        match intn (Int.ofNat (o :: rest).length) ds with
        | .ok (k, ds) =>
            match (o :: rest)[k.toNat]? with
            | some x => .ok ((x, o :: rest), ds)
            | none => .panic
        | .err => .err | .panic => .panic | .overflow => .overflow | .nodraws => .nodraws
      else .ok ((o, rest ++ [o]), ds)

/-- `func (v *value) updateTimestamp() error` -/
def updateTimestamp (pv : PVal D) (ds : Draws) : Out (PVal D × Draws) :=
  match pv.ts with
  | none => .err                                       -- "timestamp not set"
  | some t =>
      if t.ts < 0 then .err                            -- "timestamp must be positive"
      else if t.dmin > t.dmax || t.dmin < 0 then .err  -- "invalid delta_min/delta_max"
      else
        match chk64 (t.dmax - t.dmin + 1) with
        | .ok n =>
            match int63n n ds with
            | .ok (x, ds) =>
                match chk64 (t.ts + x + t.dmin) with
                | .ok nt => .ok ({ pv with ts := some { t with ts := nt } }, ds)
                | _ => .overflow
            | .err => .err | .panic => .panic | .overflow => .overflow | .nodraws => .nodraws
        | _ => .overflow

/-- `func (v *value) updateIntValue() error` (returns the new `Value` and distribution) -/
def updateInt (v : Int) (d : IntDist) (ds : Draws) : Out ((Int × IntDist) × Draws) :=
  match d with
  | .range r =>
      if r.min > r.max then .err
      else if v < r.min || v > r.max then .err
      else
        let useDelta := r.dmin != 0 || r.dmax != 0
        if useDelta && r.dmin > r.dmax then .err
        else
          let left := if useDelta then r.dmin else r.min
          let right := if useDelta then r.dmax else r.max
          let base := if useDelta then v else 0
          match chk64 (right - left + 1) with
          | .ok n =>
              match int63n n ds with
              | .ok (x, ds) =>
                  match chk64 (base + (x + left)) with
                  | .ok nv =>
                      let nv := if nv > r.max then r.max else nv
                      let nv := if nv < r.min then r.min else nv
                      .ok ((nv, .range r), ds)
                  | _ => .overflow
              | .err => .err | .panic => .panic | .overflow => .overflow | .nodraws => .nodraws
          | _ => .overflow
  | .list opts random =>
      match listUpdate opts random ds with
      | .ok ((x, opts), ds) => .ok ((x, .list opts random), ds)
      | .err => .err | .panic => .panic | .overflow => .overflow | .nodraws => .nodraws
  | .const => .ok ((v, .const), ds)

/-- `func (v *value) updateUintValue() error` -/
def updateUint (v : Nat) (d : UintDist) (ds : Draws) : Out ((Nat × UintDist) × Draws) :=
  match d with
  | .range r =>
      if r.min > r.max then .err
      else if v < r.min || v > r.max then .err
      else
        let useDelta := r.dmin != 0 || r.dmax != 0
        if useDelta && r.dmin > r.dmax then .err
        else
          let left : Int := if useDelta then r.dmin else Int.ofNat r.min
          let right : Int := if useDelta then r.dmax else Int.ofNat r.max
          let base : Int := if useDelta then Int.ofNat v else 0
          match chk64 (right - left + 1) with
          | .ok n =>
              match int63n n ds with
              | .ok (x, ds) =>
                  match chk64 (base + x + left) with
                  | .ok tmp =>
                      let nv : Nat := if tmp < 0 then r.min else tmp.toNat
                      let nv := if nv > r.max then r.max else nv
                      let nv := if nv < r.min then r.min else nv
                      .ok ((nv, .range r), ds)
                  | _ => .overflow
              | .err => .err | .panic => .panic | .overflow => .overflow | .nodraws => .nodraws
          | _ => .overflow
  | .list opts random =>
      match listUpdate opts random ds with
      | .ok ((x, opts), ds) => .ok ((x, .list opts random), ds)
      | .err => .err | .panic => .panic | .overflow => .overflow | .nodraws => .nodraws
  | .const => .ok ((v, .const), ds)

/-- `func (v *value) updateDoubleValue() error` -/
def updateDouble [DOps D] (v : D) (d : DblDist D) (ds : Draws) : Out ((D × DblDist D) × Draws) :=
  match d with
  | .range r =>
      if DOps.lt r.max r.min then .err
      else if DOps.lt v r.min || DOps.lt r.max v then .err
      else
        let useDelta := DOps.ne0 r.dmin || DOps.ne0 r.dmax
        if useDelta && DOps.lt r.dmax r.dmin then .err
        else
          let left := if useDelta then r.dmin else r.min
          let right := if useDelta then r.dmax else r.max
          let base := if useDelta then v else DOps.zero
          match float64 (D := D) ds with
          | .ok (f, ds) =>
              let nv := DOps.add base (DOps.add (DOps.mul f (DOps.sub right left)) left)
              let nv := if DOps.lt r.max nv then r.max else nv
              let nv := if DOps.lt nv r.min then r.min else nv
              .ok ((nv, .range r), ds)
          | .err => .err | .panic => .panic | .overflow => .overflow | .nodraws => .nodraws
  | .list opts random =>
      match listUpdate opts random ds with
      | .ok ((x, opts), ds) => .ok ((x, .list opts random), ds)
      | .err => .err | .panic => .panic | .overflow => .overflow | .nodraws => .nodraws
  | .const => .ok ((v, .const), ds)

/-- `updateStringValue` / `updateBoolValue` -/
def updateScalarList {α : Type} (v : α) (d : ListDist α) (ds : Draws) : Out ((α × ListDist α) × Draws) :=
  match d with
  | .list opts random =>
      match listUpdate opts random ds with
      | .ok ((x, opts), ds) => .ok ((x, .list opts random), ds)
      | .err => .err | .panic => .panic | .overflow => .overflow | .nodraws => .nodraws
  | .const => .ok ((v, .const), ds)

/-- `func (v *value) updateStringListValue() error` -/
def updateStrList (v : List String) (d : ListDist String) (ds : Draws) :
    Out ((List String × ListDist String) × Draws) :=
  match d with
  | .list opts random =>
      match opts with
      | [] => .err
      | o :: rest =>
          if random then
            match shuffle (o :: rest) ds with
            | .ok (opts, ds) =>
                match intn (Int.ofNat opts.length) ds with
                | .ok (k, ds) => .ok ((opts.take k.toNat, .list opts random), ds)
                | .err => .err | .panic => .panic | .overflow => .overflow | .nodraws => .nodraws
            | .err => .err | .panic => .panic | .overflow => .overflow | .nodraws => .nodraws
          else .ok ((rest ++ [o], .list (rest ++ [o]) random), ds)
  | .const => .ok ((v, .const), ds)

/-- the `switch v.v.GetValue().(type)` of `nextValue` -/
def updateKind [DOps D] (k : Kind D) (ds : Draws) : Out (Kind D × Draws) :=
  match k with
  | .int v d =>
      match updateInt v d ds with
      | .ok ((v, d), ds) => .ok (.int v d, ds)
      | .err => .err | .panic => .panic | .overflow => .overflow | .nodraws => .nodraws
  | .double v d =>
      match updateDouble v d ds with
      | .ok ((v, d), ds) => .ok (.double v d, ds)
      | .err => .err | .panic => .panic | .overflow => .overflow | .nodraws => .nodraws
  | .str v d =>
      match updateScalarList v d ds with
      | .ok ((v, d), ds) => .ok (.str v d, ds)
      | .err => .err | .panic => .panic | .overflow => .overflow | .nodraws => .nodraws
  | .strList v d =>
      match updateStrList v d ds with
      | .ok ((v, d), ds) => .ok (.strList v d, ds)
      | .err => .err | .panic => .panic | .overflow => .overflow | .nodraws => .nodraws
  | .bool v d =>
      match updateScalarList v d ds with
      | .ok ((v, d), ds) => .ok (.bool v d, ds)
      | .err => .err | .panic => .panic | .overflow => .overflow | .nodraws => .nodraws
  | .uint v d =>
      match updateUint v d ds with
      | .ok ((v, d), ds) => .ok (.uint v d, ds)
      | .err => .err | .panic => .panic | .overflow => .overflow | .nodraws => .nodraws
  | .sync n => .ok (.sync n, ds)
  | .delete => .ok (.delete, ds)
  | .unset => .err                       -- "value type not found"

/-- Result of `nextValue` on the proto of a value and the draws of its PRNG. -/
inductive NV (D : Type) where
  | dropped                              -- `v.v = nil; return nil`
  | ok (pv : PVal D) (ds : Draws)
  | err (pv : PVal D) (ds : Draws)       -- error returned; `pv`/`ds` = the clone / PRNG as left behind
  | panic
  | overflow
  | nodraws

/-- `func (v *value) nextValue() error` -/
def nextValue [DOps D] (pv : PVal D) (ds : Draws) : NV D :=
  if pv.repeat_ = 1 then .dropped
  else
    -- `v.v = proto.Clone(v.v)`; `if v.v.Repeat > 1 { v.v.Repeat-- }`
    let pv1 : PVal D := if pv.repeat_ > 1 then { pv with repeat_ := pv.repeat_ - 1 } else pv
    match updateTimestamp pv1 ds with
    | .ok (pv2, ds2) =>
        match updateKind pv2.kind ds2 with
        | .ok (k, ds3) => .ok { pv2 with kind := k } ds3
        | .err => .err pv2 ds2
        | .panic => .panic | .overflow => .overflow | .nodraws => .nodraws
    | .err => .err pv1 ds
    | .panic => .panic | .overflow => .overflow | .nodraws => .nodraws

/-! ## The queue -/

/-- `type UpdateQueue struct`: `q` = buckets of values with equal timestamps, ascending; the
bucket's timestamp is *read from its first value* (`u.q[i][0].v.Timestamp.Timestamp`), exactly
as in the Go code; `g` = the queue's own PRNG `u.r`; `nid` = ghost allocation counter. -/
structure UQ (D : Type) where
  q : List (List (Val D)) := []
  latest : Int := 0
  g : Draws := []
  nid : Nat := 0

/-- `v.v.Timestamp.Timestamp` (nil `Timestamp` dereference = `none`) -/
def Val.tsOf (v : Val D) : Option Int := v.pv.ts.map (·.ts)

/-- `u.q[i][0].v.Timestamp.Timestamp` -/
def bucketKey (b : List (Val D)) : Option Int :=
  match b with
  | [] => none
  | v :: _ => v.tsOf

def keyAt (q : List (List (Val D))) (i : Nat) : Option Int :=
  match q[i]? with
  | none => none
  | some b => bucketKey b

/-- Where the binary search of `addValue` ends. -/
inductive Pos where
  | insert (r : Nat)     -- `l == r`: new bucket at index `r`
  | found (i : Nat)      -- `t == t2`: append to bucket `i`
  | panic                -- an index / nil dereference would panic
  | unreachable          -- `l > r` (never happens: `l ≤ r` is maintained)
  deriving DecidableEq, Repr

/-- the `for { … }` loop of `addValue` with its variables `l`, `r` -/
def search (q : List (List (Val D))) (t : Int) (l r : Nat) : Pos :=
  if l = r then .insert r
  else if _h : l < r then
    let i := (r - l) / 2 + l
    match keyAt q i with
    | none => .panic
    | some t2 =>
        if t = t2 then .found i
        else if t < t2 then search q t l i
        else search q t (i + 1) r
  else .unreachable
termination_by r - l
decreasing_by
  all_goals simp_wf
  all_goals omega

/-- `func (u *UpdateQueue) addValue(v *value)` on the bucket list (after the timestamp default) -/
def addValueQ (q : List (List (Val D))) (v : Val D) (t : Int) : Out (List (List (Val D))) :=
  match search q t 0 q.length with
  | .insert r => .ok (q.take r ++ [v] :: q.drop r)
  | .found i => .ok (q.modify i (· ++ [v]))
  | .panic => .panic
  | .unreachable => .panic

/-- `if v.v.Timestamp == nil { v.v.Timestamp = &fpb.Timestamp{} }` -/
def Val.withTs (v : Val D) : Val D :=
  match v.pv.ts with
  | some _ => v
  | none => { v with pv := { v.pv with ts := some {} } }

def Val.t (v : Val D) : Int :=
  match v.pv.ts with
  | some t => t.ts
  | none => 0

/-- `func (u *UpdateQueue) addValue(v *value)` -/
def addValue (u : UQ D) (v : Val D) : Out (UQ D) :=
  let v := v.withTs
  let t := v.t
  let latest := if t > u.latest then t else u.latest
  match addValueQ u.q v t with
  | .ok q => .ok { u with q := q, latest := latest }
  | .err => .err | .panic => .panic | .overflow => .overflow | .nodraws => .nodraws

/-- `newValue(v, u.r)` + `u.addValue(…)`: `own = some draws` iff `v.Seed != 0` -/
def add (u : UQ D) (pv : PVal D) (own : Option Draws) : Out (UQ D) :=
  addValue { u with nid := u.nid + 1 } { pv := pv, own := own, id := u.nid }

/-- `func New(delay bool, seed int64, values []*fpb.Value) *UpdateQueue` (`seed != 0`; `g` = the
raw draws of `rand.NewSource(seed)`) -/
def new (g : Draws) (values : List (PVal D × Option Draws)) : Out (UQ D) :=
  values.foldlM (fun u x => add u x.1 x.2) { g := g }

/-- What one call of `Next` returns. -/
inductive Res (D : Type) where
  | nil                    -- `(nil, nil)`: queue exhausted
  | emit (v : Val D)       -- `(val, nil)`; `v.pv` is the returned proto, `v.id` whose it is
  | err                    -- `(nil, err)`
  | panic
  | overflow
  | nodraws

/-- the draws of the PRNG `v.r` -/
def Val.draws (v : Val D) (g : Draws) : Draws :=
  match v.own with
  | some o => o
  | none => g

/-- `func (u *UpdateQueue) Next() (interface{}, error)` (without the real-time delay) -/
def next [DOps D] (u : UQ D) : Res D × UQ D :=
  match u.q with
  | [] => (.nil, u)
  | [] :: _ => (.panic, u)                       -- `u.q[0][0]`
  | (v :: vs) :: rest =>
      -- `if len(u.q[0]) == 1 { u.q = u.q[1:] } else { u.q[0] = u.q[0][1:] }`
      let popped := match vs with
        | [] => rest
        | _ :: _ => vs :: rest
      match nextValue v.pv (v.draws u.g) with
      | .dropped => (.emit v, { u with q := popped })
      | .ok pv' ds' =>
          let v' : Val D := { v with pv := pv', own := v.own.map (fun _ => ds') }
          let g' := match v.own with
            | some _ => u.g
            | none => ds'
          match addValue { u with q := popped, g := g' } v' with
          | .ok u' => (.emit v, u')
          | _ => (.panic, u)
      | .err pv' ds' =>
          -- the error return leaves the partly updated clone at the head of the queue
          let v' : Val D := { v with pv := pv', own := v.own.map (fun _ => ds') }
          let g' := match v.own with
            | some _ => u.g
            | none => ds'
          (.err, { u with q := (v' :: vs) :: rest, g := g' })
      | .panic => (.panic, u)
      | .overflow => (.overflow, u)
      | .nodraws => (.nodraws, u)

/-- the state after `n` calls of `Next` -/
def after [DOps D] : Nat → UQ D → UQ D
  | 0, u => u
  | n + 1, u => after n (next u).2

/-- what `n` successive calls of `Next` return -/
def results [DOps D] : Nat → UQ D → List (Res D)
  | 0, _ => []
  | n + 1, u => (next u).1 :: results n (next u).2

def Res.emitted? : Res D → Option (Val D)
  | .emit v => some v
  | _ => none

/-- the values emitted by `n` successive calls of `Next` -/
def emits [DOps D] (n : Nat) (u : UQ D) : List (Val D) := (results n u).filterMap Res.emitted?

/-! ## The fake agent: `Client.reset` and `valToResp` -/

/-- the injected sync: `&fpb.Value{Timestamp: {Timestamp: q.Latest()}, Repeat: 1, Value: Sync{1}}` -/
def syncValue (latest : Int) : PVal D :=
  { path := [], ts := some { ts := latest }, repeat_ := 1, kind := .sync 1 }

/-- `func (c *Client) reset() error`, `default:` arm -/
def reset (g : Draws) (values : List (PVal D × Option Draws)) (disableSync : Bool) : Out (UQ D) :=
  match new g values with
  | .ok u => if disableSync then .ok u else add u (syncValue u.latest) none
  | .err => .err | .panic => .panic | .overflow => .overflow | .nodraws => .nodraws

/-- `gpb.TypedValue` as built by `TypedValueOf` -/
inductive TV (D : Type) where
  | int (v : Int) | double (v : D) | str (v : String) | leaflist (v : List String)
  | bool (v : Bool) | uint (v : Nat)

/-- `func TypedValueOf(v *fpb.Value) *gpb.TypedValue` (`none` = nil) -/
def typedValueOf (k : Kind D) : Option (TV D) :=
  match k with
  | .int v _ => some (.int v)
  | .double v _ => some (.double v)
  | .str v _ => some (.str v)
  | .strList v _ => some (.leaflist v)
  | .bool v _ => some (.bool v)
  | .uint v _ => some (.uint v)
  | _ => none

/-- the `SubscribeResponse`s of `valToResp` -/
inductive Resp (D : Type) where
  | update (ts : Int) (path : List String) (tv : TV D)
  | delete (ts : Int) (path : List String)
  | sync (b : Bool)

/-- `func valToResp(val *fpb.Value) (*gpb.SubscribeResponse, error)` -/
def valToResp (pv : PVal D) : Out (Resp D) :=
  match pv.kind with
  | .delete =>
      match pv.ts with
      | some t => .ok (.delete t.ts pv.path)
      | none => .panic
  | .sync n => .ok (.sync (n > 0))
  | k =>
      match typedValueOf k with
      | none => .err
      | some tv =>
          match pv.ts with
          | some t => .ok (.update t.ts pv.path tv)
          | none => .panic

end FQ
end Gnmi
