import Gnmi.Model.Pipeline
import Gnmi.Model.RecvSurfaces
/-!
# `gnmi_cli`'s group display over the collector pipeline's client (property C01, CLI clause)

`Model/RecvSurfaces.lean` models `cli/cli.go`'s display (`displayWalk`, `pathmap.add`) arm for arm
for property C12; `Model/Pipeline.lean` ends at the `cli.QueryDisplay` call (`CliOut.display q`).
This file puts the two together — nothing here re-defines a model function:

* `RX.pmLeaves`: the **observation** of a displayed `pathmap`: its leaves with full paths (what
  `pathmap.str` prints, one `"key": atom` line per leaf under the nested `{ … }` of its path;
  `go/ve2e`'s `parseGroup` reads exactly this back from the CLI's standard output);
* `Pipeline.cliGroupOf walk`: `displayWalk(c, cfg)` with `cfg.Timestamp == ""` (gnmi_cli's default)
  over a client whose `WalkSorted` visits `walk`: `b := make(pathmap)`; one `b.add(path, v.Val)`
  per leaf — *the same* `RX.pmAddAll []` that `RX.displayWalk` runs (`C01.displayWalk_eq`);
* `Pipeline.trieOf` / `Client.sortedWalk` / `Client.cliGroupSorted`: the same over the order
  `WalkSorted` really visits (the `ctree` model `Trie`, C09): what the driver's `e2e cli` prints;
* `Sys.queryClient`: `Sys.once` for the request a `client.Query` puts on the wire
  (`requestSent`), and `Sys.cliShow`: what one `gnmi_cli` invocation displays.

Core Lean only (the line-protocol driver calls `Client.cliGroupSorted` for the `e2e cli` operation).
-/
namespace Gnmi
namespace RX

section
variable {V : Type}

mutual
/-- leaves below one `interface{}` held by a pathmap: a value is one leaf, a pathmap its leaves -/
def pmLeavesV : PM V → List (Path × V)
  | .val v => [([], v)]
  | .map cs => pmLeaves cs
/-- the leaves of a displayed pathmap, with full paths (entry order; shadowed entries — which
`pmSet` never creates — would be listed too) -/
def pmLeaves : PMap' V → List (Path × V)
  | [] => []
  | (k, x) :: r => (pmLeavesV x).map (pre k) ++ pmLeaves r
end

/-- the leaves one `b.add(path, x)` is meant to contribute -/
def addedLeaves (p : Path) (x : PM V) : List (Path × V) :=
  (pmLeavesV x).map (fun kv => (normKey p ++ kv.1, kv.2))

end

/-- the leaves `displayWalk` is meant to show for one client leaf: the value under its path, or —
with a timestamp setting — `path/value` and `path/timestamp` -/
def shownLeaves {F D : Type} (tm : TsMode) (kv : Path × TreeVal F D) : List (Path × DV F D) :=
  match formatTime (F := F) (D := D) tm kv.2.ts with
  | some t => [(normKey kv.1 ++ ["value"], .cval kv.2.val), (normKey kv.1 ++ ["timestamp"], t)]
  | none => [(normKey kv.1, .cval kv.2.val)]

end RX

namespace Pipeline

/-- `displayWalk(c, cfg)` (cli.go), `cfg.Timestamp == ""`, over the leaves `walk` in the order
`c.WalkSorted` visits them: `b.add(path, v.Val)` for each, on a fresh pathmap.  `ok m`: the pathmap
handed to `pathmap.display`; `panic`: the unchecked assertion `mm.(pathmap)` of `pathmap.add`. -/
def cliGroupOf (walk : List (Path × CLeaf)) : RX.Outcome (RX.PMap' CVal) :=
  RX.pmAddAll [] (walk.map (fun kv => (kv.1, RX.PM.val kv.2.val)))

/-- the group display of a client (`Leaves()` order; any other walk order: `cliGroupOf`) -/
def Client.cliGroup (c : Client) : RX.Outcome (RX.PMap' CVal) := cliGroupOf c.leaves

/-- the `ctree` behind a flat tree: its entries added one by one with `ctree.Add` (`Trie.add`; an
add the tree refuses — never, for a prefix-free map with unique keys: `trieOf_spec` — is dropped
like `defaultHandler` drops it) -/
def trieOf {α : Type} : PMap α → Trie α
  | [] => .empty
  | (p, v) :: r => ((trieOf r).add p v).getD (trieOf r)

/-- the order `c.WalkSorted` visits the client's leaves in (`ctree`'s `walkInternalSorted`) -/
def Client.sortedWalk (c : Client) : List (Path × CLeaf) := Trie.walkSorted (trieOf c.leaves)

/-- `displayWalk(c, cfg)` as `gnmi_cli` runs it: the group display over `WalkSorted` -/
def Client.cliGroupSorted (c : Client) : RX.Outcome (RX.PMap' CVal) := cliGroupOf c.sortedWalk

/-- the client behind `cli.QueryDisplay(ctx, q, cfg)` for a ONCE / POLL-less query at the current
state: `Sys.once` for the request `client/gnmi.Subscribe` sends for `q` (`requestSent`);
`none` = `ToSubscribeRequest` failed -/
def Sys.queryClient (s : Sys) (q : Query) : Option Client :=
  (requestSent q).map (fun R =>
    let st := Sub.subscribe { cache := s.sub.cache } "once" .absent (some R.toReq)
    let r := lastSent st
    (Client.run (R.mode != .stream) {} r.1).finish r.2)

/-- what one `gnmi_cli` Subscribe invocation displays (group display, no timestamps): `none` = it
displays nothing (flag / proto error, conversion error, or the client ended with an error:
`displayOnceResults` returns before `displayWalk`) -/
def Sys.cliShow (s : Sys) : CliOut → Option (RX.Outcome (RX.PMap' CVal))
  | .error => none
  | .display q =>
    match s.queryClient q with
    | none => none
    | some c => if c.failed then none else some c.cliGroupSorted

end Pipeline
end Gnmi
