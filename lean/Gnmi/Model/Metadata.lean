import Gnmi.Basic
/-!
# Model of `metadata/metadata.go` (per-target metadata object and its registries)

The package keeps three package-level registries (`TargetBoolValues`, `TargetIntValues`,
`TargetStrValues`) and a `Metadata` object with one value map per kind.  Every function below
follows the Go function of the same name arm by arm.

Conventions
* A Go `map[string]V` is an association list (`AMap`): `get?` finds the first binding, `set`
  removes every binding of the key and conses the new one (so keys stay unique), `erase` is
  `delete`.  Where Go iterates a map (`Clear`) the model iterates the list; results are stated
  up to key order (`Md.Equiv`: same answer to every lookup), see `Props/C14Meta.lean`
  (`clear_eq_resetEntries`: any iteration order gives an equivalent state).
* The registries are package-level variables in Go; here they are an explicit `Registry` value
  threaded through every function.  Pointers stored in the registries may be `nil`
  (`RegisterIntValue(name, nil)` is accepted by the code): the values are `Option`s.
* `int64` is Lean's `Int64` (wrapping `+`, as Go's `+=` on `int64`).
* `ResetAction` is an `int` in Go; any value other than `DefaultValue`/`Delete`/`Keep`
  (`other`) falls through both `if`s of `ResetEntry` like `Keep` does.
* Scope: objects created by `New` (the three maps are non-nil, so no write can panic).  A zero
  `metadata.Metadata{}` (nil maps: every Set/Add panics) is not modelled.  The mutex is ignored
  (sequential model; the unsynchronised package-level registries are documented by the package as
  "register before any Metadata is instantiated").
-/
namespace Gnmi
namespace Metadata

/-! ## Go maps as association lists -/

abbrev AMap (α : Type) := List (String × α)

namespace AMap
variable {α : Type}

/-- `v, ok := m[k]` -/
def get? : AMap α → String → Option α
  | [], _ => none
  | (k', v) :: r, k => if k' = k then some v else get? r k

/-- `delete(m, k)` -/
def erase (m : AMap α) (k : String) : AMap α := m.filter (fun kv => kv.1 != k)

/-- `m[k] = v` -/
def set (m : AMap α) (k : String) (v : α) : AMap α := (k, v) :: erase m k

/-- the keys a `for k := range m` visits (in some order) -/
def keys (m : AMap α) : List String := m.map (·.1)

end AMap

/-! ## Constants -/

def root : String := "meta"
def sync : String := "sync"
def connected : String := "connected"
def connectedAddr : String := "connectedAddress"
def addCount : String := "targetLeavesAdded"
def delCount : String := "targetLeavesDeleted"
def emptyCount : String := "targetLeavesEmpty"
def leafCount : String := "targetLeaves"
def updateCount : String := "targetLeavesUpdated"
def staleCount : String := "targetLeavesStale"
def futureCount : String := "targetLeavesFuture"
def suppressedCount : String := "targetLeavesSuppressed"
def size : String := "targetSize"
def latestTimestamp : String := "latestTimestamp"
def connectError : String := "connectError"
def serverName : String := "serverName"

/-! ## Registries -/

/-- `ResetAction` -/
inductive ResetAction where
  | defaultValue            -- 0: set to "" on reset
  | delete                  -- 1: delete on reset
  | keep                    -- 2: leave as is
  | other (n : Nat)         -- any other `int` (n ≥ 3 or negative, the number is only a label)
deriving DecidableEq, Repr, Inhabited

/-- `IntValue` -/
structure IntValue where
  path : List String := []
  initZero : Bool := false
deriving DecidableEq, Repr, Inhabited

/-- `StrValue` -/
structure StrValue where
  resetAction : ResetAction := .defaultValue
deriving DecidableEq, Repr, Inhabited

/-- the three package-level maps; `none` values are nil pointers -/
structure Registry where
  bools : AMap Bool := []
  ints : AMap (Option IntValue) := []
  strs : AMap (Option StrValue) := []
deriving DecidableEq, Repr, Inhabited

/-- the initial contents of the package-level maps -/
def Registry.std : Registry where
  bools := [(sync, true), (connected, true)]
  ints := [addCount, delCount, emptyCount, leafCount, updateCount, staleCount, futureCount,
      suppressedCount, size, latestTimestamp].map (fun n => (n, some { path := [root, n], initZero := true }))
  strs := [(connectedAddr, some { resetAction := .defaultValue }),
           (connectError, some { resetAction := .delete })]

/-- `RegisterIntValue(name, val)` -/
def Registry.registerInt (r : Registry) (name : String) (val : Option IntValue) : Registry :=
  { r with ints := r.ints.set name val }

/-- `UnregisterIntValue(name)` -/
def Registry.unregisterInt (r : Registry) (name : String) : Registry :=
  { r with ints := r.ints.erase name }

/-- `RegisterStrValue(name, val)` -/
def Registry.registerStr (r : Registry) (name : String) (val : Option StrValue) : Registry :=
  { r with strs := r.strs.set name val }

/-- `UnregisterStrValue(name)` -/
def Registry.unregisterStr (r : Registry) (name : String) : Registry :=
  { r with strs := r.strs.erase name }

def latencyTypes : List String := ["avg", "max", "min"]

/-- `latency.MetadataName(size, typ)`; `w` is `latency.CompactDurationString(size)` -/
def latencyName (w typ : String) : String := typ ++ "LatencyWindow" ++ w

/-- `LatencyPath(size, typ)` -/
def latencyPath (w typ : String) : List String := [root, "latency", "window", w, typ]

/-- `RegisterLatencyMetadata(windowSizes)`; a window is given by its compact duration string -/
def Registry.registerLatency (r : Registry) (windows : List String) : Registry :=
  windows.foldl (fun r w =>
    latencyTypes.foldl (fun r typ =>
      r.registerInt (latencyName w typ) (some { path := latencyPath w typ, initZero := false })) r) r

/-- `RegisterServerNameMetadata()` -/
def Registry.registerServerName (r : Registry) : Registry :=
  r.registerStr serverName (some { resetAction := .keep })

/-- `UnregisterServerNameMetadata()` -/
def Registry.unregisterServerName (r : Registry) : Registry := r.unregisterStr serverName

/-- `TargetBoolValues[value]` (false when absent) -/
def Registry.boolVal (r : Registry) (value : String) : Bool := (r.bools.get? value).getD false

/-- `TargetIntValues[value]` (`none` = nil: absent or a registered nil pointer) -/
def Registry.intVal? (r : Registry) (value : String) : Option IntValue := (r.ints.get? value).bind id

/-- `TargetStrValues[value]` -/
def Registry.strVal? (r : Registry) (value : String) : Option StrValue := (r.strs.get? value).bind id

/-- `Path(value)`; `[]` is the nil slice -/
def Registry.path (r : Registry) (value : String) : List String :=
  if r.boolVal value then [root, value]
  else if (r.strVal? value).isSome then [root, value]
  else
    match r.intVal? value with
    | some val => val.path
    | none => []

/-! ## Errors -/

inductive Err where
  | invalid        -- `ErrInvalidValue`
  | unset          -- `ErrUnsetValue`
  | unsupported    -- `fmt.Errorf("unsupported entry %q", entry)`
deriving DecidableEq, Repr, Inhabited

/-- `validInt(value)`; `none` = nil error -/
def validInt (r : Registry) (value : String) : Option Err :=
  match r.intVal? value with
  | none => some .invalid
  | some _ => none

/-- `validBool(value)` -/
def validBool (r : Registry) (value : String) : Option Err :=
  if r.boolVal value then none else some .invalid

/-- `validStr(value)` -/
def validStr (r : Registry) (value : String) : Option Err :=
  match r.strVal? value with
  | none => some .invalid
  | some _ => none

/-! ## The metadata object -/

/-- `Metadata` (without its mutex) -/
structure Md where
  ints : AMap Int64 := []
  bools : AMap Bool := []
  strs : AMap String := []
deriving DecidableEq, Repr, Inhabited

/-- `AddInt(value, i)`: new object, returned error -/
def Md.addInt (r : Registry) (m : Md) (value : String) (i : Int64) : Md × Option Err :=
  match validInt r value with
  | some e => (m, some e)
  | none => ({ m with ints := m.ints.set value ((m.ints.get? value).getD 0 + i) }, none)

/-- `SetInt(value, v)` -/
def Md.setInt (r : Registry) (m : Md) (value : String) (v : Int64) : Md × Option Err :=
  match validInt r value with
  | some e => (m, some e)
  | none => ({ m with ints := m.ints.set value v }, none)

/-- `GetInt(value)` -/
def Md.getInt (r : Registry) (m : Md) (value : String) : Except Err Int64 :=
  match validInt r value with
  | some e => .error e
  | none =>
    match m.ints.get? value with
    | none => .error .unset
    | some v => .ok v

/-- `SetBool(value, v)` -/
def Md.setBool (r : Registry) (m : Md) (value : String) (v : Bool) : Md × Option Err :=
  match validBool r value with
  | some e => (m, some e)
  | none => ({ m with bools := m.bools.set value v }, none)

/-- `GetBool(value)` -/
def Md.getBool (r : Registry) (m : Md) (value : String) : Except Err Bool :=
  match validBool r value with
  | some e => .error e
  | none =>
    match m.bools.get? value with
    | none => .error .unset
    | some v => .ok v

/-- `SetStr(value, v)` -/
def Md.setStr (r : Registry) (m : Md) (value v : String) : Md × Option Err :=
  match validStr r value with
  | some e => (m, some e)
  | none => ({ m with strs := m.strs.set value v }, none)

/-- `GetStr(value)` -/
def Md.getStr (r : Registry) (m : Md) (value : String) : Except Err String :=
  match validStr r value with
  | some e => .error e
  | none =>
    match m.strs.get? value with
    | none => .error .unset
    | some v => .ok v

/-- `ResetEntry(entry)`: the first kind under which `entry` is valid decides (bool, then int,
then string); the errors of the inner `SetBool`/`SetInt`/`SetStr` calls are dropped as in Go -/
def Md.resetEntry (r : Registry) (m : Md) (entry : String) : Md × Option Err :=
  if validBool r entry = none then ((m.setBool r entry false).1, none)
  else if validInt r entry = none then
    match r.intVal? entry with
    | some val =>
      if val.initZero then ((m.setInt r entry 0).1, none)
      else ({ m with ints := m.ints.erase entry }, none)
    | none => (m, none)         -- unreachable: `validInt` just said the pointer is non-nil
  else if validStr r entry = none then
    match r.strVal? entry with
    | some val =>
      if val.resetAction = .defaultValue then ((m.setStr r entry "").1, none)
      else if val.resetAction = .delete then ({ m with strs := m.strs.erase entry }, none)
      else (m, none)
    | none => (m, none)         -- unreachable
  else (m, some .unsupported)

/-- `for k := range <keys> { m.ResetEntry(k) }` -/
def Md.resetAll (r : Registry) (m : Md) (ks : List String) : Md :=
  ks.foldl (fun m k => (m.resetEntry r k).1) m

/-- `Clear()` -/
def Md.clear (r : Registry) (m : Md) : Md :=
  ((m.resetAll r r.bools.keys).resetAll r r.ints.keys).resetAll r r.strs.keys

/-- `New()` -/
def Md.new (r : Registry) : Md := Md.clear r {}

/-! ## Histories -/

inductive Op where
  | new                                             -- `metadata.New()` under the current registries
  | addInt (name : String) (i : Int64)
  | setInt (name : String) (v : Int64)
  | getInt (name : String)
  | setBool (name : String) (v : Bool)
  | getBool (name : String)
  | setStr (name v : String)
  | getStr (name : String)
  | resetEntry (name : String)
  | clear
  | path (name : String)
  | registerInt (name : String) (val : Option IntValue)
  | unregisterInt (name : String)
  | registerStr (name : String) (val : Option StrValue)
  | unregisterStr (name : String)
  | registerLatency (windows : List String)
  | registerServerName
  | unregisterServerName
deriving DecidableEq, Repr, Inhabited

inductive Obs where
  | ok
  | err (e : Err)
  | int (v : Int64)
  | bool (v : Bool)
  | str (v : String)
  | path (p : List String)
deriving DecidableEq, Repr, Inhabited

def obsErr : Option Err → Obs
  | none => .ok
  | some e => .err e

/-- the package state: registries and one metadata object -/
structure St where
  reg : Registry := .std
  m : Md := Md.new .std
deriving DecidableEq, Repr, Inhabited

def St.step (s : St) : Op → St × Obs
  | .new => ({ s with m := Md.new s.reg }, .ok)
  | .addInt n i => let r := s.m.addInt s.reg n i; ({ s with m := r.1 }, obsErr r.2)
  | .setInt n v => let r := s.m.setInt s.reg n v; ({ s with m := r.1 }, obsErr r.2)
  | .getInt n =>
    (s, match s.m.getInt s.reg n with
        | .ok v => .int v
        | .error e => .err e)
  | .setBool n v => let r := s.m.setBool s.reg n v; ({ s with m := r.1 }, obsErr r.2)
  | .getBool n =>
    (s, match s.m.getBool s.reg n with
        | .ok v => .bool v
        | .error e => .err e)
  | .setStr n v => let r := s.m.setStr s.reg n v; ({ s with m := r.1 }, obsErr r.2)
  | .getStr n =>
    (s, match s.m.getStr s.reg n with
        | .ok v => .str v
        | .error e => .err e)
  | .resetEntry n => let r := s.m.resetEntry s.reg n; ({ s with m := r.1 }, obsErr r.2)
  | .clear => ({ s with m := s.m.clear s.reg }, .ok)
  | .path n => (s, .path (s.reg.path n))
  | .registerInt n v => ({ s with reg := s.reg.registerInt n v }, .ok)
  | .unregisterInt n => ({ s with reg := s.reg.unregisterInt n }, .ok)
  | .registerStr n v => ({ s with reg := s.reg.registerStr n v }, .ok)
  | .unregisterStr n => ({ s with reg := s.reg.unregisterStr n }, .ok)
  | .registerLatency ws => ({ s with reg := s.reg.registerLatency ws }, .ok)
  | .registerServerName => ({ s with reg := s.reg.registerServerName }, .ok)
  | .unregisterServerName => ({ s with reg := s.reg.unregisterServerName }, .ok)

def St.run (s : St) : List Op → St
  | [] => s
  | op :: ops => St.run (s.step op).1 ops

/-- the observations of a history -/
def St.trace (s : St) : List Op → List Obs
  | [] => []
  | op :: ops => (s.step op).2 :: St.trace (s.step op).1 ops

end Metadata
end Gnmi
