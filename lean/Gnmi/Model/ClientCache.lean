import Gnmi.Basic
/-!
# `CacheClient` (client/cache.go): the notification handler wrapping

Go code modelled (put `client/cache.go` next to this file):

* `CacheClient.Subscribe`: `q.ProtoHandler = nil`; the caller's `q.NotificationHandler` (if any)
  is stored in `c.clientHandler`; `q.NotificationHandler = c.defaultHandler`; then
  `BaseClient.Subscribe`.  So the transport calls `defaultHandler` where it would have called the
  caller's handler.
* `defaultHandler(n)`: a type switch — unknown type: return an error (nothing forwarded);
  `Connected`: nothing; `Error`: return an error (nothing forwarded); `Update`: `c.Add(path,
  TreeVal)`; `Delete`: `c.Delete(path)`; `Sync`: close `c.synced` unless already closed — then
  `c.clientHandler(n)` if there is one (its result is returned), else `nil`.
* `Poll`: close `c.synced` unless already closed, then `BaseClient.Poll`.
* `Synced`: the channel.

The tree (`ctree.Tree`, modelled in `Model/CTree.lean`) is a parameter here: any type `T` with
`add`/`del`; its content is not what C18 is about.  Ghost state: `fwd` (the calls made to the
caller's handler, in order), `closes` (number of `close(c.synced)` executions; a second one would
panic).
-/
namespace Gnmi
namespace ClientCache

/-- `client.Notification` values: the five types of client/notification.go, and anything else -/
inductive Noti (P V : Type) where
  | connected
  | sync
  | update (p : P) (ts : Int) (v : V)
  | delete (p : P)
  | error (msg : String)
  | other
deriving DecidableEq, Repr

variable {P V T : Type}

/-- the types the gNMI transport (`client/gnmi: defaultRecv`) hands to the handler -/
def Noti.fromTransport : Noti P V → Bool
  | .connected | .sync | .update _ _ _ | .delete _ => true
  | _ => false

/-- the types `defaultHandler` hands on to the caller's handler -/
def Noti.forwarded : Noti P V → Bool
  | .error _ | .other => false
  | _ => true

def Noti.isSync : Noti P V → Bool
  | .sync => true
  | _ => false

/-- the tree operations used (`ctree.Tree.Add`, `ctree.Tree.Delete`; results ignored) -/
structure TreeOps (P V T : Type) where
  add : T → P → Int × V → T
  del : T → P → T

structure St (P V T : Type) where
  tree : T
  syncedClosed : Bool := false
  closes : Nat := 0
  fwd : List (Noti P V) := []

/-- `select { default: close(c.synced); case <-c.synced: }` -/
def St.closeSynced (st : St P V T) : St P V T :=
  if st.syncedClosed then st else { st with syncedClosed := true, closes := st.closes + 1 }

/-- `defaultHandler`; `uh` = the caller's handler (`none`: `q.NotificationHandler == nil`), as a
function telling whether it returns nil; result: new state, and whether nil is returned -/
def defaultHandler (ops : TreeOps P V T) (uh : Option (Noti P V → Bool)) (st : St P V T)
    (n : Noti P V) : St P V T × Bool :=
  let cont (st1 : St P V T) : St P V T × Bool :=
    match uh with
    | some h => ({ st1 with fwd := st1.fwd ++ [n] }, h n)
    | none => (st1, true)
  match n with
  | .other => (st, false)
  | .error _ => (st, false)
  | .connected => cont st
  | .update p ts v => cont { st with tree := ops.add st.tree p (ts, v) }
  | .delete p => cont { st with tree := ops.del st.tree p }
  | .sync => cont st.closeSynced

/-- `CacheClient.Poll` up to the call of `BaseClient.Poll` -/
def poll (st : St P V T) : St P V T := st.closeSynced

/-- the transport calls the handler for every notification in turn (`client/gnmi: defaultRecv`
ignores what the handler returns) -/
def feed (ops : TreeOps P V T) (uh : Option (Noti P V → Bool)) : St P V T → List (Noti P V) → St P V T
  | st, [] => st
  | st, n :: ns => feed ops uh (defaultHandler ops uh st n).1 ns

end ClientCache
end Gnmi
