import Gnmi.Basic
/-!
# The connection manager as a labelled transition system (`connection/connection.go`)

Configuration = the manager's shared state (`m.conns`, the `connection` objects on the
heap) + one program counter per goroutine (requesters calling `Manager.Connection`, one
dial goroutine per `connection` object).  One transition = one **atomic section** of the
code: the code between two synchronising operations (`m.mu.Lock()`…`Unlock()`, the channel
receive `<-c.ready`, `close(c.ready)`, the call of the `Dial` function).

```
Connection(ctx, addr, dialer):                     label   requester pc
  select { case <-ctx.Done(): return ctx.Err()     r0      r0 → failed ctx | r1
           default:
  m.mu.Lock()                                      r1      r1 → wait o
  c, ok := m.conns[addr]
  if !ok { c = newConnection(addr); m.conns[addr] = c; go m.dial(ctx, addr, dialer, c) }
  c.ref++
  m.mu.Unlock()
  <-c.ready                                        r2      wait o → woken o     (enabled iff ready)
  if c.err != nil { return nil, func(){}, c.err }  r3      woken o → failed e
  return c.c, c.done(m), nil                                woken o → held o false

done() (the func returned with a connection)       done    held o false → held o true
  once.Do( m.mu.Lock(); c.ref--; if c.ref <= 0 { m.remove(c.id) }; m.mu.Unlock() )
                                                            held o true: no-op (once)
                                                            failed e  : no-op (func(){})
dial(ctx, addr, dialer, c):                                dial pc (stored in the object)
  d, ok := m.d[dialer]; if !ok { err = ... }       d1a     start → failing noDialer
  cc, err = d(ctx, addr, m.opts...)                         start → dialing n   (invocation n of Dial)
                                                   d1b out dialing n → failing e | (c.c = cc) closing
  if err != nil { m.mu.Lock(); m.remove(addr);     d2      failing e → closing
                  c.err = err; m.mu.Unlock() }
  close(c.ready)          (deferred)               d3      closing → fin

remove(addr):  c, ok := m.conns[addr]; delete(m.conns, addr); if c.c != nil { c.c.Close() }
               — deletes **by address** whatever object is registered there, and dereferences
               `c` even when `!ok` (nil pointer: panic).
```

Things the code does *not* do, and the model therefore does not do either: a requester
blocked in `<-c.ready` does not watch its own context (only the creator's context reaches
the `Dial` function); a cancelled joiner keeps its reference until the shared dial ends.

Pointers are heap indices: `objs : List Obj` holds every `connection` ever allocated
(index = identity), `conns : List (Addr × Nat)` is the map `m.conns` (address ↦ object),
read only through `find` (so it behaves as a Go map whatever its list order).
The state of the dial goroutine of an object (`dpc`, its `ctx` = the creator's, the dialer
lookup result) is stored next to the object it was spawned for.
Core Lean only: the driver executes this file.
-/
namespace Gnmi
namespace Conn

abbrev Addr := String

/-- error classes a caller can see -/
inductive Err
  | ctx        -- ctx.Err() (the caller's own check, or returned by the Dial function)
  | dial       -- the Dial function failed
  | noDialer   -- "no such dialer"
  deriving DecidableEq, Repr, Inhabited

/-- program counter of the dial goroutine `m.dial(ctx, addr, dialer, c)` -/
inductive DPc
  | start                 -- spawned; dialer not yet looked up
  | dialing (n : Nat)     -- inside the n-th invocation of the Dial function
  | failing (e : Err)     -- `err != nil`, before `m.mu.Lock()`
  | closing               -- before the deferred `close(c.ready)`
  | fin                   -- goroutine finished
  deriving DecidableEq, Repr, Inhabited

/-- a `*connection` object plus the locals of its dial goroutine -/
structure Obj where
  addr : Addr                 -- c.id
  ref : Int := 0              -- c.ref
  ready : Bool := false       -- c.ready closed
  err : Option Err := none    -- c.err
  conn : Option Nat := none   -- c.c : the ClientConn returned by Dial invocation n
  closed : Nat := 0           -- number of Close() calls made on c.c
  dpc : DPc := .start
  creator : Nat := 0          -- the requester whose ctx was handed to the dial goroutine
  dialerOK : Bool := true     -- whether `m.d[dialer]` exists
  deriving DecidableEq, Repr, Inhabited

/-- program counter of one call of `Manager.Connection` and of the caller's use of `done` -/
inductive RPc
  | r0                                   -- before the ctx check
  | r1                                   -- before `m.mu.Lock()`
  | wait (o : Nat)                       -- blocked in `<-c.ready`
  | woken (o : Nat)                      -- past `<-c.ready`, before reading `c.err`
  | held (o : Nat) (released : Bool)     -- returned `(c.c, done, nil)`; `released` = the once fired
  | failed (e : Err)                     -- returned `(nil, func(){}, e)`
  deriving DecidableEq, Repr, Inhabited

structure Req where
  addr : Addr
  dialerOK : Bool := true
  cancelled : Bool := false   -- ctx.Done() closed (monotone)
  pc : RPc := .r0
  deriving DecidableEq, Repr, Inhabited

structure Cfg where
  conns : List (Addr × Nat) := []
  objs : List Obj := []
  reqs : List Req := []
  dials : Nat := 0            -- invocations of the Dial function so far
  panicked : Bool := false    -- a goroutine hit the nil dereference in `remove`
  deriving DecidableEq, Repr, Inhabited

/-- scripted result of one Dial invocation -/
inductive Outcome
  | ok          -- returns a fresh ClientConn
  | fail        -- returns an error
  | cancelled   -- returns ctx.Err(); possible only once the creator's ctx is cancelled
  deriving DecidableEq, Repr, Inhabited

/-- transition labels = (thread, atomic section) (+ the environment's choices) -/
inductive Label
  | start (a : Addr) (dialerOK : Bool) (cancelled : Bool)   -- a goroutine calls Connection
  | cancel (r : Nat)                                        -- the caller's ctx is cancelled
  | r0 (r : Nat) | r1 (r : Nat) | r2 (r : Nat) | r3 (r : Nat)
  | done (r : Nat)                                          -- the caller invokes its done func
  | d1a (o : Nat) | d1b (o : Nat) (out : Outcome) | d2 (o : Nat) | d3 (o : Nat)
  deriving DecidableEq, Repr, Inhabited

/-! ## the map `m.conns` -/

/-- `m.conns[a]` -/
def find : List (Addr × Nat) → Addr → Option Nat
  | [], _ => none
  | (b, o) :: rest, a => if b = a then some o else find rest a

/-- `delete(m.conns, a)` -/
def erase (m : List (Addr × Nat)) (a : Addr) : List (Addr × Nat) := m.filter (fun kv => kv.1 ≠ a)

/-! ## atomic sections -/

/-- `m.remove(a)` (caller holds `m.mu`) -/
def remove (c : Cfg) (a : Addr) : Cfg :=
  match find c.conns a with
  | none => { c with panicked := true }            -- `c == nil`, `c.c` dereferences nil
  | some o =>
    match c.objs[o]? with
    | none => { c with panicked := true }          -- dangling pointer (heap encoding only)
    | some ob =>
      { c with
        conns := erase c.conns a
        objs := c.objs.set o (if ob.conn.isSome then { ob with closed := ob.closed + 1 } else ob) }

/-- the locked section of `Connection`: create-or-join, `c.ref++` -/
def doR1 (c : Cfg) (r : Nat) (q : Req) : Cfg :=
  match find c.conns q.addr with
  | some o =>
    match c.objs[o]? with
    | some ob =>
      { c with
        objs := c.objs.set o { ob with ref := ob.ref + 1 }
        reqs := c.reqs.set r { q with pc := .wait o } }
    | none => { c with panicked := true }          -- dangling pointer (heap encoding only)
  | none =>
    let o := c.objs.length
    { c with
      conns := (q.addr, o) :: c.conns
      objs := c.objs ++ [{ addr := q.addr, ref := 1, creator := r, dialerOK := q.dialerOK }]
      reqs := c.reqs.set r { q with pc := .wait o } }

/-- the once-guarded body of a done func of object `o` held by requester `r` -/
def doDone (c : Cfg) (r : Nat) (q : Req) (o : Nat) (ob : Obj) : Cfg :=
  let c1 : Cfg :=
    { c with
      objs := c.objs.set o { ob with ref := ob.ref - 1 }
      reqs := c.reqs.set r { q with pc := .held o true } }
  if ob.ref - 1 ≤ 0 then remove c1 ob.addr else c1

/-- the failure path of `dial`: locked `remove(addr)`, then `c.err = err` -/
def doD2 (c : Cfg) (o : Nat) (ob : Obj) (e : Err) : Cfg :=
  let c1 := remove c ob.addr
  if c1.panicked then c1 else            -- the goroutine died inside `remove`
  match c1.objs[o]? with
  | some ob1 => { c1 with objs := c1.objs.set o { ob1 with err := some e, dpc := .closing } }
  | none => c1

/-- one transition of the unlocked system -/
def stepL (c : Cfg) : Label → Option Cfg
  | .start a dk cn =>
      some { c with reqs := c.reqs ++ [{ addr := a, dialerOK := dk, cancelled := cn }] }
  | .cancel r =>
      match c.reqs[r]? with
      | some q => some { c with reqs := c.reqs.set r { q with cancelled := true } }
      | none => none
  | .r0 r =>
      match c.reqs[r]? with
      | some q =>
        match q.pc with
        | .r0 => some { c with
            reqs := c.reqs.set r { q with pc := if q.cancelled then .failed .ctx else .r1 } }
        | _ => none
      | none => none
  | .r1 r =>
      match c.reqs[r]? with
      | some q =>
        match q.pc with
        | .r1 => some (doR1 c r q)
        | _ => none
      | none => none
  | .r2 r =>
      match c.reqs[r]? with
      | some q =>
        match q.pc with
        | .wait o =>
          match c.objs[o]? with
          | some ob => if ob.ready then some { c with reqs := c.reqs.set r { q with pc := .woken o } } else none
          | none => none
        | _ => none
      | none => none
  | .r3 r =>
      match c.reqs[r]? with
      | some q =>
        match q.pc with
        | .woken o =>
          match c.objs[o]? with
          | some ob =>
            match ob.err with
            | some e => some { c with reqs := c.reqs.set r { q with pc := .failed e } }
            | none => some { c with reqs := c.reqs.set r { q with pc := .held o false } }
          | none => none
        | _ => none
      | none => none
  | .done r =>
      match c.reqs[r]? with
      | some q =>
        match q.pc with
        | .failed _ => some c                       -- `func() {}`
        | .held _ true => some c                    -- the once already fired
        | .held o false =>
          match c.objs[o]? with
          | some ob => some (doDone c r q o ob)
          | none => none
        | _ => none                                 -- no done func handed out yet
      | none => none
  | .d1a o =>
      match c.objs[o]? with
      | some ob =>
        match ob.dpc with
        | .start =>
          if ob.dialerOK then
            some { c with objs := c.objs.set o { ob with dpc := .dialing c.dials }, dials := c.dials + 1 }
          else
            some { c with objs := c.objs.set o { ob with dpc := .failing .noDialer } }
        | _ => none
      | none => none
  | .d1b o out =>
      match c.objs[o]? with
      | some ob =>
        match ob.dpc with
        | .dialing n =>
          match out with
          | .ok => some { c with objs := c.objs.set o { ob with conn := some n, dpc := .closing } }
          | .fail => some { c with objs := c.objs.set o { ob with dpc := .failing .dial } }
          | .cancelled =>
            match c.reqs[ob.creator]? with
            | some q =>
              if q.cancelled then some { c with objs := c.objs.set o { ob with dpc := .failing .ctx } }
              else none
            | none => none
        | _ => none
      | none => none
  | .d2 o =>
      match c.objs[o]? with
      | some ob =>
        match ob.dpc with
        | .failing e => some (doD2 c o ob e)
        | _ => none
      | none => none
  | .d3 o =>
      match c.objs[o]? with
      | some ob =>
        match ob.dpc with
        | .closing => some { c with objs := c.objs.set o { ob with ready := true, dpc := .fin } }
        | _ => none
      | none => none

/-- one transition; a process that panicked is gone -/
def step (c : Cfg) (l : Label) : Option Cfg :=
  if c.panicked then none else stepL c l

/-- run a schedule (a list of labels); `none` = some label was not enabled -/
def run (c : Cfg) : List Label → Option Cfg
  | [] => some c
  | l :: ls => match step c l with
    | some c' => run c' ls
    | none => none

def init : Cfg := {}

/-- the transition relation -/
inductive Step (c c' : Cfg) : Prop
  | mk (l : Label) (h : step c l = some c')

/-- configurations reachable from the empty manager under any schedule, any number of
requesters and addresses, any dial outcomes -/
inductive Reach : Cfg → Prop
  | init : Reach init
  | step {c c' : Cfg} (l : Label) : Reach c → step c l = some c' → Reach c'

theorem reach_run {c c' : Cfg} (ls : List Label) (h : Reach c) (hr : run c ls = some c') : Reach c' := by
  induction ls generalizing c with
  | nil => simp [run] at hr; exact hr ▸ h
  | cons l ls ih =>
    simp only [run] at hr
    cases hs : step c l with
    | none => simp [hs] at hr
    | some c1 => simp [hs] at hr; exact ih (Reach.step l h hs) hr

/-! ## observers used by the theorems and the driver -/

/-- requester pc `p` counts as a reference to object `o` (joined, `done` not yet run) -/
def RPc.holds (o : Nat) : RPc → Bool
  | .wait o' => o' == o
  | .woken o' => o' == o
  | .held o' false => o' == o
  | _ => false

/-- number of requesters that joined `o` and have not run their release -/
def cnt (o : Nat) (reqs : List Req) : Nat := reqs.countP (fun q => q.pc.holds o)

/-- object `o` is the one registered in `m.conns` under its address -/
def live (c : Cfg) (o : Nat) (ob : Obj) : Prop := find c.conns ob.addr = some o

instance (c : Cfg) (o : Nat) (ob : Obj) : Decidable (live c o ob) := by unfold live; infer_instance

/-- the dial goroutine of this object has not yet returned from the Dial function -/
def DPc.inFlight : DPc → Bool
  | .start => true
  | .dialing _ => true
  | _ => false

end Conn
end Gnmi
