import Gnmi.Basic
/-!
# Model of `path/path.go` (property C19)

`ToStrings`, `sortedVals`, `CompletePath`, arm for arm.  A `*gnmi.Path` is `Option GPath`
(`none` = nil pointer; every getter the code uses is nil-safe, so no operation here can panic).
`PathElem.Key` is a Go `map[string]string`: an association list whose *order is the map's
iteration order* — an arbitrary permutation chosen by the runtime on every `range`.  Theorems
about `toStrings` are therefore stated for every permutation of every key list
(`Props/C19.lean: toStrings_perm_invariant`); key names of a Go map are distinct, which is the
`Nodup` hypothesis there.

Core Lean only (compiled into the driver).
-/
namespace Gnmi.PV

/-- `gnmi.PathElem` -/
structure PathElem where
  name : String := ""
  /-- `map[string]string`; list order = iteration order -/
  key : List (String × String) := []
deriving DecidableEq, Repr, Inhabited

/-- `gnmi.Path` (the fields the code reads) -/
structure GPath where
  origin : String := ""
  target : String := ""
  elem : List PathElem := []
  /-- deprecated `element` field -/
  element : List String := []
deriving DecidableEq, Repr, Inhabited

/-- `sort.Strings`: ascending byte-wise order (= code-point order on valid UTF-8 = Lean's
`String` order) -/
def sortStrings (l : List String) : List String := l.mergeSort (fun a b => decide (a ≤ b))

/-- `m[k]` read of a Go map: the zero value when absent (never panics) -/
def mapGet (m : List (String × String)) (k : String) : String :=
  match m.find? (fun kv => kv.1 == k) with
  | some kv => kv.2
  | none => ""

/-- `sortedVals` (path.go:81): collect keys (iteration order), `sort.Strings`, map to values -/
def sortedVals (m : List (String × String)) : List String :=
  let ks := m.map (·.1)
  (sortStrings ks).map (mapGet m)

/-- body of the `for _, e := range p.GetElem()` loop (path.go:61–76): name, then the
`switch len(keys)`: 0 → nothing, 1 → the only value, default → `sortedVals` -/
def elemStrings (e : PathElem) : List String :=
  e.name ::
    (match e.key with
     | [] => []
     | [kv] => [kv.2]
     | _ => sortedVals e.key)

/-- `if prefix { target?; origin? }` (path.go:47–56) -/
def header (p : GPath) (pfx : Bool) : List String :=
  if pfx then
    (if p.target ≠ "" then [p.target] else []) ++ (if p.origin ≠ "" then [p.origin] else [])
  else []

/-- `path.ToStrings` -/
def toStrings (p : Option GPath) (pfx : Bool) : List String :=
  match p with
  | none => []
  | some p =>
    let is := header p pfx
    if p.elem.length == 0 then
      -- deprecated `element` fallback
      is ++ p.element
    else
      is ++ p.elem.flatMap elemStrings

/-- `(*Path).GetOrigin()` (nil-safe) -/
def getOrigin : Option GPath → String
  | none => ""
  | some p => p.origin

inductive PathErr
  | originBoth     -- "origin is set both in prefix and path"
  | prefixElems    -- "path elements in prefix are set even though origin is set in path"
deriving DecidableEq, Repr

/-- `path.CompletePath` (path.go:100–122), the four arms of the `switch` in order -/
def completePath (pfx path : Option GPath) : Except PathErr (List String) :=
  let oPre := getOrigin pfx
  let oPath := getOrigin path
  let indexedPrefix := toStrings pfx false
  if oPre ≠ "" ∧ oPath ≠ "" then
    .error .originBoth
  else if oPre ≠ "" then
    .ok ((oPre :: indexedPrefix) ++ toStrings path false)
  else if oPath ≠ "" then
    if indexedPrefix.length > 0 then .error .prefixElems
    else .ok ([oPath] ++ toStrings path false)
  else
    .ok (indexedPrefix ++ toStrings path false)

end Gnmi.PV
