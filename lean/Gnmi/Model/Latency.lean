import Gnmi.Basic
/-!
# Model of `latency/latency.go` (C15, latency clause)

All durations and times are `Int` nanoseconds; every clock reading (`latency.Now()`) is an
explicit argument.  Go's integer `/` is `Int.tdiv` (truncation towards zero).  The definitions
follow the Go source arm by arm:

| Go (`latency/latency.go`)                | here                              |
|------------------------------------------|-----------------------------------|
| `type slot`, `type window`, `type Latency` | `Slot`, `Window`, `L`           |
| `New` (precision → scale factor)         | `sfOf`, `L.new`                   |
| `(*Latency).Compute`                     | `L.computeLat`, `L.compute`       |
| `(*Latency).update` / `UpdateReset` / `UpdateLast` | `L.update` (flag `ign`) |
| `(*window).add`                          | `Window.add`                      |
| `(*window).slide`                        | `slideLoop`, `Window.slide`       |
| `(*window).isCovered`                    | `Window.isCovered`                |
| `(*window).updateMeta`                   | `Window.updateMeta`               |
| `setAvg` / `setMax` / `setMin`           | `Window.setAvg/.setMax/.setMin`   |
| `ParseWindows` (multiple-of-period test) | `parseWindow`                     |

A metadata write `m.SetInt(name, v)` is a `Write`; the metadata *name* is a function of
`(window size, stat type)` only (`stat.metaName`), so a write is identified by that pair (the
harness maps names back through `latency.MetadataName`).  The `stats` map of a window is iterated
in Go's random order: the model emits `avg, max, min`; every statement about writes is by
membership, and the harness sorts.

The "`0` means unset" convention of the code is modelled as it is: the running `max`/`min` start
at `0`, `min` is overwritten whenever it *is* `0`, and a statistic whose value is `0` is not
written at all.

The only partial operation on the path is the integer division by the scale factor in `Compute`
(Go panics on a zero divisor): it is a checked operation (`panicked`); `New` never produces a zero
scale factor (`sfOf_ne_zero`).  `w.total / w.count`, `w.slots[0]` and `w.slots[start:]` are guarded
by the code itself (`count == 0`, `len == 0` tests; `start ≤ len`, lemma `slideLoop_le`).
-/
namespace Gnmi.Latency

/-- `latency.StatType` -/
inductive Stat | avg | max | min
deriving DecidableEq, Repr

/-- `type slot` (`start : none` = the zero `time.Time`) -/
structure Slot where
  total : Int
  max : Int
  min : Int
  count : Int
  start : Option Int
  stop : Int          -- field `end`
deriving DecidableEq, Repr

/-- `type window` (the `stats` map is the constant `{avg,max,min}` table, see `updateMeta`) -/
structure Window where
  size : Int
  sf : Int
  total : Int := 0
  count : Int := 0
  slots : List Slot := []
  covered : Bool := false
deriving DecidableEq, Repr

/-- one `m.SetInt(stat{window: size, typ: stat}.metaName(), val)` -/
structure Write where
  size : Int
  stat : Stat
  val : Int
deriving DecidableEq, Repr

/-- `type Latency` -/
structure L where
  start : Option Int := none
  sf : Int
  totalDiff : Int := 0
  count : Int := 0
  min : Int := 0
  max : Int := 0
  windows : List Window := []
  panicked : Bool := false
deriving DecidableEq, Repr

/-- `New`: `precision := Nanosecond; if opts != nil && opts.AvgPrecision.Nanoseconds() != 0
{precision = opts.AvgPrecision}; sf := precision / Nanosecond`.  `none` = `opts == nil`. -/
def sfOf (prec : Option Int) : Int :=
  match prec with
  | some p => if p ≠ 0 then p else 1
  | none => 1

theorem sfOf_ne_zero (prec : Option Int) : sfOf prec ≠ 0 := by
  unfold sfOf; split
  · split <;> simp_all
  · simp

/-- `newWindow(size, sf)` -/
def Window.new (size sf : Int) : Window := { size := size, sf := sf }

/-- `New(windowSizes, opts)` -/
def L.new (sizes : List Int) (prec : Option Int) : L :=
  { sf := sfOf prec, windows := sizes.map (fun z => Window.new z (sfOf prec)) }

/-- `Compute` after `lat := l.compute(ts, nowTime)`:
```
l.totalDiff += lat / l.scaleFactor ; l.count++
if lat > l.max { l.max = lat }
if lat < l.min || l.min == 0 { l.min = lat }
if l.start.IsZero() { l.start = nowTime }
``` -/
def L.computeLat (l : L) (now lat : Int) : L :=
  if l.sf = 0 then { l with panicked := true } else
  { l with
    totalDiff := l.totalDiff + Int.tdiv lat l.sf
    count := l.count + 1
    max := if lat > l.max then lat else l.max
    min := if lat < l.min ∨ l.min = 0 then lat else l.min
    start := match l.start with
      | none => some now
      | some s => some s }

/-- `Compute(ts)` with the default `ComputeFunc` (`now.Sub(ts)`) -/
def L.compute (l : L) (now ts : Int) : L := l.computeLat now (now - ts)

/-- `(*window).add` -/
def Window.add (w : Window) (ls : Slot) : Window :=
  if ls.count = 0 then w else
  { w with total := w.total + ls.total, count := w.count + ls.count, slots := w.slots ++ [ls] }

/-- `setAvg`: nothing when the window has no update or the (truncated) average is `0` -/
def Window.setAvg (w : Window) : List Write :=
  if w.count = 0 then [] else
  let n := Int.tdiv w.total w.count
  if n ≠ 0 then [⟨w.size, .avg, n * w.sf⟩] else []

/-- the loop of `setMax` (`var max time.Duration` starts at `0`) -/
def maxOver (slots : List Slot) : Int :=
  slots.foldl (fun m s => if s.max > m then s.max else m) 0

def Window.setMax (w : Window) : List Write :=
  let n := maxOver w.slots
  if n ≠ 0 then [⟨w.size, .max, n⟩] else []

/-- the loop of `setMin` over `w.slots[1:]`, started at `w.slots[0].min` -/
def minOver (m0 : Int) (slots : List Slot) : Int :=
  slots.foldl (fun m s => if s.min < m then s.min else m) m0

def Window.setMin (w : Window) : List Write :=
  match w.slots with
  | [] => []
  | s0 :: r =>
    let n := minOver s0.min r
    if n ≠ 0 then [⟨w.size, .min, n⟩] else []

/-- the loop of `slide`: `(count, total, start)` after visiting the slots; a slot is expired
when `!s.end.After(cutoff)`, i.e. `end ≤ cutoff` -/
def slideLoop (cutoff : Int) : List Slot → Int → Int → Nat → Int × Int × Nat
  | [], c, t, k => (c, t, k)
  | s :: r, c, t, k =>
    if s.stop ≤ cutoff then slideLoop cutoff r (c - s.count) (t - s.total) (k + 1)
    else slideLoop cutoff r c t k

/-- `(*window).slide`: note that the code drops *the first `start` slots*, where `start` is the
*number* of expired slots, wherever they are in the list. -/
def Window.slide (w : Window) (ts : Int) : Window :=
  let r := slideLoop (ts - w.size) w.slots w.count w.total 0
  { w with count := r.1, total := r.2.1, slots := w.slots.drop r.2.2 }

/-- `ts.Sub(start) >= size`; the zero `time.Time` is more than 292 years before any scripted
clock reading, `Sub` saturates at `maxDuration`, which is `≥` every `size`. -/
def subGe (ts : Int) (start : Option Int) (size : Int) : Bool :=
  match start with
  | none => true
  | some st => decide (ts - st ≥ size)

/-- `(*window).isCovered` (sets the sticky `covered` flag) -/
def Window.isCovered (w : Window) (ts : Int) : Window × Bool :=
  if w.covered then (w, true) else
  match w.slots with
  | [] => (w, false)
  | s0 :: _ => if subGe ts s0.start w.size then ({ w with covered := true }, true) else (w, false)

/-- `(*window).updateMeta(m, ts, ignoreInitialWindowCoverage)`; `!ign && !w.isCovered(ts)` does
not evaluate `isCovered` when `ign` is set. -/
def Window.updateMeta (w : Window) (ts : Int) (ign : Bool) : Window × List Write :=
  let r := if ign then (w, true) else w.isCovered ts
  if r.2 then
    let w2 := r.1.slide ts
    (w2, w2.setAvg ++ w2.setMax ++ w2.setMin)
  else (r.1, [])

/-- the slot built by `update` from the running statistics -/
def L.curSlot (l : L) (ts : Int) : Slot :=
  { total := l.totalDiff, count := l.count, max := l.max, min := l.min, start := l.start, stop := ts }

/-- first half of `update`: `if l.count == 0 {return}`; build the slot, `add` it to every
window, reset the running statistics -/
def L.closeSlot (l : L) (ts : Int) : L :=
  if l.count = 0 then l else
  { l with windows := l.windows.map (fun w => w.add (l.curSlot ts)),
           totalDiff := 0, count := 0, min := 0, max := 0 }

/-- the deferred half of `update`: every window's `updateMeta`, then `l.start = ts` -/
def L.flush (l : L) (ts : Int) (ign : Bool) : L × List Write :=
  let rs := l.windows.map (fun w => w.updateMeta ts ign)
  ({ l with windows := rs.map (·.1), start := some ts }, rs.flatMap (·.2))

/-- `update(m, ignoreInitialWindowCoverage)` with `ts := Now()`.
`UpdateReset = update · false`, `UpdateLast = update · true`. -/
def L.update (l : L) (ts : Int) (ign : Bool) : L × List Write :=
  (l.closeSlot ts).flush ts ign

/-- `ParseWindows`, the arithmetic part: a window is accepted iff it is a multiple of the
metadata update period (`dur.Nanoseconds() % metaUpdatePeriod.Nanoseconds() != 0` → error;
Go panics on `% 0`). -/
inductive ParseRes | ok | notMultiple | panic
deriving DecidableEq, Repr

def parseWindow (dur period : Int) : ParseRes :=
  if period = 0 then .panic
  else if Int.tmod dur period ≠ 0 then .notMultiple else .ok

/-! ## Operation sequences -/

/-- one call on a `Latency`: `compute now lat` is `Compute(ts)` with clock reading `now` and
`lat` = the value of the compute function (`now - ts` by default); `update now ign` is
`UpdateReset` (`ign = false`) / `UpdateLast` (`ign = true`) with clock reading `now`. -/
inductive Op
  | compute (now lat : Int)
  | update (now : Int) (ign : Bool)
deriving DecidableEq, Repr

def L.step (l : L) : Op → L × List Write
  | .compute now lat => (l.computeLat now lat, [])
  | .update now ign => l.update now ign

/-- state after a sequence of calls -/
def L.run (l : L) (ops : List Op) : L := ops.foldl (fun l op => (l.step op).1) l

/-- all metadata writes of a sequence of calls, in order -/
def L.writes (l : L) : List Op → List Write
  | [] => []
  | op :: r => (l.step op).2 ++ (l.step op).1.writes r

/-- the metadata as a reader sees it after a list of writes: the last value written under the
name of `(size, stat)`, if any (`Metadata.SetInt` overwrites; nothing ever removes an entry) -/
def exported (ws : List Write) (size : Int) (st : Stat) : Option Int :=
  (ws.reverse.find? (fun wr => decide (wr.size = size ∧ wr.stat = st))).map (·.val)

/-- the clock reading of a call -/
def Op.now : Op → Int
  | .compute now _ => now
  | .update now _ => now

end Gnmi.Latency
