import Gnmi.Model.ClientRun
/-!
# Poll callers on top of the client LTS (`ReconnectClient.Poll` → `BaseClient.Poll` → transport)

Go code modelled (put the files next to this one):

* `client/reconnect.go` — `ReconnectClient.Poll`: `return p.Client.Poll()`; it takes **no** lock.
* `client/cache.go`     — `CacheClient.Poll`: closes `c.synced` if still open (`Model/ClientCache.lean`),
  then `BaseClient.Poll`.
* `client/client.go`    — `BaseClient.Poll`: `c.Impl()` (under `c.mu`: `ErrClientInit` without an
  installed Impl), the query-type check, `impl.Poll()`, then `c.run(impl)` **on the caller's
  goroutine** — the same Recv loop as `Subscribe`'s (`Recv`; error: `impl.Close()`, return it;
  `io.EOF`/`ErrStopReading`: nil; nil: the `closed` check under `c.mu.RLock`).  Nothing is locked
  while it blocks in `Recv`.
* `client/gnmi/client.go` — `Poll`: one `Send` of a poll request on the stream; `Recv` as for S.
  The stream's context is the context of the `Subscribe` that made the Impl, i.e. the one
  `ReconnectClient.Close` cancels.

This file wraps `Model/ClientLTS.lean` **additively**: a configuration is the client LTS's
configuration (`base`, moved only by the client LTS's own transitions, so every theorem of
`Props/C18.lean` applies to the projection: `Lemmas/ClientPoll.lean: preach_base`) plus one
program counter per Poll caller, the set of Impl instances on which `Close()` was called, and a
log (all callback/handler events in order, with the Poll callers' own).

Hypothesis on the `Impl` (as in `ClientLTS`): `impl.Poll()`/`Recv` return once the context is
cancelled or `Close` was called on the instance (`dead`); a blocked `Recv` (`Item.wait`) becomes
enabled exactly then; buffered messages may still be handed out.

Scope: Poll callers receive on a stream on which `Connected` was already delivered (Poll is
called after a sync); what a Poll caller's `impl.Close()` (after a failed `Recv`) does to a
*concurrent* `Recv` of goroutine S on the same instance — two goroutines receiving on one gRPC
stream, outside the gRPC contract — is recorded (`closedInst`) but does not feed back into `base`.

`mu : Bool` selects the **mutant** of seeded change `c18_seed8` (`mu = true`; NOT the repository's
code): `ReconnectClient.Poll` takes `p.mu` for the whole call (returning an error at once if
`p.closed`), so `Close`'s and `initDone`'s critical sections wait for it.
-/
namespace Gnmi
namespace ClientPoll
open ClientLTS

/-- return class of `Poll` -/
inductive PollRet where
  | nil | err | init
deriving DecidableEq, Repr

/-- what the transport does for one Poll call: the `Send` of the poll request, and what `Recv`
hands to this caller's loop afterwards (`Item.wait`: blocks until the instance is dead) -/
structure PollSpec (N : Type) where
  sendFails : Bool := false
  items : List (Item N) := []
  term : Term := .err

/-- program counter of one Poll caller; `a` = the Impl instance it got, `mi` = messages it received -/
inductive PPc (N : Type) where
  | idle                         -- Poll not called yet
  | lockWait                     -- MUTANT ONLY: at `p.mu.Lock()`
  | getImpl                      -- BaseClient.Poll: c.Impl()
  | send (a : Nat)               -- impl.Poll()
  | recv (a mi : Nat) (items : List (Item N))   -- run: impl.Recv() called
  | handling (a mi : Nat) (evs : List (Ev N)) (r : Ret) (items : List (Item N))
  | check (a mi : Nat) (items : List (Item N))  -- run: the closed check
  | runErr (a : Nat)             -- run: Recv failed: impl.Close(); return err
  | returned (r : PollRet)

inductive LogEv (N : Type) where
  | s (e : Ev N)            -- appended to the trace by goroutine S
  | p (j : Nat) (e : Ev N)  -- a handler call made on Poll caller j's goroutine
  | call (j : Nat)          -- Poll caller j calls Poll (ghost)

structure PCfg (N : Type) where
  base : Cfg N := {}
  polls : List (PPc N)
  muHeld : Option Nat := none       -- MUTANT ONLY: the Poll caller holding p.mu
  closedInst : List Nat := []       -- instances on which Close() was called (by anyone)
  log : List (LogEv N) := []

variable {N : Type}

inductive PLabel where
  | base (l : Label)
  | call (j : Nat) | lock (j : Nat) | getImpl (j : Nat) | sendFail (j : Nat) | sendOk (j : Nat)
  | recvMsg (j : Nat) | recvWait (j : Nat) | recvAbort (j : Nat) | recvTermErr (j : Nat) | recvEof (j : Nat)
  | handle (j : Nat) | handled (j : Nat) | check (j : Nat) | runErr (j : Nat)
deriving DecidableEq, Repr

/-- the Poll caller a transition belongs to -/
def PLabel.poller : PLabel → Option Nat
  | .base _ => none
  | .call j | .lock j | .getImpl j | .sendFail j | .sendOk j | .recvMsg j | .recvWait j | .recvAbort j
  | .recvTermErr j | .recvEof j | .handle j | .handled j | .check j | .runErr j => some j

/-- the instance may stop blocking / may fail (hypothesis on the Impl) -/
def PCfg.dead (c : PCfg N) (a : Nat) : Bool := c.base.ctxDone || c.closedInst.contains a

/-- the instances a transition of the client LTS calls `Close()` on -/
def closesOf (b : Cfg N) : Label → List Nat
  | .install => b.bcImpl.toList      -- `if c.clientImpl != nil { c.clientImpl.Close() }`
  | .runErr => [b.att]
  | .closeInner => b.bcImpl.toList
  | .plainClose => b.bcImpl.toList
  | _ => []

def PCfg.doBase (c : PCfg N) (l : Label) (b' : Cfg N) : PCfg N :=
  { c with base := b', closedInst := c.closedInst ++ closesOf c.base l,
           log := c.log ++ (b'.trace.drop c.base.trace.length).map LogEv.s }

def PCfg.setP (c : PCfg N) (j : Nat) (pc : PPc N) : PCfg N := { c with polls := c.polls.set j pc }

/-- Poll returns `r` (the mutant's deferred `p.mu.Unlock()` included) -/
def PCfg.ret (c : PCfg N) (j : Nat) (r : PollRet) : PCfg N :=
  { c with polls := c.polls.set j (.returned r),
           muHeld := if c.muHeld = some j then none else c.muHeld }

def PCfg.doCall (mu : Bool) (c : PCfg N) (j : Nat) : PCfg N :=
  { c with polls := c.polls.set j (if mu then .lockWait else .getImpl), log := c.log ++ [.call j] }

/-- MUTANT ONLY: `p.mu.Lock(); defer p.mu.Unlock(); if p.closed { return error }` -/
def PCfg.doLock (c : PCfg N) (j : Nat) : PCfg N :=
  if c.base.rcClosed then c.setP j (.returned .err)
  else { c with polls := c.polls.set j .getImpl, muHeld := some j }

/-- `impl, err := c.Impl(); if err != nil { return ErrClientInit }` -/
def PCfg.doGetImpl (c : PCfg N) (j : Nat) : PCfg N :=
  match c.base.bcImpl with
  | none => c.ret j .init
  | some a => c.setP j (.send a)

def PCfg.doRecvMsg (c : PCfg N) (j a mi : Nat) (m : Msg N) (rest : List (Item N)) : PCfg N :=
  c.setP j (.handling a (mi + 1) (msgEvents a mi true m) m.ret rest)

def PCfg.doHandle (c : PCfg N) (j a mi : Nat) (e : Ev N) (evs : List (Ev N)) (r : Ret)
    (items : List (Item N)) : PCfg N :=
  { c with polls := c.polls.set j (.handling a mi evs r items), log := c.log ++ [.p j e] }

def PCfg.doHandled (c : PCfg N) (j a mi : Nat) (r : Ret) (items : List (Item N)) : PCfg N :=
  match r with
  | .ok => c.setP j (.check a mi items)
  | .stop => c.ret j .nil
  | .err => c.setP j (.runErr a)

/-- `c.mu.RLock(); closed := c.closed` -/
def PCfg.doCheck (c : PCfg N) (j a mi : Nat) (items : List (Item N)) : PCfg N :=
  if c.base.bcClosed then c.ret j .nil else c.setP j (.recv a mi items)

/-- `impl.Close(); return err` -/
def PCfg.doRunErr (c : PCfg N) (j a : Nat) : PCfg N :=
  { c.ret j .err with closedInst := c.closedInst ++ [a] }

/-- `PStep mu s ps`: `s` = the transport script of goroutine S, `ps j` = what the transport does for
Poll caller `j`; the client is a `ReconnectClient` (`wrap = true`). -/
inductive PStep (mu : Bool) (s : Script N) (ps : Nat → PollSpec N) : PCfg N → PLabel → PCfg N → Prop where
  /-- a transition of the client LTS.  MUTANT ONLY: the critical sections under `p.mu`
  (`Close`'s and `initDone`'s) wait while a Poll caller holds `p.mu`. -/
  | base {c l b'} : Step true s c.base l b' →
      (mu = true → (l = .closeCs ∨ l = .subInit) → c.muHeld = none) →
      PStep mu s ps c (.base l) (c.doBase l b')
  | call {c j} : c.polls[j]? = some .idle → PStep mu s ps c (.call j) (c.doCall mu j)
  | lock {c j} : c.polls[j]? = some .lockWait → c.muHeld = none → PStep mu s ps c (.lock j) (c.doLock j)
  | getImpl {c j} : c.polls[j]? = some .getImpl → PStep mu s ps c (.getImpl j) (c.doGetImpl j)
  /-- the Send of the poll request fails: scripted, or (may) on a dead instance -/
  | sendFail {c j a} : c.polls[j]? = some (.send a) → ((ps j).sendFails = true ∨ c.dead a = true) →
      PStep mu s ps c (.sendFail j) (c.ret j .err)
  | sendOk {c j a} : c.polls[j]? = some (.send a) → (ps j).sendFails = false →
      PStep mu s ps c (.sendOk j) (c.setP j (.recv a 0 (ps j).items))
  | recvMsg {c j a mi m rest} : c.polls[j]? = some (.recv a mi (.msg m :: rest)) →
      PStep mu s ps c (.recvMsg j) (c.doRecvMsg j a mi m rest)
  | recvWait {c j a mi rest} : c.polls[j]? = some (.recv a mi (.wait :: rest)) → c.dead a = true →
      PStep mu s ps c (.recvWait j) (c.setP j (.recv a mi rest))
  | recvAbort {c j a mi items} : c.polls[j]? = some (.recv a mi items) → c.dead a = true →
      PStep mu s ps c (.recvAbort j) (c.setP j (.runErr a))
  | recvTermErr {c j a mi} : c.polls[j]? = some (.recv a mi []) → (ps j).term = .err →
      PStep mu s ps c (.recvTermErr j) (c.setP j (.runErr a))
  | recvEof {c j a mi} : c.polls[j]? = some (.recv a mi []) → (ps j).term = .eof →
      PStep mu s ps c (.recvEof j) (c.ret j .nil)
  | handle {c j a mi e evs r items} : c.polls[j]? = some (.handling a mi (e :: evs) r items) →
      PStep mu s ps c (.handle j) (c.doHandle j a mi e evs r items)
  | handled {c j a mi r items} : c.polls[j]? = some (.handling a mi [] r items) →
      PStep mu s ps c (.handled j) (c.doHandled j a mi r items)
  | check {c j a mi items} : c.polls[j]? = some (.check a mi items) →
      PStep mu s ps c (.check j) (c.doCheck j a mi items)
  | runErr {c j a} : c.polls[j]? = some (.runErr a) → PStep mu s ps c (.runErr j) (c.doRunErr j a)

/-- initial configuration with `np` Poll callers -/
def pinit (np : Nat) : PCfg N := { polls := List.replicate np .idle }

inductive PReach (mu : Bool) (s : Script N) (ps : Nat → PollSpec N) (np : Nat) : PCfg N → Prop where
  | init : PReach mu s ps np (pinit np)
  | step {c l c'} : PReach mu s ps np c → PStep mu s ps c l c' → PReach mu s ps np c'

inductive PRun (mu : Bool) (s : Script N) (ps : Nat → PollSpec N) : PCfg N → List PLabel → PCfg N → Prop where
  | nil {c} : PRun mu s ps c [] c
  | cons {c l c' ls c''} : PStep mu s ps c l c' → PRun mu s ps c' ls c'' → PRun mu s ps c (l :: ls) c''

/-! ## Executable deterministic semantics (what the `rc new poll` driver arm runs) -/

/-- lift a move of the client LTS's executable schedule (`sNext`, `kNext`, `envCancel`) -/
def liftBase (mu : Bool) (c : PCfg N) : Option (Label × Cfg N) → Option (PLabel × PCfg N)
  | none => none
  | some (l, b') =>
      if mu && (l == .closeCs || l == .subInit) && c.muHeld.isSome then none
      else some (.base l, c.doBase l b')

/-- Poll caller `j` under the policy of the scripted harness transport: a dead instance fails at
once (`Send`, `Recv`), except that what the script holds *behind a gate* (`Item.wait`) is handed
out once the gate opens (`gated`) -/
def pNext (mu : Bool) (ps : Nat → PollSpec N) (c : PCfg N) (j : Nat) : Option (PLabel × PCfg N) :=
  let gated : Bool := (ps j).items.any (fun i => match i with | .wait => true | _ => false)
  match c.polls[j]? with
  | some .idle => some (.call j, c.doCall mu j)
  | some .lockWait => if c.muHeld.isNone then some (.lock j, c.doLock j) else none
  | some .getImpl => some (.getImpl j, c.doGetImpl j)
  | some (.send a) =>
      if (ps j).sendFails || c.dead a then some (.sendFail j, c.ret j .err)
      else some (.sendOk j, c.setP j (.recv a 0 (ps j).items))
  | some (.recv a mi (.wait :: rest)) =>
      if c.dead a then some (.recvWait j, c.setP j (.recv a mi rest)) else none
  | some (.recv a mi (.msg m :: rest)) =>
      if c.dead a && !gated then some (.recvAbort j, c.setP j (.runErr a))
      else some (.recvMsg j, c.doRecvMsg j a mi m rest)
  | some (.recv a mi []) =>
      if c.dead a && !gated then some (.recvAbort j, c.setP j (.runErr a)) else
      match (ps j).term with
      | .err => some (.recvTermErr j, c.setP j (.runErr a))
      | .eof => some (.recvEof j, c.ret j .nil)
  | some (.handling a mi (e :: evs) r items) => some (.handle j, c.doHandle j a mi e evs r items)
  | some (.handling a mi [] r items) => some (.handled j, c.doHandled j a mi r items)
  | some (.check a mi items) => some (.check j, c.doCheck j a mi items)
  | some (.runErr a) => some (.runErr j, c.doRunErr j a)
  | some (.returned _) => none
  | none => none

end ClientPoll
end Gnmi
